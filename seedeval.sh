#!/bin/bash
# seedeval.sh <seed-dir> <name> <tier> <check id>...
# 1. verifies a seeded change in a fresh scratch worktree: patch applies, builds, the demo fails with it and passes without it
# 2. runs the given registered checks against the changed tree (seedrun.sh)
# 3. stores patch + demo + meta under /verif/seeded/<name>/
set -u
SRC=$1; NAME=$2; TIER=$3; shift 3
export GOFLAGS=-mod=mod GOPROXY=off GOSUMDB=off GOTOOLCHAIN=local
WT=/tmp/chk-$NAME
git -C /repo worktree remove --force "$WT" >/dev/null 2>&1
git -C /repo worktree add -q --detach "$WT" HEAD || exit 2
DEMO=$(cd "$SRC" && git status --short | grep "zz_seed_demo" | awk '{print $2}' | head -1)
if [ -z "$DEMO" ]; then DEMO=$(cd "$SRC" && find . -name 'zz_seed_demo*_test.go' | head -1 | sed 's#^\./##'); fi
PKG=./$(dirname "$DEMO")
echo "demo: $DEMO pkg: $PKG"
cp "$SRC/$DEMO" "$WT/$DEMO"
( cd "$WT" && go test "$PKG" -run 'SeedDemo|Seed' -count=1 > /tmp/chk-$NAME.clean.log 2>&1 ); rc_clean=$?
( cd "$WT" && git apply "$SRC/SEED_patch.diff" ) || { echo "PATCH DOES NOT APPLY"; exit 2; }
( cd "$WT" && go build ./... > /tmp/chk-$NAME.build.log 2>&1 )
( cd "$WT" && go vet "$PKG" > /dev/null 2>&1 )
( cd "$WT" && go test "$PKG" -run 'SeedDemo|Seed' -count=1 > /tmp/chk-$NAME.seeded.log 2>&1 ); rc_seed=$?
# existing tests of the touched packages (without the demo)
TOUCHED=$(grep '^+++ b/' "$SRC/SEED_patch.diff" | sed 's#^+++ b/##' | xargs -n1 dirname | sort -u | sed 's#^#./#')
mv "$WT/$DEMO" /tmp/chk-$NAME.demo.go
( cd "$WT" && go test $TOUCHED -count=1 > /tmp/chk-$NAME.existing.log 2>&1 ); rc_exist=$?
mv /tmp/chk-$NAME.demo.go "$WT/$DEMO"
echo "demo on clean tree rc=$rc_clean (want 0); demo on seeded tree rc=$rc_seed (want != 0); existing tests of $TOUCHED rc=$rc_exist"
if [ $rc_exist -ne 0 ]; then grep -E "^(--- FAIL|FAIL|ok)" /tmp/chk-$NAME.existing.log | head; fi
rm "$WT/$DEMO"
/verif/seedrun.sh "$WT" "$TIER" "$@"
mkdir -p /verif/seeded/$NAME
cp "$SRC/SEED_patch.diff" /verif/seeded/$NAME/patch.diff
cp "$SRC/$DEMO" /verif/seeded/$NAME/$(basename "$DEMO")
cp "$SRC/SEED_meta.json" /verif/seeded/$NAME/agent_meta.json 2>/dev/null
cp "$SRC/SEED_demo.txt" /verif/seeded/$NAME/demo.txt 2>/dev/null
echo "$DEMO" > /verif/seeded/$NAME/demo_path.txt
git -C /repo worktree remove --force "$WT"
