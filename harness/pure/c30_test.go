package pure

import (
	"crypto/sha256"
	"encoding/binary"
	"fmt"
	"testing"

	"github.com/bytom/bytom/protocol/bc"
	"github.com/bytom/bytom/protocol/bc/types"
	"pgregory.net/rapid"

	"verifharness/pbt"
)

// C30: Merkle inclusion proofs are sound and complete.
//
// Contract taken from the callers (netsync/peers.SendMerkleBlock, api.getMerkleProof and the
// validating side in netsync/chainmgr): the proof is generated from the block's transaction list
// and the related transactions (a set; the generator only looks at membership), and validated
// against the ids of the related transactions IN BLOCK ORDER and the header's
// TransactionsMerkleRoot (= types.TxMerkleRoot of the list).
//
// A case is one list, one subset and one tampering site; at that site every replacement value
// of the tampering kind is tried.  A tampering is always a real change (never the same value).

type c30Case struct {
	N      int    `json:"n"`       // number of transaction ids, 0..64
	IDMode int    `json:"id_mode"` // 0: ids = sha256(seed,i); 1: ids = small consecutive integers (near-identical ids)
	Seed   uint64 `json:"seed"`
	Mask   uint64 `json:"mask"`    // bit i set: transaction i belongs to the subset (bits >= N ignored)
	Shuf   uint64 `json:"shuffle"` // != 0: the related list is handed to the generator in a rotated order
	Kind   string `json:"kind"`    // none | root | foreign-replace | foreign-add | hash | flag
	Pos    int    `json:"pos"`     // tampering site (taken modulo the number of sites)
	Extra  uint8  `json:"extra"`   // an additional flag value to try / bit to flip
}

// weights: the tamperings of proof elements are the large spaces
var c30Kinds = []string{"flag", "flag", "flag", "flag", "hash", "hash", "hash", "hash", "foreign-replace", "foreign-replace", "foreign-add", "foreign-add", "root", "root", "none"}

func c30Gen(t *rapid.T) c30Case {
	var c c30Case
	switch rapid.IntRange(0, 9).Draw(t, "nkind") {
	case 0:
		c.N = rapid.IntRange(0, 3).Draw(t, "n")
	case 1, 2: // around powers of two: the tree shape changes there
		e := rapid.IntRange(1, 6).Draw(t, "e")
		c.N = (1 << uint(e)) + rapid.IntRange(-1, 1).Draw(t, "d")
	default:
		c.N = 64 - rapid.IntRange(0, 64).Draw(t, "n") // rapid favours small draws: favour large lists
	}
	if c.N > 64 {
		c.N = 64
	}
	c.IDMode = rapid.IntRange(0, 1).Draw(t, "idmode")
	c.Seed = rapid.Uint64().Draw(t, "seed")
	switch rapid.IntRange(0, 7).Draw(t, "mkind") {
	case 0:
		c.Mask = 0
	case 1:
		c.Mask = ^uint64(0)
	case 2: // a single element
		if c.N > 0 {
			c.Mask = 1 << uint(rapid.IntRange(0, c.N-1).Draw(t, "single"))
		}
	case 3: // all but one
		if c.N > 0 {
			c.Mask = ^(uint64(1) << uint(rapid.IntRange(0, c.N-1).Draw(t, "hole")))
		}
	case 4: // sparse: two or three elements
		for j := rapid.IntRange(2, 3).Draw(t, "few"); j > 0 && c.N > 0; j-- {
			c.Mask |= 1 << uint(rapid.IntRange(0, c.N-1).Draw(t, "elem"))
		}
	default: // every element independently
		for i, b := range rapid.SliceOfN(rapid.Bool(), c.N, c.N).Draw(t, "members") {
			if b {
				c.Mask |= 1 << uint(i)
			}
		}
	}
	if c.N < 64 {
		c.Mask &= (uint64(1) << uint(c.N)) - 1
	}
	if rapid.Bool().Draw(t, "shuffle") {
		c.Shuf = rapid.Uint64Range(1, 1<<20).Draw(t, "shuf")
	}
	c.Kind = rapid.SampledFrom(c30Kinds).Draw(t, "kind")
	c.Pos = rapid.IntRange(0, 255).Draw(t, "pos")
	c.Extra = rapid.Uint8().Draw(t, "extra")
	return c
}

func c30ID(c c30Case, i int) bc.Hash {
	if c.IDMode == 1 {
		// consecutive integers in the last word: ids that differ in a few bits only
		return bc.Hash{V0: 0, V1: 0, V2: c.Seed >> 63, V3: (c.Seed & 0xffffffff) + uint64(i)}
	}
	var buf [16]byte
	binary.BigEndian.PutUint64(buf[:8], c.Seed)
	binary.BigEndian.PutUint64(buf[8:], uint64(int64(i)))
	return bc.NewHash(sha256.Sum256(buf[:]))
}

func c30FlipBit(h bc.Hash, bit uint8) bc.Hash {
	b := h.Byte32()
	b[int(bit)/8%32] ^= 1 << (bit % 8)
	return bc.NewHash(b)
}

func c30Validate(hashes []bc.Hash, flags []uint8, related []bc.Hash, root bc.Hash) bool {
	// fresh copies for every call: the validator receives pointers
	hp := make([]*bc.Hash, len(hashes))
	for i := range hashes {
		h := hashes[i]
		hp[i] = &h
	}
	rp := make([]*bc.Hash, len(related))
	for i := range related {
		h := related[i]
		rp[i] = &h
	}
	fl := append([]uint8(nil), flags...)
	return types.ValidateTxMerkleTreeProof(hp, fl, rp, root)
}

func c30Exec(c c30Case, x *pbt.Ctx) error {
	if c.N < 0 || c.N > 64 {
		return nil
	}
	mask := c.Mask
	if c.N < 64 {
		mask &= (uint64(1) << uint(c.N)) - 1
	}
	// the list
	txs := make([]*types.Tx, c.N)
	bcTxs := make([]*bc.Tx, c.N)
	seen := map[bc.Hash]bool{}
	for i := 0; i < c.N; i++ {
		id := c30ID(c, i)
		if seen[id] {
			return nil // ids must be distinct (cannot happen for the two id modes, kept as a guard)
		}
		seen[id] = true
		bcTxs[i] = &bc.Tx{ID: id}
		txs[i] = &types.Tx{Tx: bcTxs[i]}
	}
	var relatedTxs []*types.Tx
	var related []bc.Hash
	for i := 0; i < c.N; i++ {
		if mask>>uint(i)&1 == 1 {
			relatedTxs = append(relatedTxs, txs[i])
			related = append(related, txs[i].ID)
		}
	}
	k := len(related)
	// the generator only looks at membership: hand it the subset rotated when asked to
	genRelated := relatedTxs
	if c.Shuf != 0 && k > 1 {
		r := int(c.Shuf % uint64(k))
		genRelated = append(append([]*types.Tx{}, relatedTxs[r:]...), relatedTxs[:r]...)
	}

	root, err := types.TxMerkleRoot(bcTxs)
	if err != nil {
		return fmt.Errorf("TxMerkleRoot: %v", err)
	}
	hashPtrs, flags := types.GetTxMerkleTreeProof(txs, genRelated)
	hashes := make([]bc.Hash, len(hashPtrs))
	for i, h := range hashPtrs {
		if h == nil {
			return fmt.Errorf("n=%d mask=%#x: proof hash %d is nil", c.N, mask, i)
		}
		hashes[i] = *h
	}

	switch {
	case c.N == 0:
		x.Class("n=0")
	case c.N <= 2:
		x.Class("n=1-2")
	case c.N <= 8:
		x.Class("n=3-8")
	case c.N <= 32:
		x.Class("n=9-32")
	default:
		x.Class("n=33-64")
	}
	switch {
	case k == 0:
		x.Class("subset=empty")
	case k == c.N:
		x.Class("subset=full")
	case k == 1:
		x.Class("subset=single")
	default:
		x.Class("subset=proper")
	}
	x.NonTrivial = c.N >= 3 && k > 0 && k < c.N
	desc := fmt.Sprintf("n=%d idmode=%d seed=%d mask=%#x", c.N, c.IDMode, c.Seed, mask)

	// completeness
	if !c30Validate(hashes, flags, related, root) {
		return fmt.Errorf("%s: generated proof (hashes=%d flags=%v) does not validate against the transaction root", desc, len(hashes), flags)
	}

	foreign := c30ID(c30Case{IDMode: c.IDMode, Seed: c.Seed}, 1000+int(c.Extra)) // not one of ids 0..63
	if seen[foreign] {
		return nil
	}

	kind := c.Kind
	if (kind == "hash" && len(hashes) == 0) || (kind == "flag" && len(flags) == 0) || (kind == "foreign-replace" && k == 0) {
		kind = "none"
	}
	x.Class("tamper=" + kind)
	switch kind {
	case "none":
		return nil

	case "root":
		cands := map[string]bc.Hash{
			"bitflip":  c30FlipBit(root, c.Extra),
			"random":   c30ID(c30Case{Seed: c.Seed ^ 0x5555}, 2000),
			"empty":    bc.EmptyStringHash,
			"zero":     {},
			"foreign":  foreign,
			"firstid":  {},
			"proofh":   {},
			"other-tx": {},
		}
		if c.N > 0 {
			cands["firstid"] = txs[c.Pos%c.N].ID
			// the root of the list with one more transaction
			if r2, err := types.TxMerkleRoot(append(append([]*bc.Tx{}, bcTxs...), &bc.Tx{ID: foreign})); err == nil {
				cands["other-tx"] = r2
			}
		}
		if len(hashes) > 0 {
			cands["proofh"] = hashes[c.Pos%len(hashes)]
		}
		for _, name := range []string{"bitflip", "random", "empty", "zero", "foreign", "firstid", "proofh", "other-tx"} {
			r := cands[name]
			if r == root {
				continue // not a different root
			}
			if c30Validate(hashes, flags, related, r) {
				return fmt.Errorf("%s: proof validates against a different root (%s: %s, true root %s)", desc, name, r.String(), root.String())
			}
		}

	case "foreign-replace":
		p := c.Pos % k
		rel := append([]bc.Hash{}, related...)
		rel[p] = foreign
		if c30Validate(hashes, flags, rel, root) {
			return fmt.Errorf("%s: proof validates with related id %d replaced by %s which is not in the list", desc, p, foreign.String())
		}

	case "foreign-add":
		p := c.Pos % (k + 1)
		rel := append(append(append([]bc.Hash{}, related[:p]...), foreign), related[p:]...)
		if c30Validate(hashes, flags, rel, root) {
			return fmt.Errorf("%s: proof validates with an id that is not in the list inserted at %d of the related ids", desc, p)
		}
		// also let the generator see the foreign transaction
		ftx := &types.Tx{Tx: &bc.Tx{ID: foreign}}
		gr := append(append(append([]*types.Tx{}, relatedTxs[:p]...), ftx), relatedTxs[p:]...)
		hp2, fl2 := types.GetTxMerkleTreeProof(txs, gr)
		h2 := make([]bc.Hash, len(hp2))
		for i, h := range hp2 {
			h2[i] = *h
		}
		if c30Validate(h2, fl2, rel, root) {
			return fmt.Errorf("%s: a proof generated for the subset plus a foreign id (at %d) validates for that id list", desc, p)
		}

	case "hash":
		p := c.Pos % len(hashes)
		orig := hashes[p]
		cands := []bc.Hash{c30FlipBit(orig, c.Extra), c30ID(c30Case{Seed: c.Seed ^ 0xaaaa}, 3000), bc.EmptyStringHash, {}, foreign, root,
			hashes[(p+1)%len(hashes)], hashes[(p+len(hashes)-1)%len(hashes)]}
		if c.N > 0 {
			cands = append(cands, txs[c.Pos%c.N].ID)
		}
		for i, h := range cands {
			if h == orig {
				continue
			}
			th := append([]bc.Hash{}, hashes...)
			th[p] = h
			if c30Validate(th, flags, related, root) {
				return fmt.Errorf("%s: proof validates with proof hash %d (flag context %v) replaced by %s (variant %d, was %s)", desc, p, flags, h.String(), i, orig.String())
			}
		}

	case "flag":
		p := c.Pos % len(flags)
		orig := flags[p]
		for _, v := range []uint8{0, 1, 2, 3, c.Extra} {
			if v == orig {
				continue
			}
			tf := append([]uint8{}, flags...)
			tf[p] = v
			cl := v
			if cl > 3 {
				cl = 9
			}
			x.Class("flag %d->%d", orig, cl)
			if c30Validate(hashes, tf, related, root) {
				return fmt.Errorf("%s: proof validates with flag %d changed from %d to %d (flags %v, %d hashes, %d related)", desc, p, orig, v, flags, len(hashes), k)
			}
		}
	default:
		return nil
	}
	return nil
}

func TestC30(t *testing.T) {
	pbt.Run(t, "C30",
		"lists of 0..64 distinct transaction ids (hashed or near-identical consecutive ids; sizes biased to 0..3 and 2^e+-1), subsets by bit mask (empty, full, single, all-but-one, sparse, uniform) handed to the generator in list or rotated order and to the validator in list order; the generated proof must validate against TxMerkleRoot; then one tampering site: another root (8 variants), a related id replaced by / an extra related id that is not in the list (also regenerating the proof with it), one proof hash replaced (9 variants), one flag replaced by every other value in 0..3 and a random byte; every tampering is a real change and must be refused; non-trivial = list >= 3 and subset non-empty and proper; distinct by the whole case",
		pbt.Options{Checks: pbt.Per(40000, 2000000),
			MinClass: map[string]int{"tamper=flag": 100, "tamper=hash": 100, "tamper=root": 100, "tamper=foreign-add": 100, "tamper=foreign-replace": 50}},
		c30Gen, c30Exec)
}
