package pure

import (
	"bytes"
	"encoding/hex"
	"fmt"
	"io"
	"strings"
	"testing"

	"github.com/bytom/bytom/common"
	"github.com/bytom/bytom/common/bech32"
	"github.com/bytom/bytom/consensus"
	"github.com/bytom/bytom/consensus/segwit"
	"github.com/bytom/bytom/encoding/base32"
	"github.com/bytom/bytom/protocol/vm/vmutil"
	mnem "github.com/bytom/bytom/wallet/mnemonic"
	"pgregory.net/rapid"

	"verifharness/pbt"
)

// C29: addresses and text encodings round-trip and detect corruption.
//
//   address      : P2WPKH / P2WSH program -> address -> program on each network, refused on the others
//   substitution : every single-byte substitution (and a few multi-byte runes) at one position of
//                  an address is refused, on every network
//   bech32       : Bech32Encode/Bech32Decode and ConvertBits round-trip
//   base32       : Encode/Decode, string and stream forms, with and without padding
//   mnemonic     : NewMnemonic -> EntropyFromMnemonic / MnemonicToByteArray, all entropy sizes and languages
//   decoders     : every decoder returns (no panic) on arbitrary and on near-valid strings
//
// The program <-> address mapping is the one the callers use (wallet/annotated.go
// getAddressFromControlProgram; blockchain/txbuilder/actions.go controlAddressAction.Build).

var c29Nets = []string{"main", "test", "solo"}

func c29Params(name string) *consensus.Params {
	var p consensus.Params
	switch name {
	case "main":
		p = consensus.MainNetParams
	case "test":
		p = consensus.TestNetParams
	case "solo":
		p = consensus.SoloNetParams
	default:
		return nil
	}
	return &p
}

// c29ProgramToAddress: what the wallet does to show the address of a control program.
func c29ProgramToAddress(prog []byte, p *consensus.Params) (string, error) {
	switch {
	case segwit.IsP2WPKHScript(prog):
		h, err := segwit.GetHashFromStandardProg(prog)
		if err != nil {
			return "", err
		}
		a, err := common.NewAddressWitnessPubKeyHash(h, p)
		if err != nil {
			return "", err
		}
		return a.EncodeAddress(), nil
	case segwit.IsP2WSHScript(prog):
		h, err := segwit.GetHashFromStandardProg(prog)
		if err != nil {
			return "", err
		}
		a, err := common.NewAddressWitnessScriptHash(h, p)
		if err != nil {
			return "", err
		}
		return a.EncodeAddress(), nil
	}
	return "", fmt.Errorf("program %x is recognised neither as P2WPKH nor as P2WSH", prog)
}

// c29AddressToProgram: what the transaction builder does with a destination address.
func c29AddressToProgram(s string, p *consensus.Params) ([]byte, common.Address, error) {
	a, err := common.DecodeAddress(s, p)
	if err != nil {
		return nil, nil, err
	}
	if a == nil {
		return nil, nil, fmt.Errorf("DecodeAddress returned neither an address nor an error")
	}
	var prog []byte
	switch a.(type) {
	case *common.AddressWitnessPubKeyHash:
		prog, err = vmutil.P2WPKHProgram(a.ScriptAddress())
	case *common.AddressWitnessScriptHash:
		prog, err = vmutil.P2WSHProgram(a.ScriptAddress())
	default:
		err = fmt.Errorf("unsupported address type %T", a)
	}
	return prog, a, err
}

func c29Program(hash []byte) ([]byte, error) {
	if len(hash) == 20 {
		return vmutil.P2WPKHProgram(hash)
	}
	return vmutil.P2WSHProgram(hash)
}

func c29GenHash(t *rapid.T) string {
	n := rapid.SampledFrom([]int{20, 32}).Draw(t, "hashlen")
	switch rapid.IntRange(0, 5).Draw(t, "hashkind") {
	case 0:
		b := rapid.SampledFrom([]byte{0x00, 0xff, 0x80, 0x01}).Draw(t, "fill")
		return hex.EncodeToString(bytes.Repeat([]byte{b}, n))
	default:
		return hex.EncodeToString(rapid.SliceOfN(rapid.Byte(), n, n).Draw(t, "hash"))
	}
}

// ---------------------------------------------------------------- address round trip

type c29AddrCase struct {
	Hash string `json:"hash"` // hex, 20 or 32 bytes
	Net  string `json:"net"`
}

func c29AddrGen(t *rapid.T) c29AddrCase {
	return c29AddrCase{Hash: c29GenHash(t), Net: rapid.SampledFrom(c29Nets).Draw(t, "net")}
}

func c29AddrExec(c c29AddrCase, x *pbt.Ctx) error {
	hash, err := hex.DecodeString(c.Hash)
	p := c29Params(c.Net)
	if err != nil || p == nil || (len(hash) != 20 && len(hash) != 32) {
		return nil
	}
	x.Class("addr %s/%d", c.Net, len(hash))
	prog, err := c29Program(hash)
	if err != nil {
		return fmt.Errorf("building the program for hash %s: %v", c.Hash, err)
	}
	addr, err := c29ProgramToAddress(prog, p)
	if err != nil {
		return fmt.Errorf("hash %s net %s: program -> address: %v", c.Hash, c.Net, err)
	}
	if addr == "" {
		return fmt.Errorf("hash %s net %s: EncodeAddress returned the empty string", c.Hash, c.Net)
	}
	if !strings.HasPrefix(addr, p.Bech32HRPSegwit+"1") {
		return fmt.Errorf("hash %s net %s: address %q does not carry the network prefix %q", c.Hash, c.Net, addr, p.Bech32HRPSegwit)
	}
	back, a, err := c29AddressToProgram(addr, p)
	if err != nil {
		return fmt.Errorf("hash %s net %s: address %q does not decode on its own network: %v", c.Hash, c.Net, addr, err)
	}
	if !bytes.Equal(back, prog) {
		return fmt.Errorf("hash %s net %s: address %q decodes to program %x, encoded program %x", c.Hash, c.Net, addr, back, prog)
	}
	if !bytes.Equal(a.ScriptAddress(), hash) || a.EncodeAddress() != addr || a.String() != addr || !a.IsForNet(p) {
		return fmt.Errorf("hash %s net %s: decoded address object inconsistent: script %x, encodes to %q, IsForNet(own)=%v", c.Hash, c.Net, a.ScriptAddress(), a.EncodeAddress(), a.IsForNet(p))
	}
	for _, other := range c29Nets {
		if other == c.Net {
			continue
		}
		op := c29Params(other)
		if a.IsForNet(op) {
			return fmt.Errorf("hash %s: %s address %q claims to be for net %s", c.Hash, c.Net, addr, other)
		}
		if got, err := common.DecodeAddress(addr, op); err == nil {
			return fmt.Errorf("hash %s: %s address %q decodes on net %s (to %v)", c.Hash, c.Net, addr, other, got)
		}
		// the same hash on the other network is a different string
		if oaddr, err := c29ProgramToAddress(prog, op); err != nil || oaddr == addr {
			return fmt.Errorf("hash %s: address on net %s is %q (%v), on net %s %q", c.Hash, other, oaddr, err, c.Net, addr)
		}
	}
	return nil
}

// ---------------------------------------------------------------- single character substitution

type c29SubstCase struct {
	Hash string `json:"hash"`
	Net  string `json:"net"`
	Pos  int    `json:"pos"`      // position in the address, modulo its length
	End  bool   `json:"from_end"` // count the position from the last character
}

func c29SubstGen(t *rapid.T) c29SubstCase {
	return c29SubstCase{Hash: c29GenHash(t), Net: rapid.SampledFrom(c29Nets).Draw(t, "net"), Pos: rapid.IntRange(0, 63).Draw(t, "pos"), End: rapid.Bool().Draw(t, "fromend")}
}

// runes whose case mapping lands in (or comes from) ASCII, and an ordinary two-byte rune
var c29OddRunes = []string{"\u212a", "\u017f", "\u0130", "\u0131", "\u00e9", "\u3000", "\ufffd"}

func c29SubstExec(c c29SubstCase, x *pbt.Ctx) error {
	hash, err := hex.DecodeString(c.Hash)
	p := c29Params(c.Net)
	if err != nil || p == nil || (len(hash) != 20 && len(hash) != 32) || c.Pos < 0 {
		return nil
	}
	prog, err := c29Program(hash)
	if err != nil {
		return fmt.Errorf("building the program for hash %s: %v", c.Hash, err)
	}
	addr, err := c29ProgramToAddress(prog, p)
	if err != nil || addr == "" {
		return fmt.Errorf("hash %s net %s: program -> address: %q, %v", c.Hash, c.Net, addr, err)
	}
	pos := c.Pos % len(addr)
	if c.End {
		pos = len(addr) - 1 - pos
	}
	switch {
	case pos < 2:
		x.Class("subst in hrp")
	case pos == 2:
		x.Class("subst separator")
	case pos >= len(addr)-6:
		x.Class("subst in checksum")
	default:
		x.Class("subst in data")
	}
	x.NonTrivial = true
	x.Key = fmt.Sprintf("%s/%d", addr, pos)
	try := func(mut string, what string) error {
		for _, net := range c29Nets {
			got, err := common.DecodeAddress(mut, c29Params(net))
			if err == nil {
				return fmt.Errorf("hash %s net %s: address %q with position %d changed %s = %q is accepted on net %s (decodes to %T %x)", c.Hash, c.Net, addr, pos, what, mut, net, got, got.ScriptAddress())
			}
			if got != nil {
				return fmt.Errorf("address %q on net %s: DecodeAddress returned both an address and the error %v", mut, net, err)
			}
		}
		return nil
	}
	for b := 0; b < 256; b++ {
		if byte(b) == addr[pos] {
			continue
		}
		mut := addr[:pos] + string([]byte{byte(b)}) + addr[pos+1:]
		if err := try(mut, fmt.Sprintf("from %q to byte %#02x", addr[pos], b)); err != nil {
			return err
		}
	}
	for _, r := range c29OddRunes {
		if err := try(addr[:pos]+r+addr[pos+1:], fmt.Sprintf("from %q to rune %+q", addr[pos], r)); err != nil {
			return err
		}
	}
	return nil
}

// ---------------------------------------------------------------- bech32

type c29BechCase struct {
	Hrp   string `json:"hrp"`  // hex of the hrp bytes (printable ASCII 33..126 without upper case)
	Data  string `json:"data"` // hex, every byte a 5-bit value unless Bad
	Bytes string `json:"bytes"`
}

func c29BechGen(t *rapid.T) c29BechCase {
	var c c29BechCase
	var hrp []byte
	switch rapid.IntRange(0, 4).Draw(t, "hrpkind") {
	case 0:
		hrp = []byte(rapid.SampledFrom([]string{"bn", "tn", "sn", "bc", "1", "a1", "11"}).Draw(t, "hrpk"))
	case 1:
		hrp = []byte(rapid.StringMatching(`[a-z0-9]{1,12}`).Draw(t, "hrpa"))
	default: // any printable ASCII except upper case (encoders must emit lower case: BIP 173)
		for _, v := range rapid.SliceOfN(rapid.IntRange(33, 126), 1, 83).Draw(t, "hrpb") {
			if v >= 'A' && v <= 'Z' {
				v += 'a' - 'A'
			}
			hrp = append(hrp, byte(v))
		}
	}
	max := 90 - 7 - len(hrp)
	if max < 0 {
		max = 0
	}
	n := rapid.IntRange(0, max).Draw(t, "ndata")
	if rapid.IntRange(0, 3).Draw(t, "full") == 0 {
		n = max // the longest string that is still legal
	}
	data := make([]byte, n)
	for i, v := range rapid.SliceOfN(rapid.IntRange(0, 31), n, n).Draw(t, "data") {
		data[i] = byte(v)
	}
	c.Hrp, c.Data = hex.EncodeToString(hrp), hex.EncodeToString(data)
	c.Bytes = hex.EncodeToString(rapid.SliceOfN(rapid.Byte(), 0, 50).Draw(t, "bytes"))
	return c
}

func c29BechExec(c c29BechCase, x *pbt.Ctx) error {
	hrp, e1 := hex.DecodeString(c.Hrp)
	data, e2 := hex.DecodeString(c.Data)
	raw, e3 := hex.DecodeString(c.Bytes)
	if e1 != nil || e2 != nil || e3 != nil || len(hrp) < 1 || len(hrp)+7+len(data) > 90 {
		return nil
	}
	for _, b := range hrp {
		if b < 33 || b > 126 || (b >= 'A' && b <= 'Z') {
			return nil
		}
	}
	for _, b := range data {
		if b > 31 {
			return nil
		}
	}
	x.Class("bech32 len %d0s", (len(hrp)+7+len(data))/10)
	if bytes.IndexByte(hrp, '1') >= 0 {
		x.Class("bech32 hrp contains 1")
	}
	keep := append([]byte{}, data...)
	enc, err := bech32.Bech32Encode(string(hrp), data)
	if err != nil {
		return fmt.Errorf("Bech32Encode(%q, %x): %v", hrp, data, err)
	}
	if !bytes.Equal(keep, data) {
		return fmt.Errorf("Bech32Encode(%q, %x) modified its input to %x", hrp, keep, data)
	}
	h2, d2, err := bech32.Bech32Decode(enc)
	if err != nil {
		return fmt.Errorf("Bech32Decode(%q) of Bech32Encode(%q, %x): %v", enc, hrp, data, err)
	}
	if h2 != string(hrp) || !bytes.Equal(d2, data) {
		return fmt.Errorf("Bech32Decode(Bech32Encode(%q, %x)) = (%q, %x)", hrp, data, h2, d2)
	}
	// 8 -> 5 -> 8 bit regrouping
	five, err := bech32.ConvertBits(raw, 8, 5, true)
	if err != nil {
		return fmt.Errorf("ConvertBits(%x, 8, 5, pad): %v", raw, err)
	}
	eight, err := bech32.ConvertBits(five, 5, 8, false)
	if err != nil || !bytes.Equal(eight, raw) {
		return fmt.Errorf("ConvertBits 8->5->8 of %x gives %x, %v", raw, eight, err)
	}
	return nil
}

// ---------------------------------------------------------------- base32

type c29B32Case struct {
	Data   string `json:"data"`   // hex
	Alpha  string `json:"alpha"`  // std | hex | bech
	Pad    int    `json:"pad"`    // -1 none, else the padding byte
	Chunks []int  `json:"chunks"` // write / read sizes for the stream forms
}

const c29BechAlphabet = "qpzry9x8gf2tvdw0s3jn54khce6mua7l"

func c29B32Encoding(alpha string, pad int) *base32.Encoding {
	var e *base32.Encoding
	var abc string
	switch alpha {
	case "std":
		e, abc = base32.StdEncoding, "ABCDEFGHIJKLMNOPQRSTUVWXYZ234567"
	case "hex":
		e, abc = base32.HexEncoding, "0123456789ABCDEFGHIJKLMNOPQRSTUV"
	case "bech":
		e, abc = base32.NewEncoding(c29BechAlphabet), c29BechAlphabet
	default:
		return nil
	}
	if pad == '=' {
		return e
	}
	if pad == -1 {
		return e.WithPadding(base32.NoPadding)
	}
	// documented precondition of WithPadding
	if pad < 0 || pad > 0xff || pad == '\r' || pad == '\n' || strings.IndexByte(abc, byte(pad)) >= 0 {
		return nil
	}
	return e.WithPadding(rune(pad))
}

func c29B32Gen(t *rapid.T) c29B32Case {
	return c29B32GenPad(t, []int{'=', -1, -1, '*', '='})
}

func c29B32GenHighPad(t *rapid.T) c29B32Case {
	return c29B32GenPad(t, []int{0xff, 0x80, 0xe9})
}

func c29B32GenPad(t *rapid.T, pads []int) c29B32Case {
	var c c29B32Case
	switch rapid.IntRange(0, 3).Draw(t, "lenkind") {
	case 0:
		c.Data = hex.EncodeToString(rapid.SliceOfN(rapid.Byte(), 0, 11).Draw(t, "data"))
	case 1: // around the stream buffer sizes (640 decoded / 1024 encoded bytes)
		n := rapid.SampledFrom([]int{635, 640, 645, 1024, 1280, 1285}).Draw(t, "big") + rapid.IntRange(-3, 3).Draw(t, "d")
		c.Data = hex.EncodeToString(rapid.SliceOfN(rapid.Byte(), n, n).Draw(t, "data"))
	default:
		c.Data = hex.EncodeToString(rapid.SliceOfN(rapid.Byte(), 0, 120).Draw(t, "data"))
	}
	c.Alpha = rapid.SampledFrom([]string{"std", "hex", "bech"}).Draw(t, "alpha")
	c.Pad = rapid.SampledFrom(pads).Draw(t, "pad")
	c.Chunks = rapid.SliceOfN(rapid.IntRange(1, 40), 1, 6).Draw(t, "chunks")
	return c
}

type c29ChunkReader struct {
	data   []byte
	chunks []int
	i      int
}

func (r *c29ChunkReader) Read(p []byte) (int, error) {
	if len(r.data) == 0 {
		return 0, io.EOF
	}
	n := r.chunks[r.i%len(r.chunks)]
	r.i++
	if n > len(p) {
		n = len(p)
	}
	if n > len(r.data) {
		n = len(r.data)
	}
	copy(p, r.data[:n])
	r.data = r.data[n:]
	return n, nil
}

func c29B32Exec(c c29B32Case, x *pbt.Ctx) error {
	data, err := hex.DecodeString(c.Data)
	if err != nil || len(c.Chunks) == 0 {
		return nil
	}
	for _, n := range c.Chunks {
		if n < 1 {
			return nil
		}
	}
	enc := c29B32Encoding(c.Alpha, c.Pad)
	if enc == nil {
		return nil
	}
	padName := "pad"
	if c.Pad == -1 {
		padName = "nopad"
	} else if c.Pad > 0x7f {
		padName = "highpad"
	}
	x.Class("base32 %s len%%5=%d", padName, len(data)%5)
	desc := fmt.Sprintf("base32 %s pad %d data %s", c.Alpha, c.Pad, c.Data)

	s := enc.EncodeToString(data)
	if len(s) != enc.EncodedLen(len(data)) {
		return fmt.Errorf("%s: EncodeToString gives %d characters, EncodedLen says %d", desc, len(s), enc.EncodedLen(len(data)))
	}
	back, err := enc.DecodeString(s)
	if c.Pad > 0x7f && err != nil && strings.IndexByte(s, byte(c.Pad)) >= 0 {
		// known finding: the text contains a padding byte above 0x7f and the decoder (which
		// strips newlines with a rune-wise Map) refuses it.  Texts without padding characters
		// and every other failure are still judged.
		if _, isCorrupt := err.(base32.CorruptInputError); isCorrupt {
			x.Known("base32-nonascii-padding-not-decodable")
			return nil
		}
	}
	if err != nil || !bytes.Equal(back, data) {
		return fmt.Errorf("%s: DecodeString(EncodeToString(data)) = %x, %v (encoded %q)", desc, back, err, s)
	}
	// buffer forms
	ebuf := make([]byte, enc.EncodedLen(len(data)))
	enc.Encode(ebuf, data)
	if string(ebuf) != s {
		return fmt.Errorf("%s: Encode gives %q, EncodeToString %q", desc, ebuf, s)
	}
	if enc.DecodedLen(len(ebuf)) < len(data) {
		return fmt.Errorf("%s: DecodedLen(%d) = %d is smaller than the %d bytes that were encoded", desc, len(ebuf), enc.DecodedLen(len(ebuf)), len(data))
	}
	dbuf := make([]byte, enc.DecodedLen(len(ebuf)))
	n, err := enc.Decode(dbuf, ebuf)
	if err != nil || !bytes.Equal(dbuf[:n], data) {
		return fmt.Errorf("%s: Decode(Encode(data)) = %x, %v", desc, dbuf[:n], err)
	}
	// line-wrapped text decodes to the same bytes (newlines are documented as ignored)
	if len(s) > 0 {
		cut := c.Chunks[0] % (len(s) + 1)
		wrapped := s[:cut] + "\r\n" + s[cut:] + "\n"
		if back, err := enc.DecodeString(wrapped); err != nil || !bytes.Equal(back, data) {
			return fmt.Errorf("%s: DecodeString of the text with line breaks %q = %x, %v", desc, wrapped, back, err)
		}
	}
	return nil
}

// c29B32StreamExec: NewEncoder (chunked writes, Close) -> NewDecoder (chunked reads).
func c29B32StreamExec(c c29B32Case, x *pbt.Ctx) error {
	data, err := hex.DecodeString(c.Data)
	if err != nil || len(c.Chunks) == 0 {
		return nil
	}
	for _, n := range c.Chunks {
		if n < 1 {
			return nil
		}
	}
	enc := c29B32Encoding(c.Alpha, c.Pad)
	if enc == nil {
		return nil
	}
	padName := "pad"
	if c.Pad == -1 {
		padName = "nopad"
	}
	desc := fmt.Sprintf("base32 %s pad %d data %s chunks %v", c.Alpha, c.Pad, c.Data, c.Chunks)
	s := enc.EncodeToString(data)
	var sb bytes.Buffer
	w := base32.NewEncoder(enc, &sb)
	rest := data
	for i := 0; len(rest) > 0; i++ {
		k := c.Chunks[i%len(c.Chunks)]
		if k > len(rest) {
			k = len(rest)
		}
		if wn, err := w.Write(rest[:k]); err != nil || wn != k {
			return fmt.Errorf("%s: stream encoder Write(%d bytes) = %d, %v", desc, k, wn, err)
		}
		rest = rest[k:]
	}
	if err := w.Close(); err != nil {
		return fmt.Errorf("%s: stream encoder Close: %v", desc, err)
	}
	x.Class("base32 stream %s len%%5=%d", padName, len(data)%5)
	streamText := sb.String()
	if c.Pad != -1 {
		// (without padding the stream encoder of this package flushes whole 8-character
		// quanta; the text it produces is judged only through the stream decoder below)
		if streamText != s {
			return fmt.Errorf("%s: stream encoder wrote %q, EncodeToString gives %q", desc, streamText, s)
		}
	}
	r := base32.NewDecoder(enc, &c29ChunkReader{data: []byte(streamText), chunks: c.Chunks})
	var out []byte
	buf := make([]byte, c.Chunks[len(c.Chunks)-1])
	var rerr error
	for i := 0; i < 100000; i++ {
		rn, err := r.Read(buf)
		out = append(out, buf[:rn]...)
		if err == io.EOF {
			break
		}
		if err != nil {
			rerr = err
			break
		}
	}
	if rerr == nil && bytes.Equal(out, data) {
		return nil
	}
	if c.Pad == -1 && len(data)%5 != 0 {
		// known finding: without padding the stream encoder flushes a whole 8-character quantum
		// for a partial final group and the stream decoder only decodes whole quanta, so the
		// round trip of a length that is not a multiple of 5 gives extra zero bytes or an error.
		// Only this shape is excluded (no padding, partial final group).
		x.Known("base32-stream-without-padding")
		return nil
	}
	if rerr != nil {
		return fmt.Errorf("%s: stream decoder over the stream encoder's output %q: %v after %d bytes", desc, streamText, rerr, len(out))
	}
	return fmt.Errorf("%s: stream decode(stream encode(data)) = %x (text %q)", desc, out, streamText)
}

// ---------------------------------------------------------------- mnemonic

var c29Langs = []string{"en", "zh_CN", "zh_TW", "it", "ja", "ko", "es"}

type c29MnemCase struct {
	Entropy string `json:"entropy"` // hex
	Lang    string `json:"lang"`
}

func c29MnemGen(t *rapid.T) c29MnemCase {
	n := rapid.SampledFrom([]int{16, 20, 24, 28, 32}).Draw(t, "bytes")
	var e []byte
	switch rapid.IntRange(0, 5).Draw(t, "kind") {
	case 0:
		e = bytes.Repeat([]byte{rapid.SampledFrom([]byte{0x00, 0xff, 0x80, 0x01}).Draw(t, "fill")}, n)
	case 1: // leading zero bytes: big-integer conversions drop them
		e = make([]byte, n)
		z := rapid.IntRange(1, n).Draw(t, "zeros")
		copy(e[z:], rapid.SliceOfN(rapid.Byte(), n-z, n-z).Draw(t, "tail"))
	default:
		e = rapid.SliceOfN(rapid.Byte(), n, n).Draw(t, "entropy")
	}
	return c29MnemCase{Entropy: hex.EncodeToString(e), Lang: rapid.SampledFrom(c29Langs).Draw(t, "lang")}
}

func c29MnemExec(c c29MnemCase, x *pbt.Ctx) error {
	e, err := hex.DecodeString(c.Entropy)
	if err != nil || len(e) < 16 || len(e) > 32 || len(e)%4 != 0 {
		return nil
	}
	known := false
	for _, l := range c29Langs {
		known = known || l == c.Lang
	}
	if !known {
		return nil
	}
	x.Class("mnemonic %s", c.Lang)
	x.Class("mnemonic %d bits", len(e)*8)
	desc := fmt.Sprintf("entropy %s lang %s", c.Entropy, c.Lang)
	keep := append([]byte{}, e...)
	m, err := mnem.NewMnemonic(e, c.Lang)
	if err != nil {
		return fmt.Errorf("%s: NewMnemonic: %v", desc, err)
	}
	if !bytes.Equal(keep, e) {
		return fmt.Errorf("%s: NewMnemonic modified its input to %x", desc, e)
	}
	words := strings.Fields(m)
	if want := (len(e)*8 + len(e)*8/32) / 11; len(words) != want {
		return fmt.Errorf("%s: mnemonic %q has %d words, want %d", desc, m, len(words), want)
	}
	if !mnem.IsMnemonicValid(m, c.Lang) {
		return fmt.Errorf("%s: IsMnemonicValid(%q) is false", desc, m)
	}
	back, err := mnem.EntropyFromMnemonic(m, c.Lang)
	if err != nil || !bytes.Equal(back, e) {
		return fmt.Errorf("%s: EntropyFromMnemonic(%q) = %x, %v", desc, m, back, err)
	}
	raw, err := mnem.MnemonicToByteArray(m, c.Lang, true)
	if err != nil || !bytes.Equal(raw, e) {
		return fmt.Errorf("%s: MnemonicToByteArray(%q, raw) = %x, %v", desc, m, raw, err)
	}
	if _, err := mnem.NewSeedWithErrorChecking(m, "", c.Lang); err != nil {
		return fmt.Errorf("%s: NewSeedWithErrorChecking(%q): %v", desc, m, err)
	}
	return nil
}

// ---------------------------------------------------------------- decoders never panic

type c29DecCase struct {
	Input string `json:"input"` // hex of the string handed to every decoder
	Lang  string `json:"lang"`
	From  uint8  `json:"from_bits"`
	To    uint8  `json:"to_bits"`
	Chunk int    `json:"chunk"`
	Shape string `json:"shape"` // how the input was made (histogram only)
}

func c29Mutate(t *rapid.T, s []byte) []byte {
	for k := rapid.IntRange(0, 3).Draw(t, "nmut"); k > 0; k-- {
		pos := 0
		if len(s) > 0 {
			pos = rapid.IntRange(0, len(s)-1).Draw(t, "mpos")
		}
		switch rapid.IntRange(0, 7).Draw(t, "mkind") {
		case 0: // truncate
			s = s[:pos]
		case 1: // insert a byte
			s = append(append(append([]byte{}, s[:pos]...), rapid.Byte().Draw(t, "ins")), s[pos:]...)
		case 2: // replace a byte
			if len(s) > 0 {
				s = append([]byte{}, s...)
				s[pos] = rapid.Byte().Draw(t, "rep")
			}
		case 3: // duplicate the tail
			s = append(append([]byte{}, s...), s[pos:]...)
		case 4:
			s = bytes.ToUpper(s)
		case 5: // flip the case of one letter
			if len(s) > 0 {
				s = append([]byte{}, s...)
				s[pos] ^= 0x20
			}
		case 6: // padding / separator characters
			ins := rapid.SampledFrom([]string{"=", "==", "1", " ", "  ", "\n", "\r\n", "\t", "\u3000", "======", "\x00"}).Draw(t, "sep")
			s = append(append(append([]byte{}, s[:pos]...), ins...), s[pos:]...)
		default: // delete a byte
			if len(s) > 0 {
				s = append(append([]byte{}, s[:pos]...), s[pos+1:]...)
			}
		}
	}
	return s
}

func c29DecGen(t *rapid.T) c29DecCase {
	var c c29DecCase
	var in []byte
	c.Lang = rapid.SampledFrom(c29Langs).Draw(t, "lang")
	c.Shape = rapid.SampledFrom([]string{"bytes", "unicode", "address", "segwit-shaped", "segwit-shaped", "bech32", "base32", "base32-chars", "mnemonic", "words"}).Draw(t, "shape")
	switch c.Shape {
	case "bytes":
		in = rapid.SliceOfN(rapid.Byte(), 0, 100).Draw(t, "in")
	case "unicode":
		in = []byte(rapid.StringN(0, 60, -1).Draw(t, "in"))
	case "address":
		hash, _ := hex.DecodeString(c29GenHash(t))
		prog, _ := c29Program(hash)
		a, _ := c29ProgramToAddress(prog, c29Params(rapid.SampledFrom(c29Nets).Draw(t, "net")))
		in = c29Mutate(t, []byte(a))
	case "segwit-shaped":
		// a correctly checksummed string under a network's own prefix whose payload has any shape:
		// no groups at all, only a version, a version out of range, a program of any length
		hrp := rapid.SampledFrom([]string{"bn", "tn", "sn", "bn", "tn", "sn", "bc", "b"}).Draw(t, "shrp")
		var data []byte
		switch rapid.IntRange(0, 5).Draw(t, "spayload") {
		case 0: // nothing
		case 1:
			data = []byte{byte(rapid.IntRange(0, 31).Draw(t, "sver"))}
		default:
			ver := byte(rapid.SampledFrom([]int{0, 0, 0, 1, 16, 17, 31}).Draw(t, "sver2"))
			prog := rapid.SliceOfN(rapid.Byte(), 0, 45).Draw(t, "sprog")
			if rapid.Bool().Draw(t, "sstd") {
				prog = rapid.SliceOfN(rapid.Byte(), 20, 20).Draw(t, "sprog20")
				if rapid.Bool().Draw(t, "s32") {
					prog = append(prog, rapid.SliceOfN(rapid.Byte(), 12, 12).Draw(t, "sprog12")...)
				}
			}
			conv, err := bech32.ConvertBits(prog, 8, 5, rapid.Bool().Draw(t, "spad"))
			if err != nil {
				conv = nil
			}
			data = append([]byte{ver}, conv...)
		}
		str, err := bech32.Bech32Encode(hrp, data)
		if err != nil {
			str = hrp + "1"
		}
		in = []byte(str)
		if rapid.IntRange(0, 3).Draw(t, "smut") == 0 {
			in = c29Mutate(t, in)
		}
	case "bech32":
		bc := c29BechGen(t)
		hrp, _ := hex.DecodeString(bc.Hrp)
		data, _ := hex.DecodeString(bc.Data)
		s, _ := bech32.Bech32Encode(string(hrp), data)
		in = c29Mutate(t, []byte(s))
	case "base32":
		raw := rapid.SliceOfN(rapid.Byte(), 0, 40).Draw(t, "raw")
		enc := c29B32Encoding(rapid.SampledFrom([]string{"std", "hex", "bech"}).Draw(t, "alpha"), rapid.SampledFrom([]int{'=', -1}).Draw(t, "pad"))
		in = c29Mutate(t, []byte(enc.EncodeToString(raw)))
	case "base32-chars": // alphabet and padding characters in any order
		in = []byte(rapid.StringMatching(`[A-Z2-7=]{0,40}`).Draw(t, "in"))
	case "mnemonic":
		n := rapid.SampledFrom([]int{16, 20, 24, 28, 32}).Draw(t, "bytes")
		m, _ := mnem.NewMnemonic(rapid.SliceOfN(rapid.Byte(), n, n).Draw(t, "entropy"), c.Lang)
		in = c29Mutate(t, []byte(m))
		if rapid.Bool().Draw(t, "otherlang") {
			c.Lang = rapid.SampledFrom(c29Langs).Draw(t, "lang2")
		}
	default: // "words": any number of words of any list, any separators
		var parts []string
		k := rapid.IntRange(0, 26).Draw(t, "nwords")
		if rapid.Bool().Draw(t, "validcount") {
			k = rapid.SampledFrom([]int{12, 15, 18, 21, 24}).Draw(t, "count")
		}
		for i := 0; i < k; i++ {
			lang := c.Lang
			if rapid.IntRange(0, 9).Draw(t, "foreignword") == 0 {
				lang = rapid.SampledFrom(c29Langs).Draw(t, "wl")
			}
			list, _ := mnem.SetWordList(lang)
			w := "zzzz"
			if len(list) > 0 && rapid.IntRange(0, 19).Draw(t, "junk") != 0 {
				w = list[rapid.IntRange(0, len(list)-1).Draw(t, "w")]
			}
			parts = append(parts, w)
		}
		sep := rapid.SampledFrom([]string{" ", " ", " ", "  ", "\t", "\n", "\u3000", ""}).Draw(t, "sep")
		in = []byte(strings.Join(parts, sep))
		if rapid.IntRange(0, 3).Draw(t, "edge") == 0 {
			in = append(append([]byte(sep), in...), sep...)
		}
	}
	if rapid.IntRange(0, 9).Draw(t, "badlang") == 0 {
		c.Lang = rapid.SampledFrom([]string{"", "e", "xx", "en_US", "zh_cn", "zh-CN", "\x00\x00", "fr", "english"}).Draw(t, "blang")
	}
	c.Input = hex.EncodeToString(in)
	c.From = uint8(rapid.IntRange(0, 9).Draw(t, "from"))
	c.To = uint8(rapid.IntRange(0, 9).Draw(t, "to"))
	c.Chunk = rapid.IntRange(1, 17).Draw(t, "chunk")
	return c
}

func c29DecExec(c c29DecCase, x *pbt.Ctx) error {
	in, err := hex.DecodeString(c.Input)
	if err != nil || c.Chunk < 1 {
		return nil
	}
	s := string(in)
	x.Class("decoder input " + c.Shape)
	x.NonTrivial = len(in) >= 8
	// a panic in any of these is caught by the runtime and reported as the failure
	accepted := 0
	for _, net := range c29Nets {
		if a, err := common.DecodeAddress(s, c29Params(net)); err == nil {
			accepted++
			_ = a.EncodeAddress()
			_ = a.ScriptAddress()
		}
	}
	if _, data, err := bech32.Bech32Decode(s); err == nil {
		accepted++
		_, _ = bech32.ConvertBits(data, 5, 8, false)
	}
	_, _ = bech32.ConvertBits(in, c.From, c.To, true)
	_, _ = bech32.ConvertBits(in, c.From, c.To, false)
	_, _ = bech32.Bech32Encode(s, in)
	for _, alpha := range []string{"std", "hex", "bech"} {
		for _, pad := range []int{'=', -1, '*'} {
			enc := c29B32Encoding(alpha, pad)
			if _, err := enc.DecodeString(s); err == nil {
				accepted++
			}
			dst := make([]byte, enc.DecodedLen(len(in)))
			_, _ = enc.Decode(dst, in)
			r := base32.NewDecoder(enc, &c29ChunkReader{data: append([]byte{}, in...), chunks: []int{c.Chunk, 1, 8}})
			buf := make([]byte, c.Chunk)
			for i := 0; i < 10000; i++ {
				if _, err := r.Read(buf); err != nil {
					break
				}
			}
		}
	}
	if _, err := mnem.EntropyFromMnemonic(s, c.Lang); err == nil {
		accepted++
	}
	_, _ = mnem.MnemonicToByteArray(s, c.Lang)
	_, _ = mnem.MnemonicToByteArray(s, c.Lang, true)
	_, _ = mnem.MnemonicToByteArray(s, c.Lang, false)
	_ = mnem.IsMnemonicValid(s, c.Lang)
	_, _ = mnem.NewSeedWithErrorChecking(s, "pw", c.Lang)
	_, _ = mnem.NewMnemonic(in, c.Lang)
	_, _ = mnem.SetWordMap(c.Lang)
	if accepted > 0 {
		x.Class("decoder accepted the input")
	} else {
		x.Class("every decoder refused the input")
	}
	return nil
}

func TestC29(t *testing.T) {
	pbt.Run(t, "C29",
		"20/32-byte hashes (uniform and 00/ff/80/01 fills) x {main,test,solo}: P2WPKH/P2WSH program -> address (wallet path) -> program (transaction-builder path) is the identity; the address is refused by DecodeAddress and IsForNet on the two other networks",
		pbt.Options{Sub: "address", Checks: pbt.Per(3000, 1200000)}, c29AddrGen, c29AddrExec)
	pbt.Run(t, "C29",
		"an address as above and one position: all 255 other byte values and 7 multi-byte runes (Kelvin sign, long s, dotted/dotless i, e-acute, ideographic space, U+FFFD) at that position must be refused on all three networks; non-trivial = every such case; distinct by (address, position)",
		pbt.Options{Sub: "substitution", Checks: pbt.Per(2500, 1200000), MinClass: map[string]int{"subst in hrp": 20, "subst separator": 10, "subst in checksum": 50, "subst in data": 200}}, c29SubstGen, c29SubstExec)
	pbt.Run(t, "C29",
		"bech32: hrp of 1..83 printable non-upper-case ASCII characters (also containing '1'), 5-bit data up to the 90-character limit (a quarter exactly at the limit): Bech32Decode(Bech32Encode(hrp,data)) == (hrp,data); ConvertBits 8->5->8 of 0..50 bytes is the identity",
		pbt.Options{Sub: "bech32", Checks: pbt.Per(4000, 1200000)}, c29BechGen, c29BechExec)
	pbt.Run(t, "C29",
		"base32: 0..120 bytes and sizes around the stream buffers, alphabets std/hex/custom, padding '=', none, '*': DecodeString(EncodeToString(d)) == d, Encode/Decode buffer forms, EncodedLen/DecodedLen, line-wrapped text",
		pbt.Options{Sub: "base32", Checks: pbt.Per(4000, 1200000)}, c29B32Gen, c29B32Exec)
	pbt.Run(t, "C29",
		"mnemonic: entropies of 128/160/192/224/256 bits (uniform, constant fills, leading zero bytes) x 7 word lists: NewMnemonic -> EntropyFromMnemonic and MnemonicToByteArray(raw) give the entropy back; word count, IsMnemonicValid",
		pbt.Options{Sub: "mnemonic", Checks: pbt.Per(1000, 150000)}, c29MnemGen, c29MnemExec)
	pbt.Run(t, "C29",
		"arbitrary strings (raw bytes, unicode) and near-valid strings (address, bech32, base32, mnemonic with 0..3 mutations: truncate/insert/replace/delete/duplicate/case/padding and separator characters; word sequences of any count, list and separator; base32 alphabet soup) through DecodeAddress x3 nets, Bech32Decode, ConvertBits (bit widths 0..9), 9 base32 encodings (string, buffer, stream), EntropyFromMnemonic, MnemonicToByteArray, IsMnemonicValid, NewSeedWithErrorChecking with valid and invalid language codes: each must return; non-trivial = input of 8+ bytes",
		pbt.Options{Sub: "decoders", Checks: pbt.Per(3000, 600000)}, c29DecGen, c29DecExec)
	// The two remaining parts do not hold on the unchanged tree (see the report); they run last and
	// as subtests so that each is decided independently of the other.
	t.Run("base32-highpad", func(t *testing.T) {
		pbt.Run(t, "C29",
			"base32 string and buffer forms as [base32] with a padding byte above 0x7f (0x80, 0xe9, 0xff; allowed by WithPadding: 'a rune equal or below \\xff')",
			pbt.Options{Sub: "base32-highpad", Checks: pbt.Per(1000, 60000)}, c29B32GenHighPad, c29B32Exec)
	})
	t.Run("base32-stream", func(t *testing.T) {
		pbt.Run(t, "C29",
			"base32 stream forms, same inputs as [base32] (padding '=', none, '*'): NewEncoder with chunked writes and Close, then NewDecoder with chunked reads, must give the bytes back; with padding the stream text must equal EncodeToString",
			pbt.Options{Sub: "base32-stream", Checks: pbt.Per(3000, 300000)}, c29B32Gen, c29B32StreamExec)
	})
}
