package pure

import (
	"fmt"
	"math"
	"math/big"
	"strings"
	"testing"

	"github.com/bytom/bytom/math/checked"
	"pgregory.net/rapid"

	"verifharness/pbt"
)

// C31: checked arithmetic is exact.  Oracle: math/big.

type c31Case struct {
	Op string `json:"op"` // e.g. "AddInt64"
	A  string `json:"a"`  // decimal
	B  string `json:"b"`
}

type c31Type struct {
	name     string
	min, max *big.Int
	bits     int
	signed   bool
}

var c31Types = []c31Type{
	{"Int64", big.NewInt(math.MinInt64), big.NewInt(math.MaxInt64), 64, true},
	{"Int32", big.NewInt(math.MinInt32), big.NewInt(math.MaxInt32), 32, true},
	{"Uint64", big.NewInt(0), new(big.Int).SetUint64(math.MaxUint64), 64, false},
	{"Uint32", big.NewInt(0), big.NewInt(math.MaxUint32), 32, false},
}

var c31Ops = []string{"Add", "Sub", "Mul", "Div", "Mod", "Negate", "Lshift"}

func c31TypeOf(op string) (c31Type, string) {
	for _, ty := range c31Types {
		n := len(op) - len(ty.name)
		if n > 0 && op[n:] == ty.name {
			return ty, op[:n]
		}
	}
	panic("bad op " + op)
}

// call runs the implementation; res is the returned value, ok the flag.
func c31Call(op string, a, b *big.Int) (*big.Int, bool) {
	switch op {
	case "AddInt64":
		r, ok := checked.AddInt64(a.Int64(), b.Int64())
		return big.NewInt(r), ok
	case "SubInt64":
		r, ok := checked.SubInt64(a.Int64(), b.Int64())
		return big.NewInt(r), ok
	case "MulInt64":
		r, ok := checked.MulInt64(a.Int64(), b.Int64())
		return big.NewInt(r), ok
	case "DivInt64":
		r, ok := checked.DivInt64(a.Int64(), b.Int64())
		return big.NewInt(r), ok
	case "ModInt64":
		r, ok := checked.ModInt64(a.Int64(), b.Int64())
		return big.NewInt(r), ok
	case "NegateInt64":
		r, ok := checked.NegateInt64(a.Int64())
		return big.NewInt(r), ok
	case "LshiftInt64":
		r, ok := checked.LshiftInt64(a.Int64(), b.Int64())
		return big.NewInt(r), ok
	case "AddInt32":
		r, ok := checked.AddInt32(int32(a.Int64()), int32(b.Int64()))
		return big.NewInt(int64(r)), ok
	case "SubInt32":
		r, ok := checked.SubInt32(int32(a.Int64()), int32(b.Int64()))
		return big.NewInt(int64(r)), ok
	case "MulInt32":
		r, ok := checked.MulInt32(int32(a.Int64()), int32(b.Int64()))
		return big.NewInt(int64(r)), ok
	case "DivInt32":
		r, ok := checked.DivInt32(int32(a.Int64()), int32(b.Int64()))
		return big.NewInt(int64(r)), ok
	case "ModInt32":
		r, ok := checked.ModInt32(int32(a.Int64()), int32(b.Int64()))
		return big.NewInt(int64(r)), ok
	case "NegateInt32":
		r, ok := checked.NegateInt32(int32(a.Int64()))
		return big.NewInt(int64(r)), ok
	case "LshiftInt32":
		r, ok := checked.LshiftInt32(int32(a.Int64()), int32(b.Int64()))
		return big.NewInt(int64(r)), ok
	case "AddUint64":
		r, ok := checked.AddUint64(a.Uint64(), b.Uint64())
		return new(big.Int).SetUint64(r), ok
	case "SubUint64":
		r, ok := checked.SubUint64(a.Uint64(), b.Uint64())
		return new(big.Int).SetUint64(r), ok
	case "MulUint64":
		r, ok := checked.MulUint64(a.Uint64(), b.Uint64())
		return new(big.Int).SetUint64(r), ok
	case "DivUint64":
		r, ok := checked.DivUint64(a.Uint64(), b.Uint64())
		return new(big.Int).SetUint64(r), ok
	case "ModUint64":
		r, ok := checked.ModUint64(a.Uint64(), b.Uint64())
		return new(big.Int).SetUint64(r), ok
	case "LshiftUint64":
		r, ok := checked.LshiftUint64(a.Uint64(), b.Uint64())
		return new(big.Int).SetUint64(r), ok
	case "AddUint32":
		r, ok := checked.AddUint32(uint32(a.Uint64()), uint32(b.Uint64()))
		return new(big.Int).SetUint64(uint64(r)), ok
	case "SubUint32":
		r, ok := checked.SubUint32(uint32(a.Uint64()), uint32(b.Uint64()))
		return new(big.Int).SetUint64(uint64(r)), ok
	case "MulUint32":
		r, ok := checked.MulUint32(uint32(a.Uint64()), uint32(b.Uint64()))
		return new(big.Int).SetUint64(uint64(r)), ok
	case "DivUint32":
		r, ok := checked.DivUint32(uint32(a.Uint64()), uint32(b.Uint64()))
		return new(big.Int).SetUint64(uint64(r)), ok
	case "ModUint32":
		r, ok := checked.ModUint32(uint32(a.Uint64()), uint32(b.Uint64()))
		return new(big.Int).SetUint64(uint64(r)), ok
	case "LshiftUint32":
		r, ok := checked.LshiftUint32(uint32(a.Uint64()), uint32(b.Uint64()))
		return new(big.Int).SetUint64(uint64(r)), ok
	}
	panic("unknown op " + op)
}

func c31AllOps() []string {
	var out []string
	for _, ty := range c31Types {
		for _, op := range c31Ops {
			if op == "Negate" && !ty.signed {
				continue
			}
			out = append(out, op+ty.name)
		}
	}
	return out
}

// genOperand draws a boundary-heavy value of the type.
func c31GenOperand(t *rapid.T, ty c31Type, label string) *big.Int {
	span := new(big.Int).Sub(ty.max, ty.min)
	kind := rapid.IntRange(0, 9).Draw(t, label+"kind")
	small := big.NewInt(int64(rapid.IntRange(-3, 3).Draw(t, label+"d")))
	var v *big.Int
	switch kind {
	case 0:
		v = new(big.Int).Add(ty.min, new(big.Int).Abs(small))
	case 1:
		v = new(big.Int).Sub(ty.max, new(big.Int).Abs(small))
	case 2:
		v = new(big.Int).Set(small)
	case 3: // around a power of two
		e := rapid.IntRange(0, ty.bits).Draw(t, label+"e")
		v = new(big.Int).Lsh(big.NewInt(1), uint(e))
		if rapid.Bool().Draw(t, label+"neg") {
			v.Neg(v)
		}
		v.Add(v, small)
	case 4: // around sqrt of the range
		v = new(big.Int).Sqrt(ty.max)
		v.Add(v, small)
		if rapid.Bool().Draw(t, label+"neg") {
			v.Neg(v)
		}
	case 6: // the upper half of the half-width numbers (their squares straddle the signed and unsigned limits)
		half := uint(ty.bits / 2)
		lo := new(big.Int).Lsh(big.NewInt(1), half-1)
		off := new(big.Int).SetUint64(rapid.Uint64().Draw(t, label+"hw"))
		off.Mod(off, lo)
		v = new(big.Int).Add(lo, off)
		if rapid.IntRange(0, 3).Draw(t, label+"hwneg") == 0 {
			v.Neg(v)
		}
	case 5: // small shift counts / small numbers
		v = big.NewInt(int64(rapid.IntRange(-2, 70).Draw(t, label+"s")))
	default:
		hi := rapid.Uint64().Draw(t, label+"u")
		v = new(big.Int).SetUint64(hi)
		v.Mod(v, new(big.Int).Add(span, big.NewInt(1)))
		v.Add(v, ty.min)
	}
	// clamp into the type
	if v.Cmp(ty.min) < 0 {
		v.Set(ty.min)
	}
	if v.Cmp(ty.max) > 0 {
		v.Set(ty.max)
	}
	return v
}

func c31Gen(t *rapid.T) c31Case {
	op := rapid.SampledFrom(c31AllOps()).Draw(t, "op")
	ty, _ := c31TypeOf(op)
	a := c31GenOperand(t, ty, "a")
	b := c31GenOperand(t, ty, "b")
	// in a third of the cases the second operand is derived from the first so that the exact result
	// lands within a few units of a limit of the type (either side of it)
	if rapid.IntRange(0, 2).Draw(t, "complement") == 0 {
		bound := ty.max
		if rapid.Bool().Draw(t, "tomin") {
			bound = ty.min
		}
		d := big.NewInt(int64(rapid.IntRange(-2, 2).Draw(t, "cd")))
		var nb *big.Int
		switch {
		case strings.HasPrefix(op, "Add"):
			nb = new(big.Int).Sub(bound, a)
		case strings.HasPrefix(op, "Sub"):
			nb = new(big.Int).Sub(a, bound)
		case strings.HasPrefix(op, "Mul") && a.Sign() != 0:
			nb = new(big.Int).Quo(bound, a)
		}
		if nb != nil {
			nb.Add(nb, d)
			if nb.Cmp(ty.min) >= 0 && nb.Cmp(ty.max) <= 0 {
				b = nb
			}
		}
	}
	return c31Case{Op: op, A: a.String(), B: b.String()}
}

func c31Exec(c c31Case, x *pbt.Ctx) error {
	ty, base := c31TypeOf(c.Op)
	a, ok1 := new(big.Int).SetString(c.A, 10)
	b, ok2 := new(big.Int).SetString(c.B, 10)
	if !ok1 || !ok2 || a.Cmp(ty.min) < 0 || a.Cmp(ty.max) > 0 || b.Cmp(ty.min) < 0 || b.Cmp(ty.max) > 0 {
		return nil // outside the operand type: not a case
	}
	var exact *big.Int // nil = mathematically undefined -> must fail
	judge := true
	switch base {
	case "Add":
		exact = new(big.Int).Add(a, b)
	case "Sub":
		exact = new(big.Int).Sub(a, b)
	case "Mul":
		exact = new(big.Int).Mul(a, b)
	case "Div":
		if b.Sign() != 0 {
			exact = new(big.Int).Quo(a, b) // truncated, as Go's /
		}
	case "Mod":
		if b.Sign() != 0 {
			exact = new(big.Int).Rem(a, b) // truncated, as Go's %
		}
	case "Negate":
		exact = new(big.Int).Neg(a)
	case "Lshift":
		switch {
		case b.Sign() < 0:
			judge = false // a shift by a negative count has no agreed meaning (DESIGN 4.4)
		case b.Cmp(big.NewInt(int64(ty.bits))) >= 0 && a.Sign() == 0:
			judge = false // 0 << huge: rejecting the count is a defensible precondition (DESIGN 4.4)
		case b.Cmp(big.NewInt(4096)) > 0:
			// a != 0: |a|*2^b certainly does not fit
			exact = new(big.Int).Lsh(big.NewInt(1), 200)
		default:
			exact = new(big.Int).Lsh(a, uint(b.Int64()))
		}
	}
	x.Class(c.Op)
	res, ok := c31Call(c.Op, a, b)
	if !judge {
		x.Class("outside-domain")
		return nil
	}
	fits := exact != nil && exact.Cmp(ty.min) >= 0 && exact.Cmp(ty.max) <= 0
	near := false
	if exact != nil {
		for _, bound := range []*big.Int{ty.min, ty.max} {
			d := new(big.Int).Sub(exact, bound)
			if d.Abs(d).Cmp(big.NewInt(2)) <= 0 {
				near = true
			}
		}
	}
	x.NonTrivial = near || !fits
	if fits {
		x.Class("fits")
	} else {
		x.Class("overflow-or-undefined")
	}
	if fits {
		if !ok && base == "Mod" && ty.signed && a.Cmp(ty.min) == 0 && b.Cmp(big.NewInt(-1)) == 0 {
			// known finding: exactly this input (see known_findings.json); anything else still fails below
			x.Known("mod-min-by-minus-one")
			return nil
		}
		if !ok {
			return fmt.Errorf("%s(%s, %s): exact result %s fits the type but failure was reported", c.Op, c.A, c.B, exact)
		}
		if res.Cmp(exact) != 0 {
			return fmt.Errorf("%s(%s, %s) = %s, exact result is %s", c.Op, c.A, c.B, res, exact)
		}
		return nil
	}
	if ok {
		return fmt.Errorf("%s(%s, %s) reported success with %s but the exact result (%v) does not fit", c.Op, c.A, c.B, res, exact)
	}
	return nil
}

func TestC31(t *testing.T) {
	pbt.Run(t, "C31",
		"operand pairs drawn boundary-heavy (type min/max +-3, 0 +-3, powers of two +-3, sqrt(max) +-3, shift counts -2..70, uniform) for each of the 26 checked operations; oracle math/big; non-trivial = exact result within 2 of a type bound, or overflow/undefined; distinct by (op,a,b)",
		pbt.Options{Checks: pbt.Per(30000, 6000000)}, c31Gen, c31Exec)
}
