package pure

import (
	"encoding/hex"
	"fmt"
	"os"
	"path/filepath"
	"strings"
	"testing"
	"time"

	"github.com/bytom/bytom/common"

	"verifharness/pbt"
)

// Native coverage-guided fuzz target for C29 (thorough tier only): an arbitrary string through
// every decoder (the "decoders" executor: no panic), plus, for a string some network accepts as
// an address: the address re-encodes to the same string (case folded), decodes to a standard
// program that encodes back to it, and no other network accepts it.

func FuzzC29Decoders(f *testing.F) {
	for _, net := range c29Nets {
		for _, n := range []int{20, 32} {
			h := make([]byte, n)
			for i := range h {
				h[i] = byte(i*7 + n)
			}
			prog, _ := c29Program(h)
			if s, err := c29ProgramToAddress(prog, c29Params(net)); err == nil {
				f.Add([]byte(s), uint8(8), uint8(5), uint8(3))
				f.Add([]byte(strings.ToUpper(s)), uint8(5), uint8(8), uint8(1))
			}
		}
	}
	f.Add([]byte("abandon abandon abandon abandon abandon abandon abandon abandon abandon abandon abandon about"), uint8(8), uint8(5), uint8(7))
	f.Add([]byte("MFRGGZDFMZTWQ==="), uint8(8), uint8(5), uint8(2))
	f.Add([]byte("a12uel5l"), uint8(1), uint8(8), uint8(1))
	f.Add([]byte{}, uint8(0), uint8(0), uint8(0))
	f.Fuzz(func(t *testing.T, data []byte, from, to, chunk uint8) {
		c29FuzzBody(t, data, from, to, chunk)
	})
}

func c29FuzzBody(t *testing.T, data []byte, from, to, chunk uint8) {
	if dir := os.Getenv("VERIF_C29_SLOWLOG"); dir != "" {
		// diagnostic aid: the Go fuzz worker kills itself silently after 10 s in one call
		tm := time.AfterFunc(3*time.Second, func() {
			_ = os.WriteFile(filepath.Join(dir, fmt.Sprintf("slow-%d.txt", os.Getpid())), []byte(fmt.Sprintf("%x %d %d %d\n", data, from, to, chunk)), 0644)
		})
		defer tm.Stop()
	}
	{
		if len(data) > 2048 {
			return
		}
		c := c29DecCase{Input: hex.EncodeToString(data), Lang: "en", From: from, To: to, Chunk: 1 + int(chunk)%64, Shape: "native-fuzz"}
		fail := func(msg string) {
			path := pbt.WriteReplay("C29", "decoders", c, msg)
			t.Fatalf("FAILCASE property=C29 replay=%s\n%s", path, msg)
		}
		if err := c29DecExec(c, &pbt.Ctx{}); err != nil {
			fail(err.Error())
		}
		s := string(data)
		accepted := ""
		for _, net := range c29Nets {
			p := c29Params(net)
			a, err := common.DecodeAddress(s, p)
			if err != nil {
				continue
			}
			if accepted != "" {
				fail("string " + hex.EncodeToString(data) + " is accepted as an address on " + accepted + " and on " + net)
			}
			accepted = net
			if got := a.EncodeAddress(); got != strings.ToLower(s) {
				fail("string " + hex.EncodeToString(data) + " decodes on " + net + " to an address that encodes as " + got)
			}
			prog, _, err := c29AddressToProgram(s, p)
			if err != nil {
				fail("accepted address does not give a program: " + err.Error())
			}
			back, err := c29ProgramToAddress(prog, p)
			if err != nil || back != strings.ToLower(s) {
				fail("program " + hex.EncodeToString(prog) + " of accepted address " + s + " encodes back to " + back)
			}
		}
	}
}
