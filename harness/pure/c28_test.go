package pure

import (
	"bytes"
	"crypto"
	"crypto/ed25519"
	"crypto/sha256"
	"encoding/hex"
	"fmt"
	"os"
	"strings"
	"testing"

	"github.com/bytom/bytom/blockchain/pseudohsm"
	"github.com/bytom/bytom/crypto/ed25519/chainkd"
	mnem "github.com/bytom/bytom/wallet/mnemonic"
	"github.com/pborman/uuid"
	"pgregory.net/rapid"

	"verifharness/pbt"
)

// C28: key derivation and signatures are consistent.
//
//   derive   : xprv.Derive(p).XPub() == xprv.XPub().Derive(p), also level by level
//   sign     : a signature verifies under the (directly derived) public key and under no other
//              derived key, no other message, and not after any one-bit change
//   keystore : EncryptKey/DecryptKey (scrypt+AES blob) gives the key back only for the right
//              password, and the decrypted key signs identically
//   hsm      : the same through the file based key store (pseudohsm.HSM in a temp dir)

// ---------------------------------------------------------------- shared generators

func c28GenBytes(t *rapid.T, label string, min, max int) string {
	return hex.EncodeToString(rapid.SliceOfN(rapid.Byte(), min, max).Draw(t, label))
}

func c28GenSeed(t *rapid.T, label string) string {
	switch rapid.IntRange(0, 9).Draw(t, label+"kind") {
	case 0:
		return c28GenBytes(t, label, 0, 4)
	case 1: // what NewXPrv feeds in
		return c28GenBytes(t, label, 64, 64)
	case 2:
		return c28GenBytes(t, label, 65, 200)
	case 3: // extreme bytes: the pruning and the carry chain see all-ones
		n := rapid.IntRange(1, 64).Draw(t, label+"n")
		b := rapid.SampledFrom([]byte{0x00, 0xff, 0x80, 0x7f}).Draw(t, label+"b")
		return hex.EncodeToString(bytes.Repeat([]byte{b}, n))
	default:
		return c28GenBytes(t, label, 1, 64)
	}
}

func c28GenPath(t *rapid.T, label string, minDepth int) []string {
	depth := 8 - rapid.IntRange(0, 8-minDepth).Draw(t, label+"depth") // favour deep paths
	path := make([]string, depth)
	for i := range path {
		switch rapid.IntRange(0, 5).Draw(t, fmt.Sprintf("%ssel%dkind", label, i)) {
		case 0:
			path[i] = ""
		case 1: // the selectors the wallet uses: little-endian 8 byte indexes
			path[i] = hex.EncodeToString([]byte{byte(rapid.IntRange(0, 255).Draw(t, fmt.Sprintf("%sidx%d", label, i))), 0, 0, 0, 0, 0, 0, 0})
		default:
			path[i] = c28GenBytes(t, fmt.Sprintf("%ssel%d", label, i), 0, 40)
		}
	}
	return path
}

func c28Path(p []string) ([][]byte, bool) {
	out := make([][]byte, len(p))
	for i, s := range p {
		b, err := hex.DecodeString(s)
		if err != nil {
			return nil, false
		}
		out[i] = b
	}
	return out, true
}

func c28Unhex(ss ...string) ([][]byte, bool) {
	out := make([][]byte, len(ss))
	for i, s := range ss {
		b, err := hex.DecodeString(s)
		if err != nil {
			return nil, false
		}
		out[i] = b
	}
	return out, true
}

func c28DepthClass(x *pbt.Ctx, d int) {
	switch {
	case d == 0:
		x.Class("depth=0")
	case d == 1:
		x.Class("depth=1")
	case d <= 4:
		x.Class("depth=2-4")
	default:
		x.Class("depth=5-8")
	}
}

// ---------------------------------------------------------------- derive

type c28DeriveCase struct {
	Seed string   `json:"seed"` // hex
	Path []string `json:"path"` // hex selectors
}

func c28DeriveGen(t *rapid.T) c28DeriveCase {
	return c28DeriveCase{Seed: c28GenSeed(t, "seed"), Path: c28GenPath(t, "p", 0)}
}

func c28DeriveExec(c c28DeriveCase, x *pbt.Ctx) error {
	sb, ok1 := c28Unhex(c.Seed)
	path, ok2 := c28Path(c.Path)
	if !ok1 || !ok2 || len(path) > 8 {
		return nil
	}
	c28DepthClass(x, len(path))
	x.NonTrivial = len(path) >= 2
	root := chainkd.RootXPrv(sb[0])
	if len(sb[0]) == 64 {
		// NewXPrv reads 64 bytes and must agree with RootXPrv
		k, err := chainkd.NewXPrv(bytes.NewReader(sb[0]))
		if err != nil || k != root {
			return fmt.Errorf("NewXPrv(reader of seed) = %x, %v; RootXPrv(seed) = %x", k[:], err, root[:])
		}
	}
	viaPrv := root.Derive(path).XPub()
	viaPub := root.XPub().Derive(path)
	if viaPrv != viaPub {
		return fmt.Errorf("seed %s path %v: xprv.Derive(path).XPub() = %x but xprv.XPub().Derive(path) = %x", c.Seed, c.Path, viaPrv[:], viaPub[:])
	}
	// level by level, and Derive == repeated Child
	prv, pub := root, root.XPub()
	for i, sel := range path {
		prv = prv.Child(sel, false)
		pub = pub.Child(sel)
		if prv.XPub() != pub {
			return fmt.Errorf("seed %s path %v: after level %d child xprv's xpub %x != child xpub %x", c.Seed, c.Path, i, prv.XPub(), pub[:])
		}
	}
	if prv != root.Derive(path) || pub != viaPub {
		return fmt.Errorf("seed %s path %v: Derive differs from repeated Child", c.Seed, c.Path)
	}
	if got := chainkd.DeriveXPubs([]chainkd.XPub{root.XPub()}, path); len(got) != 1 || got[0] != viaPub {
		return fmt.Errorf("seed %s path %v: DeriveXPubs disagrees with XPub.Derive", c.Seed, c.Path)
	}
	// the public key of the expanded signing key is the public key of the xpub
	if epk, ok := prv.ExpandedPrivateKey().Public().(ed25519.PublicKey); !ok || !bytes.Equal(epk, pub.PublicKey()) {
		return fmt.Errorf("seed %s path %v: expanded key public %x != xpub public key %x", c.Seed, c.Path, epk, []byte(pub.PublicKey()))
	}
	return nil
}

// ---------------------------------------------------------------- sign / verify

type c28SignCase struct {
	Seed      string   `json:"seed"`
	Path      []string `json:"path"`
	Msg       string   `json:"msg"`        // hex
	OtherKind string   `json:"other_kind"` // seed | sibling | parent | child | path
	OtherSeed string   `json:"other_seed"`
	OtherPath []string `json:"other_path"`
	OtherMsg  string   `json:"other_msg"` // hex, used by kind "random"
	MsgKind   string   `json:"msg_kind"`  // random | bitflip | truncate | extend | empty
	MsgBit    int      `json:"msg_bit"`
	SigBits   []int    `json:"sig_bits"` // bit positions 0..511 of the signature to flip, one at a time
}

func c28GenMsg(t *rapid.T, label string) string {
	switch rapid.IntRange(0, 5).Draw(t, label+"kind") {
	case 0:
		return ""
	case 1: // what is signed in practice: a 32 byte hash
		return c28GenBytes(t, label, 32, 32)
	case 2:
		return c28GenBytes(t, label, 100, 300)
	default:
		return c28GenBytes(t, label, 0, 64)
	}
}

func c28SignGen(t *rapid.T) c28SignCase {
	c := c28SignCase{Seed: c28GenSeed(t, "seed"), Path: c28GenPath(t, "p", 0), Msg: c28GenMsg(t, "msg")}
	c.OtherKind = rapid.SampledFrom([]string{"seed", "sibling", "parent", "child", "path"}).Draw(t, "okind")
	c.OtherSeed = c28GenSeed(t, "oseed")
	c.OtherPath = c28GenPath(t, "op", 1)
	c.MsgKind = rapid.SampledFrom([]string{"random", "bitflip", "truncate", "extend", "empty"}).Draw(t, "mkind")
	c.OtherMsg = c28GenMsg(t, "omsg")
	c.MsgBit = rapid.IntRange(0, 4095).Draw(t, "mbit")
	c.SigBits = rapid.SliceOfN(rapid.IntRange(0, 255), 1, 12).Draw(t, "sigbits")
	for i, inS := range rapid.SliceOfN(rapid.Bool(), len(c.SigBits), len(c.SigBits)).Draw(t, "sighalf") {
		if inS {
			c.SigBits[i] = 511 - c.SigBits[i] // S half, high bits (the canonical-S boundary) first
		}
	}
	return c
}

func c28SignExec(c c28SignCase, x *pbt.Ctx) error {
	bs, ok1 := c28Unhex(c.Seed, c.Msg, c.OtherSeed, c.OtherMsg)
	path, ok2 := c28Path(c.Path)
	opath, ok3 := c28Path(c.OtherPath)
	if !ok1 || !ok2 || !ok3 || len(path) > 8 || len(opath) > 9 {
		return nil
	}
	seed, msg, oseed, omsgRandom := bs[0], bs[1], bs[2], bs[3]
	c28DepthClass(x, len(path))
	x.NonTrivial = len(path) >= 2
	root := chainkd.RootXPrv(seed)
	key := root.Derive(path)
	pub := root.XPub().Derive(path) // the public key a verifier derives without the private key
	desc := fmt.Sprintf("seed %s path %v msg %s", c.Seed, c.Path, c.Msg)

	sig := key.Sign(msg)
	if len(sig) != 64 {
		return fmt.Errorf("%s: signature has %d bytes", desc, len(sig))
	}
	if !pub.Verify(msg, sig) {
		return fmt.Errorf("%s: signature %x does not verify under the derived public key %x", desc, sig, pub[:32])
	}
	if !key.XPub().Verify(msg, sig) {
		return fmt.Errorf("%s: signature does not verify under xprv.XPub()", desc)
	}
	if again := key.Sign(msg); !bytes.Equal(again, sig) {
		return fmt.Errorf("%s: signing twice gives different signatures", desc)
	}
	if s2, err := key.ExpandedPrivateKey().Sign(nil, msg, crypto.Hash(0)); err != nil || !bytes.Equal(s2, sig) {
		return fmt.Errorf("%s: ExpandedPrivateKey().Sign differs from XPrv.Sign (%v)", desc, err)
	}

	// another key
	var other chainkd.XPub
	switch c.OtherKind {
	case "seed": // different seed, same path
		other = chainkd.RootXPrv(oseed).XPub().Derive(path)
	case "sibling":
		if len(path) == 0 {
			other = root.XPub().Derive(opath)
		} else {
			p2 := append(append([][]byte{}, path[:len(path)-1]...), opath[0])
			other = root.XPub().Derive(p2)
		}
	case "parent":
		if len(path) == 0 {
			other = root.XPub().Derive(opath)
		} else {
			other = root.XPub().Derive(path[:len(path)-1])
		}
	case "child":
		other = pub.Child(opath[0])
	default: // "path": same seed, unrelated path
		other = root.XPub().Derive(opath)
	}
	x.Class("otherkey=" + c.OtherKind)
	if !bytes.Equal(other[:32], pub[:32]) {
		if other.Verify(msg, sig) {
			return fmt.Errorf("%s: signature verifies under another key %x (%s; signer %x)", desc, other[:32], c.OtherKind, pub[:32])
		}
	} else {
		x.Class("otherkey-same")
	}

	// another message
	var omsg []byte
	switch c.MsgKind {
	case "bitflip":
		if len(msg) > 0 {
			omsg = append([]byte{}, msg...)
			b := c.MsgBit % (8 * len(msg))
			omsg[b/8] ^= 1 << uint(b%8)
		} else {
			omsg = []byte{0}
		}
	case "truncate":
		if len(msg) > 0 {
			omsg = msg[:len(msg)-1]
		} else {
			omsg = []byte{0}
		}
	case "extend":
		omsg = append(append([]byte{}, msg...), byte(c.MsgBit))
	case "empty":
		omsg = []byte{}
	default:
		omsg = omsgRandom
	}
	x.Class("othermsg=" + c.MsgKind)
	if !bytes.Equal(omsg, msg) {
		if pub.Verify(omsg, sig) {
			return fmt.Errorf("%s: signature verifies for another message %x (%s)", desc, omsg, c.MsgKind)
		}
	} else {
		x.Class("othermsg-same")
	}

	// one-bit changes of the signature
	for _, b := range c.SigBits {
		if b < 0 || b >= 512 {
			continue
		}
		s2 := append([]byte{}, sig...)
		s2[b/8] ^= 1 << uint(b%8)
		if b < 256 {
			x.Class("sigbit in R")
		} else {
			x.Class("sigbit in S")
		}
		if pub.Verify(msg, s2) {
			return fmt.Errorf("%s: signature still verifies with bit %d flipped (%x -> %x)", desc, b, sig, s2)
		}
	}
	return nil
}

// ---------------------------------------------------------------- keystore blob

type c28KeystoreCase struct {
	Seed    string   `json:"seed"`
	Path    []string `json:"path"`
	Pw      string   `json:"pw"`       // hex of the password bytes
	WrongPw string   `json:"wrong_pw"` // hex, used by kind "random"
	WrongBy string   `json:"wrong_by"` // random | append | drop | case | empty | nul | bitflip
	WrongAt int      `json:"wrong_at"`
	Alias   string   `json:"alias"`
	ID      string   `json:"id"` // hex, 16 bytes
	Msg     string   `json:"msg"`
	Light   bool     `json:"light"` // LightScryptN/P (what pseudohsm.New uses) instead of N=2,p=1
}

func c28GenPassword(t *rapid.T, label string) string {
	switch rapid.IntRange(0, 7).Draw(t, label+"kind") {
	case 0:
		return ""
	case 1: // unicode
		return hex.EncodeToString([]byte(rapid.StringN(1, 20, -1).Draw(t, label+"u")))
	case 2: // longer than an HMAC block
		return c28GenBytes(t, label+"long", 65, 140)
	case 3: // arbitrary bytes
		return c28GenBytes(t, label+"raw", 1, 32)
	default:
		return hex.EncodeToString([]byte(rapid.StringMatching(`[ -~]{1,24}`).Draw(t, label+"a")))
	}
}

var c28WrongKinds = []string{"random", "append", "drop", "case", "empty", "nul", "nulpad", "bitflip"}

// c28HmacKey is the 64-byte HMAC-SHA256 key block a password turns into (RFC 2104: longer than a
// block -> its digest; then zero padded).  scrypt and PBKDF2 see the password only through this
// block, so two byte strings with the same block ARE the same password for any scrypt key store
// ("pw" and "pw\x00"; a 65+ byte password and its SHA-256).  Such pairs are outside the domain
// of "a wrong password is refused"; they are counted in class "wrong=hmac-equivalent".
func c28HmacKey(pw []byte) (k [64]byte) {
	if len(pw) > 64 {
		d := sha256.Sum256(pw)
		pw = d[:]
	}
	copy(k[:], pw)
	return k
}

func c28WrongPassword(pw, random []byte, by string, at int) []byte {
	switch by {
	case "append":
		return append(append([]byte{}, pw...), byte('a'+at%26))
	case "drop":
		if len(pw) > 0 {
			i := at % len(pw)
			return append(append([]byte{}, pw[:i]...), pw[i+1:]...)
		}
	case "case":
		out := []byte(strings.ToUpper(string(pw)))
		if bytes.Equal(out, pw) {
			out = []byte(strings.ToLower(string(pw)))
		}
		return out
	case "empty":
		return []byte{}
	case "nul": // a leading NUL byte
		return append([]byte{0}, pw...)
	case "nulpad": // a trailing NUL byte: the same HMAC key block unless the password is 64+ bytes long
		return append(append([]byte{}, pw...), 0)
	case "bitflip":
		if len(pw) > 0 {
			out := append([]byte{}, pw...)
			b := at % (8 * len(pw))
			out[b/8] ^= 1 << uint(b%8)
			return out
		}
	}
	return random
}

func c28KeystoreGen(t *rapid.T) c28KeystoreCase {
	c := c28KeystoreCase{Seed: c28GenSeed(t, "seed"), Path: c28GenPath(t, "p", 0)}
	c.Pw = c28GenPassword(t, "pw")
	c.WrongPw = c28GenPassword(t, "wpw")
	c.WrongBy = rapid.SampledFrom(c28WrongKinds).Draw(t, "wby")
	c.WrongAt = rapid.IntRange(0, 4095).Draw(t, "wat")
	c.Alias = rapid.StringN(0, 12, -1).Draw(t, "alias")
	c.ID = c28GenBytes(t, "id", 16, 16)
	c.Msg = c28GenMsg(t, "msg")
	if pbt.Thorough() {
		v := rapid.IntRange(0, 999).Draw(t, "light")
		c.Light = v >= 500 && v < 505 // (not "== 0": rapid favours the ends of a range)
	}
	return c
}

func c28KeystoreExec(c c28KeystoreCase, x *pbt.Ctx) error {
	bs, ok1 := c28Unhex(c.Seed, c.Pw, c.WrongPw, c.ID, c.Msg)
	path, ok2 := c28Path(c.Path)
	if !ok1 || !ok2 || len(path) > 8 || len(bs[3]) != 16 {
		return nil
	}
	seed, pw, wrongRandom, id, msg := bs[0], bs[1], bs[2], bs[3], bs[4]
	c28DepthClass(x, len(path))
	x.NonTrivial = len(path) >= 2
	xprv := chainkd.RootXPrv(seed).Derive(path)
	key := &pseudohsm.XKey{ID: uuid.UUID(id), KeyType: "bytom_kd", Alias: c.Alias, XPrv: xprv, XPub: xprv.XPub()}
	n, p := 2, 1
	if c.Light {
		n, p = pseudohsm.LightScryptN, pseudohsm.LightScryptP
		x.Class("scrypt=light")
	} else {
		x.Class("scrypt=N2")
	}
	switch {
	case len(pw) == 0:
		x.Class("pw=empty")
	case len(pw) > 64:
		x.Class("pw=long")
	default:
		x.Class("pw=short")
	}
	desc := fmt.Sprintf("seed %s path %v pw %s", c.Seed, c.Path, c.Pw)

	blob, err := pseudohsm.EncryptKey(key, string(pw), n, p)
	if err != nil {
		return fmt.Errorf("%s: EncryptKey: %v", desc, err)
	}
	// stored encrypted: neither half of the private key appears in the blob
	for _, part := range [][]byte{xprv[:32], xprv[32:], xprv[:16]} {
		if bytes.Contains(bytes.ToLower(blob), []byte(hex.EncodeToString(part))) {
			// (the chain code half equals xpub[32:], which the blob publishes as "xpub"; only the scalar is secret)
			if !bytes.Equal(part, xprv[32:]) {
				return fmt.Errorf("%s: key blob contains the private scalar in clear: %s", desc, blob)
			}
		}
	}
	got, err := pseudohsm.DecryptKey(blob, string(pw))
	if err != nil || got == nil {
		return fmt.Errorf("%s: DecryptKey with the right password: %v", desc, err)
	}
	if got.XPrv != xprv || got.XPub != key.XPub || got.Alias != c.Alias || got.KeyType != key.KeyType || !bytes.Equal(got.ID, key.ID) {
		return fmt.Errorf("%s: decrypted key differs: xprv %x/%x xpub %x/%x alias %q/%q type %q id %s/%s", desc, got.XPrv[:], xprv[:], got.XPub[:], key.XPub[:], got.Alias, c.Alias, got.KeyType, got.ID, key.ID)
	}
	sig := xprv.Sign(msg)
	if s2 := got.XPrv.Sign(msg); !bytes.Equal(s2, sig) || !key.XPub.Verify(msg, s2) {
		return fmt.Errorf("%s: decrypted key signs %x, original %x", desc, s2, sig)
	}
	// a second encryption of the same key is a different blob (fresh salt and iv) and decrypts the same
	if c.WrongAt%4 == 0 && !c.Light {
		blob2, err := pseudohsm.EncryptKey(key, string(pw), n, p)
		if err != nil {
			return fmt.Errorf("%s: second EncryptKey: %v", desc, err)
		}
		g2, err := pseudohsm.DecryptKey(blob2, string(pw))
		if err != nil || g2.XPrv != xprv {
			return fmt.Errorf("%s: second blob does not decrypt to the key: %v", desc, err)
		}
	}

	wrong := c28WrongPassword(pw, wrongRandom, c.WrongBy, c.WrongAt)
	x.Class("wrong=" + c.WrongBy)
	if bytes.Equal(wrong, pw) {
		x.Class("wrong-same")
		return nil
	}
	if c28HmacKey(wrong) == c28HmacKey(pw) {
		x.Class("wrong=hmac-equivalent")
		return nil
	}
	bad, err := pseudohsm.DecryptKey(blob, string(wrong))
	if err == nil {
		return fmt.Errorf("%s: DecryptKey succeeds with the wrong password %x (returned xprv equal to the key: %v)", desc, wrong, bad != nil && bad.XPrv == xprv)
	}
	if bad != nil {
		return fmt.Errorf("%s: DecryptKey with the wrong password %x returns an error and a key", desc, wrong)
	}
	return nil
}

// ---------------------------------------------------------------- file based key store

type c28HsmCase struct {
	Entropy string   `json:"entropy"` // hex, 16 bytes -> 12 word mnemonic
	Alias   string   `json:"alias"`
	Pw      string   `json:"pw"` // hex
	NewPw   string   `json:"new_pw"`
	WrongPw string   `json:"wrong_pw"`
	WrongBy string   `json:"wrong_by"`
	WrongAt int      `json:"wrong_at"`
	Path    []string `json:"path"`
	Msg     string   `json:"msg"`
}

func c28HsmGen(t *rapid.T) c28HsmCase {
	alias := rapid.StringMatching(`[a-z0-9]{1,10}`).Draw(t, "alias")
	if rapid.IntRange(0, 1).Draw(t, "aliasraw") == 0 {
		// the import call stores the alias as the client sent it: capitals, blanks around or inside it
		pad := []string{" ", "\t", "  ", " \t", ""}
		alias = rapid.SampledFrom(pad).Draw(t, "lead") + rapid.StringMatching(`[A-Za-z0-9][A-Za-z0-9 _-]{0,8}`).Draw(t, "alias2") + rapid.SampledFrom(pad).Draw(t, "trail")
	}
	return c28HsmCase{
		Entropy: c28GenBytes(t, "entropy", 16, 16),
		Alias:   alias,
		Pw:      c28GenPassword(t, "pw"),
		NewPw:   c28GenPassword(t, "npw"),
		WrongPw: c28GenPassword(t, "wpw"),
		WrongBy: rapid.SampledFrom(c28WrongKinds).Draw(t, "wby"),
		WrongAt: rapid.IntRange(0, 4095).Draw(t, "wat"),
		Path:    c28GenPath(t, "p", 0),
		Msg:     c28GenMsg(t, "msg"),
	}
}

func c28HsmExec(c c28HsmCase, x *pbt.Ctx) (err error) {
	bs, ok1 := c28Unhex(c.Entropy, c.Pw, c.NewPw, c.WrongPw, c.Msg)
	path, ok2 := c28Path(c.Path)
	if !ok1 || !ok2 || len(path) > 8 || len(bs[0]) != 16 || strings.TrimSpace(c.Alias) == "" || len(c.Alias) > 40 {
		return nil
	}
	entropy, pw, newPw, wrongRandom, msg := bs[0], string(bs[1]), string(bs[2]), bs[3], bs[4]
	c28DepthClass(x, len(path))
	x.NonTrivial = len(path) >= 2
	desc := fmt.Sprintf("entropy %s alias %q path %v pw %s", c.Entropy, c.Alias, c.Path, c.Pw)
	if c.Alias != strings.ToLower(strings.TrimSpace(c.Alias)) {
		x.Class("alias-not-normalised")
	}

	dir, derr := os.MkdirTemp("", "c28hsm")
	if derr != nil {
		return nil // harness environment, not a property matter
	}
	defer os.RemoveAll(dir)
	hsm, herr := pseudohsm.New(dir)
	if herr != nil {
		return fmt.Errorf("pseudohsm.New: %v", herr)
	}
	mnemonic, merr := mnem.NewMnemonic(entropy, "en")
	if merr != nil {
		return fmt.Errorf("NewMnemonic: %v", merr)
	}
	xp, ierr := hsm.ImportKeyFromMnemonic(c.Alias, pw, mnemonic, "en")
	if ierr != nil {
		return fmt.Errorf("%s: ImportKeyFromMnemonic: %v", desc, ierr)
	}
	// the key that was stored
	want, _ := chainkd.NewXPrv(bytes.NewReader(mnem.NewSeed(mnemonic, "")))
	if xp.XPub != want.XPub() {
		return fmt.Errorf("%s: stored xpub %x is not the xpub of the mnemonic's key %x", desc, xp.XPub[:], want.XPub())
	}
	// on disk: the file must not contain the private scalar
	if raw, rerr := os.ReadFile(xp.File); rerr != nil {
		return fmt.Errorf("%s: key file: %v", desc, rerr)
	} else if bytes.Contains(bytes.ToLower(raw), []byte(hex.EncodeToString(want[:32]))) {
		return fmt.Errorf("%s: key file contains the private scalar in clear", desc)
	}
	wantSig := want.Derive(path).Sign(msg)
	vpub := xp.XPub.Derive(path)

	xsign := func(store *pseudohsm.HSM, auth string, label string) error {
		sig, err := store.XSign(xp.XPub, path, msg, auth)
		if err != nil {
			return fmt.Errorf("%s: XSign with the %s password: %v", desc, label, err)
		}
		if !bytes.Equal(sig, wantSig) || !vpub.Verify(msg, sig) {
			return fmt.Errorf("%s: XSign with the %s password gives %x, the key itself signs %x", desc, label, sig, wantSig)
		}
		return nil
	}
	refuse := func(auth string, label string) error {
		if sig, err := hsm.XSign(xp.XPub, path, msg, auth); err == nil {
			return fmt.Errorf("%s: XSign succeeds with %s password %x (sig %x)", desc, label, auth, sig)
		}
		return nil
	}

	// (every call below costs one or two LightScrypt evaluations, ~0.1 s each)
	got, lerr := hsm.LoadChainKDKey(xp.XPub, pw)
	if lerr != nil || got != want {
		return fmt.Errorf("%s: LoadChainKDKey with the right password returns %x, %v; stored %x", desc, got[:], lerr, want[:])
	}
	if err := xsign(hsm, pw, "right"); err != nil {
		return err
	}
	wrong := string(c28WrongPassword([]byte(pw), wrongRandom, c.WrongBy, c.WrongAt))
	x.Class("wrong=" + c.WrongBy)
	if c28HmacKey([]byte(wrong)) == c28HmacKey([]byte(pw)) {
		if wrong != pw {
			x.Class("wrong=hmac-equivalent")
		}
		wrong = pw
	}
	if wrong != pw {
		if err := refuse(wrong, "a wrong"); err != nil {
			return err
		}
		if k, err := hsm.LoadChainKDKey(xp.XPub, wrong); err == nil {
			return fmt.Errorf("%s: LoadChainKDKey succeeds with the wrong password %x (key equal: %v)", desc, wrong, k == want)
		}
		if err := hsm.ResetPassword(xp.XPub, wrong, newPw); err == nil {
			return fmt.Errorf("%s: ResetPassword succeeds with the wrong old password %x", desc, wrong)
		}
		if err := hsm.XDelete(xp.XPub, wrong); err == nil {
			return fmt.Errorf("%s: XDelete succeeds with the wrong password %x", desc, wrong)
		}
	} else {
		x.Class("wrong-same")
	}
	// change the password (this also shows that the refused reset/delete left the key intact)
	if err := hsm.ResetPassword(xp.XPub, pw, newPw); err != nil {
		return fmt.Errorf("%s: ResetPassword(%x -> %x): %v", desc, pw, newPw, err)
	}
	if c28HmacKey([]byte(newPw)) != c28HmacKey([]byte(pw)) {
		x.Class("reset=different")
		if err := refuse(pw, "the old"); err != nil {
			return err
		}
	}
	// a second store object on the same directory signs identically with the new password
	hsm2, _ := pseudohsm.New(dir)
	return xsign(hsm2, newPw, "new (reopened store)")
}

func TestC28(t *testing.T) {
	pbt.Run(t, "C28",
		"seeds of 0..200 bytes (incl. 64-byte entropy, all-00/ff/80/7f), non-hardened paths of depth 0..8 (deep favoured) with selectors of 0..40 bytes incl. empty and 8-byte indexes; derive-then-publish must equal publish-then-derive for the whole path and at every level; non-trivial = depth >= 2; distinct by (seed,path)",
		pbt.Options{Sub: "derive", Checks: pbt.Per(3000, 500000)}, c28DeriveGen, c28DeriveExec)
	pbt.Run(t, "C28",
		"a key derived as above signs a message (empty, 32-byte, up to 300 bytes): must verify under the public key derived without the private key; must fail under another key (other seed, sibling, parent, child, unrelated path), under another message (random, one bit flipped, truncated, extended, empty) and with each of 1..12 single signature bits flipped",
		pbt.Options{Sub: "sign", Checks: pbt.Per(2500, 400000), MinClass: map[string]int{"sigbit in R": 100, "sigbit in S": 100}}, c28SignGen, c28SignExec)
	pbt.Run(t, "C28",
		"EncryptKey/DecryptKey blob with scrypt N=2,p=1 (0.5% LightScrypt parameters in the thorough tier): passwords empty, printable, unicode, raw bytes, longer than 64 bytes; right password returns the same key/alias/id and signs identically, the blob does not contain the scalar; a wrong password (random, one byte appended/dropped, case changed, empty, NUL prepended, one bit flipped) is refused; passwords with the same HMAC key block (trailing NUL padding, >64 bytes vs digest) count as the same password",
		pbt.Options{Sub: "keystore", Checks: pbt.Per(3000, 300000)}, c28KeystoreGen, c28KeystoreExec)
	pbt.Run(t, "C28",
		"file based key store in a temp dir (pseudohsm.New: LightScrypt): import a 12-word mnemonic under an alias (half of them with capitals or blanks around it, stored as sent), LoadChainKDKey/XSign with a path under right, wrong, changed and old passwords, refused ResetPassword/XDelete leave the key usable, reopened store signs identically",
		pbt.Options{Sub: "hsm", Checks: pbt.Per(24, 1200), MinClass: map[string]int{"alias-not-normalised": 2}}, c28HsmGen, c28HsmExec)
}
