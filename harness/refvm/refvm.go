// Package refvm is an independent reference model of the Bytom VM ("BVM",
// protocol/vm).  It shares no code with protocol/vm: values are immutable byte
// strings, numbers are math/big integers, hashes and ed25519 come from the
// standard library and golang.org/x/crypto.
//
// The model follows the documented / intended semantics:
//
//   - a number is a little-endian unsigned integer of at most 32 bytes (non-minimal
//     encodings with trailing zero bytes are accepted), whose value must be < 2^255;
//     results are encoded minimally (zero is the empty string);
//   - a boolean is false iff every byte is zero; true is 0x01, false is the empty string;
//   - every operand that an opcode interprets as a number is interpreted as the whole
//     number (never a truncation of it);
//   - LSHIFT/RSHIFT are shifts of a 256-bit register (amounts >= 256 give 0), then the
//     range rule applies (DESIGN 4.3);
//   - a CHECKPREDICATE child frame runs under the same expansion-reserved rule as its
//     parent (Options.ChildResetsExpansion switches to what the implementation does);
//   - cost table: every instruction has a base cost, some have a data dependent cost,
//     every push costs 8+len and every pop refunds 8+len ("standard memory cost"),
//     either immediately or deferred to the end of the instruction.
//
// A failing step reports the *set* of all failure causes that apply to its input
// (DESIGN 4.2) instead of the first one noticed.
package refvm

import (
	"bytes"
	"crypto/ed25519"
	"crypto/sha256"
	"encoding/binary"
	"math"
	"math/big"
	"sort"

	"golang.org/x/crypto/ripemd160"
	"golang.org/x/crypto/sha3"
)

// Class is a failure class.
type Class string

const (
	Underflow    Class = "data-stack-underflow"
	AltUnderflow Class = "alt-stack-underflow"
	BadValue     Class = "bad-value"
	Range        Class = "range"
	DivZero      Class = "division-by-zero"
	VerifyFailed Class = "verify-failed"
	RunLimit     Class = "run-limit"
	Disallowed   Class = "disallowed-opcode"
	NoContext    Class = "context"
	Return       Class = "return"
	ShortProgram Class = "short-program"
	Overflow     Class = "program-size-overflow"
	FalseResult  Class = "false-result"
	// Panic is never admissible under the intended semantics; it only occurs in
	// the Truncate64 model of the implementation (a recovered runtime panic).
	Panic       Class = "unexpected(recovered panic)"
	Unsupported Class = "unsupported-vm"
)

// Opcode values (copied by value from the documented table).
const (
	OpFalse          = 0x00
	OpPushdata1      = 0x4c
	OpPushdata2      = 0x4d
	OpPushdata4      = 0x4e
	Op1              = 0x51
	Op16             = 0x60
	OpNop            = 0x61
	OpJump           = 0x63
	OpJumpIf         = 0x64
	OpVerify         = 0x69
	OpFail           = 0x6a
	OpToAltStack     = 0x6b
	OpFromAltStack   = 0x6c
	Op2Drop          = 0x6d
	Op2Dup           = 0x6e
	Op3Dup           = 0x6f
	Op2Over          = 0x70
	Op2Rot           = 0x71
	Op2Swap          = 0x72
	OpIfDup          = 0x73
	OpDepth          = 0x74
	OpDrop           = 0x75
	OpDup            = 0x76
	OpNip            = 0x77
	OpOver           = 0x78
	OpPick           = 0x79
	OpRoll           = 0x7a
	OpRot            = 0x7b
	OpSwap           = 0x7c
	OpTuck           = 0x7d
	OpCat            = 0x7e
	OpSubstr         = 0x7f
	OpLeft           = 0x80
	OpRight          = 0x81
	OpSize           = 0x82
	OpInvert         = 0x83
	OpAnd            = 0x84
	OpOr             = 0x85
	OpXor            = 0x86
	OpEqual          = 0x87
	OpEqualVerify    = 0x88
	OpCatPushdata    = 0x89
	Op1Add           = 0x8b
	Op1Sub           = 0x8c
	Op2Mul           = 0x8d
	Op2Div           = 0x8e
	OpNot            = 0x91
	Op0NotEqual      = 0x92
	OpAdd            = 0x93
	OpSub            = 0x94
	OpMul            = 0x95
	OpDiv            = 0x96
	OpMod            = 0x97
	OpLshift         = 0x98
	OpRshift         = 0x99
	OpBoolAnd        = 0x9a
	OpBoolOr         = 0x9b
	OpNumEqual       = 0x9c
	OpNumEqualVerify = 0x9d
	OpNumNotEqual    = 0x9e
	OpLessThan       = 0x9f
	OpGreaterThan    = 0xa0
	OpLessOrEqual    = 0xa1
	OpGreaterOrEqual = 0xa2
	OpMin            = 0xa3
	OpMax            = 0xa4
	OpWithin         = 0xa5
	OpSha256         = 0xa8
	OpSha3           = 0xaa
	OpHash160        = 0xab
	OpCheckSig       = 0xac
	OpCheckMultiSig  = 0xad
	OpTxSigHash      = 0xae
	OpCheckPredicate = 0xc0
	OpCheckOutput    = 0xc1
	OpAsset          = 0xc2
	OpAmount         = 0xc3
	OpProgram        = 0xc4
	OpIndex          = 0xc9
	OpEntryID        = 0xca
	OpOutputID       = 0xcb
	OpBlockHeight    = 0xcd
)

var defined [256]bool

func init() {
	for i := 0; i <= 0x4e; i++ { // FALSE, DATA_1..75, PUSHDATA1/2/4
		defined[i] = true
	}
	for i := Op1; i <= Op16; i++ {
		defined[i] = true
	}
	for _, op := range []int{OpNop, OpJump, OpJumpIf, OpVerify, OpFail, OpCatPushdata, OpSha256, OpSha3, OpHash160,
		OpCheckSig, OpCheckMultiSig, OpTxSigHash, OpCheckPredicate, OpCheckOutput, OpAsset, OpAmount, OpProgram,
		OpIndex, OpEntryID, OpOutputID, OpBlockHeight} {
		defined[op] = true
	}
	for i := OpToAltStack; i <= OpEqualVerify; i++ {
		defined[i] = true
	}
	for i := Op1Add; i <= Op2Div; i++ {
		defined[i] = true
	}
	for i := OpNot; i <= OpWithin; i++ {
		defined[i] = true
	}
}

// IsExpansion reports whether the opcode byte is reserved for expansion (undefined in VM version 1).
func IsExpansion(op byte) bool { return !defined[op] }

// Context is the execution context (what the VM can see of the transaction).
type Context struct {
	VMVersion uint64
	Code      []byte
	StateData [][]byte
	Arguments [][]byte

	EntryID []byte

	TxVersion   *uint64
	BlockHeight *uint64

	AssetID       *[]byte
	Amount        *uint64
	DestPos       *uint64
	SpentOutputID *[]byte

	TxSigHash func() []byte
	// CheckOutput returns the answer, or a non-empty failure class.
	CheckOutput func(index uint64, amount uint64, assetID []byte, vmVersion uint64, code []byte, state [][]byte, expansion bool) (bool, Class)
}

// Options tune the model.
type Options struct {
	// ChildResetsExpansion: a CHECKPREDICATE child frame treats expansion opcodes as
	// NOPs even when the parent runs expansion-reserved (what protocol/vm does).
	// Default (false): the child inherits the rule.
	ChildResetsExpansion bool
	// Truncate64 models the implementation's handling of index-like operands:
	// PICK/ROLL take the operand modulo 2^64 as a signed 64-bit integer (a
	// non-positive offset is an index panic for PICK, a bad value for ROLL) and
	// CHECKOUTPUT passes index and vm version modulo 2^64.
	Truncate64 bool
	// Alias models the implementation's memory behaviour instead of value
	// semantics: stack items are Go slices shared exactly as protocol/vm shares
	// them (arguments, state, program and context fields are the caller's
	// slices; DUP-like ops share; LEFT/RIGHT/SUBSTR sub-slice; CAT/CATPUSHDATA
	// append into the first operand's backing array when it has spare capacity;
	// every "true" result is one shared one-byte slice).  The caller's buffers
	// in Context are mutated accordingly.
	Alias bool
	// MaxSteps bounds the simulation (0 = 5,000,000).
	MaxSteps int
	// MaxWork bounds the total number of stack items recorded in step snapshots
	// (a loop that grows the stack costs quadratic work); 0 = 50,000,000.
	MaxWork int
}

// Step is one executed instruction.
type Step struct {
	Depth     int
	PC        uint32
	Op        byte
	Data      []byte // immediate data of the instruction
	Limit     int64  // run limit before the step
	OK        bool
	Faults    []Class  // when !OK: all causes that apply
	Expansion bool     // expansion opcode (NOP or disallowed)
	Stack     [][]byte // data stack of the executing frame after the step, bottom first (when OK)
	Alt       [][]byte // alt stack after the step (when OK)
	After     int64    // run limit after the step (when OK)

	// annotations for generators / non-triviality rules
	Pops           int   // refunding pops performed
	BackJump       bool  // control went to an address <= PC
	NPubKeys       int64 // CHECKMULTISIG: number of public keys (-1 otherwise / unknown)
	AliasedSplice  bool  // splice op on an item whose bytes are shared with another live item or a caller buffer
	Wide64         bool  // PICK/ROLL/CHECKOUTPUT received an index-like operand that does not fit 63/64 bits
	ChildExpansion bool  // inside a CHECKPREDICATE child of an expansion-reserved run: an expansion opcode or CHECKOUTPUT
	ChildRan       bool  // CHECKPREDICATE that started a child frame
	ChildAllGas    bool  // ... with limit operand 0 ("all remaining")
	ChildUnpaid    bool  // ... whose child ran out of gas settling the deferred cost of items it had already pushed
}

// Event is one element of the expected execution trace.
type Event struct {
	Post bool // false: the instruction is about to run; true: it completed (never emitted for expansion opcodes)
	Step *Step
}

// Result of a run.
type Result struct {
	OK             bool
	Faults         []Class // empty iff OK
	Completed      bool    // every instruction ran (OK, or only the final result was false)
	GasLeft        int64   // valid when Completed
	Steps          []*Step
	Events         []Event
	Need           int64 // smallest limit for which no run-limit check on this path fails (valid when no RunLimit fault occurred)
	LimitDependent bool  // a child frame was given "all remaining gas": the path depends on the limit
	Truncated      bool  // MaxSteps reached (result meaningless)
	TruePoisoned   bool  // Alias mode: the shared "true" byte string no longer reads 01 at the end of the run
}

// Has reports whether the fault set contains c.
func (r *Result) Has(c Class) bool {
	for _, f := range r.Faults {
		if f == c {
			return true
		}
	}
	return false
}

var (
	two255 = new(big.Int).Lsh(big.NewInt(1), 255)
	two256 = new(big.Int).Lsh(big.NewInt(1), 256)
	maxI64 = big.NewInt(math.MaxInt64)
	maxU64 = new(big.Int).SetUint64(math.MaxUint64)
)

// DecodeNum interprets b as a VM number.
func DecodeNum(b []byte) (*big.Int, Class) {
	if len(b) > 32 {
		return nil, BadValue
	}
	be := make([]byte, len(b))
	for i := range b {
		be[len(b)-1-i] = b[i]
	}
	n := new(big.Int).SetBytes(be)
	if n.Cmp(two255) >= 0 {
		return nil, Range
	}
	return n, ""
}

// EncodeNum is the minimal little-endian encoding (zero = empty string).
func EncodeNum(n *big.Int) []byte {
	be := n.Bytes()
	le := make([]byte, len(be))
	for i := range be {
		le[len(be)-1-i] = be[i]
	}
	return le
}

// AsBool is the boolean interpretation of a byte string.
func AsBool(b []byte) bool {
	for _, c := range b {
		if c != 0 {
			return true
		}
	}
	return false
}

// EncodeBool encodes a boolean.
func EncodeBool(v bool) []byte {
	if v {
		return []byte{1}
	}
	return []byte{}
}

// PushData is the shortest instruction that pushes b.
func PushData(b []byte) []byte {
	n := len(b)
	var out []byte
	switch {
	case n == 0:
		return []byte{OpFalse}
	case n <= 75:
		out = []byte{byte(n)}
	case n < 1<<8:
		out = []byte{OpPushdata1, byte(n)}
	case n < 1<<16:
		out = []byte{OpPushdata2, 0, 0}
		binary.LittleEndian.PutUint16(out[1:], uint16(n))
	default:
		out = []byte{OpPushdata4, 0, 0, 0, 0}
		binary.LittleEndian.PutUint32(out[1:], uint32(n))
	}
	return append(out, b...)
}

// PushNum is the shortest instruction pushing the number n (n < 2^255).
func PushNum(n *big.Int) []byte {
	if n.Sign() > 0 && n.Cmp(big.NewInt(16)) <= 0 {
		return []byte{byte(Op1 + n.Int64() - 1)}
	}
	return PushData(EncodeNum(n))
}

// StackCost is the memory cost of a stack.
func StackCost(st [][]byte) int64 {
	c := int64(8 * len(st))
	for _, it := range st {
		c += int64(len(it))
	}
	return c
}

// Instr is a parsed instruction.
type Instr struct {
	Op   byte
	Len  uint32
	Data []byte
}

// Parse decodes the instruction at pc (pc < len(prog)).  A non-empty class list means the program is malformed there.
func Parse(prog []byte, pc uint32) (Instr, []Class) {
	l := uint64(len(prog))
	p := uint64(pc)
	if p >= l {
		return Instr{}, []Class{ShortProgram}
	}
	op := prog[pc]
	ins := Instr{Op: op, Len: 1}
	need := func(hdr, n uint64) (Instr, []Class) { // hdr bytes after the opcode, then n data bytes
		total := 1 + hdr + n
		if p+total > l {
			if total > math.MaxUint32 || p+total > math.MaxUint32 {
				return ins, []Class{ShortProgram, Overflow}
			}
			return ins, []Class{ShortProgram}
		}
		ins.Len = uint32(total)
		ins.Data = prog[p+1+hdr : p+total]
		return ins, nil
	}
	switch {
	case op >= Op1 && op <= Op16:
		ins.Data = []byte{op - Op1 + 1}
		return ins, nil
	case op >= 1 && op <= 75:
		return need(0, uint64(op))
	case op == OpPushdata1:
		if p+2 > l {
			return ins, []Class{ShortProgram}
		}
		return need(1, uint64(prog[pc+1]))
	case op == OpPushdata2:
		if p+3 > l {
			return ins, []Class{ShortProgram}
		}
		return need(2, uint64(binary.LittleEndian.Uint16(prog[pc+1:])))
	case op == OpPushdata4:
		if p+5 > l {
			return ins, []Class{ShortProgram}
		}
		return need(4, uint64(binary.LittleEndian.Uint32(prog[pc+1:])))
	case op == OpJump || op == OpJumpIf:
		return need(0, 4)
	}
	return ins, nil
}

// ---------------------------------------------------------------------------

type item struct {
	b  []byte
	id int // identity of the backing bytes (bookkeeping for AliasedSplice only; no semantic effect)
}

type machine struct {
	ctx     *Context
	opt     Options
	res     *Result
	nextID  int
	callerN int // ids below this belong to caller-visible buffers
	frames  []*frame
	limit0  int64
	steps   int
	max     int
	work    int
	maxWork int

	reserved0 bool   // the top-level frame runs expansion-reserved
	trueBytes []byte // Alias mode: the one shared "true" value
	trueID    int
	panicked  bool
}

type frame struct {
	m        *machine
	prog     []byte
	pc, next uint32
	limit    int64
	deferred int64
	data     []item
	alt      []item
	depth    int
	reserved bool
	faults   map[Class]bool
	st       *Step
	snap     *failState // state at the first fault of the current step
	// deferredFail: the frame ran out of gas when the deferred costs of a finished instruction were settled
	deferredFail bool
}

// failState is what a frame looks like at the moment its first fault is noticed.
// A failed child frame hands its remaining run limit and the cost of its stacks
// back to the parent, so the order in which an instruction pops, charges and
// checks is observable through gas; the model follows the natural order (operands
// from the top of the stack down, each validated when popped; base cost first,
// data dependent costs as soon as the operand they depend on is known).
type failState struct {
	limit     int64
	data, alt []item
}

func (m *machine) fresh() int { m.nextID++; return m.nextID }

// clone is an independent copy with no spare capacity.
func clone(b []byte) []byte {
	out := make([]byte, len(b))
	copy(out, b)
	return out
}

// own returns what a value-semantics machine keeps of a caller's or another
// item's bytes (a copy); the Alias model keeps the slice itself.
func (m *machine) own(b []byte) []byte {
	if m.opt.Alias {
		return b
	}
	return clone(b)
}

func (m *machine) snapshot(st []item) [][]byte {
	out := make([][]byte, len(st))
	for i, it := range st {
		if m.opt.Alias { // bytes may change later
			out[i] = clone(it.b)
		} else {
			out[i] = it.b
		}
	}
	return out
}

func itemsCost(st []item) int64 {
	c := int64(8 * len(st))
	for _, it := range st {
		c += int64(len(it.b))
	}
	return c
}

func sortedClasses(m map[Class]bool) []Class {
	out := make([]Class, 0, len(m))
	for c := range m {
		out = append(out, c)
	}
	sort.Slice(out, func(i, j int) bool { return out[i] < out[j] })
	return out
}

// Run executes the context's program with the given gas limit.
func Run(ctx *Context, gasLimit int64, opt Options) *Result {
	res := &Result{}
	if ctx.VMVersion != 1 {
		res.Faults = []Class{Unsupported}
		return res
	}
	m := &machine{ctx: ctx, opt: opt, res: res, limit0: gasLimit, max: opt.MaxSteps}
	if m.max == 0 {
		m.max = 5000000
	}
	if m.maxWork = opt.MaxWork; m.maxWork == 0 {
		m.maxWork = 50000000
	}
	f := &frame{m: m, prog: ctx.Code, limit: gasLimit, faults: map[Class]bool{},
		reserved: ctx.TxVersion != nil && *ctx.TxVersion == 1}
	m.frames = []*frame{f}
	// ids of caller-visible buffers: 1 = program, then state data, arguments, context fields
	m.nextID = 1
	f.st = &Step{} // scratch for pop counters during setup
	for _, s := range ctx.StateData {
		f.apply(8 + int64(len(s)))
		f.alt = append(f.alt, item{m.own(s), m.fresh()})
	}
	for _, a := range ctx.Arguments {
		f.apply(8 + int64(len(a)))
		f.data = append(f.data, item{m.own(a), m.fresh()})
	}
	m.nextID += 8 // context fields: entry id, asset id, output id, sighash; the shared "true"
	m.callerN = m.nextID + 1
	m.trueID = m.callerN - 5
	m.trueBytes = []byte{1}
	m.reserved0 = f.reserved
	if f.bad() {
		res.Faults = sortedClasses(f.faults)
		return res
	}
	ok := f.run()
	res.TruePoisoned = m.trueBytes[0] != 1
	if res.Truncated {
		return res
	}
	if m.panicked {
		res.Faults = []Class{Panic}
		return res
	}
	if !ok {
		res.Faults = sortedClasses(f.faults)
		return res
	}
	res.Completed = true
	res.GasLeft = f.limit
	if len(f.data) == 0 || !AsBool(f.data[len(f.data)-1].b) {
		res.Faults = []Class{FalseResult}
		return res
	}
	res.OK = true
	return res
}

// run executes the frame's program; false = the frame failed (f.faults holds the causes).
func (f *frame) run() bool {
	m := f.m
	for uint64(f.pc) < uint64(len(f.prog)) {
		if m.steps >= m.max || m.work > m.maxWork {
			m.res.Truncated = true
			return false
		}
		m.steps++
		m.work += len(f.data) + len(f.alt)
		f.faults = map[Class]bool{}
		f.snap = nil
		ins, bad := Parse(f.prog, f.pc)
		if bad != nil {
			for _, c := range bad {
				f.fault(c)
			}
			return false
		}
		st := &Step{Depth: f.depth, PC: f.pc, Op: ins.Op, Data: clone(ins.Data), Limit: f.limit, NPubKeys: -1}
		if f.depth > 0 && m.reserved0 && (IsExpansion(ins.Op) || ins.Op == OpCheckOutput) {
			st.ChildExpansion = true
		}
		f.st = st
		m.res.Steps = append(m.res.Steps, st)
		m.res.Events = append(m.res.Events, Event{Step: st})
		f.next = f.pc + ins.Len
		if IsExpansion(ins.Op) {
			st.Expansion = true
			if f.reserved {
				f.fault(Disallowed)
			} else {
				f.apply(1)
			}
		} else {
			f.deferred = 0
			f.exec(ins)
			if !f.bad() {
				f.apply(f.deferred)
				if f.bad() && f.deferred > 0 {
					// the instruction's pushes are on the stack, their (deferred) cost could not be paid
					f.deferredFail = true
				}
			}
		}
		if f.bad() {
			st.Faults = sortedClasses(f.faults)
			// the frame stays as it was when the first fault was noticed
			f.limit, f.data, f.alt = f.snap.limit, f.snap.data, f.snap.alt
			return false
		}
		if f.next <= f.pc {
			st.BackJump = true
		}
		f.pc = f.next
		st.OK = true
		st.Stack = m.snapshot(f.data)
		st.Alt = m.snapshot(f.alt)
		st.After = f.limit
		if !st.Expansion {
			m.res.Events = append(m.res.Events, Event{Post: true, Step: st})
		}
	}
	return true
}

func (f *frame) fault(c Class) {
	if len(f.faults) == 0 {
		f.snap = &failState{limit: f.limit, data: append([]item{}, f.data...), alt: append([]item{}, f.alt...)}
	}
	f.faults[c] = true
}
func (f *frame) bad() bool { return len(f.faults) > 0 }

// apply charges n now; a charge larger than what is left is the run-limit failure.
func (f *frame) apply(n int64) {
	if f.depth == 0 && n > 0 {
		if need := f.m.limit0 - f.limit + n; need > f.m.res.Need {
			f.m.res.Need = need
		}
	}
	if n > f.limit {
		f.limit = 0
		f.fault(RunLimit)
		return
	}
	f.limit -= n
}

func (f *frame) pop(deferred bool) (item, bool) {
	if len(f.data) == 0 {
		f.fault(Underflow)
		return item{}, false
	}
	it := f.data[len(f.data)-1]
	f.data = f.data[:len(f.data)-1]
	c := 8 + int64(len(it.b))
	if deferred {
		f.deferred -= c
	} else {
		f.limit += c
	}
	f.st.Pops++
	return it, true
}

func (f *frame) popNum(deferred bool) (*big.Int, bool) {
	it, ok := f.pop(deferred)
	if !ok {
		return nil, false
	}
	n, c := DecodeNum(it.b)
	if c != "" {
		f.fault(c)
		return nil, false
	}
	return n, true
}

// popI64 pops a number that must fit a signed 64-bit integer (sizes, counts, limits).
func (f *frame) popI64(deferred bool) (int64, bool) {
	n, ok := f.popNum(deferred)
	if !ok {
		return 0, false
	}
	if n.Cmp(maxI64) > 0 {
		f.fault(BadValue)
		return 0, false
	}
	return n.Int64(), true
}

func (f *frame) push(b []byte, id int, deferred bool) {
	c := 8 + int64(len(b))
	if deferred {
		f.deferred += c
	} else {
		f.apply(c)
	}
	f.data = append(f.data, item{b, id})
}

func (f *frame) pushNew(b []byte, deferred bool) { f.push(b, f.m.fresh(), deferred) }

func (f *frame) pushNum(n *big.Int, deferred bool) {
	if n.Sign() < 0 || n.Cmp(two255) >= 0 {
		f.fault(Range)
		return
	}
	f.pushNew(EncodeNum(n), deferred)
}

func (f *frame) pushBool(v bool, deferred bool) {
	if v { // every true result is "the" true value: splicing it concerns every later true
		if f.m.opt.Alias {
			f.push(f.m.trueBytes, f.m.trueID, deferred)
		} else {
			f.push([]byte{1}, f.m.trueID, deferred)
		}
		return
	}
	f.pushNew([]byte{}, deferred)
}

// need reports (and records as underflow) whether the data stack holds n items.
func (f *frame) need(n int) bool {
	if len(f.data) < n {
		f.fault(Underflow)
		return false
	}
	return true
}

// shared reports whether the bytes identified by id are visible elsewhere.
func (f *frame) shared(id int) bool {
	if id < f.m.callerN {
		return true
	}
	for _, fr := range f.m.frames {
		for _, it := range fr.data {
			if it.id == id {
				return true
			}
		}
		for _, it := range fr.alt {
			if it.id == id {
				return true
			}
		}
	}
	return false
}

func (f *frame) unary(cost int64, fn func(x *big.Int) *big.Int) {
	f.apply(cost)
	x, ok := f.popNum(true)
	if !ok {
		return
	}
	f.pushNum(fn(x), true)
}

func (f *frame) binary(cost int64, fn func(x, y *big.Int) *big.Int) {
	f.apply(cost)
	y, oky := f.popNum(true)
	x, okx := f.popNum(true)
	if !okx || !oky {
		return
	}
	r := fn(x, y)
	if r == nil {
		return
	}
	f.pushNum(r, true)
}

func (f *frame) compare(fn func(c int) bool) {
	f.apply(2)
	y, oky := f.popNum(true)
	x, okx := f.popNum(true)
	if !okx || !oky {
		return
	}
	f.pushBool(fn(x.Cmp(y)), true)
}

func (f *frame) exec(ins Instr) {
	op := ins.Op
	m := f.m
	ctx := m.ctx
	switch {
	case op == OpFalse:
		f.apply(1)
		f.pushNew([]byte{}, false)
		return
	case op <= OpPushdata4 || (op >= Op1 && op <= Op16):
		f.apply(1)
		f.pushNew(clone(ins.Data), false)
		return
	}
	switch op {
	case OpNop:
		f.apply(1)

	case OpJump:
		f.apply(1)
		f.next = binary.LittleEndian.Uint32(ins.Data)
	case OpJumpIf:
		f.apply(1)
		if c, ok := f.pop(true); ok && AsBool(c.b) {
			f.next = binary.LittleEndian.Uint32(ins.Data)
		}
	case OpVerify:
		f.apply(1)
		if c, ok := f.pop(true); ok && !AsBool(c.b) {
			f.fault(VerifyFailed)
		}
	case OpFail:
		f.apply(1)
		f.fault(Return)
	case OpCheckPredicate:
		f.checkPredicate()

	// ---- stack
	case OpToAltStack:
		f.apply(2)
		if f.need(1) {
			f.alt = append(f.alt, f.data[len(f.data)-1])
			f.data = f.data[:len(f.data)-1]
		}
	case OpFromAltStack:
		f.apply(2)
		if len(f.alt) == 0 {
			f.fault(AltUnderflow)
		} else {
			f.data = append(f.data, f.alt[len(f.alt)-1])
			f.alt = f.alt[:len(f.alt)-1]
		}
	case Op2Drop:
		f.apply(2)
		f.pop(false)
		f.pop(false)
	case Op2Dup, Op3Dup, OpDup:
		n := map[byte]int{OpDup: 1, Op2Dup: 2, Op3Dup: 3}[op]
		f.apply(int64(n))
		if f.need(n) {
			src := append([]item{}, f.data[len(f.data)-n:]...)
			for _, it := range src {
				f.push(it.b, it.id, false)
			}
		}
	case Op2Over:
		f.apply(2)
		if f.need(4) {
			src := append([]item{}, f.data[len(f.data)-4:len(f.data)-2]...)
			for _, it := range src {
				f.push(it.b, it.id, false)
			}
		}
	case Op2Rot:
		f.apply(2)
		if f.need(6) {
			f.rotate(6, 2)
		}
	case Op2Swap:
		f.apply(2)
		if f.need(4) {
			f.rotate(4, 2)
		}
	case OpIfDup:
		f.apply(1)
		if f.need(1) {
			if top := f.data[len(f.data)-1]; AsBool(top.b) {
				f.push(top.b, top.id, false)
			}
		}
	case OpDepth:
		f.apply(1)
		f.pushNum(big.NewInt(int64(len(f.data))), false)
	case OpDrop:
		f.apply(1)
		f.pop(false)
	case OpNip:
		f.apply(1)
		if f.need(1) {
			top := f.data[len(f.data)-1]
			f.data = f.data[:len(f.data)-1] // set aside, no accounting
			if _, ok := f.pop(false); ok {
				f.data = append(f.data, top)
			}
		}
	case OpOver:
		f.apply(1)
		if f.need(2) {
			it := f.data[len(f.data)-2]
			f.push(it.b, it.id, false)
		}
	case OpPick:
		f.apply(2)
		n, ok := f.popNum(false)
		if !ok {
			return
		}
		if n.Cmp(maxI64) >= 0 { // n+1 is not a representable count
			f.st.Wide64 = true
		}
		if m.opt.Truncate64 {
			v := int64(new(big.Int).And(n, maxU64).Uint64())
			switch off := v + 1; {
			case v == math.MaxInt64:
				f.fault(BadValue)
			case int64(len(f.data)) < off:
				f.fault(Underflow)
			case off < 1: // indexes past the end of the stack
				f.fault(Panic)
				m.panicked = true
			default:
				it := f.data[int64(len(f.data))-off]
				f.push(it.b, it.id, false)
			}
			return
		}
		if n.Cmp(maxI64) >= 0 {
			f.fault(BadValue)
		}
		if n.Cmp(big.NewInt(int64(len(f.data)))) >= 0 {
			f.fault(Underflow)
			return
		}
		it := f.data[len(f.data)-1-int(n.Int64())]
		f.push(it.b, it.id, false)
	case OpRoll:
		f.apply(2)
		n, ok := f.popNum(false)
		if !ok {
			return
		}
		if n.Cmp(maxI64) >= 0 {
			f.st.Wide64 = true
		}
		if m.opt.Truncate64 {
			v := int64(new(big.Int).And(n, maxU64).Uint64())
			switch off := v + 1; {
			case v == math.MaxInt64 || off < 1:
				f.fault(BadValue)
			case int64(len(f.data)) < off:
				f.fault(Underflow)
			default:
				f.rotate(int(off), 1)
			}
			return
		}
		if n.Cmp(maxI64) >= 0 {
			f.fault(BadValue)
		}
		if n.Cmp(big.NewInt(int64(len(f.data)))) >= 0 {
			f.fault(Underflow)
			return
		}
		f.rotate(int(n.Int64())+1, 1)
	case OpRot:
		f.apply(2)
		if f.need(3) {
			f.rotate(3, 1)
		}
	case OpSwap:
		f.apply(1)
		if f.need(2) {
			f.rotate(2, 1)
		}
	case OpTuck:
		f.apply(1)
		if f.need(2) {
			l := len(f.data)
			a, b := f.data[l-2], f.data[l-1]
			f.data = f.data[:l-2]
			f.push(b.b, b.id, false)
			f.data = append(f.data, a, b)
		}

	// ---- splice
	case OpCat, OpCatPushdata:
		f.apply(4)
		b, okb := f.pop(true)
		a, oka := f.pop(true)
		if !oka || !okb {
			return
		}
		f.st.AliasedSplice = f.shared(a.id)
		n := int64(len(a.b) + len(b.b))
		f.apply(n)
		f.deferred -= n
		tail := b.b
		if op == OpCatPushdata {
			tail = PushData(b.b)
		}
		// the result may live in a's backing array: it keeps a's identity for the aliasing bookkeeping
		f.push(append(m.own(a.b), tail...), a.id, true)
	case OpSubstr:
		f.apply(4)
		size, oks := f.popI64(true)
		if oks {
			f.apply(size)
			f.deferred -= size
		}
		off, oko := f.popI64(true)
		str, okstr := f.pop(true)
		if !oks || !oko || !okstr {
			return
		}
		f.st.AliasedSplice = f.shared(str.id)
		l := int64(len(str.b))
		if off > l || size > l-off {
			f.fault(BadValue)
			return
		}
		f.push(m.own(str.b[off:off+size]), str.id, true)
	case OpLeft, OpRight:
		f.apply(4)
		size, oks := f.popI64(true)
		if oks {
			f.apply(size)
			f.deferred -= size
		}
		str, okstr := f.pop(true)
		if !oks || !okstr {
			return
		}
		f.st.AliasedSplice = f.shared(str.id)
		l := int64(len(str.b))
		if size > l {
			f.fault(BadValue)
			return
		}
		if op == OpLeft {
			f.push(m.own(str.b[:size]), str.id, true)
		} else {
			f.push(m.own(str.b[l-size:]), str.id, true)
		}
	case OpSize:
		f.apply(1)
		if f.need(1) {
			f.pushNum(big.NewInt(int64(len(f.data[len(f.data)-1].b))), true)
		}

	// ---- bitwise
	case OpInvert:
		f.apply(1)
		if f.need(1) {
			top := f.data[len(f.data)-1]
			f.apply(int64(len(top.b)))
			inv := make([]byte, len(top.b))
			for i, c := range top.b {
				inv[i] = ^c
			}
			f.data[len(f.data)-1] = item{inv, m.fresh()}
		}
	case OpAnd, OpOr, OpXor, OpEqual, OpEqualVerify:
		f.apply(1)
		b, okb := f.pop(true)
		a, oka := f.pop(true)
		if !oka || !okb {
			return
		}
		short, long := a.b, b.b
		if len(short) > len(long) {
			short, long = long, short
		}
		switch op {
		case OpAnd: // the longer operand is truncated
			f.apply(int64(len(short)))
			r := make([]byte, len(short))
			for i := range r {
				r[i] = short[i] & long[i]
			}
			f.pushNew(r, true)
		case OpOr, OpXor: // the shorter operand is zero-extended
			f.apply(int64(len(long)))
			r := clone(long)
			for i := range short {
				if op == OpOr {
					r[i] |= short[i]
				} else {
					r[i] ^= short[i]
				}
			}
			f.pushNew(r, true)
		case OpEqual:
			f.apply(int64(len(short)))
			f.pushBool(bytes.Equal(a.b, b.b), true)
		case OpEqualVerify:
			f.apply(int64(len(short)))
			if !bytes.Equal(a.b, b.b) {
				f.fault(VerifyFailed)
			}
		}

	// ---- numeric
	case Op1Add:
		f.unary(2, func(x *big.Int) *big.Int { return new(big.Int).Add(x, big.NewInt(1)) })
	case Op1Sub:
		f.unary(2, func(x *big.Int) *big.Int { return new(big.Int).Sub(x, big.NewInt(1)) })
	case Op2Mul:
		f.unary(2, func(x *big.Int) *big.Int { return new(big.Int).Lsh(x, 1) })
	case Op2Div:
		f.unary(2, func(x *big.Int) *big.Int { return new(big.Int).Rsh(x, 1) })
	case OpNot, Op0NotEqual:
		f.apply(2)
		if x, ok := f.popNum(true); ok {
			f.pushBool((x.Sign() == 0) == (op == OpNot), true)
		}
	case OpAdd:
		f.binary(2, func(x, y *big.Int) *big.Int { return new(big.Int).Add(x, y) })
	case OpSub:
		f.binary(2, func(x, y *big.Int) *big.Int { return new(big.Int).Sub(x, y) })
	case OpMul:
		f.binary(8, func(x, y *big.Int) *big.Int { return new(big.Int).Mul(x, y) })
	case OpDiv, OpMod:
		f.binary(8, func(x, y *big.Int) *big.Int {
			if y.Sign() == 0 {
				f.fault(DivZero)
				return nil
			}
			if op == OpDiv {
				return new(big.Int).Quo(x, y)
			}
			return new(big.Int).Rem(x, y)
		})
	case OpLshift:
		f.binary(8, func(x, y *big.Int) *big.Int {
			if y.Cmp(big.NewInt(256)) >= 0 {
				return new(big.Int)
			}
			r := new(big.Int).Lsh(x, uint(y.Int64()))
			return r.Mod(r, two256) // 256-bit register (DESIGN 4.3); the range rule follows
		})
	case OpRshift:
		f.binary(8, func(x, y *big.Int) *big.Int {
			if y.Cmp(big.NewInt(256)) >= 0 {
				return new(big.Int)
			}
			return new(big.Int).Rsh(x, uint(y.Int64()))
		})
	case OpBoolAnd, OpBoolOr:
		f.apply(2)
		b, okb := f.pop(true)
		a, oka := f.pop(true)
		if oka && okb {
			if op == OpBoolAnd {
				f.pushBool(AsBool(a.b) && AsBool(b.b), true)
			} else {
				f.pushBool(AsBool(a.b) || AsBool(b.b), true)
			}
		}
	case OpNumEqual:
		f.compare(func(c int) bool { return c == 0 })
	case OpNumNotEqual:
		f.compare(func(c int) bool { return c != 0 })
	case OpLessThan:
		f.compare(func(c int) bool { return c < 0 })
	case OpGreaterThan:
		f.compare(func(c int) bool { return c > 0 })
	case OpLessOrEqual:
		f.compare(func(c int) bool { return c <= 0 })
	case OpGreaterOrEqual:
		f.compare(func(c int) bool { return c >= 0 })
	case OpNumEqualVerify:
		f.apply(2)
		y, oky := f.popNum(true)
		x, okx := f.popNum(true)
		if okx && oky && x.Cmp(y) != 0 {
			f.fault(VerifyFailed)
		}
	case OpMin:
		f.binary(2, func(x, y *big.Int) *big.Int {
			if x.Cmp(y) <= 0 {
				return x
			}
			return y
		})
	case OpMax:
		f.binary(2, func(x, y *big.Int) *big.Int {
			if x.Cmp(y) >= 0 {
				return x
			}
			return y
		})
	case OpWithin:
		f.apply(4)
		hi, ok1 := f.popNum(true)
		lo, ok2 := f.popNum(true)
		x, ok3 := f.popNum(true)
		if ok1 && ok2 && ok3 {
			f.pushBool(x.Cmp(lo) >= 0 && x.Cmp(hi) < 0, true)
		}

	// ---- crypto
	case OpSha256, OpSha3:
		x, ok := f.pop(false)
		if !ok {
			return
		}
		c := int64(len(x.b))
		if c < 64 {
			c = 64
		}
		f.apply(c)
		if op == OpSha256 {
			h := sha256.Sum256(x.b)
			f.pushNew(h[:], false)
		} else {
			h := sha3.Sum256(x.b)
			f.pushNew(h[:], false)
		}
	case OpHash160:
		x, ok := f.pop(false)
		if !ok {
			return
		}
		f.apply(int64(len(x.b)) + 64)
		h := ripemd160.New()
		h.Write(x.b)
		f.pushNew(h.Sum(nil), false)
	case OpCheckSig:
		f.apply(1024)
		pub, ok1 := f.pop(true)
		msg, ok2 := f.pop(true)
		sig, ok3 := f.pop(true)
		if ok2 && len(msg.b) != 32 {
			f.fault(BadValue)
		}
		if !ok1 || !ok2 || !ok3 || f.bad() {
			return
		}
		f.pushBool(verifySig(pub.b, msg.b, sig.b), true)
	case OpCheckMultiSig:
		f.checkMultiSig()
	case OpTxSigHash:
		f.apply(256)
		if ctx.TxSigHash == nil {
			f.fault(NoContext)
			return
		}
		f.push(m.own(ctx.TxSigHash()), m.callerN-1, false)

	// ---- introspection
	case OpCheckOutput:
		f.apply(16)
		code, ok1 := f.pop(true)
		// index, amount and vm version are 64-bit quantities: a number that does not fit is a bad value
		ver, ok2 := f.popNum(true)
		if ok2 && ver.Cmp(maxU64) > 0 {
			f.st.Wide64 = true
			if m.opt.Truncate64 {
				ver = new(big.Int).And(ver, maxU64)
			} else {
				f.fault(BadValue)
			}
		}
		asset, ok3 := f.pop(true)
		amount, ok4 := f.popNum(true)
		if ok4 && amount.Cmp(maxU64) > 0 {
			f.fault(BadValue)
		}
		index, ok5 := f.popNum(true)
		if ok5 && index.Cmp(maxU64) > 0 {
			f.st.Wide64 = true
			if m.opt.Truncate64 {
				index = new(big.Int).And(index, maxU64)
			} else {
				f.fault(BadValue)
			}
		}
		if ctx.CheckOutput == nil {
			f.fault(NoContext)
		}
		if !(ok1 && ok2 && ok3 && ok4 && ok5) || f.bad() {
			return
		}
		ok, cls := ctx.CheckOutput(index.Uint64(), amount.Uint64(), asset.b, ver.Uint64(), code.b, m.snapshot(f.alt), f.reserved)
		if cls != "" {
			f.fault(cls)
			return
		}
		f.pushBool(ok, true)
	case OpAsset:
		f.apply(1)
		if ctx.AssetID == nil {
			f.fault(NoContext)
			return
		}
		f.push(m.own(*ctx.AssetID), m.callerN-2, true)
	case OpAmount:
		f.apply(1)
		if ctx.Amount == nil {
			f.fault(NoContext)
			return
		}
		f.pushNum(new(big.Int).SetUint64(*ctx.Amount), true)
	case OpProgram:
		f.apply(1)
		f.push(m.own(ctx.Code), 1, true)
	case OpIndex:
		f.apply(1)
		if ctx.DestPos == nil {
			f.fault(NoContext)
			return
		}
		f.pushNum(new(big.Int).SetUint64(*ctx.DestPos), true)
	case OpEntryID:
		f.apply(1)
		f.push(m.own(ctx.EntryID), m.callerN-3, true)
	case OpOutputID:
		f.apply(1)
		if ctx.SpentOutputID == nil {
			f.fault(NoContext)
			return
		}
		f.push(m.own(*ctx.SpentOutputID), m.callerN-4, true)
	case OpBlockHeight:
		f.apply(1)
		if ctx.BlockHeight == nil {
			f.fault(NoContext)
			return
		}
		f.pushNum(new(big.Int).SetUint64(*ctx.BlockHeight), true)
	default:
		panic("refvm: opcode without semantics")
	}
}

// rotate moves the k items found n deep to the top: for the top n items
// x1..xn it produces x(k+1)..xn x1..xk.  No memory accounting.
func (f *frame) rotate(n, k int) {
	l := len(f.data)
	seg := append([]item{}, f.data[l-n:]...)
	out := append(seg[k:], seg[:k]...)
	copy(f.data[l-n:], out)
}

func verifySig(pub, msg, sig []byte) bool {
	if len(pub) != ed25519.PublicKeySize || len(sig) != ed25519.SignatureSize {
		return false
	}
	return ed25519.Verify(ed25519.PublicKey(pub), msg, sig)
}

func (f *frame) checkMultiSig() {
	npub, ok := f.popI64(true)
	if !ok {
		return
	}
	f.st.NPubKeys = npub
	if npub > math.MaxInt64/1024 {
		f.fault(BadValue)
		return
	}
	f.apply(npub * 1024)
	nsig, oks := f.popI64(true)
	if oks && (nsig > npub || (npub > 0 && nsig == 0)) {
		f.fault(BadValue)
	}
	popN := func(n int64) [][]byte {
		var out [][]byte
		for i := int64(0); i < n; i++ {
			it, ok := f.pop(true)
			if !ok {
				break
			}
			out = append(out, it.b)
		}
		return out
	}
	pubs := popN(npub)
	msg, okm := f.pop(true)
	if okm && len(msg.b) != 32 {
		f.fault(BadValue)
	}
	var sigs [][]byte
	if oks {
		sigs = popN(nsig)
	}
	if !oks || !okm || f.bad() {
		return
	}
	// signatures must appear in the same order as the keys that made them
	res := true
	for _, p := range pubs {
		if len(p) != ed25519.PublicKeySize {
			res = false
		}
	}
	if res {
		for len(sigs) > 0 && len(pubs) > 0 {
			if verifySig(pubs[0], msg.b, sigs[0]) {
				sigs = sigs[1:]
			}
			pubs = pubs[1:]
		}
		res = len(sigs) == 0
	}
	f.pushBool(res, true)
}

func (f *frame) checkPredicate() {
	f.apply(256)
	f.deferred += -256 + 64 // most of it is returned at the end
	limit, ok1 := f.popI64(true)
	pred, ok2 := f.pop(true)
	n, ok3 := f.popI64(true)
	if !ok1 || !ok2 || !ok3 {
		return
	}
	l := int64(len(f.data))
	if n == 0 {
		n = l
	}
	if n > l {
		f.fault(Underflow)
		return
	}
	if f.bad() {
		return
	}
	if limit == 0 {
		limit = f.limit
		f.st.ChildAllGas = true
		f.m.res.LimitDependent = true
	}
	f.apply(limit)
	if f.bad() {
		return
	}
	st := f.st
	st.ChildRan = true
	child := &frame{m: f.m, prog: pred.b, limit: limit, depth: f.depth + 1, faults: map[Class]bool{},
		data: append([]item{}, f.data[l-n:]...), reserved: f.reserved && !f.m.opt.ChildResetsExpansion}
	f.data = f.data[:l-n]
	f.m.frames = append(f.m.frames, child)
	ok := child.run()
	f.m.frames = f.m.frames[:len(f.m.frames)-1]
	f.st = st
	if f.m.res.Truncated {
		f.fault(RunLimit)
		return
	}
	if f.m.panicked { // a runtime panic unwinds every frame
		f.fault(Panic)
		return
	}
	if !ok && child.deferredFail {
		st.ChildUnpaid = true
	}
	f.deferred -= child.limit + itemsCost(child.data) + itemsCost(child.alt)
	f.pushBool(ok && len(child.data) > 0 && AsBool(child.data[len(child.data)-1].b), true)
}
