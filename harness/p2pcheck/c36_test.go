package p2pcheck

import (
	"encoding/base64"
	"fmt"
	"net/http"
	"net/netip"
	"net/url"
	"sort"
	"strings"
	"testing"
	"time"

	"github.com/bytom/bytom/accesstoken"
	dbm "github.com/bytom/bytom/database/leveldb"
	"github.com/bytom/bytom/net/http/authn"
	"pgregory.net/rapid"

	"verifharness/pbt"
)

// C36: RPC access control admits only authorised callers.
//
// A case is a history of token creations / deletions / clock advances (the shim ages every
// cache entry, which is what the passing of time does to the cache) interleaved with requests.
// Every request is built by hand and handed to authn.(*API).Authenticate (authentication
// enabled); "admitted" means the returned error is nil.
//
// Oracle (statement + DESIGN 4.6):
//   - a request whose origin is not a loopback address (including origins that are not an
//     address at all) and whose path is not a static dashboard/equity path is admitted only if
//     its basic-auth (user, password) is exactly (id, secret) of an issued token that is live,
//     or that was deleted at most 5 minutes of cache clock ago and had been presented
//     successfully while it was live (what a cache of successful look-ups can know);
//   - such a request to /backup-wallet, /restore-wallet or /list-access-tokens is refused;
//   - the exact credentials of a live token are admitted (from a loopback origin on any path,
//     from elsewhere on every path that is not one of the local-only ones or an extension of one).

var c36IDs = []string{"a", "b", "ab", "a0", "A", "_", "-", "a-b", "0f", "alice"}

var c36Origins = []string{
	// loopback
	"127.0.0.1:5000", "127.255.255.254:1", "127.8.9.10:65535", "[::1]:9888", "[0:0:0:0:0:0:0:1]:80", "[::ffff:127.0.0.1]:80",
	// other hosts
	"10.1.2.3:4000", "192.168.0.7:80", "8.8.8.8:53", "128.0.0.1:80", "126.255.255.255:80", "1.127.0.0:80", "0.0.0.0:80",
	"[::2]:80", "[fe80::1]:80", "[2001:db8::1]:443", "[::ffff:10.0.0.1]:80", "[::]:80", "[::ffff:128.0.0.1]:1",
	// not an address at all, and certainly not a loopback one
	"", "127.0.0.1.example.com:80", "127.example.com:80", "127.0.0.1x:80", "10.0.0.1:80:90", "1.2.3.4", "evil.example:80", "@:1", "[::1].example.com:80",
	// ambiguous (a loopback address in a form a server never produces): no privilege is asserted either way
	"127.0.0.1", "localhost:80", "[::1]", "::1",
}

var c36Ambiguous = map[string]bool{"127.0.0.1": true, "localhost:80": true, "[::1]": true, "::1": true}

var c36Paths = []string{
	// ordinary RPC endpoints
	"/create-account", "/list-accounts", "/build-transaction", "/get-block", "/net-info", "/create-access-token",
	"/delete-access-token", "/check-access-token", "/", "", "/error", "/websocket-subscribe",
	// local-only endpoints
	"/backup-wallet", "/restore-wallet", "/list-access-tokens", "/backup-wallet?x=1", "/%62ackup-wallet", "/list-access-tokens?id=a",
	// extensions of them (the code matches by prefix)
	"/backup-wallet/", "/backup-wallets", "/restore-wallet/x", "/list-access-tokens/", "/list-access-tokens-all", "/backup-wallet/../net-info", "/restore-wallet%2F",
	// near misses: ordinary paths
	"/backup-walle", "/list-access-token", "/Backup-Wallet", "//backup-wallet", "/x/backup-wallet", "/restore_wallet", "backup-wallet", "/dashboardx", "/equityfoo", "/dashboar",
	// static (outside the domain, DESIGN 4.6)
	"/dashboard", "/dashboard/", "/dashboard/index.html", "/equity", "/equity/x",
}

// the documented cache window (the statement's number, not the code's constant)
const c36Window = 5 * time.Minute

var c36LocalOnly = []string{"/backup-wallet", "/restore-wallet", "/list-access-tokens"}

var c36Ages = []int64{1000, 60000, 150000, 299000, 300000, 300001, 360000, 600000} // ms

var c36CredKinds = []string{"exact", "exact", "exact", "resplit", "resplit", "resplit", "wrong", "wrong", "other", "none", "fulltoken-user", "empty", "raw"}

var c36Muts = []string{"flip", "trunc", "prefix", "extend", "upper", "empty", "colon-tail", "space", "id-upper", "id-extend"}

var c36Raws = []string{"Basic", "Basic !!!", "Bearer %s", "basic %s", "Basic  %s", "Basic %s=", "Digest %s"}

type c36Cred struct {
	Kind string `json:"kind"`           // see c36CredKinds
	Tok  int    `json:"tok,omitempty"`  // token instance: 0 = the most recently created one (mod count)
	Tok2 int    `json:"tok2,omitempty"` // "other": the instance whose secret is used
	K    int    `json:"k,omitempty"`    // resplit: split position in id||secret (mod len+1); wrong: position of the mutation
	Mut  string `json:"mut,omitempty"`  // "wrong": which mutation; "raw": the header template
}

type c36Step struct {
	Op     string   `json:"op"`               // "create" | "delete" | "age" | "req"
	ID     string   `json:"id,omitempty"`     // create / delete: the id, or "" = the id of token instance Tok
	Tok    int      `json:"tok,omitempty"`    // create / delete with ID "": 0 = the most recently created instance (mod count)
	AgeMs  int64    `json:"age_ms,omitempty"` // age
	Origin string   `json:"origin,omitempty"` // req: RemoteAddr
	Path   string   `json:"path,omitempty"`   // req: request URI
	Cred   *c36Cred `json:"cred,omitempty"`   // req
}

type c36Case struct {
	Steps []c36Step `json:"steps"`
}

// ---- generator ----

var c36StepGen = rapid.Custom(func(t *rapid.T) c36Step {
	// NB rapid favours small values: requests are the bulk, then create, delete, age
	k := rapid.IntRange(0, 19).Draw(t, "kind")
	switch {
	case k < 11:
		c := c36Cred{Kind: rapid.SampledFrom(c36CredKinds).Draw(t, "cred"), Tok: rapid.IntRange(0, 5).Draw(t, "tok")}
		switch c.Kind {
		case "resplit":
			c.K = rapid.IntRange(0, 80).Draw(t, "k")
		case "wrong":
			c.Mut = rapid.SampledFrom(c36Muts).Draw(t, "mut")
			c.K = rapid.IntRange(0, 63).Draw(t, "k")
		case "other":
			c.Tok2 = rapid.IntRange(0, 5).Draw(t, "tok2")
		case "raw":
			c.Mut = rapid.SampledFrom(c36Raws).Draw(t, "raw")
		}
		return c36Step{Op: "req", Origin: rapid.SampledFrom(c36Origins).Draw(t, "origin"), Path: rapid.SampledFrom(c36Paths).Draw(t, "path"), Cred: &c}
	case k < 15:
		if rapid.IntRange(0, 3).Draw(t, "again") == 3 {
			return c36Step{Op: "create", Tok: rapid.IntRange(0, 5).Draw(t, "tok")} // an id that was used before
		}
		return c36Step{Op: "create", ID: rapid.SampledFrom(c36IDs).Draw(t, "id")}
	case k < 18:
		if rapid.IntRange(0, 3).Draw(t, "byid") == 3 {
			return c36Step{Op: "delete", ID: rapid.SampledFrom(c36IDs).Draw(t, "id")}
		}
		return c36Step{Op: "delete", Tok: rapid.IntRange(0, 5).Draw(t, "tok")}
	default:
		return c36Step{Op: "age", AgeMs: rapid.SampledFrom(c36Ages).Draw(t, "age")}
	}
})

var c36Chunk = rapid.SliceOfN(c36StepGen, 0, 10)

func c36Gen(t *rapid.T) c36Case {
	var c c36Case
	for i := 0; i < 4; i++ { // rapid slices are ~5 long on average: ~18 steps
		c.Steps = append(c.Steps, c36Chunk.Draw(t, "steps")...)
	}
	return c
}

// ---- classification, independent of the code under test ----

func c36OriginClass(origin string) string {
	if c36Ambiguous[origin] {
		return "ambiguous"
	}
	ap, err := netip.ParseAddrPort(origin)
	if err != nil || ap.Addr().Zone() != "" {
		return "not-an-address"
	}
	if ap.Addr().Unmap().IsLoopback() {
		return "loopback"
	}
	return "remote"
}

func c36ParsePath(p string) *url.URL {
	if strings.HasPrefix(p, "/") {
		if u, err := url.ParseRequestURI(p); err == nil {
			return u
		}
	}
	return &url.URL{Path: p}
}

func c36PathClass(path string) string {
	for _, l := range c36LocalOnly {
		if path == l {
			return "local-only"
		}
	}
	for _, l := range c36LocalOnly {
		if strings.HasPrefix(path, l) {
			return "local-only-extended"
		}
	}
	for _, s := range []string{"/dashboard", "/equity"} {
		if path == s || strings.HasPrefix(path, s+"/") {
			return "static"
		}
	}
	return "rpc"
}

// ---- executor ----

type c36Inst struct {
	id, secret string
	live       bool
	deletedAt  time.Duration // model clock
	used       bool          // exact credentials were presented while live
}

type c36Env struct {
	store *accesstoken.CredentialStore
}

func c36ValidID(id string) bool {
	for _, known := range c36IDs {
		if id == known {
			return true
		}
	}
	return false
}

func c36Index(insts []*c36Inst, a *c36Inst) int {
	for i, in := range insts {
		if in == a {
			return i
		}
	}
	return -1 // the phantom token that was never issued
}

func c36Mutate(id, secret, mut string, k int) (string, string) {
	switch mut {
	case "flip":
		if len(secret) == 0 {
			return id, "0"
		}
		i := k % len(secret)
		r := byte('0')
		if secret[i] == '0' {
			r = 'f'
		}
		return id, secret[:i] + string(r) + secret[i+1:]
	case "trunc":
		if len(secret) == 0 {
			return id, "0"
		}
		return id, secret[:len(secret)-1]
	case "prefix":
		return id, secret[:k%(len(secret)+1)]
	case "extend":
		return id, secret + "0"
	case "upper":
		return id, strings.ToUpper(secret)
	case "empty":
		return id, ""
	case "colon-tail":
		return id, secret + ":"
	case "space":
		return id, secret + " "
	case "id-upper":
		return strings.ToUpper(id), secret
	case "id-extend":
		return id + "0", secret
	}
	return id, secret + "?"
}

func (e *c36Env) exec(c c36Case, x *pbt.Ctx) error {
	// fresh state: no tokens, empty cache
	for _, id := range c36IDs {
		e.store.Delete(id)
	}
	api := authn.NewAPI(e.store, false)

	var insts []*c36Inst
	live := map[string]*c36Inst{}
	var clock time.Duration
	labels := map[string]bool{}
	nontrivial := false
	var trace []string

	pick := func(ref int) *c36Inst {
		if len(insts) == 0 || ref < 0 {
			return &c36Inst{id: "a", secret: strings.Repeat("0", 64)} // phantom: never issued
		}
		return insts[len(insts)-1-ref%len(insts)]
	}

	for i, st := range c.Steps {
		if (st.Op == "create" || st.Op == "delete") && st.ID == "" {
			st.ID = pick(st.Tok).id
		}
		switch st.Op {
		case "create":
			if !c36ValidID(st.ID) {
				continue
			}
			tok, err := e.store.Create(st.ID, "client")
			if live[st.ID] != nil {
				if err == nil {
					return fmt.Errorf("HARNESS: step %d: second Create(%q) succeeded while the id is live", i, st.ID)
				}
				labels["create-duplicate"] = true
				trace = append(trace, fmt.Sprintf("%d: create %q -> duplicate id", i, st.ID))
				continue
			}
			if err != nil || !strings.HasPrefix(tok.Token, st.ID+":") {
				return fmt.Errorf("HARNESS: step %d: Create(%q) = %v, %v", i, st.ID, tok, err)
			}
			in := &c36Inst{id: st.ID, secret: tok.Token[len(st.ID)+1:], live: true}
			recreated := false
			for _, o := range insts {
				recreated = recreated || o.id == st.ID
			}
			if recreated {
				labels["re-create-same-id"] = true
			}
			insts = append(insts, in)
			live[st.ID] = in
			labels["create"] = true
			trace = append(trace, fmt.Sprintf("%d: create %q -> token #%d", i, st.ID, len(insts)-1))
		case "delete":
			if !c36ValidID(st.ID) {
				continue
			}
			e.store.Delete(st.ID)
			if in := live[st.ID]; in != nil {
				in.live = false
				in.deletedAt = clock
				delete(live, st.ID)
				labels["delete-live"] = true
			} else {
				labels["delete-absent"] = true
			}
			trace = append(trace, fmt.Sprintf("%d: delete %q", i, st.ID))
		case "age":
			if st.AgeMs <= 0 || st.AgeMs > 3600000 {
				continue
			}
			d := time.Duration(st.AgeMs) * time.Millisecond
			api.VerifAgeCache(d)
			clock += d
			labels["age"] = true
			trace = append(trace, fmt.Sprintf("%d: %v pass", i, d))
		case "req":
			if st.Cred == nil {
				continue
			}
			req := &http.Request{Method: "POST", URL: c36ParsePath(st.Path), Header: http.Header{}, Host: "node:9888", RemoteAddr: st.Origin, Proto: "HTTP/1.1", ProtoMajor: 1, ProtoMinor: 1}
			a := pick(st.Cred.Tok)
			credDesc := st.Cred.Kind
			switch st.Cred.Kind {
			case "none":
			case "exact":
				req.SetBasicAuth(a.id, a.secret)
				credDesc = fmt.Sprintf("exact id and secret of token #%d (id %q)", c36Index(insts, a), a.id)
			case "resplit":
				cat := a.id + a.secret
				k := st.Cred.K % (len(cat) + 1)
				if k < 0 {
					k = 0
				}
				req.SetBasicAuth(cat[:k], cat[k:])
				switch {
				case k < len(a.id):
					credDesc = fmt.Sprintf("re-split of token %q: user = %q, password = %q + its secret", a.id, cat[:k], a.id[k:])
				case k == len(a.id):
					credDesc = fmt.Sprintf("exact (re-split of token %q at the id boundary)", a.id)
				default:
					credDesc = fmt.Sprintf("re-split of token %q: user = id + first %d characters of its secret, password = the other %d", a.id, k-len(a.id), len(cat)-k)
				}
			case "wrong":
				u, p := c36Mutate(a.id, a.secret, st.Cred.Mut, st.Cred.K)
				req.SetBasicAuth(u, p)
				credDesc = fmt.Sprintf("token %q with mutation %s(%d)", a.id, st.Cred.Mut, st.Cred.K)
			case "other":
				b := pick(st.Cred.Tok2)
				req.SetBasicAuth(a.id, b.secret)
				credDesc = fmt.Sprintf("id %q with the secret of token #%d (id %q)", a.id, c36Index(insts, b), b.id)
			case "fulltoken-user":
				req.SetBasicAuth(a.id+":"+a.secret, "")
				credDesc = fmt.Sprintf("user = whole token string %q:secret, empty password", a.id)
			case "empty":
				req.SetBasicAuth("", "")
			case "raw":
				h := st.Cred.Mut
				if strings.Contains(h, "%s") {
					h = fmt.Sprintf(h, base64.StdEncoding.EncodeToString([]byte(a.id+":"+a.secret)))
				}
				req.Header.Set("Authorization", h)
				credDesc = fmt.Sprintf("raw header %q (%%s = base64 of token %q)", st.Cred.Mut, a.id)
			default:
				continue
			}
			user, pw, hasCred := req.BasicAuth() // what HTTP basic auth carries

			// model judgement
			var match *c36Inst
			valid, cachedOK := false, false
			if hasCred {
				for _, in := range insts {
					if in.id == user && in.secret == pw {
						match = in
						if in.live {
							valid = true
						} else if in.used && clock-in.deletedAt <= c36Window {
							cachedOK = true
						}
					}
				}
			}
			oc, pc := c36OriginClass(st.Origin), c36PathClass(req.URL.Path)

			_, err := api.Authenticate(req)
			admitted := err == nil

			if valid {
				match.used = true // tokenAuthn runs for every request, whatever the origin and the path
			}
			labels["origin:"+oc] = true
			labels["path:"+pc] = true
			labels["cred:"+st.Cred.Kind] = true
			if st.Cred.Kind == "resplit" && !valid && len(insts) > 0 {
				labels["re-split-credential"] = true
				nontrivial = true
			}
			if match != nil && !match.live {
				nontrivial = true
				if cachedOK {
					labels["deleted-token-within-window"] = true
				} else {
					labels["deleted-token-expired-or-unused"] = true
				}
				if admitted && pc != "static" && (oc == "remote" || oc == "not-an-address") {
					labels["deleted-token-admitted-from-cache"] = true
				}
			}
			verdict := "refused"
			if admitted {
				verdict = "admitted"
			}
			// NB no secret material in messages: secrets are random, and rapid needs a failing case to
			// fail with the same message every time it is re-run.
			shape := "no basic-auth credentials"
			if hasCred {
				shape = fmt.Sprintf("user of %d and password of %d characters", len(user), len(pw))
			}
			trace = append(trace, fmt.Sprintf("%d: request from %q to %q, credentials: %s -> %s", i, st.Origin, st.Path, credDesc, verdict))
			fail := func(msg string) error {
				return fmt.Errorf("step %d: request from %q (%s) to %q (%s) with %s [%s] was %s: %s\nhistory:\n  %s",
					i, st.Origin, oc, st.Path, pc, shape, credDesc, verdict, msg, strings.Join(trace, "\n  "))
			}
			if pc == "static" {
				labels["outside-domain(static path)"] = true
				continue
			}
			nonLoopback := oc == "remote" || oc == "not-an-address"
			if nonLoopback {
				if pc == "local-only" && admitted {
					return fail("non-loopback requests to this endpoint must always be refused")
				}
				if admitted && !valid && !cachedOK {
					switch {
					case match != nil && !match.used:
						return fail("the credentials are those of a deleted token that was never presented while it was live")
					case match != nil:
						return fail(fmt.Sprintf("the token was deleted %v ago, outside the 5 minute cache window", clock-match.deletedAt))
					default:
						return fail("the credentials are not the (id, secret) of any issued token")
					}
				}
				if admitted {
					labels["non-loopback-admitted"] = true
				} else {
					labels["non-loopback-refused"] = true
				}
			}
			if valid && !admitted && (oc == "loopback" || pc == "rpc") {
				return fail("these are the exact credentials of a live token")
			}
			if valid && admitted {
				labels["valid-live-admitted"] = true
			}
		}
	}
	x.NonTrivial = nontrivial
	var ls []string
	for l := range labels {
		ls = append(ls, l)
	}
	sort.Strings(ls)
	for _, l := range ls {
		x.Class(l)
	}
	return nil
}

func TestC36(t *testing.T) {
	dir := t.TempDir()
	db := dbm.NewDB("c36tokens", "leveldb", dir)
	t.Cleanup(func() { db.Close() })
	env := &c36Env{store: accesstoken.NewStore(db)}
	pbt.Run(t, "C36",
		"histories of ~18 steps (create / delete / re-create of 10 token ids, clock advances of 1 s..10 min applied to the cache, requests) against a goleveldb credential store; requests = 33 origins (loopback v4/v6/mapped, other hosts, non-addresses) x 40 paths (RPC, the 3 local-only endpoints, their extensions and near misses, static) x credentials (exact, every re-split of id||secret, 10 mutations, another token's secret, none, empty, malformed headers); non-trivial = the history contains a re-split credential or a request with the credentials of a deleted token; distinct by the whole history",
		pbt.Options{Checks: pbt.Per(10000, 1200000), MinClass: map[string]int{"re-split-credential": 100, "deleted-token-within-window": 20, "path:local-only": 100}},
		c36Gen, env.exec)
}
