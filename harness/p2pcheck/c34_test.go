package p2pcheck

import (
	"fmt"
	"golang.org/x/crypto/sha3"
	"math/bits"
	"net"
	"sort"
	"strings"
	"sync"
	"testing"

	"github.com/bytom/bytom/p2p/discover/dht"
	"pgregory.net/rapid"

	"verifharness/pbt"
)

// C34: the DHT routing table keeps its invariants under any sequence of
// add / stuff / delete / deleteReplace / bump (= add of a node that is already an entry).
//
// Preconditions taken from the real callers (p2p/discover/dht/net.go):
//   - one *Node object per node ID (net.nodes interns them);
//   - add(n): any interned node, and a node carrying the local ID can arrive from the seed
//     database (refresh force-adds every seed; add() has its own "is self" guard);
//   - stuff(list): no production caller; it has its own "don't add self" guard, so self may be listed;
//   - delete(n): n enters the `unknown` state; the local node never runs through the state machine;
//   - deleteReplace(n): n was `contested`, which is only reachable from `known`, and entering
//     `known` always calls add(n) first.  So the operand was an operand of add earlier.

const (
	c34Slots   = 3  // buckets the population falls into
	c34PerSlot = 48 // candidate nodes per bucket (> bucketSize + the replacement list, so both overflow)
)

// log-distances of the three buckets of the population (top buckets: what random ids hit).
var c34Dist = [c34Slots]int{256, 255, 253}

type c34Node struct {
	Kind string `json:"kind"`          // "self" = the local node's own ID | "new" = next unused id of bucket slot B | "old" = Ref-th most recently introduced node (mod count)
	B    int    `json:"b,omitempty"`   // new: bucket slot 0..c34Slots-1
	Ref  int    `json:"ref,omitempty"` // old: 0 = the newest node used so far
}

type c34Op struct {
	Op  string    `json:"op"`            // "add" | "stuff" | "delete" | "replace"
	N   []c34Node `json:"n,omitempty"`   // operand(s): one for add/delete, a list for stuff
	Ref int       `json:"ref,omitempty"` // replace: Ref-th most recent (mod count) of the nodes add() was called with so far
}

type c34Case struct {
	Self int     `json:"self"` // which local identity (0..3)
	Ops  []c34Op `json:"ops"`
}

// ---- population: deterministic ids, chosen so that sha3-256(id) lies at the wanted distance ----

type c34Pop struct {
	self dht.NodeID
	ids  [c34Slots][]dht.NodeID
}

var (
	c34PopMu sync.Mutex
	c34Pops  = map[int]*c34Pop{}
)

// c34Logdist is an independent re-implementation of the log distance: 256 - leading zero bits of a XOR b.
func c34Logdist(a, b [32]byte) int {
	lz := 0
	for i := 0; i < 32; i++ {
		x := a[i] ^ b[i]
		if x == 0 {
			lz += 8
			continue
		}
		lz += bits.LeadingZeros8(x)
		break
	}
	return 256 - lz
}

func c34Population(self int) *c34Pop {
	c34PopMu.Lock()
	defer c34PopMu.Unlock()
	if p, ok := c34Pops[self]; ok {
		return p
	}
	p := &c34Pop{self: dht.NodeID(sha3.Sum256([]byte(fmt.Sprintf("c34-self-%d", self))))}
	selfSha := sha3.Sum256(p.self[:])
	missing := c34Slots * c34PerSlot
	for ctr := 0; missing > 0; ctr++ {
		id := dht.NodeID(sha3.Sum256([]byte(fmt.Sprintf("c34-node-%d-%d", self, ctr))))
		d := c34Logdist(selfSha, sha3.Sum256(id[:]))
		for s, want := range c34Dist {
			if d == want && len(p.ids[s]) < c34PerSlot {
				p.ids[s] = append(p.ids[s], id)
				missing--
			}
		}
	}
	c34Pops[self] = p
	return p
}

// ---- generator ----

// References are resolved modulo the number of nodes that exist (0 = the newest), so removing an
// operation while shrinking never invalidates the later ones.

func c34GenNode(t *rapid.T, allowSelf bool) c34Node {
	k := rapid.IntRange(0, 19).Draw(t, "nodekind")
	switch {
	case k < 12:
		// 70% / 20% / 10% over the three buckets: one bucket is hot and overflows
		w := rapid.IntRange(0, 9).Draw(t, "slot")
		b := 0
		if w >= 7 {
			b = 1
		}
		if w >= 9 {
			b = 2
		}
		return c34Node{Kind: "new", B: b}
	case k < 19 || !allowSelf:
		return c34Node{Kind: "old", Ref: rapid.IntRange(0, 47).Draw(t, "ref")}
	default:
		return c34Node{Kind: "self"}
	}
}

// c34GenOp draws one operation.  It is one rapid generator, and the lists are rapid slices, so
// that rapid can delete an operation as a unit while shrinking.
func c34GenOp(withStuff bool) *rapid.Generator[c34Op] {
	return rapid.Custom(func(t *rapid.T) c34Op {
		// NB rapid's integer draws favour small values and the maximum: about 70% add, 11% delete,
		// 14-18% deleteReplace, 4% stuff.
		k := rapid.IntRange(0, 59).Draw(t, "kind")
		switch {
		case k < 30:
			return c34Op{Op: "add", N: []c34Node{c34GenNode(t, true)}}
		case k < 42:
			return c34Op{Op: "delete", N: []c34Node{{Kind: "old", Ref: rapid.IntRange(0, 47).Draw(t, "ref")}}}
		case k < 57 || !withStuff:
			return c34Op{Op: "replace", Ref: rapid.IntRange(0, 47).Draw(t, "ref")}
		default:
			op := c34Op{Op: "stuff"}
			m := rapid.IntRange(1, 20).Draw(t, "m")
			for j := 0; j < m; j++ {
				op.N = append(op.N, c34GenNode(t, true))
			}
			return op
		}
	})
}

func c34GenWith(withStuff bool) func(t *rapid.T) c34Case {
	// rapid slices are 5 elements long on average whatever the maximum is, so a list is the
	// concatenation of 16 of them: about 70 operations on average, at most 192.
	chunk := rapid.SliceOfN(c34GenOp(withStuff), 0, 12)
	return func(t *rapid.T) c34Case {
		c := c34Case{Self: rapid.IntRange(0, 3).Draw(t, "self")}
		// in a third of the cases the hot bucket and its replacement list are filled first (32 nodes
		// and more), so that the rest of the list works on a table with nothing left to spare
		if rapid.IntRange(0, 2).Draw(t, "fillq") == 0 {
			for i := rapid.IntRange(30, 40).Draw(t, "fill"); i > 0; i-- {
				c.Ops = append(c.Ops, c34Op{Op: "add", N: []c34Node{{Kind: "new", B: 0}}})
			}
		}
		for i := 0; i < 16; i++ {
			c.Ops = append(c.Ops, chunk.Draw(t, "ops")...)
		}
		return c
	}
}

// ---- executor ----

func c34Short(id dht.NodeID) string { return fmt.Sprintf("%x", id[:4]) }

func c34DumpBucket(b dht.VerifBucketDump) string {
	var e, r []string
	for _, n := range b.Entries {
		e = append(e, c34Short(n.ID))
	}
	for _, n := range b.Replacements {
		r = append(r, c34Short(n.ID))
	}
	return fmt.Sprintf("bucket %d: entries[%d]=%s replacements[%d]=%s", b.Index, len(e), strings.Join(e, ","), len(r), strings.Join(r, ","))
}

// c34Invariants checks exactly what the statement lists.
func c34Invariants(tab *dht.Table, self dht.NodeID, distCache map[dht.NodeID]int) error {
	selfSha := sha3.Sum256(self[:])
	dist := func(id dht.NodeID) int { // independent of the table: sha3-256 from x/crypto, own log-distance
		d, ok := distCache[id]
		if !ok {
			d = c34Logdist(selfSha, sha3.Sum256(id[:]))
			distCache[id] = d
		}
		return d
	}
	total := 0
	for _, b := range tab.VerifBuckets() {
		total += len(b.Entries)
		if len(b.Entries) > dht.VerifBucketSize {
			return fmt.Errorf("bucket holds %d > %d entries; %s", len(b.Entries), dht.VerifBucketSize, c34DumpBucket(b))
		}
		seen := map[dht.NodeID]int{}
		for i, n := range b.Entries {
			if n == nil {
				return fmt.Errorf("nil entry at position %d; %s", i, c34DumpBucket(b))
			}
			if j, dup := seen[n.ID]; dup {
				return fmt.Errorf("node %s is entry %d and entry %d of the same bucket (entries not distinct); %s", c34Short(n.ID), j, i, c34DumpBucket(b))
			}
			seen[n.ID] = i
			if n.ID == self {
				return fmt.Errorf("the local node is an entry; %s", c34DumpBucket(b))
			}
			if d := tab.VerifBucketOf(n); d != b.Index {
				return fmt.Errorf("node %s is in bucket %d but the table's own distance function says %d", c34Short(n.ID), b.Index, d)
			}
			if d := dist(n.ID); d != b.Index {
				return fmt.Errorf("node %s is in bucket %d but log2(sha3(self) xor sha3(id)) = %d", c34Short(n.ID), b.Index, d)
			}
		}
	}
	if total != tab.VerifCount() {
		return fmt.Errorf("count = %d but the buckets hold %d entries", tab.VerifCount(), total)
	}
	return nil
}

func c34Exec(c c34Case, x *pbt.Ctx) error {
	if c.Self < 0 || c.Self > 3 {
		return nil
	}
	pop := c34Population(c.Self)
	addr := &net.UDPAddr{IP: net.IPv4(127, 0, 0, 1), Port: 30303}
	tab := dht.VerifNewTable(pop.self, addr)

	// interned nodes: one object per id, as Network.nodes does
	var used []*dht.Node // remote nodes in order of first use
	var nextNew [c34Slots]int
	selfNode := dht.NewNode(pop.self, addr.IP, uint16(addr.Port), uint16(addr.Port)) // a record carrying the local ID (e.g. from the seed database)
	node := func(r c34Node, allowSelf bool) *dht.Node {
		switch r.Kind {
		case "self":
			if allowSelf {
				return selfNode
			}
		case "new":
			if r.B >= 0 && r.B < c34Slots && nextNew[r.B] < c34PerSlot {
				k := nextNew[r.B]
				nextNew[r.B]++
				n := dht.NewNode(pop.ids[r.B][k], net.IPv4(10, 0, byte(r.B+1), byte(k+1)), 30000, 30000)
				used = append(used, n)
				return n
			}
			// population of that bucket exhausted: fall through to an old one
			if len(used) > 0 {
				return used[(r.B+7*len(used)/11)%len(used)]
			}
		case "old":
			if len(used) > 0 && r.Ref >= 0 {
				return used[len(used)-1-r.Ref%len(used)] // 0 = the most recently introduced node
			}
		}
		return nil
	}
	find := func(n *dht.Node) (b dht.VerifBucketDump, isEntry bool, replCount int) {
		for _, bb := range tab.VerifBuckets() {
			if bb.Index != tab.VerifBucketOf(n) {
				continue
			}
			b = bb
			for _, e := range bb.Entries {
				if e.ID == n.ID {
					isEntry = true
				}
			}
			for _, e := range bb.Replacements {
				if e.ID == n.ID {
					replCount++
				}
			}
		}
		return
	}

	labels := map[string]bool{}
	var added []*dht.Node // operands of add so far (first occurrence order), self excluded
	addedSet := map[dht.NodeID]bool{}
	overflowed, promotedAfterOverflow := false, false
	var trace []string
	distCache := map[dht.NodeID]int{}

	if err := c34Invariants(tab, pop.self, distCache); err != nil {
		return fmt.Errorf("fresh table: %v", err)
	}
	for i, op := range c.Ops {
		desc := ""
		switch op.Op {
		case "add":
			if len(op.N) != 1 {
				continue
			}
			n := node(op.N[0], true)
			if n == nil {
				continue
			}
			_, was, _ := find(n)
			contested := tab.VerifAdd(n)
			desc = "add(" + c34Short(n.ID) + ")"
			switch {
			case n.ID == pop.self:
				labels["add-self"] = true
				desc += " [the local id]"
			case was:
				labels["add-existing(bump)"] = true
			case contested != nil:
				labels["add-to-full-bucket"] = true
				desc += " [bucket full: parked in replacements]"
				overflowed = true
			default:
				labels["add-new"] = true
			}
			if n.ID != pop.self && !addedSet[n.ID] {
				addedSet[n.ID] = true
				added = append(added, n)
			}
		case "stuff":
			var list []*dht.Node
			var names []string
			for _, r := range op.N {
				if n := node(r, true); n != nil {
					list = append(list, n)
					names = append(names, c34Short(n.ID))
				}
			}
			tab.VerifStuff(list)
			desc = "stuff(" + strings.Join(names, ",") + ")"
			labels["stuff"] = true
		case "delete":
			if len(op.N) != 1 {
				continue
			}
			n := node(op.N[0], false) // callers never delete the local node
			if n == nil {
				continue
			}
			_, was, inRepl := find(n)
			tab.VerifDelete(n)
			desc = "delete(" + c34Short(n.ID) + ")"
			switch {
			case was:
				labels["delete-entry"] = true
			case inRepl > 0:
				labels["delete-replacement"] = true
			default:
				labels["delete-absent"] = true
			}
		case "replace":
			if len(added) == 0 || op.Ref < 0 {
				labels["replace-skipped(no node was added yet)"] = true
				continue
			}
			n := added[len(added)-1-op.Ref%len(added)]
			before, was, inRepl := find(n)
			tab.VerifDeleteReplace(n)
			after, _, _ := find(n)
			desc = "deleteReplace(" + c34Short(n.ID) + ")"
			if was {
				labels["replace-entry"] = true
			} else {
				labels["replace-non-entry"] = true
			}
			if len(after.Replacements) == len(before.Replacements)-inRepl-1 {
				labels["replacement-promoted"] = true
				desc += " [promotes " + c34Short(after.Entries[0].ID) + "]"
				if overflowed {
					promotedAfterOverflow = true
				}
			}
		default:
			continue
		}
		trace = append(trace, fmt.Sprintf("%d: %s", i, desc))
		if err := c34Invariants(tab, pop.self, distCache); err != nil {
			return fmt.Errorf("after op %d %s: %v\nresolved operations:\n  %s", i, desc, err, strings.Join(trace, "\n  "))
		}
	}

	x.NonTrivial = promotedAfterOverflow
	var ls []string
	for l := range labels {
		ls = append(ls, l)
	}
	sort.Strings(ls)
	for _, l := range ls {
		x.Class(l)
	}
	if promotedAfterOverflow {
		x.Class("overflow-then-promotion")
	}
	return nil
}

const c34Rule = "operation lists (about 70 ops on average, at most 192: add ~70%%, delete ~11%%, deleteReplace ~14-18%%%s) over 3 buckets x 48 node ids (in a third of the cases preceded by 30-40 fresh adds to the hot bucket, which fills the bucket and its replacement list) at log-distances 256/255/253 (70/20/10%% of fresh nodes) from one of 4 local identities; operands are a fresh node of a bucket, a node used before (by index), or the local id itself (add/stuff only: the only ops whose callers can meet it); one Node object per id; deleteReplace only on nodes add() was called with before (caller precondition); the statement's invariants are checked after every op; non-trivial = some add hit a full bucket and a later deleteReplace promoted a replacement; distinct by the whole op list"

func TestC34(t *testing.T) {
	// the operations production code performs (table.stuff has no caller in the repository)
	pbt.Run(t, "C34", fmt.Sprintf(c34Rule, ""),
		pbt.Options{Sub: "callers", Checks: pbt.Per(8000, 400000), MinClass: map[string]int{"overflow-then-promotion": 50}},
		c34GenWith(false), c34Exec)
	// plus bulk insertion
	pbt.Run(t, "C34", fmt.Sprintf(c34Rule, ", stuff of up to 20 nodes ~4%%"),
		pbt.Options{Sub: "all", Checks: pbt.Per(4000, 200000), MinClass: map[string]int{"stuff": 50}},
		c34GenWith(true), c34Exec)
}
