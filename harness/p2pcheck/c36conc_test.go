package p2pcheck

import (
	"fmt"
	"net/http"
	"strings"
	"sync"
	"sync/atomic"
	"testing"

	"pgregory.net/rapid"

	"github.com/bytom/bytom/accesstoken"
	dbm "github.com/bytom/bytom/database/leveldb"
	"github.com/bytom/bytom/net/http/authn"

	"verifharness/pbt"
)

// C36, sub-check "concurrent": many requests arrive at the same time, as they do at an RPC port.
// Several goroutines present the same credential pair concurrently, for pairs that are not an
// issued token's id and secret: a wrong secret for a live id, an id that was never issued, the
// pair of a token deleted before any request used it (so nothing is cached).  Other goroutines use
// a valid token at the same time.  No non-loopback request with an unauthorised pair may be
// admitted, in any interleaving; every request with the valid pair must be admitted.

type c36ConcCase struct {
	Kind    string `json:"kind"`    // wrong-secret, unknown-id, deleted-unused
	Workers int    `json:"workers"` // goroutines presenting the unauthorised pair (2..16)
	Valid   int    `json:"valid"`   // goroutines presenting a valid pair (0..3)
	Rounds  int    `json:"rounds"`  // fresh authenticator instances tried (each starts with an empty cache)
	Each    int    `json:"each"`    // requests per goroutine and round
}

func c36ConcGen(t *rapid.T) c36ConcCase {
	return c36ConcCase{Kind: rapid.SampledFrom([]string{"wrong-secret", "unknown-id", "deleted-unused"}).Draw(t, "kind"),
		Workers: rapid.IntRange(2, 16).Draw(t, "workers"), Valid: rapid.IntRange(0, 3).Draw(t, "valid"),
		Rounds: rapid.IntRange(5, 40).Draw(t, "rounds"), Each: rapid.IntRange(1, 8).Draw(t, "each")}
}

func (e *c36Env) execConc(c c36ConcCase, x *pbt.Ctx) error {
	if c.Workers < 1 || c.Workers > 32 || c.Valid < 0 || c.Valid > 8 || c.Rounds < 1 || c.Rounds > 200 || c.Each < 1 || c.Each > 50 {
		return nil
	}
	for _, id := range c36IDs {
		e.store.Delete(id)
	}
	good, err := e.store.Create("alice", "client")
	if err != nil {
		return fmt.Errorf("HARNESS: %v", err)
	}
	goodSecret := good.Token[len("alice:"):]
	badUser, badSecret := "alice", strings.Repeat("0", len(goodSecret))
	switch c.Kind {
	case "unknown-id":
		badUser = "mallory"
	case "deleted-unused":
		tok, err := e.store.Create("bob", "client")
		if err != nil {
			return fmt.Errorf("HARNESS: %v", err)
		}
		badUser, badSecret = "bob", tok.Token[len("bob:"):]
		e.store.Delete("bob")
	}
	request := func(user, pw string) *http.Request {
		req := &http.Request{Method: "POST", URL: c36ParsePath("/list-balances"), Header: http.Header{}, Host: "node:9888", RemoteAddr: "203.0.113.7:40000", Proto: "HTTP/1.1", ProtoMajor: 1, ProtoMinor: 1}
		req.SetBasicAuth(user, pw)
		return req
	}
	var admittedBad, refusedGood atomic.Int64
	for r := 0; r < c.Rounds; r++ {
		api := authn.NewAPI(e.store, false)
		var wg sync.WaitGroup
		start := make(chan struct{})
		for g := 0; g < c.Workers+c.Valid; g++ {
			wg.Add(1)
			go func(g int) {
				defer wg.Done()
				<-start
				for k := 0; k < c.Each; k++ {
					if g < c.Workers {
						if _, err := api.Authenticate(request(badUser, badSecret)); err == nil {
							admittedBad.Add(1)
						}
					} else if _, err := api.Authenticate(request("alice", goodSecret)); err != nil {
						refusedGood.Add(1)
					}
				}
			}(g)
		}
		close(start)
		wg.Wait()
		if n := admittedBad.Load(); n > 0 {
			return fmt.Errorf("%d concurrent requests from a non-loopback address with credentials that are not an issued token's id and secret (%s) were presented %d times each, round %d: %d were admitted", c.Workers, c.Kind, c.Each, r, n)
		}
		if n := refusedGood.Load(); n > 0 {
			return fmt.Errorf("round %d: %d requests with a live token's exact id and secret were refused while other requests ran concurrently", r, n)
		}
	}
	x.Class("concurrent/" + c.Kind)
	x.NonTrivial = c.Workers >= 4
	return nil
}

func TestC36Concurrent(t *testing.T) {
	dir := t.TempDir()
	db := dbm.NewDB("c36conc", "leveldb", dir)
	t.Cleanup(func() { db.Close() })
	env := &c36Env{store: accesstoken.NewStore(db)}
	pbt.Run(t, "C36", "2-16 goroutines present one unauthorised credential pair (wrong secret for a live id, never-issued id, token deleted before it was ever used) at the same moment from a non-loopback address, 0-3 more present a valid pair, 1-8 requests each, on 5-40 fresh authenticators per case; no unauthorised request may be admitted and no valid one refused, whatever the interleaving; non-trivial = at least 4 concurrent unauthorised requesters; distinct = case JSON",
		pbt.Options{Sub: "concurrent", Checks: pbt.Per(150, 15000)}, c36ConcGen, env.execConc)
}
