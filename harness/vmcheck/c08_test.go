package vmcheck

// C08: every VM opcode matches an independent reference semantics (refvm):
// same success/failure, identical resulting stack after every instruction,
// identical gas, failure class within the admissible set.

import (
	"bytes"
	"crypto/ed25519"
	"encoding/binary"
	"encoding/hex"
	"fmt"
	"math/big"
	"testing"

	"github.com/bytom/bytom/protocol/vm"
	"pgregory.net/rapid"

	"verifharness/pbt"
	"verifharness/refvm"
)

func opName(op byte) string { return vm.Op(op).String() }

// ---- operand generators -----------------------------------------------------

func genBoolItem(t *rapid.T, label string) []byte {
	return unhex(rapid.SampledFrom([]string{"", "00", "0000", "01", "80", "0080", "0100", "ff", "000000000000000000", "02"}).Draw(t, label+"bool"))
}

type keyPair struct {
	pub  ed25519.PublicKey
	priv ed25519.PrivateKey
}

func genKey(t *rapid.T, label string) keyPair {
	seed := make([]byte, 32)
	seed[0] = byte(rapid.IntRange(0, 7).Draw(t, label+"key"))
	priv := ed25519.NewKeyFromSeed(seed)
	return keyPair{pub: priv.Public().(ed25519.PublicKey), priv: priv}
}

func genMsg(t *rapid.T, label string) []byte {
	m := make([]byte, 32)
	m[0] = byte(rapid.IntRange(0, 3).Draw(t, label+"msg"))
	m[31] = 0x80
	return m
}

// genCheckSig: [sig msg pubkey]
func genCheckSig(t *rapid.T) [][]byte {
	k := genKey(t, "k")
	msg := genMsg(t, "m")
	sig := ed25519.Sign(k.priv, msg)
	pub := []byte(k.pub)
	switch rapid.SampledFrom([]string{"valid", "valid", "wrongkey", "wrongmsg", "shortsig", "shortkey", "shortmsg", "longmsg", "flip", "emptysig"}).Draw(t, "sigvariant") {
	case "wrongkey":
		other := make([]byte, 32)
		other[0] = 0xee
		pub = ed25519.NewKeyFromSeed(other).Public().(ed25519.PublicKey)
	case "wrongmsg":
		msg = append([]byte{}, msg...)
		msg[5] ^= 1
	case "shortsig":
		sig = sig[:63]
	case "shortkey":
		pub = pub[:31]
	case "shortmsg":
		msg = msg[:31]
	case "longmsg":
		msg = append(append([]byte{}, msg...), 0)
	case "flip":
		sig = append([]byte{}, sig...)
		sig[rapid.IntRange(0, 63).Draw(t, "flipat")] ^= 0x10
	case "emptysig":
		sig = []byte{}
	}
	return [][]byte{sig, msg, pub}
}

// genCheckMultiSig: [sig... msg pub... nsigs npubs]
func genCheckMultiSig(t *rapid.T) [][]byte {
	npub := rapid.IntRange(0, 4).Draw(t, "npub")
	var keys []keyPair
	for i := 0; i < npub; i++ {
		seed := make([]byte, 32)
		seed[0], seed[1] = byte(i), 0x77
		priv := ed25519.NewKeyFromSeed(seed)
		keys = append(keys, keyPair{pub: priv.Public().(ed25519.PublicKey), priv: priv})
	}
	msg := genMsg(t, "m")
	nsig := 0
	if npub > 0 {
		nsig = rapid.IntRange(1, npub).Draw(t, "nsig")
	}
	// the signing subset, in key order
	var signers []int
	for i := 0; i < npub && len(signers) < nsig; i++ {
		if npub-i <= nsig-len(signers) || rapid.Bool().Draw(t, fmt.Sprintf("signer%d", i)) {
			signers = append(signers, i)
		}
	}
	var sigs [][]byte
	for _, i := range signers {
		sigs = append(sigs, ed25519.Sign(keys[i].priv, msg))
	}
	var pubs [][]byte
	for _, k := range keys {
		pubs = append(pubs, []byte(k.pub))
	}
	nsigItem := refvm.EncodeNum(big.NewInt(int64(nsig)))
	npubItem := refvm.EncodeNum(big.NewInt(int64(npub)))
	variant := rapid.SampledFrom([]string{"valid", "valid", "valid", "wrongorder", "badsig", "wrongmsg", "toomanysigs", "zerosigs",
		"shortkey", "shortmsg", "missing", "bignpub", "oddcount", "dupsig"}).Draw(t, "msvariant")
	switch variant {
	case "wrongorder":
		for i, j := 0, len(sigs)-1; i < j; i, j = i+1, j-1 {
			sigs[i], sigs[j] = sigs[j], sigs[i]
		}
	case "badsig":
		if len(sigs) > 0 {
			s := append([]byte{}, sigs[len(sigs)-1]...)
			s[3] ^= 4
			sigs[len(sigs)-1] = s
		}
	case "wrongmsg":
		msg = append([]byte{}, msg...)
		msg[9] ^= 1
	case "toomanysigs":
		nsigItem = refvm.EncodeNum(big.NewInt(int64(npub + 1)))
		sigs = append(sigs, make([]byte, 64))
	case "zerosigs":
		nsigItem = []byte{}
		sigs = nil
	case "shortkey":
		if len(pubs) > 0 {
			pubs[0] = pubs[0][:31]
		}
	case "shortmsg":
		msg = msg[:31]
	case "missing":
		if len(sigs) > 0 {
			sigs = sigs[1:]
		} else {
			msg = nil
		}
	case "bignpub":
		npubItem = genNumItem(t, "npubnum")
	case "oddcount":
		nsigItem = genNumItem(t, "nsignum")
	case "dupsig":
		if len(sigs) > 1 {
			sigs[1] = sigs[0]
		}
	}
	var st [][]byte
	// sigs are popped after the message, first popped = first checked: push in reverse
	for i := len(sigs) - 1; i >= 0; i-- {
		st = append(st, sigs[i])
	}
	if msg != nil {
		st = append(st, msg)
	}
	for i := len(pubs) - 1; i >= 0; i-- {
		st = append(st, pubs[i])
	}
	st = append(st, nsigItem, npubItem)
	return st
}

var c08Predicates = []string{
	"",           // empty predicate: empty-or-inherited stack decides
	"51",         // TRUE
	"00",         // FALSE
	"75",         // DROP
	"935387",     // ADD 3 EQUAL
	"6a",         // FAIL
	"50",         // expansion opcode
	"5150",       // TRUE, expansion opcode
	"6300000000", // JUMP 0 : runs until the child limit is exhausted
	"6b51",       // TOALTSTACK TRUE (leaves an alt stack to refund)
	"76",         // DUP
	"7676767676", // grows the stack
	"0051",       // FALSE TRUE
	"00015100c0", // 0 <TRUE> 0 CHECKPREDICATE (nested)
	"4c",         // truncated
	"c1",         // CHECKOUTPUT inside the child
	"ae",         // TXSIGHASH
	"c4",         // PROGRAM
	"5193",       // 1 ADD
	"01ff01ff93", // range error inside the child
	"a8",         // SHA256
}

// genCheckPredicate: [items... n predicate limit]
func genCheckPredicate(t *rapid.T) [][]byte {
	nItems := rapid.IntRange(0, 4).Draw(t, "cpitems")
	var st [][]byte
	for i := 0; i < nItems; i++ {
		st = append(st, refvm.EncodeNum(big.NewInt(int64(rapid.IntRange(0, 5).Draw(t, fmt.Sprintf("cpitem%d", i))))))
	}
	var n []byte
	switch rapid.IntRange(0, 5).Draw(t, "cpn") {
	case 0:
		n = []byte{}
	case 1:
		n = refvm.EncodeNum(big.NewInt(int64(nItems)))
	case 2:
		n = refvm.EncodeNum(big.NewInt(int64(nItems + 1)))
	case 3:
		n = refvm.EncodeNum(big.NewInt(int64(rapid.IntRange(0, 5).Draw(t, "cpnsmall"))))
	case 4:
		n = []byte{0, 0, 0}
	default:
		n = genNumItem(t, "cpnnum")
	}
	var pred []byte
	if rapid.IntRange(0, 9).Draw(t, "cppredkind") == 0 {
		pred = rapid.SliceOfN(rapid.Byte(), 0, 8).Draw(t, "cppredraw")
	} else {
		pred = unhex(rapid.SampledFrom(c08Predicates).Draw(t, "cppred"))
	}
	var limit []byte
	switch rapid.IntRange(0, 6).Draw(t, "cplimit") {
	case 0, 1:
		limit = []byte{}
	case 2:
		limit = refvm.EncodeNum(big.NewInt(int64(rapid.IntRange(1, 40).Draw(t, "cplimsmall"))))
	case 3:
		limit = refvm.EncodeNum(big.NewInt(int64(rapid.SampledFrom([]int{100, 1000, 5000, 19000, 20000, 30000}).Draw(t, "cplimmed"))))
	case 4:
		limit = []byte{0, 0}
	default:
		limit = genNumItem(t, "cplimnum")
	}
	return append(st, n, pred, limit)
}

// genCheckOutput: [index amount assetID vmVersion code]
func genCheckOutput(t *rapid.T) [][]byte {
	num := func(label string, small int) []byte {
		switch rapid.IntRange(0, 3).Draw(t, label+"k") {
		case 0, 1:
			return refvm.EncodeNum(big.NewInt(int64(rapid.IntRange(0, small).Draw(t, label+"small"))))
		case 2:
			return genNumItem(t, label)
		default:
			v := new(big.Int).Add(pow2(64), big.NewInt(int64(rapid.IntRange(0, small).Draw(t, label+"wrap"))))
			return refvm.EncodeNum(v)
		}
	}
	return [][]byte{num("index", 6), num("amount", 1000), genBytesItem(t, "asset"), num("version", 2), genBytesItem(t, "code")}
}

// genIndexed: [items... n] for PICK / ROLL
func genIndexed(t *rapid.T) [][]byte {
	depth := rapid.IntRange(0, 6).Draw(t, "depth")
	var st [][]byte
	for i := 0; i < depth; i++ {
		st = append(st, genItem(t, fmt.Sprintf("it%d", i)))
	}
	var n []byte
	switch rapid.IntRange(0, 3).Draw(t, "nk") {
	case 0, 1:
		n = refvm.EncodeNum(big.NewInt(int64(rapid.IntRange(0, depth+1).Draw(t, "nsmall"))))
	case 2:
		n = leBytes(big.NewInt(int64(rapid.IntRange(0, depth).Draw(t, "npad"))), rapid.SampledFrom([]int{1, 8, 9, 32, 33}).Draw(t, "npadlen"))
	default:
		n = genNumItem(t, "n")
	}
	return append(st, n)
}

// genSplice: [str offset size] / [str size]
func genSplice(t *rapid.T, withOffset bool) [][]byte {
	str := genBytesItem(t, "str")
	l := len(str)
	pick := func(label string) []byte {
		switch rapid.IntRange(0, 4).Draw(t, label+"k") {
		case 0, 1, 2:
			return refvm.EncodeNum(big.NewInt(int64(rapid.IntRange(0, l+2).Draw(t, label+"v"))))
		case 3:
			return leBytes(big.NewInt(int64(rapid.IntRange(0, l).Draw(t, label+"v"))), rapid.SampledFrom([]int{2, 8, 9, 32, 33}).Draw(t, label+"pad"))
		default:
			return genNumItem(t, label)
		}
	}
	if withOffset {
		off := pick("off")
		var size []byte
		if rapid.Bool().Draw(t, "exactfit") {
			o, cls := refvm.DecodeNum(off)
			if cls == "" && o.IsInt64() && o.Int64() <= int64(l) {
				size = refvm.EncodeNum(big.NewInt(int64(l) - o.Int64() + int64(rapid.IntRange(-1, 1).Draw(t, "fitd"))))
				if int64(l)-o.Int64() == 0 && len(size) > 0 && size[0] != 1 {
					size = []byte{}
				}
			}
		}
		if size == nil {
			size = pick("size")
		}
		return [][]byte{str, off, size}
	}
	return [][]byte{str, pick("size")}
}

func genPair(t *rapid.T, maxLen int) [][]byte {
	a := rapid.SliceOfN(rapid.Byte(), 0, maxLen).Draw(t, "a")
	var b []byte
	switch rapid.IntRange(0, 4).Draw(t, "pairk") {
	case 0, 1: // same length
		b = rapid.SliceOfN(rapid.Byte(), len(a), len(a)).Draw(t, "b")
	case 2: // equal
		b = append([]byte{}, a...)
	case 3: // equal up to the shorter length
		b = append(append([]byte{}, a...), rapid.SliceOfN(rapid.Byte(), 0, 5).Draw(t, "tail")...)
		if rapid.Bool().Draw(t, "swap") {
			a, b = b, a
		}
	default:
		b = rapid.SliceOfN(rapid.Byte(), 0, maxLen).Draw(t, "b")
	}
	return [][]byte{a, b}
}

// c08Operands draws the operands an opcode consumes (bottom first).
func c08Operands(t *rapid.T, op byte) [][]byte {
	n := func(k int) [][]byte {
		var out [][]byte
		for i := 0; i < k; i++ {
			out = append(out, genNumItem(t, fmt.Sprintf("n%d", i)))
		}
		return out
	}
	b := func(k int) [][]byte {
		var out [][]byte
		for i := 0; i < k; i++ {
			out = append(out, genItem(t, fmt.Sprintf("b%d", i)))
		}
		return out
	}
	switch op {
	case refvm.OpJumpIf, refvm.OpVerify, refvm.OpIfDup:
		return [][]byte{genBoolItem(t, "c")}
	case refvm.OpBoolAnd, refvm.OpBoolOr:
		return [][]byte{genBoolItem(t, "c0"), genBoolItem(t, "c1")}
	case refvm.OpToAltStack, refvm.OpDrop, refvm.OpDup, refvm.OpSize, refvm.OpInvert:
		return b(1)
	case refvm.Op2Drop, refvm.Op2Dup, refvm.OpNip, refvm.OpOver, refvm.OpSwap, refvm.OpTuck:
		return b(2)
	case refvm.Op3Dup, refvm.OpRot:
		return b(3)
	case refvm.Op2Over, refvm.Op2Swap:
		return b(4)
	case refvm.Op2Rot:
		return b(6)
	case refvm.OpPick, refvm.OpRoll:
		return genIndexed(t)
	case refvm.OpCat:
		return genPair(t, 40)
	case refvm.OpCatPushdata:
		p := genPair(t, 40)
		if rapid.IntRange(0, 5).Draw(t, "longpush") == 0 { // PUSHDATA1 form of the appended item
			l := rapid.SampledFrom([]int{75, 76, 77, 255, 256, 300}).Draw(t, "longlen")
			p[1] = bytes.Repeat([]byte{0xab}, l)
		}
		return p
	case refvm.OpSubstr:
		return genSplice(t, true)
	case refvm.OpLeft, refvm.OpRight:
		return genSplice(t, false)
	case refvm.OpAnd, refvm.OpOr, refvm.OpXor, refvm.OpEqual, refvm.OpEqualVerify:
		return genPair(t, 40)
	case refvm.Op1Add, refvm.Op1Sub, refvm.Op2Mul, refvm.Op2Div, refvm.OpNot, refvm.Op0NotEqual:
		return n(1)
	case refvm.OpAdd, refvm.OpSub, refvm.OpMul, refvm.OpDiv, refvm.OpMod, refvm.OpNumEqual, refvm.OpNumEqualVerify,
		refvm.OpNumNotEqual, refvm.OpLessThan, refvm.OpGreaterThan, refvm.OpLessOrEqual, refvm.OpGreaterOrEqual, refvm.OpMin, refvm.OpMax:
		p := n(2)
		switch rapid.IntRange(0, 5).Draw(t, "rel") {
		case 0: // same value, possibly different encodings
			if v, cls := refvm.DecodeNum(p[0]); cls == "" {
				p[1] = leBytes(v, rapid.SampledFrom([]int{0, 8, 32}).Draw(t, "relpad"))
			}
		case 1: // neighbours
			if v, cls := refvm.DecodeNum(p[0]); cls == "" {
				p[1] = refvm.EncodeNum(new(big.Int).Add(v, bigOne))
			}
		}
		return p
	case refvm.OpLshift, refvm.OpRshift:
		x := genNumItem(t, "x")
		var y []byte
		if rapid.IntRange(0, 3).Draw(t, "shk") == 0 {
			y = genNumItem(t, "y")
		} else {
			y = refvm.EncodeNum(big.NewInt(int64(rapid.SampledFrom([]int{0, 1, 2, 7, 8, 63, 64, 127, 200, 253, 254, 255, 256, 257, 1000}).Draw(t, "sh"))))
		}
		return [][]byte{x, y}
	case refvm.OpWithin:
		return n(3)
	case refvm.OpSha256, refvm.OpSha3, refvm.OpHash160:
		l := rapid.SampledFrom([]int{0, 1, 32, 63, 64, 65, 100, 200}).Draw(t, "hashlen")
		return [][]byte{rapid.SliceOfN(rapid.Byte(), l, l).Draw(t, "hashin")}
	case refvm.OpCheckSig:
		return genCheckSig(t)
	case refvm.OpCheckMultiSig:
		return genCheckMultiSig(t)
	case refvm.OpCheckPredicate:
		return genCheckPredicate(t)
	case refvm.OpCheckOutput:
		return genCheckOutput(t)
	}
	return nil
}

// c08Instruction draws the bytes of one instruction with the given opcode.
func c08Instruction(t *rapid.T, op byte, progLenHint int) []byte {
	ins := []byte{op}
	trunc := rapid.IntRange(0, 9).Draw(t, "trunc") == 0
	data := func(n int) []byte { return rapid.SliceOfN(rapid.Byte(), n, n).Draw(t, "imm") }
	cut := func(b []byte) []byte {
		if trunc && len(b) > 1 {
			return b[:rapid.IntRange(1, len(b)-1).Draw(t, "cutat")]
		}
		return b
	}
	switch {
	case op >= 1 && op <= 75:
		return cut(append(ins, data(int(op))...))
	case op == refvm.OpPushdata1:
		l := rapid.SampledFrom([]int{0, 1, 5, 75, 76, 255}).Draw(t, "pd1len")
		return cut(append(append(ins, byte(l)), data(l)...))
	case op == refvm.OpPushdata2:
		l := rapid.SampledFrom([]int{0, 1, 76, 256, 300}).Draw(t, "pd2len")
		hdr := make([]byte, 2)
		binary.LittleEndian.PutUint16(hdr, uint16(l))
		return cut(append(append(ins, hdr...), data(l)...))
	case op == refvm.OpPushdata4:
		l := rapid.SampledFrom([]int{0, 1, 300, -1, -2, -6}).Draw(t, "pd4len")
		hdr := make([]byte, 4)
		binary.LittleEndian.PutUint32(hdr, uint32(int64(l)))
		if l < 0 {
			return append(append(ins, hdr...), data(3)...)
		}
		return cut(append(append(ins, hdr...), data(l)...))
	case op == refvm.OpJump || op == refvm.OpJumpIf:
		addr := make([]byte, 4)
		target := rapid.SampledFrom([]int64{5, 6, 7, int64(progLenHint), int64(progLenHint) + 1, 0, 1, 1<<32 - 1, 1 << 31}).Draw(t, "target")
		binary.LittleEndian.PutUint32(addr, uint32(target))
		return cut(append(ins, addr...))
	}
	return ins
}

func smallNumber(b []byte) bool {
	return len(b) == 0 || (len(b) == 1 && b[0] <= 16)
}

// c08Gas picks the gas limit: ample, the exact need of the run +-1, or tiny.
func c08Gas(t *rapid.T, c *vmCase) int64 {
	switch rapid.IntRange(0, 19).Draw(t, "gask") {
	case 0, 1, 2:
		c.Gas = 1 << 40
		res, _ := runRef(c, refvm.Options{MaxSteps: 50000})
		if res.Truncated || res.Need > 100000 {
			return 20000
		}
		g := res.Need + int64(rapid.IntRange(-1, 1).Draw(t, "gasd"))
		if g < 0 {
			g = 0
		}
		return g
	case 3:
		return int64(rapid.IntRange(0, 120).Draw(t, "gassmall"))
	}
	return 20000
}

// c08OpOrder lists all 256 opcode bytes, the intricate ones first: rapid favours
// small indices (and the last one), so those get the larger share of the cases.
var c08OpOrder = func() []byte {
	first := []byte{refvm.OpCheckPredicate, refvm.OpCheckMultiSig, refvm.OpPick, refvm.OpRoll, refvm.OpSubstr, refvm.OpCheckOutput, refvm.OpCat,
		refvm.OpLshift, refvm.OpCatPushdata, refvm.OpLeft, refvm.OpRight, refvm.OpMul, refvm.OpSub, refvm.OpWithin, refvm.OpJumpIf, refvm.OpTuck, refvm.OpNip,
		refvm.OpXor, refvm.OpAnd, refvm.OpEqual, refvm.OpRshift, refvm.OpMod, refvm.OpDiv, refvm.OpPushdata4, refvm.OpPushdata2, refvm.OpPushdata1}
	seen := map[byte]bool{refvm.OpCheckSig: true}
	var out []byte
	for _, op := range first {
		seen[op] = true
		out = append(out, op)
	}
	for pass := 0; pass < 3; pass++ { // remaining defined non-push ops, expansion ops, plain pushes
		for i := 0; i < 256; i++ {
			op := byte(i)
			isPush := op <= 75 || (op >= refvm.Op1 && op <= refvm.Op16)
			kind := 0
			if refvm.IsExpansion(op) {
				kind = 1
			} else if isPush {
				kind = 2
			}
			if kind == pass && !seen[op] {
				seen[op] = true
				out = append(out, op)
			}
		}
	}
	return append(out, refvm.OpCheckSig)
}()

func c08GenPerOp(t *rapid.T) vmCase {
	op := c08OpOrder[rapid.IntRange(0, 255).Draw(t, "op")]
	c := vmCase{Op: int(op)}
	// stack
	var stack [][]byte
	mode := rapid.IntRange(0, 9).Draw(t, "stackmode")
	switch {
	case mode <= 6: // operands the opcode wants, on top of filler
		operands := c08Operands(t, op)
		nfill := 0
		if len(operands) < 8 {
			nfill = rapid.IntRange(0, 8-len(operands)).Draw(t, "nfill")
			if nfill > 3 {
				nfill = rapid.IntRange(0, 3).Draw(t, "nfill2")
			}
		}
		for i := 0; i < nfill; i++ {
			stack = append(stack, genItem(t, fmt.Sprintf("fill%d", i)))
		}
		stack = append(stack, operands...)
		c.Note = "operands"
	case mode == 7: // one operand missing
		operands := c08Operands(t, op)
		if len(operands) > 0 {
			drop := rapid.IntRange(0, len(operands)-1).Draw(t, "dropat")
			operands = append(operands[:drop:drop], operands[drop+1:]...)
		}
		stack = operands
		c.Note = "operand-missing"
	default: // arbitrary stack
		k := rapid.IntRange(0, 8).Draw(t, "nitems")
		for i := 0; i < k; i++ {
			stack = append(stack, genItem(t, fmt.Sprintf("any%d", i)))
		}
		c.Note = "arbitrary-stack"
	}
	c.Args = hexList(stack)
	nalt := rapid.IntRange(0, 3).Draw(t, "nalt")
	if nalt == 3 {
		nalt = 0
	}
	var alt [][]byte
	for i := 0; i < nalt; i++ {
		alt = append(alt, genItem(t, fmt.Sprintf("alt%d", i)))
	}
	c.State = hexList(alt)
	// context
	c.Ctx = genCtx(t, rapid.SampledFrom([]int{0, 0, 1, 1, 1, 2}).Draw(t, "ctxmode"))
	if rapid.IntRange(0, 99).Draw(t, "othervm") == 0 {
		c.Ctx.VMVersion = rapid.SampledFrom([]uint64{0, 2}).Draw(t, "vmversion")
	}
	// program: the instruction, then an observation suffix
	var suffix []byte
	switch rapid.IntRange(0, 5).Draw(t, "suffix") {
	case 0, 1: // read the alt stack back
		k := rapid.IntRange(0, nalt+1).Draw(t, "probe")
		suffix = bytes.Repeat([]byte{refvm.OpFromAltStack}, k)
	case 2:
		suffix = unhex(rapid.SampledFrom([]string{"51", "61", "5161", "00", "7451", "5152"}).Draw(t, "tail"))
	}
	if (op == refvm.OpJump || op == refvm.OpJumpIf) && len(suffix) == 0 {
		suffix = unhex("515253")
	}
	ins := c08Instruction(t, op, 5+len(suffix))
	c.Prog = hex.EncodeToString(append(ins, suffix...))
	c.Gas = c08Gas(t, &c)
	return c
}

// ---- sequences ---------------------------------------------------------------

var c08SeqPools = [][]byte{
	// stack
	{refvm.OpToAltStack, refvm.OpFromAltStack, refvm.Op2Drop, refvm.Op2Dup, refvm.Op3Dup, refvm.Op2Over, refvm.Op2Rot, refvm.Op2Swap, refvm.OpIfDup,
		refvm.OpDepth, refvm.OpDrop, refvm.OpDup, refvm.OpNip, refvm.OpOver, refvm.OpPick, refvm.OpRoll, refvm.OpRot, refvm.OpSwap, refvm.OpTuck},
	// numeric
	{refvm.Op1Add, refvm.Op1Sub, refvm.Op2Mul, refvm.Op2Div, refvm.OpNot, refvm.Op0NotEqual, refvm.OpAdd, refvm.OpSub, refvm.OpMul, refvm.OpDiv, refvm.OpMod,
		refvm.OpLshift, refvm.OpRshift, refvm.OpBoolAnd, refvm.OpBoolOr, refvm.OpNumEqual, refvm.OpNumEqualVerify, refvm.OpNumNotEqual, refvm.OpLessThan,
		refvm.OpGreaterThan, refvm.OpLessOrEqual, refvm.OpGreaterOrEqual, refvm.OpMin, refvm.OpMax, refvm.OpWithin},
	// splice and bitwise
	{refvm.OpCat, refvm.OpSubstr, refvm.OpLeft, refvm.OpRight, refvm.OpSize, refvm.OpCatPushdata, refvm.OpInvert, refvm.OpAnd, refvm.OpOr, refvm.OpXor,
		refvm.OpEqual, refvm.OpEqualVerify},
	// crypto, control, introspection
	{refvm.OpSha256, refvm.OpSha3, refvm.OpHash160, refvm.OpTxSigHash, refvm.OpVerify, refvm.OpNop, refvm.OpAsset, refvm.OpAmount, refvm.OpProgram,
		refvm.OpIndex, refvm.OpEntryID, refvm.OpOutputID, refvm.OpBlockHeight, refvm.OpCheckPredicate, refvm.OpCheckOutput, refvm.OpCheckSig, refvm.OpCheckMultiSig},
}

// genSeqInstruction draws one instruction for a sequence.
func genSeqInstruction(t *rapid.T, label string) []byte {
	switch k := rapid.IntRange(0, 19).Draw(t, label+"cat"); {
	case k <= 2:
		return refvm.PushNum(big.NewInt(int64(rapid.IntRange(0, 17).Draw(t, label+"num"))))
	case k == 3:
		return refvm.PushData(genItem(t, label+"lit"))
	case k == 4:
		return refvm.PushData([]byte(rapid.SampledFrom([]string{"abc", "abcdef", "Z", "51", "\x51"}).Draw(t, label+"str")))
	case k <= 8:
		return []byte{rapid.SampledFrom(c08SeqPools[0]).Draw(t, label+"stack")}
	case k <= 12:
		return []byte{rapid.SampledFrom(c08SeqPools[1]).Draw(t, label+"numeric")}
	case k <= 15:
		return []byte{rapid.SampledFrom(c08SeqPools[2]).Draw(t, label+"splice")}
	case k <= 17:
		return []byte{rapid.SampledFrom(c08SeqPools[3]).Draw(t, label+"misc")}
	case k == 18:
		return []byte{rapid.Byte().Draw(t, label+"anyop")}
	default: // forward conditional jump over one byte
		return nil
	}
}

func c08GenSeq(t *rapid.T) vmCase {
	c := vmCase{Op: -1, Note: "sequence", Gas: 20000}
	c.Ctx = genCtx(t, rapid.SampledFrom([]int{1, 1, 1, 0}).Draw(t, "ctxmode"))
	if c.Ctx.TxVersion != nil && rapid.Bool().Draw(t, "txv2") {
		c.Ctx.TxVersion = u64p(2)
	}
	k := rapid.IntRange(0, 8).Draw(t, "nitems")
	var stack [][]byte
	for i := 0; i < k; i++ {
		switch rapid.IntRange(0, 9).Draw(t, fmt.Sprintf("itk%d", i)) {
		case 0:
			stack = append(stack, genItem(t, fmt.Sprintf("it%d", i)))
		case 1, 2:
			stack = append(stack, []byte(rapid.SampledFrom([]string{"abc", "abcdef", "hello", "\x00\x01"}).Draw(t, fmt.Sprintf("its%d", i))))
		default:
			stack = append(stack, refvm.EncodeNum(big.NewInt(int64(rapid.IntRange(0, 12).Draw(t, fmt.Sprintf("itn%d", i))))))
		}
	}
	c.Args = hexList(stack)
	if rapid.IntRange(0, 3).Draw(t, "hasalt") == 0 {
		c.State = hexList([][]byte{genItem(t, "alt0")})
	}
	n := rapid.IntRange(2, 6).Draw(t, "len")
	var prog []byte
	for i := 0; i < n; i++ {
		// construction over filtering: up to three candidates, keep the first the reference can execute
		var chosen []byte
		for try := 0; try < 3; try++ {
			ins := genSeqInstruction(t, fmt.Sprintf("i%d_%d_", i, try))
			if ins == nil { // JUMPIF over the next instruction byte
				addr := make([]byte, 4)
				binary.LittleEndian.PutUint32(addr, uint32(len(prog)+5+rapid.IntRange(0, 2).Draw(t, fmt.Sprintf("skip%d_%d", i, try))))
				ins = append([]byte{refvm.OpJumpIf}, addr...)
			}
			chosen = ins
			probe := c
			probe.Prog = hex.EncodeToString(append(append([]byte{}, prog...), ins...))
			res, _ := runRef(&probe, refvm.Options{MaxSteps: 10000})
			if res.Completed {
				break
			}
		}
		prog = append(prog, chosen...)
	}
	c.Prog = hex.EncodeToString(prog)
	if rapid.IntRange(0, 9).Draw(t, "tightgas") == 0 {
		c.Gas = c08Gas(t, &c)
	}
	return c
}

// ---- executor ------------------------------------------------------------------

var c08Skip = skipTokens("VERIF_C08_SKIP")

func c08Exec(c vmCase, x *pbt.Ctx) error {
	res, refCalls := runRef(&c, refvm.Options{})

	if c.Op >= 0 {
		x.Class("op:" + opName(byte(c.Op)))
		if len(res.Steps) > 0 && res.Steps[0].OK {
			x.Class("op-succeeds:" + opName(byte(c.Op)))
		}
		x.Class("stack:" + c.Note)
	} else {
		okSteps := 0
		for _, st := range res.Steps {
			if st.OK {
				okSteps++
			}
		}
		x.Class("seq-steps-ok:%d", okSteps)
	}
	switch {
	case res.OK:
		x.Class("ref:success")
	case res.Completed:
		x.Class("ref:false-result")
	default:
		for _, f := range res.Faults {
			x.Class("ref:fault:" + string(f))
		}
	}
	for _, st := range res.Steps {
		if st.Depth > 0 {
			x.Class("child-frame-step")
			break
		}
	}
	for _, a := range c.Args {
		if !smallNumber(unhex(a)) {
			x.NonTrivial = true
		}
	}
	if why := skipped(c08Skip, &c, res); why != "" {
		x.Class("SKIPPED-BY-ENV:" + why)
		return nil
	}
	_, v := judgeInstance(&c, freshBuilder(&c), res, refCalls)
	if v.err != nil {
		return fmt.Errorf("%v\n  %s", v.err, describeCase(&c))
	}
	for _, f := range v.explained {
		switch f {
		case featWide64:
			x.Known("vm-64bit-operand-truncation")
		case featChildExp:
			x.Known("checkpredicate-child-drops-expansion-flag")
		default:
			x.Class("C06-matter:" + f)
		}
	}
	return nil
}

func TestC08(t *testing.T) {
	min := map[string]int{}
	for op := 0; op < 256; op++ {
		min["op:"+opName(byte(op))] = 3
	}
	// two sub-checks as subtests, so that a failure of the first does not hide the second
	t.Run("perop", func(t *testing.T) {
		pbt.Run(t, "C08",
			"one instruction per case, opcode byte drawn from all 256; data stack = the operands that opcode consumes (numbers from boundary encodings: empty, non-minimal zeros, 8/9/32/33-byte paddings, values around 0, 2^63, 2^64, k*2^64, 2^255, 2^256-1, shift counts around 256; matching/unequal lengths for splice and bitwise ops; real ed25519 keys/signatures with wrong key/message/order variants; CHECKPREDICATE predicates incl. nested, looping and failing ones) on 0..3 filler items, or one operand missing, or an arbitrary stack of 0..8 items; alt stack 0..2 items read back with FROMALTSTACK; context fields drawn present/absent; gas ample, exact need -1/0/+1, or tiny. Oracle: refvm (trace equality after every step, outcome, gas, admissible failure class, CheckOutput arguments). Non-trivial = the initial data stack has an item that is not a small number (<=16 in one byte); distinct by case",
			pbt.Options{Sub: "perop", Checks: pbt.Per(256*320, 256*25000), MinClass: min}, c08GenPerOp, c08Exec)
	})
	t.Run("seq", func(t *testing.T) {
		pbt.Run(t, "C08",
			"sequences of 2..6 instructions (pushes, stack, numeric, splice/bitwise, crypto/control/introspection pools, any byte, forward JUMPIF) built left to right preferring instructions the reference can execute; friendly initial stacks (small numbers, short strings) of 0..8 items; same oracle",
			pbt.Options{Sub: "seq", Checks: pbt.Per(30000, 3000000)}, c08GenSeq, c08Exec)
	})
}
