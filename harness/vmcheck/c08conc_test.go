package vmcheck

import (
	"crypto/sha256"
	"encoding/hex"
	"fmt"
	"sync"
	"testing"

	"golang.org/x/crypto/sha3"
	"pgregory.net/rapid"

	"github.com/bytom/bytom/protocol/vm"

	"verifharness/pbt"
	"verifharness/refvm"
)

// C08, sub-check "concurrent-vms": block validation runs the programs of a block's transactions on
// worker goroutines, one VM each.  What a program computes must not depend on which other VMs run
// at the same moment.  2-6 programs (instruction sequences of the "seq" generator, plus one or two
// hash programs "<data> SHA3|SHA256 <digest computed here with the standard library> EQUAL") are
// first run one after the other, then all at once, each 150 times on its own goroutine: outcome
// (success, failure class) and gas left must be the same every time.  The first, sequential run is
// what the other sub-checks judge against the reference; this one is the metamorphic relation
// "alone = in company".

type c08ConcCase struct {
	Cases []vmCase `json:"cases"`
	Reps  int      `json:"reps"`
}

func c08HashProgram(t *rapid.T, label string) vmCase {
	data := rapid.SliceOfN(rapid.Byte(), 0, 300).Draw(t, label+"data")
	var digest []byte
	op := byte(refvm.OpSha3)
	if rapid.Bool().Draw(t, label+"sha256") {
		op = refvm.OpSha256
		d := sha256.Sum256(data)
		digest = d[:]
	} else {
		d := sha3.Sum256(data)
		digest = d[:]
	}
	rounds := rapid.IntRange(1, 6).Draw(t, label+"rounds")
	var prog []byte
	for r := 0; r < rounds; r++ {
		prog = append(prog, refvm.PushData(data)...)
		prog = append(prog, op)
		prog = append(prog, refvm.PushData(digest)...)
		prog = append(prog, refvm.OpEqual)
		if r < rounds-1 {
			prog = append(prog, 0x69) // VERIFY
		}
	}
	return vmCase{Prog: hex.EncodeToString(prog), Gas: 100000, Op: -1, Note: "hash-program", Ctx: ctxSpec{VMVersion: 1}}
}

func c08ConcGen(t *rapid.T) c08ConcCase {
	var c c08ConcCase
	n := rapid.IntRange(1, 4).Draw(t, "nseq")
	for i := 0; i < n; i++ {
		c.Cases = append(c.Cases, c08GenSeq(t))
	}
	for i := rapid.IntRange(1, 2).Draw(t, "nhash"); i > 0; i-- {
		c.Cases = append(c.Cases, c08HashProgram(t, fmt.Sprintf("h%d", i)))
	}
	c.Reps = 150
	return c
}

func c08ConcExec(c c08ConcCase, x *pbt.Ctx) error {
	if len(c.Cases) < 2 || len(c.Cases) > 8 || c.Reps < 1 || c.Reps > 1000 {
		return nil
	}
	type want struct {
		class   refvm.Class
		gasLeft int64
		ok      bool
	}
	var run []int
	wants := make([]want, len(c.Cases))
	for i := range c.Cases {
		cs := &c.Cases[i]
		if len(cs.Prog) > 4000 || cs.Gas > 1000000 {
			return nil
		}
		o := runImplFresh(cs)
		if o.poisoned || o.capped {
			// the program overwrites the VM's shared "true" value (a known matter of C06/C08): it would
			// change what its neighbours compute; such programs are not run in company
			x.Class("concurrent/program-left-out")
			continue
		}
		wants[i] = want{class: o.class, gasLeft: o.gasLeft, ok: o.err == nil}
		run = append(run, i)
		if cs.Note == "hash-program" && o.err != nil {
			return fmt.Errorf("HARNESS: the hash program fails when run alone: %v\n  %s", o.err, describeCase(cs))
		}
	}
	if len(run) < 2 {
		return nil
	}
	var mu sync.Mutex
	var failure error
	var wg sync.WaitGroup
	start := make(chan struct{})
	for _, i := range run {
		wg.Add(1)
		go func(i int) {
			defer wg.Done()
			defer func() {
				if p := recover(); p != nil {
					mu.Lock()
					if failure == nil {
						failure = fmt.Errorf("program %d panicked when run in company: %v", i, p)
					}
					mu.Unlock()
				}
			}()
			cs := &c.Cases[i]
			<-start
			for r := 0; r < c.Reps; r++ {
				var calls []string
				gasLeft, err := vm.Verify(freshInstance(cs).impl(cs, &calls), cs.Gas)
				if got := (want{class: classOf(err), gasLeft: gasLeft, ok: err == nil}); got != wants[i] {
					mu.Lock()
					if failure == nil {
						failure = fmt.Errorf("program %d of %d, run %d of %d while the others run: outcome ok=%v class=%q gas left %d (error %v); alone: ok=%v class=%q gas left %d\n  %s",
							i, len(c.Cases), r+1, c.Reps, got.ok, got.class, got.gasLeft, err, wants[i].ok, wants[i].class, wants[i].gasLeft, describeCase(cs))
					}
					mu.Unlock()
					return
				}
			}
		}(i)
	}
	close(start)
	wg.Wait()
	if failure != nil {
		return failure
	}
	x.Class("concurrent/programs-%d", len(run))
	x.NonTrivial = true
	return nil
}

func TestC08Concurrent(t *testing.T) {
	pbt.Run(t, "C08", "2-6 programs (1-4 instruction sequences of the seq generator and 1-2 hash programs of 1-6 rounds of <0..300 bytes> SHA3|SHA256 <digest from the standard library> EQUAL) run alone first, then each 150 times on its own goroutine at the same time: outcome, failure class and gas left must equal the run alone every time; programs that overwrite the VM's shared true value are left out; non-trivial = at least two programs ran in company; distinct = case JSON",
		pbt.Options{Sub: "concurrent-vms", Checks: pbt.Per(300, 20000)}, c08ConcGen, c08ConcExec)
}
