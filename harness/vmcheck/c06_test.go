package vmcheck

// C06: VM values behave as immutable byte strings.
//
//   (i)   after vm.Verify the caller-visible bytes of the program, the arguments,
//         the state data, the context fields and any shared backing buffer
//         (including its spare capacity) are unchanged;
//   (ii)  the run (outcome, gasLeft, and every intermediate stack) is the same
//         whether the arguments are independent buffers, sub-slices of one shared
//         buffer with spare capacity (what encoding/blockchain.ReadVarstrList
//         returns), or the fields of a decoded serialised transaction;
//   (iii) the run equals the reference model, which has value semantics, so an
//         operation on one stack item never changes another item.

import (
	"bytes"
	"encoding/hex"
	"fmt"
	"math/big"
	"strings"
	"testing"

	"github.com/bytom/bytom/consensus"
	bytomerrors "github.com/bytom/bytom/errors"
	"github.com/bytom/bytom/protocol/bc"
	"github.com/bytom/bytom/protocol/bc/types"
	"github.com/bytom/bytom/protocol/validation"
	"github.com/bytom/bytom/protocol/vm"
	"pgregory.net/rapid"

	"verifharness/pbt"
	"verifharness/refvm"
)

type c06Case struct {
	vmCase
	Lead  int `json:"lead"`  // bytes in the shared buffer before the first item
	Spare int `json:"spare"` // bytes in the shared buffer after the last item
}

// sharedBuilder: program, state data and arguments are consecutive sub-slices of
// one buffer, each with capacity up to the end of the buffer, empty items nil:
// exactly what blockchain.ReadVarstr31 / ReadVarstrList hand out.
func sharedBuilder(c *c06Case) func() (*instance, error) {
	return func() (*instance, error) {
		items := [][]byte{unhex(c.Prog)}
		items = append(items, unhexList(c.State)...)
		items = append(items, unhexList(c.Args)...)
		buf := bytes.Repeat([]byte{0xE1}, c.Lead)
		var offs []int
		for _, it := range items {
			offs = append(offs, len(buf))
			buf = append(buf, it...)
		}
		buf = append(buf, bytes.Repeat([]byte{0xE2}, c.Spare)...)
		buf = exact(buf)
		sub := func(i int) []byte {
			if len(items[i]) == 0 {
				return nil
			}
			return buf[offs[i] : offs[i]+len(items[i])]
		}
		in := &instance{code: sub(0)}
		ns := len(c.State)
		for i := 0; i < ns; i++ {
			in.state = append(in.state, sub(1+i))
		}
		for i := range c.Args {
			in.args = append(in.args, sub(1+ns+i))
		}
		in.fillContextFields(&c.vmCase)
		in.extra = func() []region {
			return []region{fullCopy("shared buffer holding program|state|arguments|spare", buf)}
		}
		return in, nil
	}
}

// decodedBuilder: the items are the fields of a transaction obtained by decoding
// its serialisation; what the caller sees afterwards is how that transaction
// serialises.
func decodedBuilder(c *c06Case) func() (*instance, error) {
	return func() (*instance, error) {
		asset := bc.NewAssetID([32]byte{1})
		src := bc.NewHash([32]byte{2})
		var state [][]byte
		if len(c.State) > 0 {
			state = unhexList(c.State)
		}
		var args [][]byte
		if len(c.Args) > 0 {
			args = unhexList(c.Args)
		}
		data := types.TxData{
			Version: 1,
			Inputs: []*types.TxInput{
				types.NewSpendInput(args, src, asset, 100, 0, unhex(c.Prog), state),
				types.NewSpendInput([][]byte{[]byte("second-input-argument")}, src, asset, 7, 1, []byte{0x51}, [][]byte{[]byte("second-input-state")}),
			},
			Outputs: []*types.TxOutput{types.NewOriginalTxOutput(asset, 107, []byte("output-control-program"), [][]byte{[]byte("output-state")})},
		}
		text, err := data.MarshalText()
		if err != nil {
			return nil, err
		}
		dec := new(types.TxData)
		if err := dec.UnmarshalText(text); err != nil {
			return nil, err
		}
		spend, ok := dec.Inputs[0].TypedInput.(*types.SpendInput)
		if !ok {
			return nil, fmt.Errorf("decoded input is not a spend")
		}
		in := &instance{code: spend.ControlProgram, args: spend.Arguments, state: spend.StateData}
		in.fillContextFields(&c.vmCase)
		in.extra = func() []region {
			again, err := dec.MarshalText()
			if err != nil {
				again = []byte("does not serialise: " + err.Error())
			}
			return []region{{name: "serialisation of the decoded transaction", b: again}}
		}
		return in, nil
	}
}

// ---- generator --------------------------------------------------------------

var c06Letters = []string{"abc", "defg", "hi", "jklmno", "p", "qrstuvwxyz", "ABCDEFGH", "Z", "ZZ"}

func c06Candidate(t *rapid.T, label string) []byte {
	num := func(max int) []byte {
		return refvm.PushNum(big.NewInt(int64(rapid.IntRange(0, max).Draw(t, label+"n"))))
	}
	lit := func() []byte { return refvm.PushData([]byte(rapid.SampledFrom(c06Letters).Draw(t, label+"lit"))) }
	one := func(ops ...byte) []byte { return []byte{rapid.SampledFrom(ops).Draw(t, label+"op")} }
	switch k := rapid.IntRange(0, 24).Draw(t, label+"k"); {
	case k <= 2:
		return lit()
	case k <= 4:
		return num(6)
	case k <= 8:
		return one(refvm.OpDup, refvm.OpDup, refvm.OpOver, refvm.Op2Dup, refvm.Op3Dup, refvm.OpTuck, refvm.OpIfDup, refvm.Op2Over)
	case k == 9:
		return append(num(3), refvm.OpPick)
	case k == 10:
		return one(refvm.OpToAltStack, refvm.OpFromAltStack)
	case k == 11:
		return one(refvm.OpProgram, refvm.OpAsset, refvm.OpEntryID, refvm.OpOutputID, refvm.OpTxSigHash)
	case k <= 14:
		return append(num(5), one(refvm.OpLeft, refvm.OpLeft, refvm.OpRight)...)
	case k == 15:
		return append(append(num(3), num(4)...), refvm.OpSubstr)
	case k <= 17:
		return one(refvm.OpCat, refvm.OpCat, refvm.OpCatPushdata)
	case k <= 19:
		return append(lit(), one(refvm.OpCat, refvm.OpCat, refvm.OpCatPushdata)...)
	case k <= 22:
		return one(refvm.OpSize, refvm.OpEqual, refvm.OpSwap, refvm.OpRot, refvm.OpDrop, refvm.OpNip, refvm.OpRoll, refvm.Op2Swap, refvm.OpInvert, refvm.OpOr, refvm.OpSha3)
	case k == 23:
		return one(refvm.OpSwap, refvm.OpRot)
	default:
		return []byte{rapid.Byte().Draw(t, label+"any")}
	}
}

func c06Gen(t *rapid.T) c06Case {
	c := c06Case{vmCase: vmCase{Op: -1, Gas: 20000, Note: "grammar"}}
	c.Ctx = genCtx(t, 1)
	switch rapid.IntRange(0, 2).Draw(t, "txversion") { // expansion-reserved mode is C08's subject
	case 0:
		c.Ctx.TxVersion = nil
	default:
		c.Ctx.TxVersion = u64p(2)
	}
	na := rapid.IntRange(0, 4).Draw(t, "nargs")
	var args [][]byte
	for i := 0; i < na; i++ {
		switch rapid.IntRange(0, 5).Draw(t, fmt.Sprintf("argk%d", i)) {
		case 0:
			args = append(args, []byte{})
		case 1:
			args = append(args, refvm.EncodeNum(big.NewInt(int64(rapid.IntRange(1, 5).Draw(t, fmt.Sprintf("argn%d", i))))))
		default:
			args = append(args, bytes.Repeat([]byte{byte('A' + i)}, rapid.IntRange(1, 8).Draw(t, fmt.Sprintf("arglen%d", i))))
		}
	}
	c.Args = hexList(args)
	ns := rapid.IntRange(0, 2).Draw(t, "nstate")
	var state [][]byte
	for i := 0; i < ns; i++ {
		state = append(state, bytes.Repeat([]byte{byte('s' + i)}, rapid.IntRange(0, 5).Draw(t, fmt.Sprintf("statelen%d", i))))
	}
	c.State = hexList(state)
	c.Lead = rapid.IntRange(0, 4).Draw(t, "lead")
	c.Spare = rapid.IntRange(0, 16).Draw(t, "spare")
	n := rapid.IntRange(3, 14).Draw(t, "len")
	var prog []byte
	for i := 0; i < n; i++ {
		var chosen []byte
		for try := 0; try < 4; try++ {
			chosen = c06Candidate(t, fmt.Sprintf("i%d_%d_", i, try))
			probe := c.vmCase
			probe.Prog = hex.EncodeToString(append(append([]byte{}, prog...), chosen...))
			if res, _ := runRef(&probe, refvm.Options{MaxSteps: 1000}); res.Completed {
				break
			}
		}
		prog = append(prog, chosen...)
	}
	c.Prog = hex.EncodeToString(prog)
	return c
}

// ---- executor --------------------------------------------------------------

var c06Skip = skipTokens("VERIF_C06_SKIP")

func sameRun(name string, a, b outcome) error {
	if a.class != b.class || a.gasLeft != b.gasLeft {
		return fmt.Errorf("result depends on the memory layout: independent buffers %s; %s %s", implOutcome(a), name, implOutcome(b))
	}
	n := len(a.trace)
	if len(b.trace) < n {
		n = len(b.trace)
	}
	for i := 0; i < n; i++ {
		if a.trace[i] != b.trace[i] {
			return fmt.Errorf("intermediate stacks depend on the memory layout (trace line %d): independent buffers %q; %s %q\n%s", i, a.trace[i], name, b.trace[i], traceContext(a.trace, b.trace, i))
		}
	}
	if len(a.trace) != len(b.trace) {
		return fmt.Errorf("trace lengths depend on the memory layout: %d vs %d (%s)", len(a.trace), len(b.trace), name)
	}
	return nil
}

const c06KnownCat = "cat-appends-into-shared-backing-array"

func c06Exec(c c06Case, x *pbt.Ctx) error {
	res, refCalls := runRef(&c.vmCase, refvm.Options{})
	aliased, spliced := false, false
	for _, st := range res.Steps {
		switch st.Op {
		case refvm.OpCat, refvm.OpCatPushdata, refvm.OpLeft, refvm.OpRight, refvm.OpSubstr:
			if st.OK {
				spliced = true
				aliased = aliased || st.AliasedSplice
			}
		}
	}
	x.NonTrivial = aliased
	switch {
	case aliased:
		x.Class("splice-on-aliased-item")
	case spliced:
		x.Class("splice-on-private-item")
	default:
		x.Class("no-splice")
	}
	if res.Completed {
		x.Class("ref:completes")
	} else {
		x.Class("ref:fails")
	}
	if why := skipped(c06Skip, &c.vmCase, res); why != "" {
		x.Class("SKIPPED-BY-ENV:" + why)
		return nil
	}
	fail := func(part string, err error) error {
		return fmt.Errorf("(%s) %v\n  %s\n  shared-buffer layout: %d leading bytes, %d spare bytes", part, err, describeCase(&c.vmCase), c.Lead, c.Spare)
	}
	layouts := []struct {
		name  string
		build func() (*instance, error)
	}{
		{"independent buffers", freshBuilder(&c.vmCase)},
		{"sub-slices of one shared buffer", sharedBuilder(&c)},
		{"fields of a decoded transaction", decodedBuilder(&c)},
	}
	// (i) and (iii) per layout: the run equals the reference (value semantics) and leaves every caller-visible byte alone
	var outs []outcome
	allClean := true
	known := map[string]bool{}
	for _, l := range layouts {
		o, v := judgeInstance(&c.vmCase, l.build, res, refCalls)
		outs = append(outs, o)
		if v.err != nil {
			return fail("i/iii: "+l.name, v.err)
		}
		if !v.clean {
			allClean = false
			x.Class("diverges:" + l.name)
			for _, f := range v.explained {
				known[f] = true
			}
		}
	}
	for _, f := range allFeatures {
		if !known[f] {
			continue
		}
		if f == featAlias {
			x.Known(c06KnownCat)
		} else {
			x.Class("C08-matter:" + f)
		}
	}
	if !allClean {
		return nil // every divergence, and with it every difference between the layouts, is the known one
	}
	// (ii)
	for i := 1; i < len(layouts); i++ {
		if err := sameRun(layouts[i].name, outs[0], outs[i]); err != nil {
			return fail("ii", err)
		}
	}
	return nil
}

// ---- transaction level ---------------------------------------------------------
//
// validation.ValidateTx of a transaction built with the constructors and of the
// same transaction after an encode/decode round trip must agree: the decoder
// hands out aliasing sub-slices and nil for empty strings and empty lists, the
// constructors do not; the byte values are the same.

type c06TxCase struct {
	Prog     string    `json:"prog"`
	Args     []string  `json:"args"`
	InState  *[]string `json:"in_state"`  // state data of the spent output: null = nil list, [] = empty non-nil list
	OutState *[]string `json:"out_state"` // state data of the created output
	OutProg  string    `json:"out_prog"`
	Note     string    `json:"note"`
}

const (
	c06InAmount  = 10000000000
	c06OutAmount = 9000000000
)

func stateList(p *[]string) [][]byte {
	if p == nil {
		return nil
	}
	out := make([][]byte, 0, len(*p))
	for _, s := range *p {
		out = append(out, unhex(s))
	}
	return out
}

func c06BuildTx(c *c06TxCase) (*types.Tx, error) {
	asset := *consensus.BTMAssetID
	var args [][]byte
	if len(c.Args) > 0 {
		args = unhexList(c.Args)
	}
	data := types.TxData{
		Version: 1,
		Inputs:  []*types.TxInput{types.NewSpendInput(args, bc.NewHash([32]byte{9}), asset, c06InAmount, 0, unhex(c.Prog), stateList(c.InState))},
		Outputs: []*types.TxOutput{types.NewOriginalTxOutput(asset, c06OutAmount, unhex(c.OutProg), stateList(c.OutState))},
	}
	text, err := data.MarshalText()
	if err != nil {
		return nil, err
	}
	data.SerializedSize = uint64(len(text) / 2)
	return types.NewTx(data), nil
}

// validateOutcome runs ValidateTx; catRan reports whether the VM executed a CAT or CATPUSHDATA.
func validateOutcome(tx *types.Tx) (verdict string, catRan bool) {
	block := &bc.Block{BlockHeader: &bc.BlockHeader{Version: 1, Height: 100}}
	w := &cappedTrace{max: 1 << 20}
	vm.TraceOut = w
	gas, err := validation.ValidateTx(tx.Tx, block, func(prog []byte) ([]byte, error) { return nil, fmt.Errorf("no contract") })
	vm.TraceOut = nil
	if tb := vm.BoolBytes(true); len(tb) == 1 && tb[0] != 1 {
		tb[0] = 1 // see runImpl
		catRan = true
	}
	for _, l := range strings.Split(w.buf.String(), "\n") {
		if f := strings.Fields(l); len(f) >= 7 && f[0] == "vm" && (f[6] == "CAT" || f[6] == "CATPUSHDATA") {
			catRan = true
		}
	}
	if err != nil {
		return "invalid: " + firstLine(bytomerrors.Root(err).Error()), catRan
	}
	return fmt.Sprintf("valid, gas left %d used %d storage %d btm %d", gas.GasLeft, gas.GasUsed, gas.StorageGas, gas.BTMValue), catRan
}

// dealias gives every byte string of a decoded transaction its own exact-capacity buffer (nil stays nil).
func dealias(d *types.TxData) {
	cp := func(b []byte) []byte {
		if b == nil {
			return nil
		}
		return exact(b)
	}
	cpl := func(l [][]byte) [][]byte {
		if l == nil {
			return nil
		}
		out := make([][]byte, len(l))
		for i, b := range l {
			out[i] = cp(b)
		}
		return out
	}
	for _, in := range d.Inputs {
		if sp, ok := in.TypedInput.(*types.SpendInput); ok {
			sp.Arguments, sp.ControlProgram, sp.StateData = cpl(sp.Arguments), cp(sp.ControlProgram), cpl(sp.StateData)
		}
	}
	for _, out := range d.Outputs {
		out.ControlProgram, out.StateData = cp(out.ControlProgram), cpl(out.StateData)
	}
}

func c06TxGen(t *rapid.T) c06TxCase {
	c := c06TxCase{OutProg: rapid.SampledFrom([]string{"51", "616263", "00"}).Draw(t, "outprog")}
	genState := func(label string) *[]string {
		switch rapid.IntRange(0, 3).Draw(t, label) {
		case 0:
			return nil
		case 1:
			return &[]string{}
		case 2:
			return &[]string{"7374617465"}
		default:
			return &[]string{"7374617465", ""}
		}
	}
	c.InState = genState("instate")
	if rapid.Bool().Draw(t, "samestate") { // same value, independently chosen representation of "no items"
		if c.InState == nil || len(*c.InState) == 0 {
			if rapid.Bool().Draw(t, "outnil") {
				c.OutState = nil
			} else {
				c.OutState = &[]string{}
			}
		} else {
			cp := append([]string{}, *c.InState...)
			c.OutState = &cp
		}
	} else {
		c.OutState = genState("outstate")
	}
	checkOutput := func() []byte { // index 0, amount, asset, vm version 1, program of output 0
		var p []byte
		p = append(p, refvm.OpFalse)
		p = append(p, refvm.PushNum(big.NewInt(c06OutAmount))...)
		p = append(p, refvm.PushData(consensus.BTMAssetID.Bytes())...)
		p = append(p, refvm.Op1)
		p = append(p, refvm.PushData(unhex(c.OutProg))...)
		return append(p, refvm.OpCheckOutput)
	}
	var prog []byte
	switch rapid.IntRange(0, 4).Draw(t, "kind") {
	case 0:
		c.Note = "true"
		prog = []byte{refvm.Op1}
	case 1:
		c.Note = "checkoutput"
		prog = checkOutput()
	case 2:
		c.Note = "alt-stack-juggling+checkoutput"
		prog = unhex(rapid.SampledFrom([]string{"016b6c75", "6c6b", "6c75", "516b6c75", "6c756c75"}).Draw(t, "juggle"))
		prog = append(prog, checkOutput()...)
	default:
		c.Note = "grammar"
		n := rapid.IntRange(1, 8).Draw(t, "len")
		for i := 0; i < n; i++ {
			prog = append(prog, c06Candidate(t, fmt.Sprintf("i%d_", i))...)
		}
		if rapid.Bool().Draw(t, "endtrue") {
			prog = append(prog, refvm.Op1)
		}
		na := rapid.IntRange(0, 2).Draw(t, "nargs")
		for i := 0; i < na; i++ {
			c.Args = append(c.Args, hex.EncodeToString(bytes.Repeat([]byte{byte('A' + i)}, rapid.IntRange(0, 6).Draw(t, fmt.Sprintf("arglen%d", i)))))
		}
	}
	c.Prog = hex.EncodeToString(prog)
	return c
}

func c06TxExec(c c06TxCase, x *pbt.Ctx) error {
	x.Class("tx-program:" + c.Note)
	built, err := c06BuildTx(&c)
	if err != nil {
		return fmt.Errorf("HARNESS: cannot build the transaction: %v", err)
	}
	text, err := built.TxData.MarshalText()
	if err != nil {
		return fmt.Errorf("HARNESS: %v", err)
	}
	var decoded types.Tx
	if err := decoded.UnmarshalText(text); err != nil {
		return fmt.Errorf("HARNESS: own serialisation does not decode: %v", err)
	}
	if decoded.ID != built.ID {
		return fmt.Errorf("HARNESS: round trip changed the transaction id")
	}
	emptyList := func(p *[]string) bool { return p == nil || len(*p) == 0 }
	x.NonTrivial = emptyList(c.InState) || emptyList(c.OutState) || c.Note == "grammar"
	// working aids for finding further root causes (default: nothing excluded)
	if c06Skip["nilstate"] && ((c.InState != nil && len(*c.InState) == 0) || (c.OutState != nil && len(*c.OutState) == 0)) {
		x.Class("SKIPPED-BY-ENV:nilstate")
		return nil
	}
	if c06Skip["alias"] && bytes.ContainsAny(unhex(c.Prog), "\x7e\x89") {
		x.Class("SKIPPED-BY-ENV:alias")
		return nil
	}
	r1, cat1 := validateOutcome(built)
	r2, cat2 := validateOutcome(&decoded)
	if r1[:5] == "valid" {
		x.Class("tx-valid")
	} else {
		x.Class("tx-invalid")
	}
	desc := fmt.Sprintf("spend of an output with program %s = [%s], state data %s, arguments %v; creates output 0 with program %s, state data %s",
		c.Prog, disasm(unhex(c.Prog)), showState(c.InState), c.Args, c.OutProg, showState(c.OutState))
	var failure error
	serChanged := false
	if r1 != r2 {
		failure = fmt.Errorf("(ii, transaction level) ValidateTx depends on the in-memory representation:\n  built with constructors: %s\n  after encode/decode:     %s\n  %s", r1, r2, desc)
	}
	for _, tx := range []struct {
		name string
		tx   *types.Tx
	}{{"constructed", built}, {"decoded", &decoded}} {
		again, err := tx.tx.TxData.MarshalText()
		if err != nil || !bytes.Equal(again, text) {
			serChanged = true
		}
		if (err != nil || !bytes.Equal(again, text)) && failure == nil {
			failure = fmt.Errorf("(i, transaction level) the %s transaction serialises differently after ValidateTx:\n  before %s\n  after  %s (%v)\n  %s", tx.name, text, again, err, desc)
		}
	}
	if failure == nil {
		return nil
	}
	// attribution to the two known findings: the verdicts must agree once the one
	// representation difference each of them is about has been removed
	emptyNonNil := (c.InState != nil && len(*c.InState) == 0) || (c.OutState != nil && len(*c.OutState) == 0)
	norm := c
	if norm.InState != nil && len(*norm.InState) == 0 {
		norm.InState = nil
	}
	if norm.OutState != nil && len(*norm.OutState) == 0 {
		norm.OutState = nil
	}
	builtNil, err := c06BuildTx(&norm) // as constructed, but every empty state list is nil (what the decoder produces)
	if err != nil {
		return fmt.Errorf("HARNESS: %v", err)
	}
	r1n, _ := validateOutcome(builtNil)
	if r1 != r2 && !serChanged && emptyNonNil && r1n == r2 {
		x.Known("checkoutput-nil-vs-empty-state")
		return nil
	}
	if cat1 || cat2 {
		var twin types.Tx
		if err := twin.UnmarshalText(text); err != nil {
			return fmt.Errorf("HARNESS: %v", err)
		}
		dealias(&twin.TxData) // as decoded, but no two byte strings share a buffer
		twin.Tx = types.MapTx(&twin.TxData)
		if r2d, _ := validateOutcome(&twin); r2d == r1n {
			x.Known(c06KnownCat)
			if r1 != r1n {
				x.Known("checkoutput-nil-vs-empty-state")
			}
			return nil
		}
	}
	return failure
}

func showState(p *[]string) string {
	if p == nil {
		return "nil"
	}
	return fmt.Sprintf("%v (non-nil)", *p)
}

func TestC06(t *testing.T) {
	t.Run("tx", func(t *testing.T) {
		pbt.Run(t, "C06",
			"a one-input one-output BTM transaction whose spent output carries the generated program (TRUE; a CHECKOUTPUT that matches output 0; alt-stack juggling then that CHECKOUTPUT; grammar programs), state data of the spent and of the created output drawn from {nil list, empty non-nil list, one item, two items}, equal by value in half of the cases. Oracle: validation.ValidateTx(constructed) and ValidateTx(decode(encode(constructed))) give the same verdict, error and gas state; both serialise unchanged afterwards. Non-trivial = a state list is empty (nil or not) or the program is a grammar program",
			pbt.Options{Sub: "tx", Checks: pbt.Per(5000, 600000)}, c06TxGen, c06TxExec)
	})
	t.Run("vm", func(t *testing.T) {
		pbt.Run(t, "C06",
			"programs of 3..14 grammar instructions (literal pushes, DUP/OVER/2DUP/3DUP/TUCK/IFDUP/2OVER, n PICK, TOALTSTACK/FROMALTSTACK, PROGRAM/ASSET/ENTRYID/OUTPUTID/TXSIGHASH, k LEFT/RIGHT, SUBSTR, CAT, CATPUSHDATA, SIZE/EQUAL/SWAP/ROT/DROP/NIP..., any byte) built left to right preferring instructions the reference can execute; 0..4 arguments, 0..2 state items of recognisable bytes; each case run in three layouts (independent exact-capacity buffers; sub-slices of one buffer with 0..16 spare bytes, empty = nil, as ReadVarstrList produces; fields of a decoded serialised two-input transaction). Oracle: caller-visible bytes unchanged (program, arguments, state, context fields, shared buffer incl. spare, re-serialised transaction); identical outcome, gasLeft and trace across layouts; equal to refvm. Non-trivial = the run executes a splice op (CAT/CATPUSHDATA/LEFT/RIGHT/SUBSTR) on an item whose bytes are shared with another live item or a caller buffer; distinct by case",
			pbt.Options{Sub: "vm", Checks: pbt.Per(60000, 6000000), MinClass: map[string]int{"splice-on-aliased-item": 2000}},
			c06Gen, c06Exec)
	})
}
