package vmcheck

// Shared machinery of C06, C07 and C08: a VM case as data, running it through
// protocol/vm with the step trace captured, running it through refvm, and the
// differential judgement.
//
// vm.TraceOut is a package-level variable: nothing in this package may run in
// parallel (no t.Parallel anywhere).

import (
	"bytes"
	"encoding/hex"
	"fmt"
	"math/big"
	"os"
	"strconv"
	"strings"

	"github.com/bytom/bytom/errors"
	"github.com/bytom/bytom/math/checked"
	"github.com/bytom/bytom/protocol/vm"
	"pgregory.net/rapid"

	"verifharness/refvm"
)

// ctxSpec describes which context fields exist.
type ctxSpec struct {
	VMVersion   uint64  `json:"vm_version"`
	TxVersion   *uint64 `json:"tx_version,omitempty"`
	BlockHeight *uint64 `json:"block_height,omitempty"`
	AssetID     *string `json:"asset_id,omitempty"` // hex
	Amount      *uint64 `json:"amount,omitempty"`
	DestPos     *uint64 `json:"dest_pos,omitempty"`
	OutputID    *string `json:"output_id,omitempty"` // hex
	EntryID     string  `json:"entry_id"`            // hex
	SigHash     *string `json:"sig_hash,omitempty"`  // hex; nil = no TxSigHash function
	CheckOutput int     `json:"check_output"`        // 0 absent, 1 answers by a fixed rule of its arguments, 2 always fails with the context error
}

// vmCase is one VM run as plain data.
type vmCase struct {
	Prog  string   `json:"prog"`  // hex
	Args  []string `json:"args"`  // hex, bottom of the data stack first
	State []string `json:"state"` // hex, bottom of the alt stack first
	Gas   int64    `json:"gas"`
	Ctx   ctxSpec  `json:"ctx"`
	Op    int      `json:"op"`             // opcode under test (-1: none)
	Note  string   `json:"note,omitempty"` // how the generator built it
}

func unhex(s string) []byte {
	b, err := hex.DecodeString(s)
	if err != nil {
		panic("bad hex in case: " + s)
	}
	if b == nil {
		b = []byte{}
	}
	return b
}

func unhexList(l []string) [][]byte {
	out := make([][]byte, len(l))
	for i, s := range l {
		out[i] = unhex(s)
	}
	return out
}

func hexList(l [][]byte) []string {
	out := make([]string, len(l))
	for i, b := range l {
		out[i] = hex.EncodeToString(b)
	}
	return out
}

// checkOutputRule is the fixed answer of the recording CheckOutput callback.
func checkOutputRule(index, amount uint64, assetID []byte, vmVersion uint64, code []byte, state [][]byte, expansion bool) (ok bool, bad bool) {
	if index >= 5 {
		return false, true // "index out of range", as the real callback reports it
	}
	sum := index + amount + vmVersion + uint64(len(assetID)) + uint64(len(code)) + uint64(len(state))
	if expansion {
		sum++
	}
	return sum%2 == 0, false
}

func callString(index, amount uint64, assetID []byte, vmVersion uint64, code []byte, state [][]byte, expansion bool) string {
	return fmt.Sprintf("checkoutput(index=%d amount=%d asset=%x vmversion=%d code=%x state=%v expansion=%v)",
		index, amount, assetID, vmVersion, code, hexList(state), expansion)
}

// instance is one concrete memory layout of a case: the buffers handed to the VM
// and what the caller can see of them afterwards.
type instance struct {
	code        []byte
	args, state [][]byte
	entryID     []byte
	assetID     *[]byte
	outputID    *[]byte
	sigHash     []byte // nil = no TxSigHash function; the function returns this one buffer (a cache, as in validation)
	extra       func() []region
}

// region is a named caller-visible byte range (full capacity), copied.
type region struct {
	name string
	b    []byte
}

func exact(b []byte) []byte { // independent buffer, no spare capacity
	out := make([]byte, len(b))
	copy(out, b)
	return out[:len(b):len(b)]
}

func fullCopy(name string, b []byte) region {
	return region{name: name, b: append([]byte{}, b[:cap(b)]...)}
}

// fillContextFields gives the instance its own context-field buffers.
func (in *instance) fillContextFields(c *vmCase) {
	s := c.Ctx
	in.entryID = exact(unhex(s.EntryID))
	if s.AssetID != nil {
		b := exact(unhex(*s.AssetID))
		in.assetID = &b
	}
	if s.OutputID != nil {
		b := exact(unhex(*s.OutputID))
		in.outputID = &b
	}
	if s.SigHash != nil {
		in.sigHash = exact(unhex(*s.SigHash))
	}
}

// freshInstance: every item an independent buffer of exact capacity.
func freshInstance(c *vmCase) *instance {
	in := &instance{code: exact(unhex(c.Prog))}
	for _, a := range unhexList(c.Args) {
		in.args = append(in.args, exact(a))
	}
	for _, a := range unhexList(c.State) {
		in.state = append(in.state, exact(a))
	}
	in.fillContextFields(c)
	return in
}

// visible lists everything the caller can look at after the run.
func (in *instance) visible() []region {
	var out []region
	if in.extra != nil {
		out = append(out, in.extra()...)
	} else {
		out = append(out, fullCopy("program", in.code))
		for i, a := range in.args {
			out = append(out, fullCopy(fmt.Sprintf("argument %d", i), a))
		}
		for i, a := range in.state {
			out = append(out, fullCopy(fmt.Sprintf("state item %d", i), a))
		}
	}
	out = append(out, fullCopy("entry id", in.entryID))
	if in.assetID != nil {
		out = append(out, fullCopy("asset id", *in.assetID))
	}
	if in.outputID != nil {
		out = append(out, fullCopy("spent output id", *in.outputID))
	}
	if in.sigHash != nil {
		out = append(out, fullCopy("cached tx signature hash", in.sigHash))
	}
	return out
}

func regionsDiff(a, b []region) string {
	if len(a) != len(b) {
		return fmt.Sprintf("%d vs %d regions", len(a), len(b))
	}
	for i := range a {
		if !bytes.Equal(a[i].b, b[i].b) {
			return fmt.Sprintf("%s: %x vs %x", a[i].name, a[i].b, b[i].b)
		}
	}
	return ""
}

// impl builds the protocol/vm context over the instance's buffers.
func (in *instance) impl(c *vmCase, calls *[]string) *vm.Context {
	s := c.Ctx
	ctx := &vm.Context{VMVersion: s.VMVersion, Code: in.code, Arguments: in.args, StateData: in.state,
		EntryID: in.entryID, TxVersion: s.TxVersion, BlockHeight: s.BlockHeight, Amount: s.Amount, DestPos: s.DestPos,
		AssetID: in.assetID, SpentOutputID: in.outputID}
	if in.sigHash != nil {
		ctx.TxSigHash = func() []byte { return in.sigHash }
	}
	switch s.CheckOutput {
	case 1:
		ctx.CheckOutput = func(index, amount uint64, assetID []byte, vmVersion uint64, code []byte, state [][]byte, expansion bool) (bool, error) {
			*calls = append(*calls, callString(index, amount, assetID, vmVersion, code, state, expansion))
			ok, bad := checkOutputRule(index, amount, assetID, vmVersion, code, state, expansion)
			if bad {
				return false, errors.Wrapf(vm.ErrBadValue, "index %d >= 5", index)
			}
			return ok, nil
		}
	case 2:
		ctx.CheckOutput = func(index, amount uint64, assetID []byte, vmVersion uint64, code []byte, state [][]byte, expansion bool) (bool, error) {
			*calls = append(*calls, callString(index, amount, assetID, vmVersion, code, state, expansion))
			return false, vm.ErrContext
		}
	}
	return ctx
}

// ref builds the reference context over the instance's buffers (the reference
// copies them unless it runs in its Alias mode).
func (in *instance) ref(c *vmCase, calls *[]string) *refvm.Context {
	s := c.Ctx
	ctx := &refvm.Context{VMVersion: s.VMVersion, Code: in.code, Arguments: in.args, StateData: in.state,
		EntryID: in.entryID, TxVersion: s.TxVersion, BlockHeight: s.BlockHeight, Amount: s.Amount, DestPos: s.DestPos,
		AssetID: in.assetID, SpentOutputID: in.outputID}
	if in.sigHash != nil {
		ctx.TxSigHash = func() []byte { return in.sigHash }
	}
	switch s.CheckOutput {
	case 1:
		ctx.CheckOutput = func(index, amount uint64, assetID []byte, vmVersion uint64, code []byte, state [][]byte, expansion bool) (bool, refvm.Class) {
			*calls = append(*calls, callString(index, amount, assetID, vmVersion, code, state, expansion))
			ok, bad := checkOutputRule(index, amount, assetID, vmVersion, code, state, expansion)
			if bad {
				return false, refvm.BadValue
			}
			return ok, ""
		}
	case 2:
		ctx.CheckOutput = func(index, amount uint64, assetID []byte, vmVersion uint64, code []byte, state [][]byte, expansion bool) (bool, refvm.Class) {
			*calls = append(*calls, callString(index, amount, assetID, vmVersion, code, state, expansion))
			return false, refvm.NoContext
		}
	}
	return ctx
}

// cappedTrace collects the trace but stops storing after max bytes (it keeps counting lines).
type cappedTrace struct {
	buf    bytes.Buffer
	lines  int
	instrs int // "about to execute" lines (each is written with one call that starts the line)
	max    int
	capped bool
}

func (w *cappedTrace) Write(p []byte) (int, error) {
	w.lines += bytes.Count(p, []byte{'\n'})
	if bytes.HasPrefix(p, []byte("vm ")) {
		w.instrs++
	}
	if w.buf.Len() < w.max {
		w.buf.Write(p)
	} else {
		w.capped = true
	}
	return len(p), nil
}

// outcome of one run of the implementation.
type outcome struct {
	trace      []string
	traceLines int
	instrs     int  // instructions started
	capped     bool // the trace was too large to keep entirely
	poisoned   bool // the package-level "true" value of protocol/vm did not read 01 after the run (restored)
	gasLeft    int64
	err        error
	class      refvm.Class // "" when err == nil
	calls      []string
}

const traceCap = 256 << 20

// runImpl runs vm.Verify with the trace captured.
func runImpl(ctx *vm.Context, gas int64, calls *[]string) outcome {
	w := &cappedTrace{max: traceCap}
	vm.TraceOut = w
	gasLeft, err := vm.Verify(ctx, gas)
	vm.TraceOut = nil
	o := outcome{gasLeft: gasLeft, err: err, class: classOf(err), traceLines: w.lines, instrs: w.instrs, capped: w.capped}
	// every boolean "true" the VM pushes is one shared package-level slice; a
	// program can overwrite it (CAT after 0 LEFT).  Put it back so that the next
	// case starts from a sane VM, and remember that it happened.
	if tb := vm.BoolBytes(true); len(tb) == 1 && tb[0] != 1 {
		o.poisoned = true
		tb[0] = 1
	}
	txt := w.buf.String()
	if txt != "" {
		o.trace = strings.Split(strings.TrimSuffix(txt, "\n"), "\n")
	}
	if calls != nil {
		o.calls = *calls
	}
	return o
}

// runImplFresh runs the case with every buffer independent (exact capacity).
func runImplFresh(c *vmCase) outcome {
	var calls []string
	return runImpl(freshInstance(c).impl(c, &calls), c.Gas, &calls)
}

func classOf(err error) refvm.Class {
	if err == nil {
		return ""
	}
	switch errors.Root(err) {
	case vm.ErrAltStackUnderflow:
		return refvm.AltUnderflow
	case vm.ErrBadValue:
		return refvm.BadValue
	case vm.ErrContext:
		return refvm.NoContext
	case vm.ErrDataStackUnderflow:
		return refvm.Underflow
	case vm.ErrDisallowedOpcode:
		return refvm.Disallowed
	case vm.ErrDivZero:
		return refvm.DivZero
	case vm.ErrFalseVMResult:
		return refvm.FalseResult
	case vm.ErrRange:
		return refvm.Range
	case vm.ErrReturn:
		return refvm.Return
	case vm.ErrRunLimitExceeded:
		return refvm.RunLimit
	case vm.ErrShortProgram:
		return refvm.ShortProgram
	case vm.ErrUnsupportedVM:
		return refvm.Unsupported
	case vm.ErrVerifyFailed:
		return refvm.VerifyFailed
	case checked.ErrOverflow:
		return refvm.Overflow
	case vm.ErrUnexpected:
		return refvm.Class("unexpected(recovered panic): " + firstLine(err.Error()))
	}
	return refvm.Class("other: " + firstLine(err.Error()))
}

func firstLine(s string) string {
	if i := strings.IndexByte(s, '\n'); i >= 0 {
		s = s[:i]
	}
	if len(s) > 200 {
		s = s[:200]
	}
	return s
}

// refOpts are the reference-model options used for every judged run.  The zero
// value is the intended semantics (a CHECKPREDICATE child frame inherits the
// expansion-reserved rule); set ChildResetsExpansion to model what protocol/vm does.
var refOpts = refvm.Options{}

// runRef runs the reference model with value semantics on the case's byte values.
func runRef(c *vmCase, opt refvm.Options) (*refvm.Result, []string) {
	var calls []string
	opt.ChildResetsExpansion = opt.ChildResetsExpansion || refOpts.ChildResetsExpansion
	opt.Alias = false
	res := refvm.Run(freshInstance(c).ref(c, &calls), c.Gas, opt)
	return res, calls
}

// renderRef is the trace the reference expects, in the format of vm.TraceOut.
func renderRef(res *refvm.Result) []string {
	var out []string
	for _, ev := range res.Events {
		st := ev.Step
		if !ev.Post {
			l := fmt.Sprintf("vm %d pc %d limit %d %s", st.Depth, st.PC, st.Limit, vm.Op(st.Op).String())
			if len(st.Data) > 0 {
				l += fmt.Sprintf(" %x", st.Data)
			}
			out = append(out, l)
			continue
		}
		for i := len(st.Stack) - 1; i >= 0; i-- {
			out = append(out, fmt.Sprintf("  stack %d: %x", len(st.Stack)-1-i, st.Stack[i]))
		}
	}
	return out
}

func disasm(prog []byte) string {
	d, err := vm.Disassemble(prog)
	if err != nil {
		return "(not disassemblable)"
	}
	return d
}

func describeCase(c *vmCase) string {
	return fmt.Sprintf("program %s = [%s]\n  data stack (bottom first): %v\n  alt stack: %v\n  gas %d  ctx %s",
		c.Prog, disasm(unhex(c.Prog)), c.Args, c.State, c.Gas, ctxString(c.Ctx))
}

func ctxString(s ctxSpec) string {
	p := func(v *uint64) string {
		if v == nil {
			return "absent"
		}
		return strconv.FormatUint(*v, 10)
	}
	q := func(v *string) string {
		if v == nil {
			return "absent"
		}
		return *v
	}
	return fmt.Sprintf("{vm %d txversion %s height %s asset %s amount %s destpos %s outputid %s entryid %s sighash %s checkoutput %d}",
		s.VMVersion, p(s.TxVersion), p(s.BlockHeight), q(s.AssetID), p(s.Amount), p(s.DestPos), q(s.OutputID), s.EntryID, q(s.SigHash), s.CheckOutput)
}

func classSet(cs []refvm.Class) string {
	var s []string
	for _, c := range cs {
		s = append(s, string(c))
	}
	return "{" + strings.Join(s, ", ") + "}"
}

// diffRef judges one run of the implementation against the reference result
// (DESIGN C08 / 4.2).  nil = they agree.
func diffRef(o outcome, res *refvm.Result, refCalls []string) error {
	if res.Truncated {
		return nil // reference gave up (step bound); not judged
	}
	exp := renderRef(res)
	n := len(exp)
	if len(o.trace) < n {
		n = len(o.trace)
	}
	for i := 0; i < n; i++ {
		if exp[i] != o.trace[i] {
			return fmt.Errorf("step trace differs at line %d:\n  implementation: %q\n  reference:      %q\n%s", i, o.trace[i], exp[i], traceContext(o.trace, exp, i))
		}
	}
	if len(o.trace) != len(exp) {
		var extra string
		if len(o.trace) > len(exp) {
			extra = fmt.Sprintf("implementation continues with %q where the reference stops (reference outcome: %s)", o.trace[n], refOutcome(res))
		} else {
			extra = fmt.Sprintf("implementation stops (%s) where the reference continues with %q", implOutcome(o), exp[n])
		}
		return fmt.Errorf("step trace differs at line %d: %s\n%s", n, extra, traceContext(o.trace, exp, n))
	}
	if res.OK != (o.err == nil) {
		return fmt.Errorf("outcome differs: implementation %s, reference %s", implOutcome(o), refOutcome(res))
	}
	if !res.OK {
		admissible := false
		for _, f := range res.Faults {
			if f == o.class || (f == refvm.Panic && classPrefix(o.class) == refvm.Panic) {
				admissible = true
			}
		}
		if !admissible {
			return fmt.Errorf("failure class differs: implementation fails with %q, admissible per reference: %s", o.class, classSet(res.Faults))
		}
	}
	if res.Completed && res.GasLeft != o.gasLeft {
		return fmt.Errorf("gas differs: implementation returns gasLeft %d, reference %d", o.gasLeft, res.GasLeft)
	}
	if fmt.Sprint(o.calls) != fmt.Sprint(refCalls) {
		return fmt.Errorf("CheckOutput callback invocations differ:\n  implementation: %v\n  reference:      %v", o.calls, refCalls)
	}
	return nil
}

func implOutcome(o outcome) string {
	if o.err == nil {
		return fmt.Sprintf("succeeds (gasLeft %d)", o.gasLeft)
	}
	return fmt.Sprintf("fails with %q (gasLeft %d)", o.class, o.gasLeft)
}

func refOutcome(res *refvm.Result) string {
	if res.OK {
		return fmt.Sprintf("succeeds (gasLeft %d)", res.GasLeft)
	}
	return "fails with " + classSet(res.Faults)
}

func traceContext(got, exp []string, at int) string {
	var b strings.Builder
	lo := at - 4
	if lo < 0 {
		lo = 0
	}
	b.WriteString("  common prefix (last lines):\n")
	for i := lo; i < at; i++ {
		fmt.Fprintf(&b, "    %s\n", got[i])
	}
	show := func(name string, l []string) {
		fmt.Fprintf(&b, "  %s from there:\n", name)
		for i := at; i < len(l) && i < at+6; i++ {
			fmt.Fprintf(&b, "    %s\n", l[i])
		}
	}
	show("implementation", got)
	show("reference", exp)
	return b.String()
}

// ---------------------------------------------------------------------------
// attribution of a disagreement to the known divergences of protocol/vm
//
// A run that disagrees with the reference (or changes caller-visible bytes) is
// attributed to a known divergence only if (a) the reference annotated the
// feature on the run and (b) the implementation's behaviour is reproduced
// exactly - trace, outcome, gas, callback arguments and the final content of
// every caller-visible buffer - by the reference switched to model precisely
// that divergence and nothing else.

const (
	featWide64   = "wide64"   // PICK/ROLL/CHECKOUTPUT operand that does not fit 64 bits -> Options.Truncate64
	featChildExp = "childexp" // expansion opcode / CHECKOUTPUT in a child frame under tx version 1 -> Options.ChildResetsExpansion
	featAlias    = "alias"    // CAT/CATPUSHDATA on an item whose bytes are shared -> Options.Alias
)

var allFeatures = []string{featWide64, featChildExp, featAlias}

func annotate(res *refvm.Result, into map[string]bool) {
	for _, st := range res.Steps {
		if st.Wide64 {
			into[featWide64] = true
		}
		if st.ChildExpansion {
			into[featChildExp] = true
		}
		if st.AliasedSplice && (st.Op == refvm.OpCat || st.Op == refvm.OpCatPushdata) {
			into[featAlias] = true
		}
	}
}

// subsets of the present features, smallest first.
func featureSubsets(present map[string]bool) [][]string {
	var fs []string
	for _, f := range allFeatures {
		if present[f] {
			fs = append(fs, f)
		}
	}
	var out [][]string
	for size := 1; size <= len(fs); size++ {
		for mask := 1; mask < 1<<len(fs); mask++ {
			var sub []string
			for i, f := range fs {
				if mask&(1<<i) != 0 {
					sub = append(sub, f)
				}
			}
			if len(sub) == size {
				out = append(out, sub)
			}
		}
	}
	return out
}

type verdict struct {
	clean     bool     // agrees with the intended semantics and changed nothing
	explained []string // features whose model reproduces the run exactly (when !clean)
	err       error    // neither
}

// judgeInstance runs the implementation on a layout built by build() and judges it.
func judgeInstance(c *vmCase, build func() (*instance, error), res0 *refvm.Result, refCalls0 []string) (outcome, verdict) {
	in, err := build()
	if err != nil {
		return outcome{}, verdict{err: fmt.Errorf("HARNESS: cannot build the layout: %v", err)}
	}
	before := in.visible()
	var calls []string
	o := runImpl(in.impl(c, &calls), c.Gas, &calls)
	after := in.visible()
	var first error
	if d := regionsDiff(before, after); d != "" {
		first = fmt.Errorf("caller-visible bytes changed during vm.Verify: %s", d)
	}
	if o.poisoned && first == nil {
		first = fmt.Errorf("the VM's shared \"true\" value was overwritten during vm.Verify (every later boolean result of the process is affected)")
	}
	if err := diffRef(o, res0, refCalls0); err != nil {
		first = err
	}
	if first == nil {
		return o, verdict{clean: true}
	}
	changed := regionsDiff(before, after) != ""
	present := map[string]bool{}
	annotate(res0, present)
	tried := map[string]bool{}
	for round := 0; round < 3 && len(present) > 0; round++ {
		var fullAlt *refvm.Result
		for _, sub := range featureSubsets(present) {
			key := strings.Join(sub, "+")
			if tried[key] {
				continue
			}
			tried[key] = true
			opt := refvm.Options{ChildResetsExpansion: refOpts.ChildResetsExpansion, MaxWork: 4000000}
			alias := false
			for _, f := range sub {
				switch f {
				case featWide64:
					opt.Truncate64 = true
				case featChildExp:
					opt.ChildResetsExpansion = true
				case featAlias:
					opt.Alias, alias = true, true
				}
			}
			twin, err := build()
			if err != nil {
				return o, verdict{err: fmt.Errorf("HARNESS: cannot build the layout: %v", err)}
			}
			var altCalls []string
			alt := refvm.Run(twin.ref(c, &altCalls), c.Gas, opt)
			fullAlt = alt
			ok := diffRef(o, alt, altCalls) == nil
			if alias {
				ok = ok && regionsDiff(after, twin.visible()) == "" && alt.TruePoisoned == o.poisoned
			} else {
				ok = ok && !changed && !o.poisoned
			}
			if ok && !alt.Truncated {
				return o, verdict{explained: sub}
			}
		}
		// the modelled path may reveal further features (e.g. a wide operand only reached after the child frame behaved differently)
		n := len(present)
		if fullAlt != nil {
			annotate(fullAlt, present)
		}
		if len(present) == n {
			break
		}
	}
	var fs []string
	for _, f := range allFeatures {
		if present[f] {
			fs = append(fs, f)
		}
	}
	return o, verdict{err: fmt.Errorf("%v\n  (not reproduced by any model of the known divergences; features annotated on this run: %v)", first, fs)}
}

func freshBuilder(c *vmCase) func() (*instance, error) {
	return func() (*instance, error) { return freshInstance(c), nil }
}

func classPrefix(c refvm.Class) refvm.Class {
	if i := strings.Index(string(c), ": "); i > 0 {
		return c[:i]
	}
	return c
}

// skipTokens: classes of already-found divergences excluded from judgement while
// searching for further root causes (working aid; the default excludes nothing).
func skipTokens(env string) map[string]bool {
	m := map[string]bool{}
	for _, t := range strings.Split(os.Getenv(env), ",") {
		if t = strings.TrimSpace(t); t != "" {
			m[t] = true
		}
	}
	return m
}

// skipped reports whether the run belongs to an excluded class.
func skipped(skip map[string]bool, c *vmCase, res *refvm.Result) string {
	if len(skip) == 0 {
		return ""
	}
	for _, st := range res.Steps {
		if skip["wide64"] && st.Wide64 {
			return "wide64"
		}
		if skip["wide64co"] && st.Wide64 && st.Op == refvm.OpCheckOutput {
			return "wide64co"
		}
		if skip["wide64pr"] && st.Wide64 && st.Op != refvm.OpCheckOutput {
			return "wide64pr"
		}
		if skip["childexp"] && st.ChildExpansion {
			return "childexp"
		}
		if skip["alias"] && st.AliasedSplice && (st.Op == refvm.OpCat || st.Op == refvm.OpCatPushdata) {
			return "alias"
		}
	}
	return ""
}

// ---------------------------------------------------------------------------
// generators shared by the three checks (only rapid draws)

var (
	bigOne = big.NewInt(1)
)

func pow2(e int) *big.Int { return new(big.Int).Lsh(bigOne, uint(e)) }

// leBytes is the little-endian encoding of v padded with zero bytes to at least n bytes.
func leBytes(v *big.Int, n int) []byte {
	b := refvm.EncodeNum(v)
	for len(b) < n {
		b = append(b, 0)
	}
	return b
}

// genNumItem draws a byte string meant to be read as a number, boundary heavy.
func genNumItem(t *rapid.T, label string) []byte {
	kind := rapid.IntRange(0, 15).Draw(t, label+"kind")
	d := int64(rapid.IntRange(-2, 2).Draw(t, label+"d"))
	around := func(v *big.Int) []byte {
		r := new(big.Int).Add(v, big.NewInt(d))
		if r.Sign() < 0 {
			r.SetInt64(0)
		}
		return refvm.EncodeNum(r)
	}
	switch kind {
	case 0:
		return []byte{}
	case 1, 2: // small
		return refvm.EncodeNum(big.NewInt(int64(rapid.IntRange(0, 20).Draw(t, label+"small"))))
	case 3: // non-minimal zero
		return make([]byte, rapid.IntRange(1, 34).Draw(t, label+"zeros"))
	case 4: // small value, padded with zeros up to 8 / 9 / 32 / 33 bytes
		v := big.NewInt(int64(rapid.IntRange(0, 300).Draw(t, label+"small")))
		return leBytes(v, rapid.SampledFrom([]int{2, 8, 9, 31, 32, 33, 40}).Draw(t, label+"pad"))
	case 5:
		return around(pow2(63))
	case 6:
		return around(pow2(64))
	case 7:
		return around(pow2(255))
	case 8: // top bit set / all ones
		b := bytes.Repeat([]byte{0xff}, 32)
		if rapid.Bool().Draw(t, label+"half") {
			b[31] = 0x80
			for i := 0; i < 31; i++ {
				b[i] = 0
			}
			b[0] = byte(rapid.IntRange(0, 3).Draw(t, label+"low"))
		}
		return b
	case 9: // uniform bytes of a chosen length 1..32
		return rapid.SliceOfN(rapid.Byte(), 1, 32).Draw(t, label+"rnd")
	case 10: // too long
		return rapid.SliceOfN(rapid.Byte(), 33, 40).Draw(t, label+"long")
	case 11:
		return around(pow2(rapid.SampledFrom([]int{8, 16, 31, 32, 53, 62, 127, 128, 254}).Draw(t, label+"e")))
	case 12: // 8 and 9 byte values
		n := rapid.SampledFrom([]int{8, 9}).Draw(t, label+"len")
		b := rapid.SliceOfN(rapid.Byte(), n, n).Draw(t, label+"rnd")
		b[n-1] |= 1
		return b
	case 13: // powers of two +- d
		return around(pow2(rapid.IntRange(0, 255).Draw(t, label+"e")))
	case 14: // shift-count boundaries
		return refvm.EncodeNum(big.NewInt(int64(rapid.SampledFrom([]int{254, 255, 256, 257, 511, 512, 65536}).Draw(t, label+"sh"))))
	default: // multiples of 2^64 plus a small value (what a 64-bit truncation would confuse)
		v := new(big.Int).Mul(pow2(64), big.NewInt(int64(rapid.IntRange(1, 3).Draw(t, label+"hi"))))
		v.Add(v, big.NewInt(int64(rapid.IntRange(0, 5).Draw(t, label+"lo"))))
		return refvm.EncodeNum(v)
	}
}

// genBytesItem draws an arbitrary byte string of 0..40 bytes.
func genBytesItem(t *rapid.T, label string) []byte {
	switch rapid.IntRange(0, 5).Draw(t, label+"bk") {
	case 0:
		return []byte{}
	case 1:
		return []byte(rapid.SampledFrom([]string{"a", "abc", "abcd", "hello world", "\x00", "\x00\x00", "\x01"}).Draw(t, label+"lit"))
	case 2:
		n := rapid.SampledFrom([]int{1, 20, 31, 32, 33, 40}).Draw(t, label+"n")
		return rapid.SliceOfN(rapid.Byte(), n, n).Draw(t, label+"fix")
	default:
		return rapid.SliceOfN(rapid.Byte(), 0, 40).Draw(t, label+"any")
	}
}

func genItem(t *rapid.T, label string) []byte {
	if rapid.Bool().Draw(t, label+"isnum") {
		return genNumItem(t, label)
	}
	return genBytesItem(t, label)
}

func u64p(v uint64) *uint64 { return &v }
func strp(s string) *string { return &s }

// genCtx draws a context: each optional field present or absent.
func genCtx(t *rapid.T, full int) ctxSpec {
	// full: 0 = draw each field, 1 = everything present, 2 = everything absent
	has := func(label string) bool {
		switch full {
		case 1:
			return true
		case 2:
			return false
		}
		return rapid.Bool().Draw(t, label)
	}
	s := ctxSpec{VMVersion: 1}
	s.EntryID = hex.EncodeToString(rapid.SliceOfN(rapid.Byte(), 32, 32).Draw(t, "entryid"))
	if has("hasTxVersion") {
		s.TxVersion = u64p(uint64(rapid.SampledFrom([]int{1, 1, 2, 0}).Draw(t, "txversion")))
	}
	if has("hasHeight") {
		s.BlockHeight = u64p(rapid.SampledFrom([]uint64{0, 1, 255, 256, 1 << 32, 1<<63 - 1, 1 << 63, 1<<64 - 1}).Draw(t, "height"))
	}
	if has("hasAsset") {
		s.AssetID = strp(hex.EncodeToString(rapid.SliceOfN(rapid.Byte(), 32, 32).Draw(t, "asset")))
	}
	if has("hasAmount") {
		s.Amount = u64p(rapid.SampledFrom([]uint64{0, 1, 100, 1 << 32, 1<<63 - 1, 1 << 63, 1<<64 - 1}).Draw(t, "amount"))
	}
	if has("hasDestPos") {
		s.DestPos = u64p(rapid.SampledFrom([]uint64{0, 1, 7, 1<<64 - 1}).Draw(t, "destpos"))
	}
	if has("hasOutputID") {
		s.OutputID = strp(hex.EncodeToString(rapid.SliceOfN(rapid.Byte(), 32, 32).Draw(t, "outputid")))
	}
	if has("hasSigHash") {
		s.SigHash = strp(hex.EncodeToString(rapid.SliceOfN(rapid.Byte(), 32, 32).Draw(t, "sighash")))
	}
	if has("hasCheckOutput") {
		s.CheckOutput = rapid.SampledFrom([]int{1, 1, 1, 2}).Draw(t, "checkoutput")
	}
	return s
}
