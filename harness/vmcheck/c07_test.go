package vmcheck

// C07: VM execution terminates within the gas limit.
//
//   (a) vm.Verify returns, with a bounded trace;
//   (b) 0 <= gasLeft <= limit;
//   (c) the potential  PHI = runLimit + cost(data stack) + cost(alt stack)  of the
//       executing frame, reconstructed from the vm.TraceOut step trace alone,
//       decreases by at least 1 across every executed instruction (so every
//       instruction consumes gas and gasLeft + #instructions <= limit);
//   (d) a run that the reference model says is out of gas (and nothing else) fails
//       with the run-limit error instead of running on.

import (
	"encoding/binary"
	"encoding/hex"
	"fmt"
	"math/big"
	"os"
	"strconv"
	"strings"
	"testing"

	"pgregory.net/rapid"

	"verifharness/pbt"
	"verifharness/refvm"
)

// ---- trace parsing ---------------------------------------------------------

type preLine struct {
	depth int
	pc    int64
	limit int64
	name  string
}

// segment = one "about to execute" line and the stack dumps printed before the next such line.
type segment struct {
	pre    preLine
	groups [][][]byte // each dump, bottom of the stack first
}

func parseTrace(lines []string) ([]segment, error) {
	var segs []segment
	for ln, l := range lines {
		if strings.HasPrefix(l, "vm ") {
			f := strings.Fields(l)
			if len(f) < 7 || f[2] != "pc" || f[4] != "limit" {
				return nil, fmt.Errorf("trace line %d not understood: %q", ln, l)
			}
			d, e1 := strconv.Atoi(f[1])
			pc, e2 := strconv.ParseInt(f[3], 10, 64)
			lim, e3 := strconv.ParseInt(f[5], 10, 64)
			if e1 != nil || e2 != nil || e3 != nil {
				return nil, fmt.Errorf("trace line %d not understood: %q", ln, l)
			}
			segs = append(segs, segment{pre: preLine{depth: d, pc: pc, limit: lim, name: f[6]}})
			continue
		}
		if !strings.HasPrefix(l, "  stack ") || len(segs) == 0 {
			return nil, fmt.Errorf("trace line %d not understood: %q", ln, l)
		}
		rest := strings.TrimPrefix(l, "  stack ")
		colon := strings.IndexByte(rest, ':')
		if colon < 0 {
			return nil, fmt.Errorf("trace line %d not understood: %q", ln, l)
		}
		idx, err := strconv.Atoi(rest[:colon])
		if err != nil {
			return nil, fmt.Errorf("trace line %d not understood: %q", ln, l)
		}
		item, err := hex.DecodeString(strings.TrimSpace(rest[colon+1:]))
		if err != nil {
			return nil, fmt.Errorf("trace line %d not understood: %q", ln, l)
		}
		s := &segs[len(segs)-1]
		if idx == 0 {
			s.groups = append(s.groups, nil)
		}
		if len(s.groups) == 0 || len(s.groups[len(s.groups)-1]) != idx {
			return nil, fmt.Errorf("trace line %d: stack index out of sequence: %q", ln, l)
		}
		g := &s.groups[len(s.groups)-1]
		*g = append([][]byte{item}, *g...) // printed top first
	}
	return segs, nil
}

// ---- PHI reconstruction -------------------------------------------------------

type rstep struct {
	pre                   preLine
	dataBefore, altBefore [][]byte
	dataAfter, altAfter   [][]byte
}

type rframe struct {
	depth     int
	data, alt [][]byte
	prev      *rstep // completed, its closing run limit not yet seen
	cur       *rstep // CHECKPREDICATE waiting for its child frame
}

type phiJudgement struct {
	judged     int // instructions whose PHI before and after are both known
	unjudged   int // last instruction of a child frame / failing instruction
	knownFree  int
	violations []string
	structural error
}

func isExpansionName(n string) bool { return strings.HasPrefix(n, "NOPx") }

func phi(limit int64, data, alt [][]byte) int64 {
	return limit + refvm.StackCost(data) + refvm.StackCost(alt)
}

// reconstructPhi walks the trace.  finalOK: the run executed all its instructions
// (verification succeeded, or failed only with "false result" / while parsing the next instruction).
func reconstructPhi(segs []segment, args, state [][]byte, gas, gasLeft int64, finalOK bool, onKnown func()) *phiJudgement {
	j := &phiJudgement{}
	frames := []*rframe{{depth: 0, data: args, alt: state}}
	if len(segs) > 0 {
		if got := phi(segs[0].pre.limit, args, state); got != gas {
			j.violations = append(j.violations, fmt.Sprintf("before the first instruction runLimit+stack costs = %d, gas limit is %d", got, gas))
		}
	}
	judge := func(st *rstep, limitAfter int64) {
		before := phi(st.pre.limit, st.dataBefore, st.altBefore)
		after := phi(limitAfter, st.dataAfter, st.altAfter)
		j.judged++
		if after <= before-1 {
			return
		}
		if st.pre.name == "CHECKMULTISIG" && after == before && len(st.dataBefore) > 0 && os.Getenv("VERIF_C07_NOKNOWN") == "" {
			if n, cls := refvm.DecodeNum(st.dataBefore[len(st.dataBefore)-1]); cls == "" && n.Sign() == 0 {
				// known finding: exactly CHECKMULTISIG with zero public keys charging nothing
				j.knownFree++
				onKnown()
				return
			}
		}
		j.violations = append(j.violations, fmt.Sprintf("instruction %s (vm %d pc %d): PHI %d -> %d (run limit %d -> %d, data stack cost %d -> %d, alt stack cost %d -> %d): must decrease by at least 1",
			st.pre.name, st.pre.depth, st.pre.pc, before, after, st.pre.limit, limitAfter,
			refvm.StackCost(st.dataBefore), refvm.StackCost(st.dataAfter), refvm.StackCost(st.altBefore), refvm.StackCost(st.altAfter)))
	}
	complete := func(fr *rframe, st *rstep, groups [][][]byte) bool {
		switch {
		case isExpansionName(st.pre.name):
			if len(groups) != 0 {
				j.structural = fmt.Errorf("stack dump after expansion opcode %s", st.pre.name)
				return false
			}
			st.dataAfter = st.dataBefore
		case len(groups) == 0:
			st.dataAfter = [][]byte{}
		case len(groups) == 1:
			st.dataAfter = groups[0]
		default:
			j.structural = fmt.Errorf("%d stack dumps after %s at vm %d pc %d", len(groups), st.pre.name, st.pre.depth, st.pre.pc)
			return false
		}
		st.altAfter = st.altBefore
		switch st.pre.name {
		case "TOALTSTACK":
			if len(st.dataBefore) == 0 {
				j.structural = fmt.Errorf("TOALTSTACK succeeded on an empty data stack")
				return false
			}
			st.altAfter = append(append([][]byte{}, st.altBefore...), st.dataBefore[len(st.dataBefore)-1])
		case "FROMALTSTACK":
			if len(st.altBefore) == 0 {
				j.structural = fmt.Errorf("FROMALTSTACK succeeded on an empty alt stack (as tracked)")
				return false
			}
			st.altAfter = st.altBefore[:len(st.altBefore)-1]
		}
		fr.data, fr.alt = st.dataAfter, st.altAfter
		fr.prev = st
		return true
	}

	for k := range segs {
		s := &segs[k]
		top := frames[len(frames)-1]
		if s.pre.depth != top.depth {
			j.structural = fmt.Errorf("trace segment %d at depth %d while frame depth is %d", k, s.pre.depth, top.depth)
			return j
		}
		if top.prev != nil {
			judge(top.prev, s.pre.limit)
			top.prev = nil
		}
		st := &rstep{pre: s.pre, dataBefore: top.data, altBefore: top.alt}
		end := k == len(segs)-1
		nextDepth := 0
		if !end {
			nextDepth = segs[k+1].pre.depth
		}
		switch {
		case !end && nextDepth == s.pre.depth+1: // a child frame starts
			if s.pre.name != "CHECKPREDICATE" || len(s.groups) != 0 || len(st.dataBefore) < 3 {
				j.structural = fmt.Errorf("child frame after %s (segment %d)", s.pre.name, k)
				return j
			}
			top.cur = st
			rest := st.dataBefore[:len(st.dataBefore)-3]
			n, cls := refvm.DecodeNum(st.dataBefore[len(st.dataBefore)-3])
			if cls != "" || !n.IsInt64() || n.Int64() > int64(len(rest)) {
				j.structural = fmt.Errorf("child frame started with an impossible item count operand %x", st.dataBefore[len(st.dataBefore)-3])
				return j
			}
			cnt := int(n.Int64())
			if cnt == 0 {
				cnt = len(rest)
			}
			frames = append(frames, &rframe{depth: s.pre.depth + 1, data: rest[len(rest)-cnt:], alt: [][]byte{}})
		case !end && nextDepth == s.pre.depth: // this instruction succeeded, the frame goes on
			if !complete(top, st, s.groups) {
				return j
			}
		case !end && nextDepth > s.pre.depth:
			j.structural = fmt.Errorf("depth jumps from %d to %d", s.pre.depth, nextDepth)
			return j
		default: // frames close (or the trace ends)
			if end && !finalOK {
				j.unjudged++ // the failing instruction (and its pending parents)
				return j
			}
			closing := s.pre.depth - nextDepth
			groups := s.groups
			switch {
			case closing == 0: // last top-level instruction of a run that executed everything
				if !complete(top, st, groups) {
					return j
				}
				groups = nil
			case len(groups) == closing+1: // the last child instruction succeeded and left a non-empty stack
				if !complete(top, st, groups[:1]) {
					return j
				}
				groups = groups[1:]
				j.unjudged++ // its closing run limit is not printed
			case len(groups) == closing:
				j.unjudged++ // failed, or succeeded leaving an empty stack: not distinguishable, not judged
			default:
				j.structural = fmt.Errorf("%d stack dumps where %d frames close (segment %d)", len(groups), closing, k)
				return j
			}
			for i := 0; i < closing; i++ {
				frames = frames[:len(frames)-1]
				parent := frames[len(frames)-1]
				pst := parent.cur
				parent.cur = nil
				if pst == nil {
					j.structural = fmt.Errorf("frame closes without a pending CHECKPREDICATE (segment %d)", k)
					return j
				}
				if !complete(parent, pst, groups[i:i+1]) {
					return j
				}
			}
			if end {
				if fr := frames[0]; fr.prev != nil && len(frames) == 1 {
					judge(fr.prev, gasLeft)
					fr.prev = nil
				}
			}
		}
	}
	return j
}

// ---- generator --------------------------------------------------------------

// asmItem is either literal bytes or a jump to a label.
type asmItem struct {
	bytes []byte
	jump  byte // 0 = literal; else OpJump / OpJumpIf
	label int
	mark  int // >0: defines label `mark` here (no bytes)
}

type asm struct {
	items  []asmItem
	labels int
}

func (a *asm) lit(b ...byte)      { a.items = append(a.items, asmItem{bytes: b}) }
func (a *asm) newLabel() int      { a.labels++; return a.labels }
func (a *asm) place(l int)        { a.items = append(a.items, asmItem{mark: l}) }
func (a *asm) jmp(op byte, l int) { a.items = append(a.items, asmItem{jump: op, label: l}) }
func (a *asm) pushNum(v int64)    { a.lit(refvm.PushNum(big.NewInt(v))...) }
func (a *asm) pushBytes(b []byte) { a.lit(refvm.PushData(b)...) }
func (a *asm) assemble() []byte {
	pos := map[int]int{}
	off := 0
	for _, it := range a.items {
		switch {
		case it.mark > 0:
			pos[it.mark] = off
		case it.jump != 0:
			off += 5
		default:
			off += len(it.bytes)
		}
	}
	var out []byte
	for _, it := range a.items {
		switch {
		case it.mark > 0:
		case it.jump != 0:
			addr := make([]byte, 4)
			binary.LittleEndian.PutUint32(addr, uint32(pos[it.label]))
			out = append(append(out, it.jump), addr...)
		default:
			out = append(out, it.bytes...)
		}
	}
	return out
}

var c07Refunding = []byte{refvm.OpDrop, refvm.Op2Drop, refvm.OpNip, refvm.OpToAltStack, refvm.OpFromAltStack, refvm.OpVerify, refvm.OpEqual,
	refvm.OpAdd, refvm.OpSha256, refvm.OpSha3, refvm.OpHash160, refvm.OpCat, refvm.OpBoolAnd, refvm.OpSize, refvm.OpDup, refvm.OpOver, refvm.OpSwap,
	refvm.Op2Dup, refvm.Op3Dup, refvm.OpTuck, refvm.OpRot, refvm.OpDepth, refvm.OpIfDup, refvm.OpNot, refvm.OpInvert, refvm.OpLeft, refvm.OpEqualVerify}

// c07Block appends one block of the grammar.
func c07Block(t *rapid.T, a *asm, depth int, label string) {
	switch k := rapid.IntRange(0, 15).Draw(t, label+"blk"); {
	case k <= 1:
		a.pushNum(int64(rapid.IntRange(0, 20).Draw(t, label+"n")))
	case k == 2:
		a.pushBytes(genItem(t, label+"lit"))
	case k <= 5: // refunding / stack ops
		n := rapid.IntRange(1, 4).Draw(t, label+"nops")
		for i := 0; i < n; i++ {
			a.lit(rapid.SampledFrom(c07Refunding).Draw(t, fmt.Sprintf("%sop%d", label, i)))
		}
	case k == 6: // any opcode with the operands it wants
		op := c08OpOrder[rapid.IntRange(0, 255).Draw(t, label+"anyop")]
		if op == refvm.OpCheckPredicate || op == refvm.OpJump || op == refvm.OpJumpIf || op <= refvm.OpPushdata4 {
			op = refvm.OpCheckMultiSig
		}
		for _, it := range c08Operands(t, op) {
			a.pushBytes(it)
		}
		a.lit(op)
	case k == 7: // countdown loop
		n := rapid.IntRange(0, 12).Draw(t, label+"count")
		a.pushNum(int64(n))
		l := a.newLabel()
		a.place(l)
		body := rapid.IntRange(0, 2).Draw(t, label+"body")
		for i := 0; i < body; i++ {
			a.lit(rapid.SampledFrom([][]byte{{refvm.OpNop}, {refvm.OpDup, refvm.OpDrop}, {refvm.OpDup, refvm.OpToAltStack}, {refvm.OpDup, refvm.OpSha3, refvm.OpDrop}, {0x51, refvm.OpDrop}}).Draw(t, fmt.Sprintf("%sbody%d", label, i))...)
		}
		a.lit(refvm.Op1Sub, refvm.OpDup)
		a.jmp(refvm.OpJumpIf, l)
		a.lit(refvm.OpDrop)
	case k == 8: // endless loops of different gas profiles (only the run limit stops them)
		l := a.newLabel()
		a.place(l)
		a.lit(rapid.SampledFrom([][]byte{{}, {refvm.OpNop}, {0x51, refvm.OpDrop}, {refvm.OpDepth}, {0x51, refvm.OpToAltStack}, {0x51, refvm.OpDup, refvm.Op2Drop},
			{0x00, 0x00, refvm.OpCat, refvm.OpDrop}, {0x01, 0xaa, refvm.OpSha256, refvm.OpDrop}, {0x00, 0x00, refvm.OpEqual, refvm.OpVerify}}).Draw(t, label+"loopbody")...)
		if rapid.Bool().Draw(t, label+"cond") {
			a.lit(0x51)
			a.jmp(refvm.OpJumpIf, l)
		} else {
			a.jmp(refvm.OpJump, l)
		}
	case k == 9: // forward jump over a block
		l := a.newLabel()
		if rapid.Bool().Draw(t, label+"cond") {
			a.pushNum(int64(rapid.IntRange(0, 1).Draw(t, label+"flag")))
			a.jmp(refvm.OpJumpIf, l)
		} else {
			a.jmp(refvm.OpJump, l)
		}
		c07Block(t, a, depth, label+"s")
		a.place(l)
	case k <= 12 && depth < 4: // nested predicate
		nargs := rapid.IntRange(0, 2).Draw(t, label+"cpargs")
		for i := 0; i < nargs; i++ {
			a.pushNum(int64(rapid.IntRange(0, 9).Draw(t, fmt.Sprintf("%scparg%d", label, i))))
		}
		a.pushNum(int64(rapid.SampledFrom([]int{0, 0, nargs, 1}).Draw(t, label+"cpn")))
		child := &asm{}
		nb := rapid.IntRange(0, 3).Draw(t, label+"cpblocks")
		for i := 0; i < nb; i++ {
			c07Block(t, child, depth+1, fmt.Sprintf("%sc%d", label, i))
		}
		if rapid.Bool().Draw(t, label+"cptrue") {
			child.lit(0x51)
		}
		a.pushBytes(child.assemble())
		if rapid.IntRange(0, 7).Draw(t, label+"cphuge") == 0 {
			// limits at and beyond the signed 64-bit boundary: 2^63-1 is the largest a child can be given, anything above is a bad value
			exp := rapid.SampledFrom([]uint{63, 63, 64, 64, 65, 200}).Draw(t, label+"cpexp")
			off := int64(rapid.SampledFrom([]int{-1, 0, 1, -1000, -1000000, 12345}).Draw(t, label+"cpoff"))
			v := new(big.Int).Lsh(big.NewInt(1), exp)
			v.Add(v, big.NewInt(off))
			a.lit(refvm.PushNum(v)...)
		} else {
			a.pushNum(int64(rapid.SampledFrom([]int{0, 0, 0, 1, 5, 20, 100, 300, 1000, 5000}).Draw(t, label+"cplimit")))
		}
		a.lit(refvm.OpCheckPredicate)
	case k == 13: // raw bytes
		a.lit(rapid.SliceOfN(rapid.Byte(), 1, 6).Draw(t, label+"raw")...)
	case k == 14: // a big item (its memory cost dwarfs the fixed cost of any instruction), kept or dropped
		n := rapid.SampledFrom([]int{70, 76, 200, 255, 256, 600, 1500}).Draw(t, label+"bigsz")
		big := make([]byte, n)
		for i := range big {
			big[i] = byte(i*7 + n)
		}
		a.pushBytes(big)
		switch rapid.IntRange(0, 3).Draw(t, label+"bigthen") {
		case 0:
			a.lit(refvm.OpDrop)
		case 1:
			a.lit(refvm.OpDup, refvm.Op2Drop)
		case 2:
			a.lit(refvm.OpSha3, refvm.OpDrop)
		}
	default:
		a.lit(0x51)
	}
}

func c07Gen(t *rapid.T) vmCase {
	c := vmCase{Op: -1}
	c.Ctx = genCtx(t, rapid.SampledFrom([]int{1, 1, 0, 2}).Draw(t, "ctxmode"))
	if c.Ctx.TxVersion != nil && rapid.Bool().Draw(t, "txv2") {
		c.Ctx.TxVersion = u64p(2)
	}
	var prog []byte
	if rapid.SampledFrom([]int{1, 1, 1, 0, 1, 1, 1, 1, 0, 1}).Draw(t, "kind") == 0 {
		c.Note = "arbitrary-bytes"
		prog = rapid.SliceOfN(rapid.Byte(), 0, 300).Draw(t, "rawprog")
	} else {
		c.Note = "grammar"
		a := &asm{}
		n := rapid.IntRange(1, 7).Draw(t, "blocks")
		for i := 0; i < n; i++ {
			c07Block(t, a, 0, fmt.Sprintf("b%d", i))
		}
		prog = a.assemble()
	}
	c.Prog = hex.EncodeToString(prog)
	na := rapid.IntRange(0, 4).Draw(t, "nargs")
	var args [][]byte
	for i := 0; i < na; i++ {
		if rapid.Bool().Draw(t, fmt.Sprintf("argsmall%d", i)) {
			args = append(args, refvm.EncodeNum(big.NewInt(int64(rapid.IntRange(0, 9).Draw(t, fmt.Sprintf("argn%d", i))))))
		} else {
			args = append(args, genItem(t, fmt.Sprintf("arg%d", i)))
		}
	}
	c.Args = hexList(args)
	if rapid.IntRange(0, 3).Draw(t, "hasstate") == 0 {
		c.State = hexList([][]byte{genItem(t, "state0")})
	}
	// gas limit
	gasKinds := []int{0, 1, 2, 2, 2, 3, 3, 3, 3, 3, 3, 3, 3, 4, 4, 4, 4, 4, 4, 4, 4, 4, 4, 5, 5, 6}
	switch k := gasKinds[rapid.IntRange(0, len(gasKinds)-1).Draw(t, "gask")]; {
	case k == 0:
		c.Gas = 0
	case k == 1:
		c.Gas = 1
	case k == 2:
		c.Gas = int64(rapid.IntRange(2, 300).Draw(t, "gassmall"))
	case k == 3: // exact need of the run -1 / 0 / +1
		probe := c
		probe.Gas = 1 << 40
		res, _ := runRef(&probe, refvm.Options{MaxSteps: 3000})
		if res.Truncated || res.Need > 300000 {
			c.Gas = int64(rapid.IntRange(300, 3000).Draw(t, "gasloop"))
		} else {
			c.Gas = res.Need + int64(rapid.IntRange(-1, 1).Draw(t, "gasd"))
			if c.Gas < 0 {
				c.Gas = 0
			}
		}
	case k == 4:
		c.Gas = int64(rapid.IntRange(300, 12000).Draw(t, "gasmed"))
	case k == 5:
		c.Gas = int64(rapid.IntRange(12000, 60000).Draw(t, "gasbig"))
	default:
		c.Gas = 300000 // consensus maximum
	}
	if c.Gas > 3000 { // keep the printed trace manageable
		if res, _ := runRef(&c, refvm.Options{MaxWork: 200000}); res.Truncated || dumpLines(res) > 200000 {
			c.Gas = int64(rapid.IntRange(300, 3000).Draw(t, "gascut"))
		}
	}
	return c
}

// ---- executor --------------------------------------------------------------

// dumpLines estimates the number of stack-dump lines the run will print (the
// whole data stack is printed after every instruction, so a loop that grows the
// stack prints quadratically much).
func dumpLines(res *refvm.Result) int {
	n := 0
	for _, st := range res.Steps {
		n += len(st.Stack)
	}
	return n
}

func c07Exec(c vmCase, x *pbt.Ctx) error {
	x.Class("prog:" + c.Note)
	o := runImplFresh(&c)
	fail := func(format string, args ...any) error {
		return fmt.Errorf("%s\n  %s\n  implementation: %s, %d trace lines", fmt.Sprintf(format, args...), describeCase(&c), implOutcome(o), o.traceLines)
	}
	// (a) every instruction costs at least 1 (the known free one still needs its operands pushed)
	if int64(o.instrs) > 4*c.Gas+16 {
		return fail("run started %d instructions with gas limit %d", o.instrs, c.Gas)
	}
	if o.capped {
		x.Class("trace-too-large-to-attribute")
		return nil
	}
	// known finding (checkpredicate-refunds-unpaid-child-stack): the reference model says which
	// CHECKPREDICATE children ran out of gas while settling the deferred cost of items already pushed;
	// the parent refunds those items although nobody paid for them.  Only a run whose trace the
	// reference reproduces is matched.
	unpaidChild := false
	// (second attempt: the model of what the implementation does with expansion opcodes in a child
	// frame, C08's known finding, so that a run that goes down that path can still be matched)
	for _, childResets := range []bool{false, true} {
		if unpaidChild || os.Getenv("VERIF_C07_NOKNOWN") != "" {
			break
		}
		refEarly, _ := runRef(&c, refvm.Options{MaxWork: 4000000, ChildResetsExpansion: childResets})
		if refEarly.Truncated {
			continue
		}
		exp := renderRef(refEarly)
		same := len(o.trace) >= len(exp)
		for i := 0; same && i < len(exp); i++ {
			same = exp[i] == o.trace[i]
		}
		if same {
			for _, st := range refEarly.Steps {
				unpaidChild = unpaidChild || st.ChildUnpaid
			}
		}
	}
	// (b)
	if o.gasLeft < 0 || o.gasLeft > c.Gas {
		if unpaidChild && o.gasLeft > c.Gas {
			x.Known("checkpredicate-refunds-unpaid-child-stack")
			x.Class("known:unpaid-child-stack")
			return nil
		}
		return fail("gasLeft %d outside [0, %d]", o.gasLeft, c.Gas)
	}
	if o.err == nil {
		x.Class("impl:success")
	} else {
		x.Class("impl:" + string(classPrefix(o.class)))
	}
	// (c)
	segs, err := parseTrace(o.trace)
	if err != nil {
		return fail("HARNESS: %v", err)
	}
	finalOK := o.err == nil || o.class == refvm.FalseResult || o.class == refvm.ShortProgram || o.class == refvm.Overflow
	j := reconstructPhi(segs, unhexList(c.Args), unhexList(c.State), c.Gas, o.gasLeft, finalOK, func() { x.Known("checkmultisig-zero-keys-free") })
	if j.structural != nil {
		return fail("HARNESS: cannot attribute the trace: %v", j.structural)
	}
	if len(j.violations) > 0 {
		onlyCP := true
		for _, v := range j.violations {
			onlyCP = onlyCP && strings.HasPrefix(v, "instruction CHECKPREDICATE ")
		}
		if unpaidChild && onlyCP {
			x.Known("checkpredicate-refunds-unpaid-child-stack")
			x.Class("known:unpaid-child-stack")
			return nil
		}
		return fail("%s", strings.Join(j.violations, "\n"))
	}
	if finalOK && int64(j.judged-j.knownFree)+o.gasLeft > c.Gas {
		return fail("gasLeft %d + %d charged instructions exceeds the limit %d", o.gasLeft, j.judged-j.knownFree, c.Gas)
	}
	switch {
	case len(segs) >= 1000:
		x.Class("instructions:>=1000")
	case len(segs) >= 100:
		x.Class("instructions:100..999")
	case len(segs) >= 10:
		x.Class("instructions:10..99")
	default:
		x.Class("instructions:<10")
	}
	if j.unjudged > 0 {
		x.Class("has-unjudged-last-child-or-failing-step")
	}

	// (d) and the non-triviality rule use the reference model
	res, _ := runRef(&c, refvm.Options{MaxWork: 4000000})
	pops, back, child := 0, false, false
	for _, st := range res.Steps {
		pops += st.Pops
		back = back || st.BackJump
		child = child || st.ChildRan
	}
	if back {
		x.Class("backward-jump")
	}
	if child {
		x.Class("checkpredicate-child")
	}
	if pops >= 3 {
		x.Class("refunding-pops>=3")
	}
	x.NonTrivial = back || child || pops >= 3
	if res.Truncated {
		x.Class("ref:truncated")
		return nil
	}
	exp := renderRef(res)
	agrees := len(o.trace) >= len(exp)
	for i := 0; agrees && i < len(exp); i++ {
		agrees = exp[i] == o.trace[i]
	}
	if !agrees {
		x.Class("ref-path-differs(C08 matter, (d) not judged)")
		return nil
	}
	if len(res.Faults) == 1 && res.Faults[0] == refvm.RunLimit {
		x.Class("ref:out-of-gas")
		if o.class != refvm.RunLimit {
			return fail("the run needs more gas than the limit %d (reference: out of gas at instruction %d), but the implementation %s", c.Gas, len(res.Steps), implOutcome(o))
		}
	} else if res.Has(refvm.RunLimit) && o.err == nil {
		return fail("the reference runs out of gas (among %s) but the implementation succeeds", classSet(res.Faults))
	}
	return nil
}

func TestC07(t *testing.T) {
	pbt.Run(t, "C07",
		"programs: 30% arbitrary byte strings of 0..300 bytes, 70% grammar programs (pushes, refunding/stack ops, any opcode on the operands it wants, countdown loops, endless loops of several gas profiles, forward JUMP/JUMPIF, nested CHECKPREDICATE to depth 4 with child limits 0='all remaining'..5000, raw bytes); 0..4 arguments, optional state item; gas limits 0, 1, 2..300, exact need -1/0/+1 (reference), 300..60000, 300000. Oracle: returns with <= 2e6 trace lines; 0<=gasLeft<=limit; PHI=runLimit+stack costs reconstructed from the trace decreases by >=1 per executed instruction in every frame; out-of-gas per reference => run-limit error. Non-trivial = executes a backward jump, a CHECKPREDICATE child or >= 3 refunding pops; distinct by case",
		pbt.Options{Checks: pbt.Per(12000, 1000000), MinClass: map[string]int{"backward-jump": 200, "checkpredicate-child": 200, "ref:out-of-gas": 200}},
		c07Gen, c07Exec)
}
