package netcheck

import (
	"fmt"
	"io"
	"sync"
	"testing"

	"github.com/sirupsen/logrus"
	"pgregory.net/rapid"

	"github.com/bytom/bytom/p2p/security"

	"verifharness/pbt"
)

// C35, sub-check "peer-table": the score objects of the other sub-checks live in a table keyed by
// the peer's address (security.PeersBanScore), and reports about one peer arrive on several
// goroutines (one per connection and message).  "Increase by at least each added persistent amount"
// must hold for the peer: a report of an illegal message adds 20 persistent points, a peer is banned
// when its score exceeds 100, so of six such reports about one address, however they are spread
// over goroutines, at least one is answered "ban" (and, since the persistent part never decays, every
// report after a ban is answered "ban" too).  The table has no getter; the answers are what the
// node acts on.

type c35PeersCase struct {
	Addresses int   `json:"addresses"` // fresh addresses per case
	Split     []int `json:"split"`     // how the six reports of an address are divided among goroutines
	DelFirst  bool  `json:"del_first"` // the address had an entry before that was deleted (a cleared ban)
}

func c35PeersGen(t *rapid.T) c35PeersCase {
	splits := [][]int{{3, 3}, {1, 5}, {2, 2, 2}, {1, 1, 4}, {1, 2, 3}, {1, 1, 1, 1, 1, 1}}
	return c35PeersCase{Addresses: rapid.IntRange(500, 2500).Draw(t, "addresses"), Split: rapid.SampledFrom(splits).Draw(t, "split"), DelFirst: rapid.Bool().Draw(t, "delfirst")}
}

func c35PeersExec(c c35PeersCase, x *pbt.Ctx) error {
	total := 0
	for _, s := range c.Split {
		if s < 1 {
			return nil
		}
		total += s
	}
	if total != 6 || c.Addresses < 1 || c.Addresses > 5000 || len(c.Split) < 2 {
		return nil
	}
	old := logrus.StandardLogger().Out
	logrus.SetOutput(io.Discard)
	defer logrus.SetOutput(old)
	ps := security.NewPeersScore()
	for a := 0; a < c.Addresses; a++ {
		ip := fmt.Sprintf("10.%d.%d.%d", a>>16&255, a>>8&255, a&255)
		if c.DelFirst {
			ps.Increase(ip, security.LevelMsgIllegal, "earlier")
			ps.DelPeer(ip)
		}
		var wg sync.WaitGroup
		var mu sync.Mutex
		bans, afterBan := 0, 0
		start := make(chan struct{})
		for _, n := range c.Split {
			wg.Add(1)
			go func(n int) {
				defer wg.Done()
				<-start
				banned := false
				for k := 0; k < n; k++ {
					got := ps.Increase(ip, security.LevelMsgIllegal, "verif")
					mu.Lock()
					if got {
						bans++
					} else if banned {
						afterBan++
					}
					mu.Unlock()
					banned = banned || got
				}
			}(n)
		}
		close(start)
		wg.Wait()
		if bans == 0 {
			return fmt.Errorf("address %d of %d (%s): six reports of an illegal message (20 persistent points each, ban above 100), spread over goroutines as %v, and none was answered with a ban: a report was lost", a, c.Addresses, ip, c.Split)
		}
		if afterBan > 0 {
			return fmt.Errorf("address %d of %d (%s): a goroutine was told to ban the peer and a later report by the same goroutine was not (the persistent score went down)", a, c.Addresses, ip)
		}
	}
	x.Class("peer-table/goroutines-%d", len(c.Split))
	x.Count("peer_table_addresses", c.Addresses)
	x.NonTrivial = true
	return nil
}

func TestC35Peers(t *testing.T) {
	pbt.Run(t, "C35", "500-2500 fresh peer addresses per case (optionally with an earlier, deleted entry); for each, six reports of an illegal message through security.PeersBanScore.Increase spread over 2-6 goroutines released together (3+3, 1+5, 2+2+2, 1+1+4, 1+2+3, 1x6); oracle: at least one of the six is answered with a ban (6 x 20 persistent points > 100) and no goroutine sees a non-ban after a ban; non-trivial = always; distinct = case JSON",
		pbt.Options{Sub: "peer-table", Checks: pbt.Per(24, 2400)}, c35PeersGen, c35PeersExec)
}
