package netcheck

import (
	"fmt"
	"runtime"
	"sort"
	"strings"
	"sync"
	"sync/atomic"
	"testing"
	"time"

	"github.com/bytom/bytom/event"
	"pgregory.net/rapid"

	"verifharness/pbt"
)

// C39: a subscriber receives every event of its types posted after it subscribed and before it
// unsubscribed, exactly once, in posting order (unless its buffer was full); Post after Stop fails;
// Unsubscribe never blocks.
//
// The subscription channel holds maxEventChSize = 65536 events (event/event.go:17, newSubscription).
// A case posts at most c39MaxPosts (1 200) events in total, except in the "full-buffer" sub-check, whose
// cases contain one burst of about 65536 events of one type: subscribers that do not drain in time
// lose what does not fit ("unless its buffer was full"), which the model reproduces; all others
// must lose nothing.
//
// Two generators, one test:
//   [sequential] the whole op list (subscribe / post / unsubscribe / stop / drain) is data; it is
//     executed on a real Dispatcher and on a model, compared after every step (buffer lengths) and at
//     every drain (contents).  Everything is synchronous (deliver runs inside Post), channel reads are
//     non-blocking: no timing anywhere.
//   [concurrent] one poster goroutine per event type, 1..2 controller goroutines that subscribe /
//     unsubscribe / stop when a poster has reached a generated progress mark.  The oracle is
//     schedule-independent (linearizability style): counters published around every call bound, for each
//     subscriber and type, the events that MUST be there (posted after Subscribe returned, finished
//     before Unsubscribe/Stop was called) and the events that MAY be there (not finished before Subscribe
//     was called, started before Unsubscribe/Stop returned, Post returned nil); what was received must
//     be a gap-free, strictly increasing run inside MAY covering MUST.  Meaningful under -race.
// The 30 s watchdog only turns a hang into a failure (with a goroutine dump); it is never a
// correctness signal otherwise.

const (
	c39Types    = 3 // subscribable event types; type index 3 is posted but never subscribed
	c39MaxPosts = 1200
	c39Watchdog = 30 * time.Second
)

type c39EvA struct{ Seq int }
type c39EvB struct{ Seq int }
type c39EvC struct{ Seq int }
type c39EvD struct{ Seq int }

func c39Zero(ty int) interface{} { return c39Mk(ty, 0) }

func c39Mk(ty, seq int) interface{} {
	switch ty {
	case 0:
		return c39EvA{seq}
	case 1:
		return c39EvB{seq}
	case 2:
		return c39EvC{seq}
	}
	return c39EvD{seq}
}

func c39Decode(v interface{}) (ty, seq int, ok bool) {
	switch e := v.(type) {
	case c39EvA:
		return 0, e.Seq, true
	case c39EvB:
		return 1, e.Seq, true
	case c39EvC:
		return 2, e.Seq, true
	case c39EvD:
		return 3, e.Seq, true
	}
	return 0, 0, false
}

type c39Item struct{ ty, seq int }

// recvNB reads at most max events without blocking.  closed reports that the channel was found closed.
func c39RecvNB(s *event.Subscription, max int) (items []c39Item, closed bool, err error) {
	ch := s.Chan()
	for max < 0 || len(items) < max {
		select {
		case ev, ok := <-ch:
			if !ok {
				return items, true, nil
			}
			if ev == nil {
				return items, false, fmt.Errorf("nil event delivered")
			}
			ty, seq, ok := c39Decode(ev.Data)
			if !ok {
				return items, false, fmt.Errorf("foreign event %T delivered", ev.Data)
			}
			items = append(items, c39Item{ty, seq})
		default:
			return items, false, nil
		}
	}
	return items, false, nil
}

func c39Dump() string {
	buf := make([]byte, 1<<16)
	n := runtime.Stack(buf, true)
	return string(buf[:n])
}

func c39GenTypes(t *rapid.T, label string) []int {
	mask := rapid.IntRange(0, 15).Draw(t, label)
	if mask >= 8 { // empty set is rare: masks 8..15 map to 1..7 again, 0 stays empty
		mask -= 7
		if mask == 8 {
			mask = 7
		}
	}
	var out []int
	for i := 0; i < c39Types; i++ {
		if mask&(1<<uint(i)) != 0 {
			out = append(out, i)
		}
	}
	return out
}

func c39ValidTypes(ts []int) bool {
	seen := map[int]bool{}
	for _, ty := range ts {
		if ty < 0 || ty >= c39Types || seen[ty] {
			return false // duplicate types in one Subscribe are outside the claim
		}
		seen[ty] = true
	}
	return true
}

// ---------------------------------------------------------------------------------------------
// sequential

type c39Op struct {
	Kind  string `json:"kind"`            // sub | post | unsub | stop | drain
	Types []int  `json:"types,omitempty"` // sub: distinct types out of 0..2
	Type  int    `json:"type,omitempty"`  // post: 0..3
	N     int    `json:"n,omitempty"`     // post: number of events; drain: max events (0 = all)
	Sub   int    `json:"sub,omitempty"`   // unsub / drain: subscriber index modulo the number that exist
}

type c39Case struct {
	Ops []c39Op `json:"ops"`
}

func c39Gen(t *rapid.T) c39Case {
	n := rapid.IntRange(1, 40).Draw(t, "nops")
	var c c39Case
	subs, posts := 0, 0
	for i := 0; i < n; i++ {
		k := rapid.IntRange(0, 39).Draw(t, "kind")
		var op c39Op
		switch {
		case k < 7 && subs < 5 || subs == 0 && k < 20:
			op = c39Op{Kind: "sub", Types: c39GenTypes(t, "types")}
			subs++
		case k < 23:
			cnt := rapid.IntRange(1, 40).Draw(t, "n")
			if posts+cnt > c39MaxPosts {
				cnt = 1
			}
			posts += cnt
			op = c39Op{Kind: "post", Type: rapid.IntRange(0, 3).Draw(t, "type"), N: cnt}
		case k < 30:
			op = c39Op{Kind: "unsub", Sub: rapid.IntRange(0, 4).Draw(t, "sub")}
		case k < 39:
			op = c39Op{Kind: "drain", Sub: rapid.IntRange(0, 4).Draw(t, "sub"), N: rapid.IntRange(0, 30).Draw(t, "max")}
		default:
			op = c39Op{Kind: "stop"}
		}
		c.Ops = append(c.Ops, op)
	}
	return c
}

// c39BufSize is the documented capacity of a subscriber's channel (event.maxEventChSize).
const c39BufSize = 65536

type c39ModelSub struct {
	types       [c39Types]bool
	open        bool
	pending     []c39Item
	real        *event.Subscription
	gotWhile    [c39Types]bool // a post of the type happened while subscribed
	postedAfter bool           // ... and another one after an explicit unsubscribe
	unsubbed    bool
}

func c39Exec(c c39Case, x *pbt.Ctx) error {
	total, floods := 0, 0
	for _, op := range c.Ops {
		switch op.Kind {
		case "sub":
			if !c39ValidTypes(op.Types) {
				return nil
			}
		case "post":
			if op.N < 0 || op.Type < 0 || op.Type > 3 {
				return nil
			}
			if op.N < c39BufSize-100 {
				total += op.N
			} else if op.N > c39BufSize+100 {
				return nil
			} else {
				floods++
			}
		case "unsub", "drain":
			if op.Sub < 0 || op.N < 0 {
				return nil
			}
		case "stop":
		default:
			return nil
		}
	}
	if total > c39MaxPosts || len(c.Ops) > 400 || floods > 1 {
		return nil // outside the domain
	}
	if floods > 0 {
		x.Class("buffer-filling-burst")
	}

	var (
		cur    int32 = -1
		result       = make(chan error, 1)
		subs   []*c39ModelSub
	)
	dropped := false // written by the run goroutine, read after it has reported its result
	run := func() error {
		d := event.NewDispatcher()
		stopped := false
		var seq [4]int
		compareLens := func(i int) error {
			for j, s := range subs {
				if got := len(s.real.Chan()); got != len(s.pending) {
					return fmt.Errorf("after op %d (%s): subscriber %d has %d buffered events, model says %d", i, c.Ops[i].Kind, j, got, len(s.pending))
				}
			}
			return nil
		}
		drain := func(i, j, max int) error {
			s := subs[j]
			if max == 0 {
				max = -1
			}
			items, closed, err := c39RecvNB(s.real, max)
			if err != nil {
				return fmt.Errorf("op %d: subscriber %d: %v", i, j, err)
			}
			want := s.pending
			if max > 0 && len(want) > max {
				want = want[:max]
			}
			if len(items) != len(want) {
				return fmt.Errorf("op %d: subscriber %d (types %v) received %d events %v, expected %d %v", i, j, s.types, len(items), c39Brief(items), len(want), c39Brief(want))
			}
			for k := range items {
				if items[k] != want[k] {
					return fmt.Errorf("op %d: subscriber %d (types %v) event #%d is %v, expected %v (received %v, expected %v)", i, j, s.types, k, items[k], want[k], c39Brief(items), c39Brief(want))
				}
			}
			if closed && s.open {
				return fmt.Errorf("op %d: channel of subscriber %d is closed although it is still subscribed", i, j)
			}
			s.pending = s.pending[len(items):]
			return nil
		}
		for i, op := range c.Ops {
			atomic.StoreInt32(&cur, int32(i))
			switch op.Kind {
			case "sub":
				vals := make([]interface{}, 0, len(op.Types))
				ms := &c39ModelSub{open: !stopped}
				for _, ty := range op.Types {
					vals = append(vals, c39Zero(ty))
					ms.types[ty] = true
				}
				s, err := d.Subscribe(vals...)
				if err != nil || s == nil {
					return fmt.Errorf("op %d: Subscribe(%v) = %v, %v", i, op.Types, s, err)
				}
				ms.real = s
				subs = append(subs, ms)
				x.Class("op:sub")
				if stopped {
					x.Class("sub-after-stop")
				}
			case "post":
				for k := 0; k < op.N; k++ {
					err := d.Post(c39Mk(op.Type, seq[op.Type]))
					if stopped {
						if err != event.ErrMuxClosed {
							return fmt.Errorf("op %d: Post after Stop returned %v, want ErrMuxClosed", i, err)
						}
					} else if err != nil {
						return fmt.Errorf("op %d: Post on a running dispatcher returned %v", i, err)
					}
					if !stopped && op.Type < c39Types {
						for _, s := range subs {
							if s.types[op.Type] {
								if s.open {
									if len(s.pending) < c39BufSize {
										s.pending = append(s.pending, c39Item{op.Type, seq[op.Type]})
									} else {
										dropped = true // "unless its buffer was full"
									}
									s.gotWhile[op.Type] = true
								} else if s.unsubbed && s.gotWhile[op.Type] {
									s.postedAfter = true
								}
							}
						}
					}
					seq[op.Type]++
				}
				x.Class("op:post")
				if stopped {
					x.Class("post-after-stop")
				}
			case "unsub":
				if len(subs) == 0 {
					x.Class("op:skipped")
					continue
				}
				s := subs[op.Sub%len(subs)]
				s.real.Unsubscribe()
				if s.open {
					s.unsubbed = true
				} else {
					x.Class("unsub-again-or-after-stop")
				}
				s.open = false
				x.Class("op:unsub")
			case "stop":
				d.Stop()
				if stopped {
					x.Class("stop-again")
				}
				stopped = true
				for _, s := range subs {
					s.open = false
				}
				x.Class("op:stop")
			case "drain":
				if len(subs) == 0 {
					x.Class("op:skipped")
					continue
				}
				if err := drain(i, op.Sub%len(subs), op.N); err != nil {
					return err
				}
				x.Class("op:drain")
			}
			if err := compareLens(i); err != nil {
				return err
			}
		}
		if dropped {
			x.Class("event-dropped-for-a-full-subscriber")
		}
		atomic.StoreInt32(&cur, int32(len(c.Ops)))
		for j := range subs {
			if err := drain(len(c.Ops), j, 0); err != nil {
				return err
			}
		}
		return nil
	}
	go func() {
		defer func() {
			if p := recover(); p != nil {
				result <- fmt.Errorf("panic at op %d: %v\n%s", atomic.LoadInt32(&cur), p, c39Dump())
			}
		}()
		result <- run()
	}()
	limit := c39Watchdog
	if floods > 0 {
		limit = 20 * c39Watchdog // 65536 posts and receives under the race detector on a busy machine
	}
	wd := time.NewTimer(limit)
	defer wd.Stop()
	select {
	case err := <-result:
		if err != nil {
			return err
		}
	case <-wd.C:
		i := int(atomic.LoadInt32(&cur))
		kind := "final drain"
		if i >= 0 && i < len(c.Ops) {
			kind = c.Ops[i].Kind
		}
		return fmt.Errorf("op %d (%s) did not return within %v\n%s", i, kind, limit, c39Dump())
	}
	for _, s := range subs {
		if s.postedAfter {
			x.NonTrivial = true
		}
	}
	if dropped {
		x.NonTrivial = true
	}
	if x.NonTrivial {
		x.Class("nontrivial-seq")
	}
	return nil
}

func c39Brief(items []c39Item) string {
	var sb strings.Builder
	sb.WriteByte('[')
	for i, it := range items {
		if i == 12 {
			fmt.Fprintf(&sb, " ...(%d)", len(items))
			break
		}
		if i > 0 {
			sb.WriteByte(' ')
		}
		fmt.Fprintf(&sb, "%c%d", 'A'+it.ty, it.seq)
	}
	sb.WriteByte(']')
	return sb.String()
}

// ---------------------------------------------------------------------------------------------
// concurrent

type c39CStep struct {
	Kind     string `json:"kind"`            // sub | unsub | stop
	Types    []int  `json:"types,omitempty"` // sub
	Sub      int    `json:"sub,omitempty"`   // unsub: index modulo the subscribers this controller owns
	WaitType int    `json:"wait_type"`       // act once poster WaitType has finished >= WaitDone posts
	WaitDone int    `json:"wait_done"`       // (clamped to that poster's total)
}

type c39CCase struct {
	Posts [c39Types]int `json:"posts"` // events per poster
	Yield [c39Types]int `json:"yield"` // poster yields the processor every Yield posts (0 = never)
	Pre   [][]int       `json:"pre"`   // subscriptions made before anything runs (owned by controller 0)
	Ctl   [][]c39CStep  `json:"ctl"`   // 1..2 controllers
}

func c39CGen(t *rapid.T) c39CCase {
	var c c39CCase
	for i := 0; i < c39Types; i++ {
		c.Posts[i] = rapid.IntRange(0, 300).Draw(t, "posts")
		c.Yield[i] = rapid.SampledFrom([]int{0, 1, 1, 2, 5, 17, 50}).Draw(t, "yield")
	}
	for i, n := 0, rapid.IntRange(0, 2).Draw(t, "npre"); i < n; i++ {
		c.Pre = append(c.Pre, c39GenTypes(t, "pretypes"))
	}
	nctl := rapid.IntRange(1, 2).Draw(t, "nctl")
	for ci := 0; ci < nctl; ci++ {
		var steps []c39CStep
		owned := 0
		if ci == 0 {
			owned = len(c.Pre)
		}
		for i, n := 0, rapid.IntRange(0, 6).Draw(t, "nsteps"); i < n; i++ {
			wt := rapid.IntRange(0, c39Types-1).Draw(t, "wt")
			st := c39CStep{WaitType: wt, WaitDone: rapid.IntRange(0, 300).Draw(t, "wd")}
			k := rapid.IntRange(0, 9).Draw(t, "kind")
			switch {
			case k < 4 || owned == 0 && k < 9:
				st.Kind, st.Types = "sub", c39GenTypes(t, "types")
				owned++
			case k < 9:
				st.Kind, st.Sub = "unsub", rapid.IntRange(0, 7).Draw(t, "sub")
			default:
				st.Kind = "stop"
			}
			steps = append(steps, st)
		}
		c.Ctl = append(c.Ctl, steps)
	}
	return c
}

type c39CSub struct {
	owner    int
	types    [c39Types]bool
	real     *event.Subscription
	d0, k    [c39Types]int64 // finished before Subscribe was called / started after it returned
	m, e     [c39Types]int64 // finished before the first Unsubscribe was called / started after it returned
	unsubbed bool
}

func c39CExec(c c39CCase, x *pbt.Ctx) error {
	total := 0
	for i := 0; i < c39Types; i++ {
		if c.Posts[i] < 0 || c.Yield[i] < 0 {
			return nil
		}
		total += c.Posts[i]
	}
	nsubs := len(c.Pre)
	for _, ts := range c.Pre {
		if !c39ValidTypes(ts) {
			return nil
		}
	}
	if len(c.Ctl) < 1 || len(c.Ctl) > 4 {
		return nil
	}
	for _, steps := range c.Ctl {
		for _, st := range steps {
			if st.WaitType < 0 || st.WaitType >= c39Types || st.Sub < 0 {
				return nil
			}
			switch st.Kind {
			case "sub":
				if !c39ValidTypes(st.Types) {
					return nil
				}
				nsubs++
			case "unsub", "stop":
			default:
				return nil
			}
		}
	}
	if total > c39MaxPosts || nsubs > 40 {
		return nil
	}

	d := event.NewDispatcher()
	var (
		started, done          [c39Types]int64 // per poster, atomics
		firstFail              [c39Types]int64 // index of the first Post that failed (or total)
		stopCalled, stopReturn int32
		stopM, stopE           [c39Types]int64
		stopOnce               sync.Mutex
		haveStop               bool
		mu                     sync.Mutex
		subs                   []*c39CSub
		violations             []string
		wg                     sync.WaitGroup
		startC                 = make(chan struct{})
	)
	violate := func(format string, a ...interface{}) {
		mu.Lock()
		violations = append(violations, fmt.Sprintf(format, a...))
		mu.Unlock()
	}
	snap := func(a *[c39Types]int64) (out [c39Types]int64) {
		for i := range a {
			out[i] = atomic.LoadInt64(&a[i])
		}
		return
	}
	guard := func(name string, f func()) {
		wg.Add(1)
		go func() {
			defer wg.Done()
			defer func() {
				if p := recover(); p != nil {
					buf := make([]byte, 4096)
					violate("panic in %s: %v\n%s", name, p, buf[:runtime.Stack(buf, false)])
				}
			}()
			<-startC
			f()
		}()
	}
	subscribe := func(owner int, ts []int) *c39CSub {
		s := &c39CSub{owner: owner}
		vals := make([]interface{}, 0, len(ts))
		for _, ty := range ts {
			vals = append(vals, c39Zero(ty))
			s.types[ty] = true
		}
		for i := range s.m {
			s.m[i], s.e[i] = int64(c.Posts[i]), int64(c.Posts[i])
		}
		s.d0 = snap(&done)
		r, err := d.Subscribe(vals...)
		s.k = snap(&started)
		if err != nil || r == nil {
			violate("Subscribe(%v) = %v, %v", ts, r, err)
			return nil
		}
		s.real = r
		mu.Lock()
		subs = append(subs, s)
		mu.Unlock()
		return s
	}

	owned := make([][]*c39CSub, len(c.Ctl))
	for _, ts := range c.Pre {
		if s := subscribe(0, ts); s != nil {
			owned[0] = append(owned[0], s)
		}
	}
	for ty := 0; ty < c39Types; ty++ {
		ty := ty
		firstFail[ty] = int64(c.Posts[ty])
		guard(fmt.Sprintf("poster %d", ty), func() {
			failed := false
			for i := 0; i < c.Posts[ty]; i++ {
				stopRet := atomic.LoadInt32(&stopReturn) != 0
				atomic.StoreInt64(&started[ty], int64(i+1))
				err := d.Post(c39Mk(ty, i))
				stopCall := atomic.LoadInt32(&stopCalled) != 0
				switch {
				case err != nil && err != event.ErrMuxClosed:
					violate("Post(%c%d) returned %v", 'A'+ty, i, err)
				case err != nil && !stopCall:
					violate("Post(%c%d) failed with %v although Stop had not been called", 'A'+ty, i, err)
				case err == nil && stopRet:
					violate("Post(%c%d) succeeded although Stop had returned before the call", 'A'+ty, i)
				case err == nil && failed:
					violate("Post(%c%d) succeeded after an earlier Post had failed with ErrMuxClosed", 'A'+ty, i)
				}
				if err != nil && !failed {
					failed = true
					atomic.StoreInt64(&firstFail[ty], int64(i))
				}
				atomic.StoreInt64(&done[ty], int64(i+1))
				if y := c.Yield[ty]; y > 0 && i%y == 0 {
					runtime.Gosched()
				}
			}
		})
	}
	for ci, steps := range c.Ctl {
		ci, steps := ci, steps
		guard(fmt.Sprintf("controller %d", ci), func() {
			for _, st := range steps {
				target := int64(st.WaitDone)
				if t := int64(c.Posts[st.WaitType]); target > t {
					target = t
				}
				for atomic.LoadInt64(&done[st.WaitType]) < target {
					runtime.Gosched() // posters never wait for anybody, so this ends
				}
				switch st.Kind {
				case "sub":
					if s := subscribe(ci, st.Types); s != nil {
						owned[ci] = append(owned[ci], s)
					}
				case "unsub":
					if len(owned[ci]) == 0 {
						continue
					}
					s := owned[ci][st.Sub%len(owned[ci])]
					first := !s.unsubbed
					m := snap(&done)
					s.real.Unsubscribe()
					e := snap(&started)
					if first { // only the owner touches these fields; read after wg.Wait
						s.m, s.e, s.unsubbed = m, e, true
					}
				case "stop":
					m := snap(&done)
					atomic.StoreInt32(&stopCalled, 1)
					d.Stop()
					atomic.StoreInt32(&stopReturn, 1)
					e := snap(&started)
					stopOnce.Lock()
					if !haveStop {
						haveStop, stopM, stopE = true, m, e
					} else {
						// several Stops: the earliest "called" and the earliest "returned" marks bound the effect
						for i := range m {
							if m[i] < stopM[i] {
								stopM[i] = m[i]
							}
							if e[i] < stopE[i] {
								stopE[i] = e[i]
							}
						}
					}
					stopOnce.Unlock()
				}
			}
		})
	}

	joined := make(chan struct{})
	go func() { wg.Wait(); close(joined) }()
	close(startC)
	wd := time.NewTimer(c39Watchdog)
	defer wd.Stop()
	select {
	case <-joined:
	case <-wd.C:
		return fmt.Errorf("posters/controllers did not finish within %v (progress started=%v done=%v)\n%s", c39Watchdog, snap(&started), snap(&done), c39Dump())
	}
	if len(violations) > 0 {
		sort.Strings(violations)
		return fmt.Errorf("%s", strings.Join(violations, "\n"))
	}

	// every Post has returned: what is in the buffers now is all that will ever be there
	x.Class("controllers:%d", len(c.Ctl))
	if haveStop {
		x.Class("with-stop")
	}
	for j, s := range subs {
		items, _, err := c39RecvNB(s.real, -1)
		if err != nil {
			return fmt.Errorf("subscriber %d: %v", j, err)
		}
		var got [c39Types][]int
		for _, it := range items {
			if it.ty >= c39Types || !s.types[it.ty] {
				return fmt.Errorf("subscriber %d (types %v) received %c%d, a type it did not subscribe", j, s.types, 'A'+it.ty, it.seq)
			}
			got[it.ty] = append(got[it.ty], it.seq)
		}
		for ty := 0; ty < c39Types; ty++ {
			if !s.types[ty] {
				continue
			}
			r := got[ty]
			for i := 1; i < len(r); i++ {
				if r[i] != r[i-1]+1 {
					return fmt.Errorf("subscriber %d type %c: received %v: event %d is followed by %d (lost, duplicated or reordered)", j, 'A'+ty, c39Ints(r), r[i-1], r[i])
				}
			}
			mustLo, mustHi := s.k[ty], s.m[ty]
			mayLo, mayHi := s.d0[ty], s.e[ty]
			if haveStop {
				if stopM[ty] < mustHi {
					mustHi = stopM[ty]
				}
				if stopE[ty] < mayHi {
					mayHi = stopE[ty]
				}
			}
			if ff := atomic.LoadInt64(&firstFail[ty]); ff < mayHi {
				mayHi = ff // a Post that returned ErrMuxClosed delivers nothing
			}
			desc := fmt.Sprintf("subscriber %d type %c (must have [%d,%d), may have [%d,%d), posted %d): received %v", j, 'A'+ty, mustLo, mustHi, mayLo, mayHi, c.Posts[ty], c39Ints(r))
			if len(r) > 0 && (int64(r[0]) < mayLo || int64(r[len(r)-1]) >= mayHi) {
				return fmt.Errorf("%s: an event posted before subscribing or after unsubscribing/stopping was delivered", desc)
			}
			if mustLo < mustHi {
				if len(r) == 0 || int64(r[0]) > mustLo || int64(r[len(r)-1]) < mustHi-1 {
					return fmt.Errorf("%s: an event posted while subscribed is missing", desc)
				}
				x.Class("must-window-nonempty")
				if s.unsubbed && mayHi < int64(c.Posts[ty]) {
					x.NonTrivial = true
				}
			}
			if len(r) > 0 && (int64(r[0]) < s.k[ty] || int64(r[len(r)-1]) >= mustHi) {
				x.Class("received-event-concurrent-with-sub/unsub")
			}
		}
		if s.unsubbed {
			x.Class("unsubscribed")
		}
	}
	if x.NonTrivial {
		x.Class("nontrivial-conc")
	}
	return nil
}

func c39Ints(r []int) string {
	if len(r) <= 8 {
		return fmt.Sprint(r)
	}
	return fmt.Sprintf("[%d %d %d ... %d %d] (%d)", r[0], r[1], r[2], r[len(r)-2], r[len(r)-1], len(r))
}

// c39FullGen: 2-4 subscribers of one type (some also of others), a burst that fills the buffers of
// those that do not read, then a few ordinary operations.
func c39FullGen(t *rapid.T) c39Case {
	var c c39Case
	ty := rapid.IntRange(0, 3).Draw(t, "type")
	n := rapid.IntRange(2, 4).Draw(t, "nsubs")
	for i := 0; i < n; i++ {
		types := []int{ty}
		if rapid.Bool().Draw(t, "more") {
			types = append(types, (ty+1)%4)
		}
		c.Ops = append(c.Ops, c39Op{Kind: "sub", Types: types})
	}
	// some events already buffered, some subscribers drained before the burst
	c.Ops = append(c.Ops, c39Op{Kind: "post", Type: ty, N: rapid.IntRange(0, 20).Draw(t, "pre")})
	c.Ops = append(c.Ops, c39Op{Kind: "drain", Sub: rapid.IntRange(0, 3).Draw(t, "predrain"), N: rapid.IntRange(0, 30).Draw(t, "predrainn")})
	c.Ops = append(c.Ops, c39Op{Kind: "post", Type: ty, N: c39BufSize + rapid.IntRange(-6, 40).Draw(t, "burst")})
	for k := rapid.IntRange(1, 6).Draw(t, "after"); k > 0; k-- {
		switch rapid.IntRange(0, 4).Draw(t, "akind") {
		case 0, 1:
			c.Ops = append(c.Ops, c39Op{Kind: "post", Type: rapid.SampledFrom([]int{ty, ty, (ty + 1) % 4}).Draw(t, "atype"), N: rapid.IntRange(1, 5).Draw(t, "an")})
		case 2, 3:
			c.Ops = append(c.Ops, c39Op{Kind: "drain", Sub: rapid.IntRange(0, 3).Draw(t, "asub"), N: rapid.IntRange(0, 10).Draw(t, "amax")})
		default:
			c.Ops = append(c.Ops, c39Op{Kind: "unsub", Sub: rapid.IntRange(0, 3).Draw(t, "ausub")})
		}
	}
	return c
}

func TestC39(t *testing.T) {
	pbt.Run(t, "C39",
		"op lists (1..40 ops: subscribe to a subset of 3 types, post 1..40 events of one of 4 types, unsubscribe, stop, partial/full non-blocking drain; <= 5 subscribers, <= 1200 events so the 65536-slot buffers never fill) executed on event.Dispatcher and a model, buffer lengths compared after every op and contents at every drain; Post must return nil before and ErrMuxClosed after Stop; 30 s watchdog on hangs only; non-trivial = a subscriber received an event of a type, unsubscribed, and that type was posted again; distinct by op list",
		pbt.Options{Sub: "sequential", Checks: pbt.Per(4000, 240000),
			MinClass: map[string]int{"post-after-stop": 50, "sub-after-stop": 20, "unsub-again-or-after-stop": 50, "nontrivial-seq": 200}},
		c39Gen, c39Exec)
	pbt.Run(t, "C39",
		"2-4 subscribers of one event type (some of a second type too), 0-20 events and a partial drain, then one burst of 65536-6..65536+40 events of that type (the documented buffer capacity is 65536), then 1-6 ordinary posts, drains and unsubscriptions; same model as the sequential sub-check: a subscriber receives, in order, exactly the matching events posted while it was subscribed minus those posted while its buffer held 65536 undelivered events, whatever happens to the other subscribers; non-trivial = the model dropped an event for a full subscriber; distinct = case JSON",
		pbt.Options{Sub: "full-buffer", Checks: pbt.Per(5, 320), MinClass: map[string]int{"event-dropped-for-a-full-subscriber": 1}},
		c39FullGen, c39Exec)
	pbt.Run(t, "C39",
		"one poster goroutine per type (0..300 events, generated yield period), 1..2 controller goroutines doing subscribe/unsubscribe/stop once a poster reached a generated progress mark, 0..2 subscriptions made up front; schedule-independent oracle from progress counters published around every call: received events per type form a gap-free increasing run that covers every event whose Post started after Subscribe returned and finished before Unsubscribe/Stop was called, and contains no event finished before Subscribe was called, started after Unsubscribe/Stop returned or whose Post returned ErrMuxClosed; Post fails only after Stop was called and always after Stop returned; non-trivial = an explicitly unsubscribed subscriber with a non-empty must-window and posts of that type after its unsubscription; meant to run under -race",
		pbt.Options{Sub: "concurrent", Journal: true, Checks: pbt.Per(1500, 240000),
			MinClass: map[string]int{"must-window-nonempty": 100, "with-stop": 50, "nontrivial-conc": 50}},
		c39CGen, c39CExec)
}
