package netcheck

import (
	"bytes"
	"fmt"
	"testing"
	"time"

	"pgregory.net/rapid"

	"github.com/bytom/bytom/crypto/ed25519/chainkd"
	"github.com/bytom/bytom/p2p/connection"

	"verifharness/pbt"
)

// C32, sub-check "frames": whole sealed frames are replayed, dropped, swapped or duplicated in
// transit (every byte of every frame stays as the sender produced it).  Each frame is sealed for
// its position in the stream, so any such rearrangement must be detected: the receiver gets
// exactly the bytes of the frames before the first rearranged position and then an error, never
// the content of another position.  Both directions of one connection are exercised (they use
// different nonce sequences) with 100-420 frames, well beyond one wrap of the nonce's low byte.

type c32FramesCase struct {
	SeedA  uint64 `json:"seed_a"`
	SeedB  uint64 `json:"seed_b"`
	Dir    int    `json:"dir"`    // which direction carries the stream
	Frames int    `json:"frames"` // data frames sent
	Kind   string `json:"kind"`   // replay, drop, swap, dup
	At     int    `json:"at"`     // first rearranged position (1-based data frame index)
	Dist   int    `json:"dist"`   // replay: at receives frame at-dist; drop: frames at..at+dist-1 removed; swap: at <-> at+dist; dup: frame at-dist inserted before at
}

func c32FramesGen(t *rapid.T) c32FramesCase {
	c := c32FramesCase{SeedA: rapid.Uint64().Draw(t, "a"), SeedB: rapid.Uint64().Draw(t, "b"), Dir: rapid.IntRange(0, 1).Draw(t, "dir"),
		Kind: rapid.SampledFrom([]string{"replay", "drop", "swap", "dup"}).Draw(t, "kind")}
	c.Dist = rapid.SampledFrom([]int{1, 2, 3, 64, 127, 128, 129, 255, 256, 257, 384}).Draw(t, "dist")
	if rapid.IntRange(0, 3).Draw(t, "anydist") == 0 {
		c.Dist = rapid.IntRange(1, 400).Draw(t, "dist2")
	}
	c.Frames = c.Dist + rapid.IntRange(2, 30).Draw(t, "extra")
	lo, hi := 1, c.Frames-c.Dist
	if c.Kind == "replay" || c.Kind == "dup" {
		lo, hi = c.Dist+1, c.Frames
	}
	c.At = rapid.IntRange(lo, hi).Draw(t, "at")
	return c
}

func c32FramesExec(c c32FramesCase, x *pbt.Ctx) error {
	if c.Dir < 0 || c.Dir > 1 || c.Frames < 2 || c.Frames > 500 || c.Dist < 1 || c.At < 1 || c.At > c.Frames {
		return nil
	}
	switch c.Kind {
	case "replay", "dup":
		if c.At-c.Dist < 1 {
			return nil
		}
	case "drop", "swap":
		if c.At+c.Dist > c.Frames+1 || (c.Kind == "swap" && c.At+c.Dist > c.Frames) {
			return nil
		}
	default:
		return nil
	}
	keys := [2]chainkd.XPrv{c32Key(c.SeedA), c32Key(c.SeedB)}
	half := [2]*c32Half{newC32Half(), newC32Half()}
	ends := [2]*c32End{{r: half[1], w: half[0]}, {r: half[0], w: half[1]}}
	defer ends[0].Close()
	defer ends[1].Close()
	type hsResult struct {
		side int
		sc   *connection.SecretConnection
		err  error
	}
	resC := make(chan hsResult, 2)
	for side := 0; side < 2; side++ {
		go func(side int) {
			defer func() {
				if p := recover(); p != nil {
					resC <- hsResult{side: side, err: fmt.Errorf("panic in MakeSecretConnection: %v", p)}
				}
			}()
			sc, err := connection.MakeSecretConnection(ends[side], keys[side])
			resC <- hsResult{side, sc, err}
		}(side)
	}
	var sc [2]*connection.SecretConnection
	for got := 0; got < 2; got++ {
		select {
		case r := <-resC:
			if r.err != nil {
				return fmt.Errorf("handshake failed on side %d: %v", r.side, r.err)
			}
			sc[r.side] = r.sc
		case <-time.After(c32Watchdog):
			return fmt.Errorf("handshake did not finish within %v", c32Watchdog)
		}
	}
	d := c.Dir
	sender, receiver := sc[d], sc[1-d]
	wire := half[d]
	// the handshake is over: what is on the wire from now on is sealed data frames only
	wire.set(func(h *c32Half) { h.nonblock = true })
	if n := len(wire.buf); n != 0 {
		return fmt.Errorf("HARNESS: %d unread handshake bytes on the wire", n)
	}
	// the sender writes whole frames; the sealed frames are taken off the wire as they appear
	plain := make([][]byte, c.Frames+1)
	sealed := make([][]byte, c.Frames+1)
	for f := 1; f <= c.Frames; f++ {
		p := make([]byte, c32DataMax)
		for i := range p {
			p[i] = c32Payload(d, (f-1)*c32DataMax+i)
		}
		plain[f] = p
		if n, err := sender.Write(p); err != nil || n != len(p) {
			return fmt.Errorf("Write of frame %d returned (%d, %v)", f, n, err)
		}
		wire.mu.Lock()
		if len(wire.buf) != c32SealedFrame {
			l := len(wire.buf)
			wire.mu.Unlock()
			return fmt.Errorf("HARNESS: one full data frame put %d bytes on the wire, expected %d", l, c32SealedFrame)
		}
		sealed[f] = append([]byte(nil), wire.buf...)
		wire.buf = wire.buf[:0]
		wire.mu.Unlock()
	}
	// what the receiver is shown, and the stream position each shown frame was sealed for
	var shown []int
	switch c.Kind {
	case "replay":
		for f := 1; f <= c.Frames; f++ {
			if f == c.At {
				shown = append(shown, c.At-c.Dist)
			} else {
				shown = append(shown, f)
			}
		}
	case "dup":
		for f := 1; f <= c.Frames; f++ {
			if f == c.At {
				shown = append(shown, c.At-c.Dist)
			}
			shown = append(shown, f)
		}
	case "drop":
		for f := 1; f <= c.Frames; f++ {
			if f >= c.At && f < c.At+c.Dist {
				continue
			}
			shown = append(shown, f)
		}
	case "swap":
		for f := 1; f <= c.Frames; f++ {
			switch f {
			case c.At:
				shown = append(shown, c.At+c.Dist)
			case c.At + c.Dist:
				shown = append(shown, c.At)
			default:
				shown = append(shown, f)
			}
		}
	}
	firstBad := -1 // index into shown of the first frame that is not the one sealed for that position
	for i, f := range shown {
		if f != i+1 {
			firstBad = i
			break
		}
	}
	if firstBad < 0 {
		return nil // dropping the tail only: nothing arrives that could be judged
	}
	for _, f := range shown {
		wire.mu.Lock()
		wire.buf = append(wire.buf, sealed[f]...)
		wire.mu.Unlock()
	}
	buf := make([]byte, c32DataMax)
	for i := 0; i < len(shown); i++ {
		got := 0
		var rerr error
		done := make(chan struct{})
		go func() {
			defer close(done)
			defer func() {
				if p := recover(); p != nil {
					rerr = fmt.Errorf("panic in Read: %v", p)
				}
			}()
			for got < c32DataMax && rerr == nil {
				var n int
				n, rerr = receiver.Read(buf[got:])
				got += n
			}
		}()
		select {
		case <-done:
		case <-time.After(c32Watchdog):
			return fmt.Errorf("Read of frame position %d did not return within %v", i+1, c32Watchdog)
		}
		desc := fmt.Sprintf("direction %d, %d frames, %s at position %d with distance %d", d, c.Frames, c.Kind, c.At, c.Dist)
		if i < firstBad {
			if rerr != nil || !bytes.Equal(buf[:got], plain[i+1]) {
				return fmt.Errorf("%s: frame %d, before anything was rearranged, was not delivered intact (n=%d err=%v)", desc, i+1, got, rerr)
			}
			continue
		}
		// position firstBad carries a frame sealed for another position
		if rerr == nil || got != 0 {
			what := "other bytes"
			for f := 1; f <= c.Frames; f++ {
				if got == c32DataMax && bytes.Equal(buf[:got], plain[f]) {
					what = fmt.Sprintf("the content of frame %d", f)
				}
			}
			return fmt.Errorf("%s: at stream position %d the receiver was given the sealed frame %d; Read returned n=%d err=%v and delivered %s instead of failing", desc, i+1, shown[i], got, rerr, what)
		}
		break
	}
	x.Class("frames/%s", c.Kind)
	switch {
	case c.Dist%128 == 0:
		x.Class("frames/distance-multiple-of-128")
	case c.Dist > 128:
		x.Class("frames/distance>128")
	}
	x.NonTrivial = c.Dist >= 2
	return nil
}

func TestC32Frames(t *testing.T) {
	pbt.Run(t, "C32", "100-430 full data frames in one direction of an established connection; the relay replays an earlier sealed frame at a later position, drops a run of frames, swaps two frames or inserts a duplicate, at distances 1, 2, 3, 64, 127-129, 255-257, 384 or any 1-400 (bytes of each frame untouched); the frames before the first rearranged position must be delivered intact and the read at that position must fail with n = 0; non-trivial = distance >= 2; distinct = case JSON",
		pbt.Options{Sub: "frames", Checks: pbt.Per(120, 12000), MinClass: map[string]int{"frames/distance-multiple-of-128": 10}}, c32FramesGen, c32FramesExec)
}
