package netcheck

import (
	"fmt"
	"math"
	"testing"
	"time"

	"github.com/bytom/bytom/p2p/security"
	"github.com/bytom/bytom/p2p/trust"
	"pgregory.net/rapid"

	"verifharness/pbt"
)

// C35: a peer's ban score = persistent sum + transient part decayed with a 60 s half-life; the
// transient part is forgotten after 1800 s; never negative; grows by at least every persistent
// amount added.  Both copies (p2p/security, p2p/trust) are driven through the clock-taking shims
// VerifIncrease / VerifInt (thin wrappers of the unexported increase / int), so the test owns the
// clock.  Times are whole seconds (the implementation's documented resolution), never decreasing.
//
// Oracle: a real-valued model (P, T, last):
//     add(p, tr, now):  P += p;  if tr > 0 { T = live(now) + tr; last = now }
//     live(now)       = 0 if no transient was ever added or now-last > 1800, else T * 2^-((now-last)/60)
//     score(now)      = P + live(now)
// (with tr == 0 nothing has to be stored: exponential decay composes.)
//
// Tolerance, derived from the implementation and never tuned from observed results:
//  (1) the implementation returns persistent + uint32(float transient): truncation loses < 1 unit;
//  (2) `increase` skips the decay while the stored transient is <= 1 (and `int` reports 0 while it is
//      < 1).  Let e = stored - model >= 0.  Decay multiplies e by a factor < 1; a skipped decay happens
//      only while stored <= 1 and then e_new <= stored <= 1.  Hence 0 <= e <= 1 at all times and
//      floor(model + e) lies in (model - 1, model + 1];
//  (3) float64 rounding of a few multiplications / exp: far below 1e-9 relative (operands < 2^32).
// So   |observed - (P + live)| <= 1 + 1e-9 * (P + live)   can never false-alarm, while any change of
// the half-life, a shortened lifetime, or a lost / doubled increment moves the score by far more than
// one unit for the amounts generated here.  (Dropping the lifetime rule altogether is NOT observable in
// this domain: after 1800 s the decay factor is 2^-30 and transient sums are < 2^31, so the decayed
// part is < 2 and truncates to within the tolerance; measured in the sensitivity experiments.)
// Exactly at now-last == 1800 the statement ("forgotten after 30 minutes") leaves open whether the
// transient part still counts: both are accepted there.
// Amount sums are kept below 2^31 each so that persistent + transient cannot wrap uint32 (DESIGN C35).

type c35Step struct {
	Dt int64  `json:"dt"` // seconds since the previous step (>= 0)
	P  uint32 `json:"p"`  // persistent amount
	T  uint32 `json:"t"`  // transient amount
	// Observe only (Int) when true; otherwise Increase(P, T) (P and T may both be 0).
	Obs bool `json:"obs"`
}

type c35Case struct {
	Pkg   string    `json:"pkg"` // "security" or "trust"
	Steps []c35Step `json:"steps"`
}

const c35Base = int64(1500000000) // an ordinary Unix time; lastUnix starts at 0 in the implementation

type c35Score interface {
	VerifIncrease(persistent, transient uint32, t time.Time) uint32
	VerifInt(t time.Time) uint32
}

var c35TrustInit = func() bool { trust.Init(); return true }() // documented precondition (DESIGN 4.8)

func c35GenStep(t *rapid.T) c35Step {
	amount := func(label string) uint32 {
		switch rapid.IntRange(0, 9).Draw(t, label+"kind") {
		case 0, 1, 2:
			return 0
		case 3:
			return uint32(rapid.IntRange(1, 2).Draw(t, label+"tiny"))
		case 4, 5:
			return uint32(rapid.IntRange(1, 120).Draw(t, label+"small"))
		case 6, 7:
			return uint32(rapid.IntRange(100, 100000).Draw(t, label+"mid"))
		case 8:
			return rapid.Uint32Range(1<<20, 1<<30).Draw(t, label+"big")
		default:
			return uint32(1) << uint(rapid.IntRange(0, 30).Draw(t, label+"pow"))
		}
	}
	var s c35Step
	switch rapid.IntRange(0, 11).Draw(t, "dtkind") {
	case 0, 1:
		s.Dt = 0
	case 2:
		s.Dt = 1
	case 3, 4:
		s.Dt = int64(rapid.IntRange(0, 70).Draw(t, "dtsmall"))
	case 5:
		s.Dt = int64(60*rapid.IntRange(1, 10).Draw(t, "dthl") + rapid.IntRange(-1, 1).Draw(t, "dtd"))
	case 6, 7:
		s.Dt = int64(rapid.IntRange(0, 900).Draw(t, "dtmid"))
	case 8:
		s.Dt = int64(rapid.IntRange(1795, 1805).Draw(t, "dtlife"))
	case 9:
		s.Dt = int64(rapid.IntRange(900, 1800).Draw(t, "dtlate"))
	default:
		s.Dt = int64(rapid.IntRange(1801, 200000).Draw(t, "dtlong"))
	}
	if rapid.IntRange(0, 2).Draw(t, "obs") == 0 {
		s.Obs = true
	} else {
		s.P = amount("p")
		s.T = amount("t")
	}
	return s
}

func c35Gen(t *rapid.T) c35Case {
	c := c35Case{Pkg: rapid.SampledFrom([]string{"security", "trust"}).Draw(t, "pkg")}
	c.Steps = rapid.SliceOfN(rapid.Custom(c35GenStep), 1, 30).Draw(t, "steps")
	// keep both sums below 2^31 by construction (clamp to what is left of the budget)
	budgetP, budgetT := uint64(1)<<31-1, uint64(1)<<31-1
	clamp := func(v *uint32, budget *uint64) {
		if uint64(*v) > *budget {
			*v = uint32(*budget)
		}
		*budget -= uint64(*v)
	}
	for i := range c.Steps {
		clamp(&c.Steps[i].P, &budgetP)
		clamp(&c.Steps[i].T, &budgetT)
	}
	return c
}

// c35Exec runs one history.  judgeReturn selects whether the value returned by Increase is compared
// with the model (sub-check "increase-return"); Int is always compared.
func c35Exec(judgeReturn bool) func(c35Case, *pbt.Ctx) error {
	return func(c c35Case, x *pbt.Ctx) error {
		var impl c35Score
		switch c.Pkg {
		case "security":
			impl = &security.DynamicBanScore{}
		case "trust":
			impl = &trust.DynamicBanScore{}
		default:
			return nil // not a case
		}
		var sumP, sumT uint64
		for _, s := range c.Steps {
			if s.Dt < 0 || s.Dt > 1<<40 {
				return nil // outside the domain: clock never goes back
			}
			if !s.Obs {
				sumP += uint64(s.P)
				sumT += uint64(s.T)
			}
		}
		if sumP >= 1<<31 || sumT >= 1<<31 {
			return nil // outside the domain (uint32 wrap of the sum is not part of the claim)
		}
		x.Class("pkg:" + c.Pkg)

		var (
			P       uint64  // model: persistent sum
			T       float64 // model: transient value at time last
			last    int64
			hasT    bool
			now     = c35Base
			lastObs = int64(-1) // last Int() value seen since the most recent Increase
			tTimes  = map[int64]bool{}
		)
		live := func() (v float64, boundary bool) {
			if !hasT {
				return 0, false
			}
			dt := now - last
			if dt > 1800 {
				return 0, false
			}
			return T * math.Exp2(-float64(dt)/60), dt == 1800
		}
		judge := func(what string, i int, got uint32) error {
			m, boundary := live()
			want := float64(P) + m
			tol := 1 + 1e-9*want
			lo, hi := want-tol, want+tol
			if boundary {
				lo = float64(P) - tol
			}
			if uint64(got) < P {
				return fmt.Errorf("step %d (%s at t0+%ds): score %d is below the persistent sum %d", i, what, now-c35Base, got, P)
			}
			if float64(got) < lo || float64(got) > hi {
				return fmt.Errorf("step %d (%s at t0+%ds): score %d, documented rule gives %d + %.6f = %.6f (persistent + transient decayed over %ds, tolerance %.3f)",
					i, what, now-c35Base, got, P, m, want, now-last, tol)
			}
			return nil
		}
		for i, s := range c.Steps {
			now += s.Dt
			tm := time.Unix(now, 0)
			switch {
			case s.Dt == 0:
				x.Class("dt=0")
			case hasT && now-last == 1800:
				x.Class("age=1800")
			case hasT && now-last > 1800:
				x.Class("age>1800")
			case hasT && now-last >= 60:
				x.Class("age>=60")
			}
			before := impl.VerifInt(tm)
			if err := judge("Int", i, before); err != nil {
				return err
			}
			if lastObs >= 0 && int64(before) > lastObs {
				return fmt.Errorf("step %d: Int rose from %d to %d at t0+%ds without an increase in between", i, lastObs, before, now-c35Base)
			}
			lastObs = int64(before)
			if s.Obs {
				continue
			}
			// model
			P += uint64(s.P)
			staleLive := false
			if s.T > 0 {
				m, _ := live()
				// (exactly at age 1800 the model keeps the decayed old part, T*2^-30 < 2 units for
				// the amounts in the domain; "after 30 minutes" read as strictly after.)
				T = m + float64(s.T)
				last = now
				hasT = true
				tTimes[now] = true
			} else if hasT {
				if m, _ := live(); T-m >= 2 {
					staleLive = true // stored transient differs from its decayed value by >= 2 units
				}
			}
			got := impl.VerifIncrease(s.P, s.T, tm)
			switch {
			case s.P == 0 && s.T == 0:
				x.Class("increase(0,0)")
			case s.T == 0:
				x.Class("increase(p,0)")
			case s.P == 0:
				x.Class("increase(0,t)")
			default:
				x.Class("increase(p,t)")
			}
			if staleLive {
				x.Class("increase-without-transient-while-old-transient-decayed")
			}
			if uint64(got) < uint64(before)+uint64(s.P) {
				return fmt.Errorf("step %d: Increase(%d, %d) at t0+%ds returned %d, less than the score before (%d) plus the persistent amount", i, s.P, s.T, now-c35Base, got, before)
			}
			if judgeReturn {
				if err := judge(fmt.Sprintf("value returned by Increase(%d, %d)", s.P, s.T), i, got); err != nil {
					return err
				}
			}
			after := impl.VerifInt(tm)
			if err := judge("Int right after Increase", i, after); err != nil {
				return err
			}
			if uint64(after) < uint64(before)+uint64(s.P) {
				return fmt.Errorf("step %d: Int after Increase(%d, %d) is %d, less than the score before (%d) plus the persistent amount", i, s.P, s.T, after, before)
			}
			lastObs = int64(after)
		}
		x.NonTrivial = len(tTimes) >= 2
		if x.NonTrivial {
			x.Class("nontrivial")
		}
		return nil
	}
}

func TestC35(t *testing.T) {
	const rule = "histories of 1..30 steps (dt, persistent, transient | observe) on p2p/security and p2p/trust with a test-owned clock (shim VerifIncrease/VerifInt); dt from {0, 1, 0..70, k*60+-1, 0..900, 900..1800, 1795..1805, 1801..200000} s; amounts from {0, 1..2, 1..120, 100..1e5, 2^20..2^30, powers of two} with each sum < 2^31; oracle = real-valued model of the documented rule, |impl - model| <= 1 + 1e-9 rel, score >= persistent sum, Int non-increasing between increases, each Increase raises the score by >= its persistent amount; non-trivial = >= 2 transient increments at different times; distinct by the whole history"
	n := pbt.Per(200000, 48000000)
	// Int() after every step, and the growth rule, on every history.
	pbt.Run(t, "C35", rule, pbt.Options{Sub: "int", Checks: n,
		MinClass: map[string]int{"age>1800": 100, "age>=60": 100, "dt=0": 100, "pkg:trust": 100, "pkg:security": 100}},
		c35Gen, c35Exec(false))
	// The same histories, additionally judging the score value that Increase returns (what
	// PeersBanScore.Increase compares with the ban threshold).
	pbt.Run(t, "C35", rule+"; the value returned by Increase is judged against the same model", pbt.Options{Sub: "increase-return", Checks: n},
		c35Gen, c35Exec(true))
}
