package netcheck

import (
	"bytes"
	"encoding/binary"
	"errors"
	"fmt"
	"io"
	"sync"
	"testing"
	"time"

	"github.com/bytom/bytom/crypto/ed25519/chainkd"
	"github.com/bytom/bytom/p2p/connection"
	"pgregory.net/rapid"

	"verifharness/pbt"
)

// C32: over an established secret connection the receiver reads exactly the bytes the sender wrote
// (in order, no loss, no duplication) whatever the write chunking and read buffer sizes; a modified
// ciphertext is detected; each side learns the key the other side authenticated with.
//
// Set-up: two SecretConnections are made over an in-memory full-duplex byte pipe (c32Half per
// direction).  During the handshake the pipe blocks like a socket (both MakeSecretConnection calls run
// concurrently, joined before anything else happens; a 30 s watchdog closes the pipe to turn a hang into
// a failure).  After the handshake the pipe is switched to non-blocking: a read on an empty pipe
// returns c32WouldBlock without consuming anything, so the whole op list (writes and reads in both
// directions, as data) runs deterministically on one goroutine, and no goroutine outlives a case.
// The pipe can also hand out short reads (like TCP) and flips one byte at a chosen wire offset
// (the "tampering relay").
//
// Oracle (uses only the n and err returned by Read):
//  * every Read that returns err == nil delivers buf[:n]; the concatenation must at all times be a
//    prefix of what was written in that direction, and equal to it once Read reports that nothing is
//    available (would-block from the pipe, n == 0);
//  * Write returns (len(data), nil);
//  * if a byte of sealed data frame f was flipped: exactly the bytes of the frames before f are
//    delivered, then Read returns an error with n == 0 (nothing of frame f or later); a flipped byte in
//    the sealed handshake frame makes the receiving side's MakeSecretConnection fail;
//  * RemotePubKey() on each side equals the other side's public key.

const (
	c32DataMax     = 1024                // dataMaxSize
	c32SealedFrame = c32DataMax + 2 + 16 // sealedFrameSize: data + length prefix + secretbox.Overhead
	c32EphKeyLen   = 32
	c32Watchdog    = 30 * time.Second
)

var c32WouldBlock = errors.New("c32 pipe: no data available")
var c32Closed = errors.New("c32 pipe: closed")
var c32Overrun = errors.New("c32 pipe: the sender writes more than the frames its data needs")

// c32Half is one direction of the duplex.
type c32Half struct {
	mu       sync.Mutex
	cond     *sync.Cond
	buf      []byte
	written  int64
	closed   bool
	nonblock bool
	maxRead  int   // > 0: Read returns at most this many bytes (short reads)
	flipAt   int64 // absolute offset of the byte to corrupt, -1 = none
	flipMask byte
	flipped  bool
	limit    int64 // > 0: a write that would bring the total above it fails (a sender that never stops must not fill the memory)
}

func newC32Half() *c32Half {
	h := &c32Half{flipAt: -1}
	h.cond = sync.NewCond(&h.mu)
	return h
}

func (h *c32Half) write(p []byte) (int, error) {
	h.mu.Lock()
	defer h.mu.Unlock()
	if h.closed {
		return 0, c32Closed
	}
	if h.limit > 0 && h.written+int64(len(p)) > h.limit {
		return 0, c32Overrun
	}
	start := len(h.buf)
	h.buf = append(h.buf, p...)
	if h.flipAt >= h.written && h.flipAt < h.written+int64(len(p)) {
		h.buf[start+int(h.flipAt-h.written)] ^= h.flipMask
		h.flipped = true
	}
	h.written += int64(len(p))
	h.cond.Broadcast()
	return len(p), nil
}

func (h *c32Half) read(p []byte) (int, error) {
	h.mu.Lock()
	defer h.mu.Unlock()
	for len(h.buf) == 0 {
		if h.closed {
			return 0, c32Closed
		}
		if h.nonblock {
			return 0, c32WouldBlock
		}
		h.cond.Wait()
	}
	if len(p) == 0 {
		return 0, nil
	}
	lim := len(p)
	if h.maxRead > 0 && lim > h.maxRead {
		lim = h.maxRead
	}
	n := copy(p[:lim], h.buf)
	h.buf = h.buf[n:]
	return n, nil
}

func (h *c32Half) set(f func(*c32Half)) {
	h.mu.Lock()
	f(h)
	h.cond.Broadcast()
	h.mu.Unlock()
}

type c32End struct{ r, w *c32Half }

func (e *c32End) Read(p []byte) (int, error)  { return e.r.read(p) }
func (e *c32End) Write(p []byte) (int, error) { return e.w.write(p) }
func (e *c32End) Close() error {
	e.r.set(func(h *c32Half) { h.closed = true })
	e.w.set(func(h *c32Half) { h.closed = true })
	return nil
}

type c32Op struct {
	Dir  int    `json:"dir"`  // 0: A writes / B reads, 1: B writes / A reads
	Kind string `json:"kind"` // "w" | "r"
	Size int    `json:"size"` // w: 0..5000 bytes or one of a few sizes around 65536 and its multiples, r: buffer of 1..2100 bytes
}

type c32Corrupt struct {
	Dir    int `json:"dir"`
	Frame  int `json:"frame"`  // 0 = the sealed handshake (authentication) frame, k >= 1 = k-th data frame
	Offset int `json:"offset"` // 0..sealedFrameSize-1
	Mask   int `json:"mask"`   // 1..255, xor-ed into the byte
}

type c32Case struct {
	SeedA   uint64      `json:"seed_a"`
	SeedB   uint64      `json:"seed_b"`
	Ops     []c32Op     `json:"ops"`
	MaxRead int         `json:"max_read"` // short-read limit of the pipe, 0 = none
	Corrupt *c32Corrupt `json:"corrupt,omitempty"`
}

func c32Gen(t *rapid.T) c32Case {
	c := c32Case{SeedA: rapid.Uint64().Draw(t, "seedA"), SeedB: rapid.Uint64().Draw(t, "seedB")}
	if rapid.IntRange(0, 3).Draw(t, "short") == 0 {
		c.MaxRead = rapid.SampledFrom([]int{1, 7, 100, 521, 1041, 1042, 1043, 1500}).Draw(t, "maxread")
	}
	wsize := func() int {
		switch rapid.IntRange(0, 15).Draw(t, "wkind") % 9 {
		case 8: // a whole send buffer at once (the connection layer flushes up to 65536 bytes in one Write), around the 16-bit boundary
			return rapid.SampledFrom([]int{65536, 65535, 65537, 66560, 70000, 131072, 196608}).Draw(t, "wbig")
		case 0:
			return rapid.IntRange(0, 3).Draw(t, "wtiny")
		case 1:
			return c32DataMax*rapid.IntRange(1, 4).Draw(t, "wk") + rapid.IntRange(-1, 1).Draw(t, "wd")
		case 2, 3:
			return rapid.IntRange(0, 300).Draw(t, "wsmall")
		default:
			return rapid.IntRange(0, 5000).Draw(t, "wany")
		}
	}
	rsize := func() int {
		switch rapid.IntRange(0, 7).Draw(t, "rkind") {
		case 0:
			return rapid.IntRange(1, 3).Draw(t, "rtiny")
		case 1:
			return rapid.SampledFrom([]int{1023, 1024, 1025, 2047, 2048, 2049, 2100}).Draw(t, "rb")
		case 2, 3:
			return rapid.IntRange(1, 300).Draw(t, "rsmall")
		default:
			return rapid.IntRange(1, 2100).Draw(t, "rany")
		}
	}
	n := rapid.IntRange(1, 24).Draw(t, "nops")
	bothDirs := rapid.IntRange(0, 2).Draw(t, "both") == 0
	frames := [2]int{}
	for i := 0; i < n; i++ {
		op := c32Op{}
		if bothDirs {
			op.Dir = rapid.IntRange(0, 1).Draw(t, "dir")
		}
		if rapid.IntRange(0, 4).Draw(t, "isread") >= 2 {
			op.Kind, op.Size = "r", rsize()
		} else {
			op.Kind, op.Size = "w", wsize()
			frames[op.Dir] += (op.Size + c32DataMax - 1) / c32DataMax
		}
		c.Ops = append(c.Ops, op)
	}
	if rapid.IntRange(0, 2).Draw(t, "corrupt") == 0 {
		k := &c32Corrupt{Offset: rapid.IntRange(0, c32SealedFrame-1).Draw(t, "coff"), Mask: 1 << uint(rapid.IntRange(0, 7).Draw(t, "cbit"))}
		if rapid.IntRange(0, 3).Draw(t, "cmask") == 0 {
			k.Mask = rapid.IntRange(1, 255).Draw(t, "cm")
		}
		if bothDirs {
			k.Dir = rapid.IntRange(0, 1).Draw(t, "cdir")
		}
		hi := frames[k.Dir]
		if hi < 1 {
			hi = 1
		}
		if rapid.IntRange(0, 9).Draw(t, "chs") == 0 {
			k.Frame = 0
		} else {
			k.Frame = rapid.IntRange(1, hi).Draw(t, "cframe")
		}
		c.Corrupt = k
	}
	return c
}

func c32Key(seed uint64) chainkd.XPrv {
	var b [32]byte
	for i := 0; i < 4; i++ {
		binary.LittleEndian.PutUint64(b[8*i:], seed+uint64(i)*0x9e3779b97f4a7c15)
	}
	return chainkd.RootXPrv(b[:])
}

// c32Payload is the byte at stream position i of direction d: a pattern in which any loss,
// duplication or reordering shows up as a mismatch.
func c32Payload(d int, i int) byte {
	u := uint32(i)*2654435761 + uint32(d)*40503
	return byte(u>>24) ^ byte(i)
}

type c32Dir struct {
	sent       []byte
	recv       []byte
	frames     []int // sizes of the data frames written so far
	dead       bool  // a corrupted frame was detected: nothing more is read in this direction
	modelFrame int   // classification only: next frame index / remainder of the current one
	modelRem   int
}

func c32Exec(c c32Case, x *pbt.Ctx) error {
	if len(c.Ops) > 200 || c.MaxRead < 0 {
		return nil
	}
	for _, op := range c.Ops {
		if op.Dir < 0 || op.Dir > 1 || (op.Kind != "w" && op.Kind != "r") ||
			(op.Kind == "w" && (op.Size < 0 || op.Size > 300000)) || (op.Kind == "r" && (op.Size < 1 || op.Size > 2100)) {
			return nil
		}
	}
	if k := c.Corrupt; k != nil && (k.Dir < 0 || k.Dir > 1 || k.Frame < 0 || k.Frame > 2000 || k.Offset < 0 || k.Offset >= c32SealedFrame || k.Mask < 1 || k.Mask > 255) {
		return nil
	}

	keys := [2]chainkd.XPrv{c32Key(c.SeedA), c32Key(c.SeedB)}
	half := [2]*c32Half{newC32Half(), newC32Half()} // half[d] carries direction d
	ends := [2]*c32End{{r: half[1], w: half[0]}, {r: half[0], w: half[1]}}
	defer ends[0].Close()
	defer ends[1].Close()
	for _, h := range half {
		h.maxRead = c.MaxRead
	}
	if k := c.Corrupt; k != nil {
		half[k.Dir].flipAt = int64(c32EphKeyLen + k.Frame*c32SealedFrame + k.Offset)
		half[k.Dir].flipMask = byte(k.Mask)
	}

	// ---- handshake: both sides concurrently, joined here
	type hsResult struct {
		side int
		sc   *connection.SecretConnection
		err  error
	}
	resC := make(chan hsResult, 2)
	for side := 0; side < 2; side++ {
		go func(side int) {
			defer func() {
				if p := recover(); p != nil {
					resC <- hsResult{side: side, err: fmt.Errorf("panic in MakeSecretConnection: %v", p)}
				}
			}()
			sc, err := connection.MakeSecretConnection(ends[side], keys[side])
			resC <- hsResult{side, sc, err}
		}(side)
	}
	var (
		sc    [2]*connection.SecretConnection
		hsErr [2]error
		hung  bool
	)
	wd := time.NewTimer(c32Watchdog)
	for got := 0; got < 2; {
		select {
		case r := <-resC:
			got++
			sc[r.side], hsErr[r.side] = r.sc, r.err
			if r.err != nil { // unblock the peer, which may be waiting for bytes that never come
				ends[0].Close()
			}
		case <-wd.C:
			if hung {
				return fmt.Errorf("handshake did not finish within %v, not even after closing the pipe", 2*c32Watchdog)
			}
			hung = true
			ends[0].Close() // blocked pipe reads now fail, so the handshake goroutines end
			wd.Reset(c32Watchdog)
		}
	}
	wd.Stop()
	if hung {
		return fmt.Errorf("handshake did not finish within %v (errors after closing the pipe: A=%v B=%v)", c32Watchdog, hsErr[0], hsErr[1])
	}

	if k := c.Corrupt; k != nil && k.Frame == 0 {
		x.Class("corrupt-handshake-frame")
		x.NonTrivial = true
		recvSide := 1 - k.Dir // direction d is written by side d and read by side 1-d
		if !half[k.Dir].flipped {
			return fmt.Errorf("HARNESS: handshake frame not at the expected wire offset (written %d bytes)", half[k.Dir].written)
		}
		if hsErr[recvSide] == nil {
			return fmt.Errorf("byte %d of the sealed handshake frame sent by side %d was altered (xor %#x) but MakeSecretConnection on side %d succeeded", k.Offset, k.Dir, k.Mask, recvSide)
		}
		return nil
	}
	for side := 0; side < 2; side++ {
		if hsErr[side] != nil {
			return fmt.Errorf("handshake failed on side %d: %v (other side: %v)", side, hsErr[side], hsErr[1-side])
		}
	}
	for side := 0; side < 2; side++ {
		want := keys[1-side].XPub().PublicKey()
		if got := sc[side].RemotePubKey(); !bytes.Equal(got, want) {
			return fmt.Errorf("side %d: RemotePubKey %x, peer authenticated with %x", side, got, want)
		}
	}
	for d, h := range half {
		if h.written != c32EphKeyLen+c32SealedFrame {
			return fmt.Errorf("HARNESS: unexpected wire layout: direction %d carried %d handshake bytes, expected %d", d, h.written, c32EphKeyLen+c32SealedFrame)
		}
		h.set(func(h *c32Half) { h.nonblock = true })
	}
	x.Class("handshake-ok")

	// ---- data phase, single goroutine
	var dirs [2]c32Dir
	cutoff := func(d int) (int, bool) { // bytes delivered before the corrupted frame of direction d, if it was written
		k := c.Corrupt
		if k == nil || k.Dir != d || k.Frame > len(dirs[d].frames) {
			return 0, false
		}
		n := 0
		for _, f := range dirs[d].frames[:k.Frame-1] {
			n += f
		}
		return n, true
	}
	read := func(i int, d int, size int) (stop bool, err error) {
		D := &dirs[d]
		buf := make([]byte, size)
		n, rerr := sc[1-d].Read(buf)
		if n < 0 || n > size {
			return true, fmt.Errorf("op %d: Read(buffer of %d) returned n = %d", i, size, n)
		}
		// classification model (what a frame-by-frame reader consumes)
		if rerr == nil {
			if D.modelRem == 0 && D.modelFrame < len(D.frames) {
				D.modelRem = D.frames[D.modelFrame]
				D.modelFrame++
			} else if D.modelRem > 0 {
				x.Class("read-served-from-buffered-remainder")
			}
			if size < D.modelRem {
				x.NonTrivial = true
				x.Class("read-smaller-than-frame-remainder")
				D.modelRem -= size
			} else {
				D.modelRem = 0
			}
		}
		if rerr != nil {
			if n != 0 {
				return true, fmt.Errorf("op %d: direction %d: Read returned n = %d together with error %v", i, d, n, rerr)
			}
			if rerr == c32WouldBlock {
				// the implementation found nothing to deliver: everything written must have arrived
				if cut, hit := cutoff(d); hit && half[d].flipped {
					return true, fmt.Errorf("op %d: direction %d: reader drained the wire without reporting the altered frame %d (delivered %d bytes, %d precede that frame)", i, d, c.Corrupt.Frame, len(D.recv), cut)
				}
				if len(D.recv) != len(D.sent) {
					return true, fmt.Errorf("op %d: direction %d: Read reports nothing more to deliver, but only %d of the %d bytes written were returned to the caller (%d lost)", i, d, len(D.recv), len(D.sent), len(D.sent)-len(D.recv))
				}
				return true, nil
			}
			cut, hit := cutoff(d)
			if !hit {
				return true, fmt.Errorf("op %d: direction %d: Read failed with %v although nothing was altered in this direction", i, d, rerr)
			}
			if len(D.recv) != cut {
				return true, fmt.Errorf("op %d: direction %d: Read failed with %v after delivering %d bytes; %d bytes precede the altered frame %d", i, d, rerr, len(D.recv), cut, c.Corrupt.Frame)
			}
			D.dead = true
			x.Class("corruption-detected")
			return true, nil
		}
		if len(D.recv)+n > len(D.sent) {
			return true, fmt.Errorf("op %d: direction %d: %d bytes delivered, only %d written (duplication)", i, d, len(D.recv)+n, len(D.sent))
		}
		if !bytes.Equal(buf[:n], D.sent[len(D.recv):len(D.recv)+n]) {
			j := 0
			for buf[j] == D.sent[len(D.recv)+j] {
				j++
			}
			return true, fmt.Errorf("op %d: direction %d: Read(buffer of %d) returned n = %d; byte at stream position %d is %#x, written %#x", i, d, size, n, len(D.recv)+j, buf[j], D.sent[len(D.recv)+j])
		}
		if cut, hit := cutoff(d); hit && len(D.recv)+n > cut {
			return true, fmt.Errorf("op %d: direction %d: bytes of the altered frame %d were delivered (%d delivered, %d precede the frame)", i, d, c.Corrupt.Frame, len(D.recv)+n, cut)
		}
		D.recv = append(D.recv, buf[:n]...)
		return false, nil
	}
	var rsizes []int
	for i, op := range c.Ops {
		D := &dirs[op.Dir]
		if op.Kind == "w" {
			data := make([]byte, op.Size)
			for j := range data {
				data[j] = c32Payload(op.Dir, len(D.sent)+j)
			}
			// what a correct sender puts on the wire for this write, and not one byte more
			wantFrames := len(D.frames) + (op.Size+c32DataMax-1)/c32DataMax
			half[op.Dir].set(func(h *c32Half) { h.limit = int64(c32EphKeyLen + c32SealedFrame*(1+wantFrames)) })
			n, err := sc[op.Dir].Write(data)
			if err != nil || n != op.Size {
				return fmt.Errorf("op %d: Write(%d bytes) = %d, %v (the wire accepts exactly the %d frames such a write needs)", i, op.Size, n, err, (op.Size+c32DataMax-1)/c32DataMax)
			}
			if op.Size >= 65535 {
				x.Class("write>=65535-bytes")
			}
			D.sent = append(D.sent, data...)
			for rest := op.Size; rest > 0; rest -= c32DataMax {
				f := rest
				if f > c32DataMax {
					f = c32DataMax
				}
				D.frames = append(D.frames, f)
			}
			if want := int64(c32EphKeyLen + c32SealedFrame*(1+len(D.frames))); half[op.Dir].written != want {
				return fmt.Errorf("HARNESS: unexpected wire layout: direction %d carried %d bytes after %d data frames, expected %d", op.Dir, half[op.Dir].written, len(D.frames), want)
			}
			x.Class("op:w")
			continue
		}
		rsizes = append(rsizes, op.Size)
		if D.dead {
			x.Class("op:r-skipped-after-detection")
			continue
		}
		x.Class("op:r")
		if _, err := read(i, op.Dir, op.Size); err != nil {
			return err
		}
	}
	if len(rsizes) == 0 {
		rsizes = []int{1500}
	}
	// drain both directions with the case's read sizes until the reader reports "nothing more"
	for d := 0; d < 2; d++ {
		D := &dirs[d]
		limit := 2*len(D.sent) + 100
		for it := 0; !D.dead; it++ {
			if it > limit {
				return fmt.Errorf("drain of direction %d: %d Reads without reaching the end (%d of %d bytes delivered)", d, it, len(D.recv), len(D.sent))
			}
			stop, err := read(len(c.Ops), d, rsizes[it%len(rsizes)])
			if err != nil {
				return err
			}
			if stop {
				break
			}
		}
		if _, hit := cutoff(d); hit {
			if !half[d].flipped {
				return fmt.Errorf("HARNESS: frame %d of direction %d was written but the byte was not altered", c.Corrupt.Frame, d)
			}
			if !D.dead {
				return fmt.Errorf("direction %d: altered frame %d was never reported", d, c.Corrupt.Frame)
			}
			x.NonTrivial = true
		} else if c.Corrupt != nil && c.Corrupt.Dir == d {
			x.Class("corrupt-frame-never-written")
		}
	}
	if len(dirs[0].sent) > 0 && len(dirs[1].sent) > 0 {
		x.Class("both-directions")
	}
	if c.MaxRead > 0 {
		x.Class("pipe-short-reads")
	}
	return nil
}

var _ io.ReadWriteCloser = (*c32End)(nil)

func TestC32(t *testing.T) {
	pbt.Run(t, "C32",
		"two keys from generated seeds; handshake over an in-memory duplex (optionally with short pipe reads); 1..24 ops: writes of 0..5000 bytes (boundary-heavy around k*1024; one write in 16 is a whole send buffer of 65535..196608 bytes, the wire accepting exactly the frames it needs) and reads with buffers of 1..2100 bytes in one or both directions, then a drain with the same buffer sizes; in 1/3 of the cases one byte of one sealed frame (handshake frame or a data frame) is xor-ed on the wire; oracle: bytes returned by Read (by n) are a prefix of / finally equal to the bytes written, nothing of an altered frame is delivered and Read fails there, RemotePubKey = peer key; non-trivial = a Read with a buffer smaller than the rest of the frame it reads from, or an altered frame that was reached; distinct by whole case",
		pbt.Options{Checks: pbt.Per(10000, 1200000),
			MinClass: map[string]int{"read-smaller-than-frame-remainder": 100, "corruption-detected": 50, "handshake-ok": 100, "write>=65535-bytes": 100}},
		c32Gen, c32Exec)
}
