package chaincheck

import (
	"fmt"
	"sort"
	"testing"

	"pgregory.net/rapid"

	"github.com/bytom/bytom/consensus"
	"github.com/bytom/bytom/protocol/state"

	ck "verifharness/chainkit"
	"verifharness/pbt"
)

// C15: the effective validators of an epoch are the at most ten keys whose tally meets
// the minimum, ranked by votes then key (the federation if none qualifies), and for
// every block time at or after the epoch start exactly one validator is scheduled,
// round-robin by slot, independent of map iteration order.

type c15Table struct {
	Fed     int      `json:"fed"`      // federation size
	MinPow  int      `json:"min_pow"`  // MinValidatorVoteNum = 10^MinPow
	Keys    []int    `json:"keys"`     // key indexes with votes
	Votes   []uint64 `json:"votes"`    // their tallies
	CPTime  uint64   `json:"cp_time"`  // checkpoint timestamp offset in slots
	CPOff   uint64   `json:"cp_off"`   // plus this many ms: the epoch-closing block need not sit on a multiple of the interval
	Slots   []int    `json:"slots"`    // block times to query: slot numbers from the epoch start
	SubSlot []int    `json:"sub_slot"` // plus this many ms inside the slot
}

func c15TableGen(t *rapid.T) c15Table {
	c := c15Table{Fed: rapid.IntRange(1, 10).Draw(t, "fed"), MinPow: rapid.IntRange(2, 4).Draw(t, "minpow")}
	min := uint64(1)
	for i := 0; i < c.MinPow; i++ {
		min *= 10
	}
	nk := rapid.IntRange(0, 16).Draw(t, "nkeys")
	perm := rapid.Permutation([]int{0, 1, 2, 3, 4, 5, 6, 7, 8, 9, 10, 11, 12, 13, 14, 15}).Draw(t, "perm")
	tieVal := min + uint64(rapid.IntRange(0, 3).Draw(t, "tie"))
	for i := 0; i < nk; i++ {
		c.Keys = append(c.Keys, perm[i])
		var v uint64
		switch rapid.IntRange(0, 6).Draw(t, "vk") {
		case 0:
			v = min - 1
		case 1:
			v = min
		case 2:
			v = min + 1
		case 3, 4:
			v = tieVal // ties
		case 5:
			v = 0
		default:
			v = rapid.Uint64Range(0, 50*min).Draw(t, "v")
		}
		c.Votes = append(c.Votes, v)
	}
	c.CPTime = uint64(rapid.IntRange(0, 1000).Draw(t, "cptime"))
	c.CPOff = uint64(rapid.SampledFrom([]int{0, 0, 1, 250, 500, 501, 999}).Draw(t, "cpoff"))
	nq := rapid.IntRange(1, 12).Draw(t, "nq")
	for i := 0; i < nq; i++ {
		c.Slots = append(c.Slots, rapid.IntRange(0, 45).Draw(t, "slot"))
		c.SubSlot = append(c.SubSlot, rapid.SampledFrom([]int{0, 0, 1, 500, 999}).Draw(t, "sub"))
	}
	return c
}

func c15TableExec(c c15Table, x *pbt.Ctx) error {
	if len(c.Keys) != len(c.Votes) || len(c.Slots) != len(c.SubSlot) || c.Fed < 1 || c.Fed > 10 {
		return nil
	}
	min := uint64(1)
	for i := 0; i < c.MinPow; i++ {
		min *= 10
	}
	p := ck.Params{Epoch: 4, Validators: c.Fed, MinVotes: min, NodeKey: -1}
	p.Install()

	votes := map[string]uint64{}
	seen := map[int]bool{}
	for i, k := range c.Keys {
		if k < 0 || k >= ck.NumKeys || seen[k] {
			return nil
		}
		seen[k] = true
		votes[ck.PubHex(k)] = c.Votes[i]
	}
	cpTime := ck.GenesisTime + c.CPTime*ck.IntervalMs + c.CPOff%ck.IntervalMs

	// reference: qualifying keys by votes desc, then key (hex string) desc, at most ten; federation otherwise
	type kv struct {
		k string
		v uint64
	}
	var q []kv
	for k, v := range votes {
		if v >= min {
			q = append(q, kv{k, v})
		}
	}
	sort.Slice(q, func(i, j int) bool {
		if q[i].v != q[j].v {
			return q[i].v > q[j].v
		}
		return q[i].k > q[j].k
	})
	var want []string
	for i := 0; i < len(q) && i < consensus.MaxNumOfValidators; i++ {
		want = append(want, q[i].k)
	}
	ties := false
	for i := 1; i < len(q); i++ {
		if q[i].v == q[i-1].v {
			ties = true
		}
	}
	if len(want) == 0 {
		for i := 0; i < c.Fed; i++ {
			want = append(want, ck.PubHex(i))
		}
		x.Class("federation-fallback")
	}
	if ties {
		x.Class("tie")
	}
	if len(q) > consensus.MaxNumOfValidators {
		x.Class(">10-candidates")
	}
	x.NonTrivial = ties || len(q) > consensus.MaxNumOfValidators

	for rep := 0; rep < 20; rep++ {
		// a fresh map each time so that iteration order differs between repetitions
		m := map[string]uint64{}
		for k, v := range votes {
			m[k] = v
		}
		cp := &state.Checkpoint{Height: 4, Timestamp: cpTime, Status: state.Unjustified, Votes: m}
		eff := cp.EffectiveValidators()
		if len(eff) != len(want) {
			return fmt.Errorf("votes %v min %d federation %d: %d effective validators, expected %d (%v)", votesByKey(votes), min, c.Fed, len(eff), len(want), shortKeys(want))
		}
		for order, k := range want {
			v, ok := eff[k]
			if !ok {
				return fmt.Errorf("votes %v min %d: key %s should be validator #%d but is not in the set", votesByKey(votes), min, shortKey(k), order)
			}
			if v.Order != order || v.PubKey != k {
				return fmt.Errorf("votes %v min %d: key %s has order %d, expected %d (repetition %d)", votesByKey(votes), min, shortKey(k), v.Order, order, rep)
			}
		}
		start := cpTime + ck.IntervalMs
		for i, s := range c.Slots {
			ts := start + uint64(s)*ck.IntervalMs + uint64(c.SubSlot[i])
			got := cp.GetValidator(ts)
			wantKey := want[s%len(want)]
			if got == nil {
				return fmt.Errorf("votes %v: no validator scheduled for time start+%dms", votesByKey(votes), ts-start)
			}
			if got.PubKey != wantKey {
				return fmt.Errorf("votes %v min %d: time start+%d ms (slot %d of %d validators) is scheduled for %s, expected %s", votesByKey(votes), min, ts-start, s, len(want), shortKey(got.PubKey), shortKey(wantKey))
			}
			n := 0
			for _, v := range eff {
				if v.Order == s%len(want) {
					n++
				}
			}
			if n != 1 {
				return fmt.Errorf("votes %v: %d validators have order %d", votesByKey(votes), n, s%len(want))
			}
		}
	}
	return nil
}

func shortKey(k string) string {
	if i := ck.KeyIndex(k); i >= 0 {
		return fmt.Sprintf("key%d(%s..)", i, k[:6])
	}
	return k[:8]
}

func shortKeys(ks []string) []string {
	var out []string
	for _, k := range ks {
		out = append(out, shortKey(k))
	}
	return out
}

func votesByKey(m map[string]uint64) string {
	var ks []string
	for k := range m {
		ks = append(ks, k)
	}
	sort.Strings(ks)
	s := "{"
	for _, k := range ks {
		s += fmt.Sprintf("%s:%d ", shortKey(k), m[k])
	}
	return s + "}"
}

// chain sub-check: vote/veto histories through real blocks; the node's schedule for
// the next block equals the model's for several times.
func c15ChainGen(t *rapid.T) histCase {
	opt := ck.GenOpt{MinBlocks: 6, MaxBlocks: 28, Epochs: []uint64{3, 4}, Validators: []int{1, 2, 4, 7}, Txs: true, TwoLocks: true}
	c := histCase{Tree: ck.GenTree(t, opt)}
	// many votes and vetoes
	for i := range c.Tree.Blocks {
		if rapid.IntRange(0, 1).Draw(t, "morevotes") == 0 {
			c.Tree.Blocks[i].Txs = append(c.Tree.Blocks[i].Txs,
				ck.TxDesc{Kind: "vote", Pick: []int{rapid.IntRange(0, 30).Draw(t, "vp")}, N: rapid.IntRange(0, 15).Draw(t, "vk"), Amt: rapid.IntRange(0, 2).Draw(t, "va")},
				ck.TxDesc{Kind: "veto", Pick: []int{rapid.IntRange(0, 30).Draw(t, "xp")}})
		}
	}
	c.Tree.Params.MinVotes = consensus.MinVoteOutputAmount + uint64(rapid.IntRange(0, 2).Draw(t, "minextra"))
	c.Probe = rapid.IntRange(0, 40).Draw(t, "slots")
	return c
}

func c15ChainExec(c histCase, x *pbt.Ctx) error {
	w := ck.Build(c.Tree)
	n, err := ck.NewNode(w, ck.NewMemDB())
	if err != nil {
		return fmt.Errorf("HARNESS: cannot start node: %v", err)
	}
	defer n.Close()
	votedSets := 0
	for i := 1; i < len(w.Blocks); i++ {
		if _, err := n.Deliver(i); err != nil {
			return fmt.Errorf("valid block #%d (height %d, proposer from the reference schedule) refused: %v", i, w.Blocks[i].Block.Height, err)
		}
		b := w.Blocks[i]
		want := w.P.EffectiveValidators(b.State.Last)
		if len(b.State.Last.Votes) > 0 && ck.KeyIndex(want[0]) >= 0 && want[0] != ck.PubHex(0) {
			votedSets++
		}
		hash := w.Hash(i)
		start := b.State.Last.Timestamp + ck.IntervalMs
		for k := 0; k < 4; k++ {
			slot := uint64((c.Probe + 7*k) % 45)
			ts := start + slot*ck.IntervalMs
			if ts < b.Block.Timestamp+ck.IntervalMs {
				continue // a child block cannot have this time
			}
			for rep := 0; rep < 3; rep++ {
				v, err := n.Chain.GetValidator(&hash, ts)
				if err != nil || v == nil {
					return fmt.Errorf("GetValidator(child of #%d, start+%d slots): %v", i, slot, err)
				}
				if wk := want[int(slot)%len(want)]; v.PubKey != wk {
					return fmt.Errorf("after block #%d (height %d, tally %v): time start+%d slots is scheduled for %s, reference %s of %v", i, b.Block.Height, votesByKey(b.State.Last.Votes), slot, shortKey(v.PubKey), shortKey(wk), shortKeys(want))
				}
			}
		}
	}
	if votedSets > 0 {
		x.Class("validators-from-votes")
	}
	x.NonTrivial = votedSets > 0
	return nil
}

func TestC15(t *testing.T) {
	pbt.Run(t, "C15", "vote tables over up to 16 keys with ties, tallies at min-1/min/min+1/0, more than ten qualifying keys, federation sizes 1-10; EffectiveValidators and GetValidator for block times over >=3 rotation rounds on and inside slot boundaries, 20 repetitions on fresh maps; oracle: reference ranking (votes desc, key desc, top ten, else federation) and order = slot mod n; non-trivial = a tie or more than ten candidates",
		pbt.Options{Sub: "table", Checks: pbt.Per(4000, 300000)}, c15TableGen, c15TableExec)
	pbt.Run(t, "C15", "vote/veto histories through real blocks on trees of 6-28 blocks: blocks signed by the reference schedule's proposer must be accepted and Chain.GetValidator for child times must equal the reference; non-trivial = a validator set that comes from votes",
		pbt.Options{Sub: "chain", Checks: pbt.Per(60, 6000)}, c15ChainGen, c15ChainExec)
}
