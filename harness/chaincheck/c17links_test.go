package chaincheck

import (
	"fmt"
	"testing"

	"pgregory.net/rapid"

	ck "verifharness/chainkit"
	"verifharness/pbt"
)

// C17, sub-check "carried-links": the header of the second checkpoint block carries two links at
// once (genesis -> cp2 and cp1 -> cp2), each signed by fewer validators than the threshold, by
// disjoint validators; then the node is (optionally) restarted, a few more validators sign one of
// the links by message, the node is (optionally) restarted again and the next block arrives.
// Signatures count for the link they were made for and for no other: the soundness oracle
// (checkFFGSound: whatever the node reports as justified or finalized has a supermajority link from
// a justified source in the independent record of valid signatures) must hold at every stage.

type c17Links struct {
	N        int  `json:"n"`         // validators 3..10
	Epoch    int  `json:"epoch"`     // 2..4
	A        int  `json:"a"`         // signatures on genesis->cp2 carried in the header (validators from the front)
	B        int  `json:"b"`         // signatures on cp1->cp2 carried in the header (validators from the end)
	SkipLast bool `json:"skip_last"` // order of the two links in the header
	C        int  `json:"c"`         // further validators (after the first A) signing by message
	OnDirect bool `json:"on_direct"` // the messages sign cp1->cp2 (else genesis->cp2)
	Restart1 bool `json:"restart1"`
	Restart2 bool `json:"restart2"`
}

func c17LinksGen(t *rapid.T) c17Links {
	n := rapid.IntRange(3, 10).Draw(t, "n")
	thr := n*2/3 + 1
	a := rapid.IntRange(1, thr-1).Draw(t, "a")
	b := rapid.IntRange(0, min(thr-1, n-a)).Draw(t, "b")
	return c17Links{N: n, Epoch: rapid.IntRange(2, 4).Draw(t, "epoch"), A: a, B: b, SkipLast: rapid.Bool().Draw(t, "skiplast"),
		C: rapid.IntRange(0, n-a-b).Draw(t, "c"), OnDirect: rapid.Bool().Draw(t, "ondirect"), Restart1: rapid.Bool().Draw(t, "r1"), Restart2: rapid.Bool().Draw(t, "r2")}
}

func c17LinksExec(c c17Links, x *pbt.Ctx) error {
	if c.N < 3 || c.N > 10 || c.Epoch < 2 || c.Epoch > 4 || c.A < 0 || c.B < 0 || c.C < 0 || c.A+c.B+c.C > c.N {
		return nil
	}
	td := ck.TreeDesc{Params: ck.Params{Epoch: uint64(c.Epoch), Validators: c.N, NodeKey: -1}}
	for i := 0; i < 2*c.Epoch+1; i++ {
		td.Blocks = append(td.Blocks, ck.BlockDesc{Parent: i})
	}
	var skip, direct []ck.SupDesc
	for v := 0; v < c.A; v++ {
		skip = append(skip, ck.SupDesc{Validator: v, Source: 1}) // selector 1 = two checkpoints back = genesis
	}
	for v := c.N - c.B; v < c.N; v++ {
		direct = append(direct, ck.SupDesc{Validator: v, Source: 0}) // selector 0 = the direct parent checkpoint
	}
	cp1, cp2 := c.Epoch, 2*c.Epoch
	if c.SkipLast {
		td.Blocks[cp2-1].Sup = append(direct, skip...)
	} else {
		td.Blocks[cp2-1].Sup = append(skip, direct...)
	}
	h, err := newHist(evCase{Tree: td})
	if err != nil {
		return err
	}
	defer h.n.Close()
	w := h.w
	desc := fmt.Sprintf("carried-links scenario %+v", c)
	for i := 1; i <= cp2; i++ {
		if _, err := h.step(ev{K: "b"}); err != nil {
			return err
		}
	}
	if err := checkFFGSound(h, x, desc+" after the block with the two links"); err != nil {
		return err
	}
	if c.Restart1 {
		if err := h.n.Restart(); err != nil {
			return fmt.Errorf("restart failed: %v", err)
		}
		if err := checkFFGSound(h, x, desc+" after the first restart"); err != nil {
			return err
		}
	}
	src := 0
	if c.OnDirect {
		src = cp1
	}
	vals := w.ValidatorsFor(cp2)
	for v := c.A; v < c.A+c.C; v++ {
		msg := w.Vote(ck.KeyIndex(vals[v]), src, cp2)
		var verr error
		_, hung, dump := callWithWatchdog(callLimit, func() error { verr = h.n.Chain.ProcessBlockVerification(msg); return nil })
		if hung {
			return hangError("ProcessBlockVerification", dump)
		}
		if verr == nil {
			h.ffg.observe(msg.PubKey, src, cp2, msg.Signature)
		}
		if err := checkFFGSound(h, x, fmt.Sprintf("%s after the message of validator %d on #%d->#%d", desc, v, src, cp2)); err != nil {
			return err
		}
	}
	if c.Restart2 {
		if err := h.n.Restart(); err != nil {
			return fmt.Errorf("restart failed: %v", err)
		}
	}
	if _, err := h.step(ev{K: "b"}); err != nil {
		return err
	}
	if c.A > 0 && c.B > 0 {
		x.Class("links/both-links-signed-in-the-header")
	}
	if c.Restart1 {
		x.Class("links/restart-before-the-messages")
	}
	thr := c.N*2/3 + 1
	x.NonTrivial = c.A+c.B+c.C >= thr && !h.ffg.supermajority(0, cp2) && !h.ffg.supermajority(cp1, cp2)
	if x.NonTrivial {
		x.Class("links/all-signatures-together-reach-the-threshold-no-link-does")
	}
	return checkFFGSound(h, x, desc+" at the end")
}

func TestC17Links(t *testing.T) {
	pbt.Run(t, "C17", "carried-links scenario: linear chain over two epochs, 3-10 validators; the header of the second checkpoint block carries the links genesis->cp2 (1..threshold-1 signers) and cp1->cp2 (0..threshold-1 other signers) in either order; optional restart; 0..rest further validators sign one of the two links by message; optional restart; next block; the soundness oracle is evaluated after the block, after each restart and after every message; non-trivial = all signatures together reach the threshold although neither link does; distinct = case JSON",
		pbt.Options{Sub: "carried-links", Checks: pbt.Per(250, 20000), MinClass: map[string]int{"links/all-signatures-together-reach-the-threshold-no-link-does": 10}}, c17LinksGen, c17LinksExec)
}
