package chaincheck

import (
	"encoding/binary"
	"fmt"
	"sync"
	"testing"
	"time"

	"pgregory.net/rapid"

	"github.com/bytom/bytom/consensus"
	"github.com/bytom/bytom/proposal"
	"github.com/bytom/bytom/protocol/bc"
	"github.com/bytom/bytom/protocol/bc/types"
	"github.com/bytom/bytom/protocol/state"
	"github.com/bytom/bytom/protocol/validation"
	"github.com/bytom/bytom/protocol/vm"
	"github.com/bytom/bytom/protocol/vm/vmutil"

	ck "verifharness/chainkit"
	"verifharness/pbt"
)

// C38, sub-check "gas": mempools whose valid transactions need more gas than one block holds.
//
// The pool holds "fat" transactions (one spend of a funding output, a change output and a
// never-spendable output with a 240-297 KB program: storage gas close to the per-transaction
// maximum) whose gas adds up to more than consensus.MaxBlockGas, small children (and
// grandchildren) that spend the change outputs of fat transactions, and small independent
// transactions, in a generated submission order with every child after its parent.  The node
// proposes blocks until the pool is empty; every proposed block must be accepted by the node's
// own chain, must keep to the block gas limit as computed here from the transaction sizes, and a
// transaction is never included before (or without) the pooled parent it spends from.

type c38GasKid struct {
	Parent int `json:"parent"` // index of the pool entry whose first output it spends (taken modulo its own position)
	Gap    int `json:"gap"`    // how many entries later than the parent it is submitted (at least 1)
}

type c38GasCase struct {
	Epoch  int         `json:"epoch"`
	Len    int         `json:"len"`    // blocks after the funding block
	Fat    []int       `json:"fat"`    // padding sizes of the fat transactions
	Kids   []c38GasKid `json:"kids"`   // small transactions chained on pool entries
	Burn   bool        `json:"burn"`   // fat transactions burn VM gas in a counting loop instead of carrying a long program
	Free   int         `json:"free"`   // small independent transactions
	FreeAt []int       `json:"freeat"` // where they are inserted
}

const (
	c38Funding  = 64                 // outputs of the splitter transaction
	c38FundAmt  = uint64(1000000000) // 10 BTM each
	c38FatFee   = uint64(consensus.MaxGasAmount * consensus.VMGasRate)
	c38SmallFee = uint64(20000000)
)

func c38GasGen(t *rapid.T) c38GasCase {
	c := c38GasCase{Epoch: rapid.IntRange(2, 4).Draw(t, "epoch"), Len: rapid.IntRange(0, 5).Draw(t, "len"), Burn: rapid.IntRange(0, 3).Draw(t, "burn") != 0}
	total := 0
	over := rapid.IntRange(300000, 1500000).Draw(t, "over") // how far beyond one block the fat transactions go
	for total < int(consensus.MaxBlockGas)+over && len(c.Fat) < 44 {
		s := rapid.IntRange(240000, 297000).Draw(t, "fatsize")
		c.Fat = append(c.Fat, s)
		total += s
	}
	nk := rapid.IntRange(2, 14).Draw(t, "nkids")
	for i := 0; i < nk; i++ {
		c.Kids = append(c.Kids, c38GasKid{Parent: rapid.IntRange(0, 80).Draw(t, "kparent"), Gap: rapid.IntRange(1, 40).Draw(t, "kgap")})
	}
	// the first child always hangs on the last fat transaction (hardly ever room for that one) and
	// is submitted at least one validation batch of 16 later
	c.Kids[0] = c38GasKid{Parent: 40, Gap: rapid.IntRange(17, 40).Draw(t, "kgap0")}
	c.Free = rapid.IntRange(0, 6).Draw(t, "free")
	for i := 0; i < c.Free; i++ {
		c.FreeAt = append(c.FreeAt, rapid.IntRange(0, 60).Draw(t, "freeat"))
	}
	return c
}

func c38Tx(ins []*types.TxInput, outs []*types.TxOutput) *types.Tx {
	d := &types.TxData{Version: 1, Inputs: ins, Outputs: outs}
	raw, err := d.MarshalText()
	if err != nil {
		panic(err)
	}
	tx := &types.Tx{}
	if err := tx.UnmarshalText(raw); err != nil {
		panic(err)
	}
	return tx
}

var c38True = []byte{0x51}

// c38SpendOut returns an input spending output k of tx (an OP_TRUE output).
func c38SpendOut(tx *types.Tx, k int) *types.TxInput {
	o, err := tx.OriginalOutput(*tx.ResultIds[k])
	if err != nil {
		panic(err)
	}
	return types.NewSpendInput(nil, *o.Source.Ref, *o.Source.Value.AssetId, o.Source.Value.Amount, o.Source.Position, o.ControlProgram.Code, nil)
}

// c38Loop is a control program that counts n down to zero and leaves true: VM gas proportional to n
// in a transaction of a hundred bytes.
func c38Loop(n uint64) []byte {
	b := vmutil.NewBuilder()
	b.AddUint64(n)
	top := b.NewJumpTarget()
	b.SetJumpTarget(top)
	b.AddOp(vm.OP_1SUB).AddOp(vm.OP_DUP)
	b.AddJumpIf(top)
	b.AddOp(vm.OP_NOT)
	prog, err := b.Build()
	if err != nil {
		panic(err)
	}
	return prog
}

var (
	c38CalOnce         sync.Once
	c38GasBase, c38Per int64 // gas of a loop transaction = c38GasBase + n * c38Per (measured with the validator)
	c38CalErr          error
)

func c38MeasureGas(tx *types.Tx, height uint64) (int64, error) {
	blk := types.MapBlock(&types.Block{BlockHeader: types.BlockHeader{Version: 1, Height: height, Timestamp: ck.GenesisTime + height*ck.IntervalMs}})
	gs, err := validation.ValidateTx(tx.Tx, blk, func(prog []byte) ([]byte, error) { return prog, nil })
	if err != nil {
		return 0, err
	}
	return gs.GasUsed, nil
}

func c38Calibrate() {
	gas := func(n uint64) int64 {
		in := types.NewSpendInput(nil, bc.NewHash([32]byte{1}), *consensus.BTMAssetID, c38FundAmt, 0, c38Loop(n), nil)
		tx := c38Tx([]*types.TxInput{in}, []*types.TxOutput{types.NewOriginalTxOutput(*consensus.BTMAssetID, c38FundAmt-c38FatFee-1, c38True, nil)})
		g, err := c38MeasureGas(tx, 3)
		if err != nil {
			c38CalErr = err
		}
		return g
	}
	g1, g2 := gas(1000), gas(3000)
	c38Per = (g2 - g1) / 2000
	c38GasBase = g1 - 1000*c38Per
	if c38CalErr == nil && (c38Per <= 0 || (g2-g1)%2000 != 0) {
		c38CalErr = fmt.Errorf("loop gas is not linear: %d at 1000, %d at 3000", g1, g2)
	}
}

func c38GasExec(c c38GasCase, x *pbt.Ctx) error {
	if len(c.Fat) == 0 || len(c.Fat) > 44 || c.Epoch < 2 || c.Epoch > 4 || c.Len < 0 || c.Len > 8 || c.Free > 8 || len(c.FreeAt) < c.Free {
		return nil
	}
	for _, s := range c.Fat {
		if s < 1000 || s > 297000 {
			return nil
		}
	}
	p := ck.Params{Epoch: uint64(c.Epoch), Validators: 1, NodeKey: 0, VoteLock: 2}
	btmID := *consensus.BTMAssetID
	// funding: a splitter transaction in block 1 turns one genesis output into many
	w0 := ck.Build(ck.TreeDesc{Params: p})
	var src *ck.Utxo
	for _, u := range w0.Blocks[0].State.Sorted() {
		if u.Asset == btmID && u.Kind == ck.KindNormal && len(u.Program) == 1 && u.Program[0] == 0x51 && u.Amount > uint64(c38Funding+1)*c38FundAmt {
			src = u
			break
		}
	}
	if src == nil {
		return fmt.Errorf("HARNESS: no genesis output to fund the pool from")
	}
	if c.Burn {
		c38CalOnce.Do(c38Calibrate)
		if c38CalErr != nil {
			return fmt.Errorf("HARNESS: cannot calibrate the gas loop: %v", c38CalErr)
		}
	}
	var outs []*types.TxOutput
	for i := 0; i < c38Funding; i++ {
		prog := c38True
		if c.Burn && i < len(c.Fat) {
			prog = c38Loop(uint64((int64(c.Fat[i]) - c38GasBase) / c38Per))
		}
		outs = append(outs, types.NewOriginalTxOutput(btmID, c38FundAmt, prog, nil))
	}
	outs = append(outs, types.NewOriginalTxOutput(btmID, src.Amount-uint64(c38Funding)*c38FundAmt-c38SmallFee, c38True, nil))
	splitter := c38Tx([]*types.TxInput{types.NewSpendInput(nil, src.SourceID, src.Asset, src.Amount, src.SourcePos, src.Program, src.StateData)}, outs)
	rawSplit, _ := splitter.MarshalText()
	td := ck.TreeDesc{Params: p, Blocks: []ck.BlockDesc{{Parent: 0, Raw: []string{string(rawSplit)}}}}
	for i := 0; i < c.Len; i++ {
		td.Blocks = append(td.Blocks, ck.BlockDesc{Parent: i + 1})
	}
	w := ck.Build(td)
	n, err := ck.NewNode(w, ck.NewMemDB())
	if err != nil {
		return fmt.Errorf("HARNESS: cannot start node: %v", err)
	}
	defer n.Close()
	for i := 1; i < len(w.Blocks); i++ {
		if _, err := n.Deliver(i); err != nil {
			return fmt.Errorf("HARNESS: valid chain block #%d refused: %v", i, err)
		}
	}
	best := n.BestIdx()
	if best != len(w.Blocks)-1 || !w.Blocks[best].State.Valid {
		return fmt.Errorf("HARNESS: best is #%d (model valid=%v), expected the chain tip", best, w.Blocks[best].State.Valid)
	}

	// the pool, in submission order
	type entry struct {
		tx     *types.Tx
		parent int // pool position of the entry it spends from, -1 = funding output
		fat    bool
	}
	fund := 0
	nextFund := func() *types.TxInput { in := c38SpendOut(splitter, fund); fund++; return in }
	var pool []entry
	for _, size := range c.Fat {
		prog := make([]byte, size)
		prog[0] = 0x6a // OP_FAIL: never spendable
		prog[1] = 0x4e // OP_PUSHDATA4 of the rest
		binary.LittleEndian.PutUint32(prog[2:], uint32(size-6))
		fatOuts := []*types.TxOutput{types.NewOriginalTxOutput(btmID, c38FundAmt-c38FatFee-1, c38True, nil)}
		if !c.Burn {
			fatOuts = append(fatOuts, types.NewOriginalTxOutput(btmID, 1, prog, nil))
		}
		tx := c38Tx([]*types.TxInput{nextFund()}, fatOuts)
		pool = append(pool, entry{tx: tx, parent: -1, fat: true})
	}
	small := func(in *types.TxInput) *types.Tx {
		return c38Tx([]*types.TxInput{in}, []*types.TxOutput{types.NewOriginalTxOutput(btmID, in.Amount()-c38SmallFee, c38True, nil)})
	}
	// children: each spends output 0 of an earlier entry that nobody spends yet and is inserted Gap places after it
	spentFrom := map[bc.Hash]bool{}
	for _, k := range c.Kids {
		if len(pool) == 0 {
			break
		}
		pi := abs(k.Parent) % len(pool)
		if abs(k.Parent) >= 40 {
			// one of the last fat transactions: those are the ones a block has no room for
			pi = -1
			want := len(c.Fat) - 1 - abs(k.Parent)%8
			for j, e := range pool {
				if e.fat {
					if want == 0 {
						pi = j
						break
					}
					want--
				}
			}
			if pi < 0 {
				continue
			}
		}
		ptx := pool[pi].tx
		if spentFrom[ptx.ID] {
			continue
		}
		spentFrom[ptx.ID] = true
		at := pi + 1 + abs(k.Gap)%40
		if at > len(pool) {
			at = len(pool)
		}
		e := entry{tx: small(c38SpendOut(ptx, 0))}
		pool = append(pool[:at], append([]entry{e}, pool[at:]...)...)
	}
	for i := 0; i < c.Free && fund < c38Funding; i++ {
		at := abs(c.FreeAt[i]) % (len(pool) + 1)
		e := entry{tx: small(nextFund()), parent: -1}
		pool = append(pool[:at], append([]entry{e}, pool[at:]...)...)
	}
	pos := map[bc.Hash]int{}
	for i, e := range pool {
		pos[e.tx.ID] = i
	}
	parentOf := map[bc.Hash]bc.Hash{}
	for _, e := range pool {
		for _, spent := range e.tx.SpentOutputIDs {
			for _, q := range pool {
				for _, rid := range q.tx.ResultIds {
					if *rid == spent {
						parentOf[e.tx.ID] = q.tx.ID
					}
				}
			}
		}
	}
	size := map[bc.Hash]uint64{}
	pending := map[bc.Hash]bool{}
	var fatGas uint64
	for i, e := range pool {
		raw, _ := e.tx.MarshalText()
		cp := &types.Tx{}
		if err := cp.UnmarshalText(raw); err != nil {
			return fmt.Errorf("HARNESS: %v", err)
		}
		if _, err := n.Chain.ValidateTx(cp); err != nil {
			return fmt.Errorf("HARNESS: pool entry %d (fat=%v, %d bytes) refused by the pool: %v", i, e.fat, cp.SerializedSize, err)
		}
		size[e.tx.ID] = cp.SerializedSize
		if c.Burn {
			// storage gas is the size; the VM part is taken from the validator's own account of this transaction
			g, err := c38MeasureGas(cp, w.Blocks[best].Block.Height+1)
			if err != nil {
				return fmt.Errorf("HARNESS: pool entry %d does not validate alone: %v", i, err)
			}
			size[e.tx.ID] = uint64(g)
		}
		pending[e.tx.ID] = true
		if e.fat {
			fatGas += size[e.tx.ID]
		}
	}
	if fatGas <= consensus.MaxBlockGas {
		return fmt.Errorf("HARNESS: the fat transactions need only %d gas", fatGas)
	}

	myKey := ck.PubHex(0)
	confirmed := map[bc.Hash]bool{}
	kidAfterExcludedParent, rounds := false, 0
	for len(pending) > 0 {
		rounds++
		if rounds > 8 {
			break
		}
		parent := w.Blocks[best]
		h := parent.Block.Height + 1
		ts := parent.Block.Timestamp + ck.IntervalMs
		pub, order := w.P.Proposer(parent.State.Last, ts)
		if pub != myKey {
			return fmt.Errorf("HARNESS: the only validator is not the proposer")
		}
		blk, err := proposal.NewBlockTemplate(n.Chain, &state.Validator{PubKey: myKey, Order: order}, nil, ts, time.Hour, 2*time.Hour)
		if err != nil {
			return fmt.Errorf("round %d: NewBlockTemplate at height %d failed: %v", rounds, h, err)
		}
		var gas uint64
		inBlock := map[bc.Hash]int{}
		var desc string
		for i, tx := range blk.Transactions[1:] {
			inBlock[tx.ID] = i
			gas += size[tx.ID]
			if _, ok := pos[tx.ID]; !ok {
				return fmt.Errorf("round %d: the proposed block holds a transaction %s that was never submitted", rounds, tx.ID.String())
			}
		}
		for _, tx := range blk.Transactions[1:] {
			if par, ok := parentOf[tx.ID]; ok && !confirmed[par] {
				if pi, in := inBlock[par]; !in || pi > inBlock[tx.ID] {
					desc = fmt.Sprintf("transaction %s (pool position %d) is in the block but the pooled transaction it spends from (%s, position %d, %d bytes) is not before it", tx.ID.String(), pos[tx.ID], par.String(), pos[par], size[par])
				}
			}
		}
		isOrphan, perr := n.Chain.ProcessBlock(ck.CloneBlock(blk))
		if perr != nil || isOrphan {
			return fmt.Errorf("round %d: the block the node proposed for height %d from a pool of %d transactions (%d fat, %d bytes of them) holds %d transactions using %d bytes of storage gas and was refused by its own chain: orphan=%v err=%v; %s", rounds, h, len(pending), len(c.Fat), fatGas, len(blk.Transactions)-1, gas, isOrphan, perr, desc)
		}
		if desc != "" {
			return fmt.Errorf("round %d: accepted, yet %s", rounds, desc)
		}
		if gas > consensus.MaxBlockGas {
			return fmt.Errorf("round %d: the proposed block for height %d was accepted with %d bytes of transactions, more storage gas than a block may use (%d)", rounds, h, gas, consensus.MaxBlockGas)
		}
		if got := n.Chain.BestBlockHeader().Hash(); got != blk.Hash() {
			return fmt.Errorf("round %d: the proposed block for height %d was accepted but is not the best block", rounds, h)
		}
		for id := range inBlock {
			confirmed[id] = true
			delete(pending, id)
		}
		for id := range pending {
			if par, ok := parentOf[id]; ok && pending[par] {
				kidAfterExcludedParent = true
			}
		}
		w.Blocks = append(w.Blocks, &ck.BlockInfo{Idx: len(w.Blocks), Parent: best, Block: blk, State: w.P.Apply(parent.State, blk)})
		w.ByHash[blk.Hash()] = len(w.Blocks) - 1
		best = len(w.Blocks) - 1
		if !w.Blocks[best].State.Valid {
			return fmt.Errorf("round %d: the accepted proposed block breaks a ledger rule per the model: %s", rounds, w.Blocks[best].State.Why)
		}
		if len(blk.Transactions) == 1 {
			// what is left was dropped from the pool by the proposer: a child whose parent found no room
			// is refused against the proposer's working view and removed (proposal.applyTransactions).
			// That is outside this property (the block built is still a valid one).
			x.Class("gas/proposer-dropped-a-waiting-child")
			break
		}
	}
	if err := checkLedgerAgainstModel(n, best, "after the pool was emptied"); err != nil {
		return err
	}
	x.Class("gas/rounds-%d", rounds)
	if kidAfterExcludedParent {
		x.Class("gas/child-waits-with-its-parent")
	}
	x.Class("gas/fat-%d+", len(c.Fat)/4*4)
	if c.Burn {
		x.Class("gas/vm-gas")
	} else {
		x.Class("gas/storage-gas")
	}
	x.NonTrivial = rounds >= 2 && len(parentOf) > 0
	x.Sample = map[string]interface{}{"fat": len(c.Fat), "pool": len(pool), "chained": len(parentOf), "rounds": rounds}
	return nil
}

func TestC38Gas(t *testing.T) {
	pbt.Run(t, "C38", "pools whose valid transactions exceed the block gas limit: 35-44 transactions using 240-297 k gas each (a 240-297 KB never-spendable output, or in 3 of 4 cases a counting loop in the spent program; together 0.3-1.5 M over consensus.MaxBlockGas), 2-14 small transactions chained on pool entries 1-40 places after their parent, 0-6 independent small ones, on chains of 1-6 blocks; the node proposes until the pool is empty: every proposed block must be accepted by its own chain and become best, hold only submitted transactions, keep to the gas limit (storage gas recomputed from transaction sizes; loop gas as the validator reports it per transaction), never hold a transaction without the pooled parent it spends before it, finally ledger = model (children the proposer drops from the pool because their parent found no room are not asserted to be proposed later); non-trivial = at least two blocks were needed and the pool held a chain; distinct = case JSON",
		pbt.Options{Sub: "gas", Checks: pbt.Per(6, 360), MinClass: map[string]int{"gas/child-waits-with-its-parent": 2}}, c38GasGen, c38GasExec)
}
