package chaincheck

import (
	"fmt"
	"time"

	"pgregory.net/rapid"

	"github.com/bytom/bytom/protocol/bc/types"
	"github.com/bytom/bytom/protocol/casper"
	"github.com/bytom/bytom/protocol/state"

	ck "verifharness/chainkit"
)

// An event history over a block tree: block deliveries, bursts of verification
// messages for known checkpoints, restarts.  Everything is data.

type ev struct {
	K string `json:"k"` // "b" deliver a block, "v" verification messages, "r" restart
	A int    `json:"a,omitempty"`
	B int    `json:"b,omitempty"`
	C int    `json:"c,omitempty"`
	D int    `json:"d,omitempty"`
}

type evCase struct {
	Tree   ck.TreeDesc `json:"tree"`
	Events []ev        `json:"events"`
}

type evGenOpt struct {
	Tree      ck.GenOpt
	Votes     bool
	Early     bool // verification messages for checkpoints the node does not know yet (cached, replayed by the node later)
	BadVotes  bool
	Restarts  bool
	Copies    bool // a stored checkpoint block is delivered again with forged signatures in its header
	MaxEvents int
}

func evGen(opt evGenOpt) func(t *rapid.T) evCase {
	return func(t *rapid.T) evCase {
		c := evCase{Tree: ck.GenTree(t, opt.Tree)}
		nb := len(c.Tree.Blocks)
		n := nb + rapid.IntRange(0, opt.MaxEvents).Draw(t, "extra")
		delivered := 0
		for i := 0; i < n; i++ {
			k := rapid.IntRange(0, 9).Draw(t, "evk")
			switch {
			case opt.Votes && k >= 6 && k <= 8 && delivered > 0:
				e := ev{K: "v", A: rapid.IntRange(0, 8).Draw(t, "tgt")}
				if rapid.IntRange(0, 3).Draw(t, "srcq") == 0 {
					e.B = rapid.IntRange(1, 2).Draw(t, "src")
				}
				// mostly a super-majority burst, sometimes single votes
				switch rapid.IntRange(0, 3).Draw(t, "mask") {
				case 0:
					e.C = 1 << uint(rapid.IntRange(0, 9).Draw(t, "slot"))
				case 1:
					e.C = rapid.IntRange(1, 1023).Draw(t, "bits")
				default:
					e.C = 1023
				}
				if opt.BadVotes && rapid.IntRange(0, 4).Draw(t, "badq") == 0 {
					e.D = rapid.IntRange(1, 4).Draw(t, "bad")
				}
				c.Events = append(c.Events, e)
			case opt.Early && k == 5 && rapid.IntRange(0, 1).Draw(t, "eq") == 0:
				e := ev{K: "e", A: rapid.IntRange(0, 8).Draw(t, "etgt")}
				if rapid.IntRange(0, 3).Draw(t, "esrcq") == 0 {
					e.B = rapid.IntRange(1, 2).Draw(t, "esrc")
				}
				switch rapid.IntRange(0, 3).Draw(t, "emask") {
				case 0:
					e.C = 1 << uint(rapid.IntRange(0, 9).Draw(t, "eslot"))
				case 1:
					e.C = rapid.IntRange(1, 1023).Draw(t, "ebits")
				default:
					e.C = 1023
				}
				if opt.BadVotes && rapid.IntRange(0, 4).Draw(t, "ebadq") == 0 {
					e.D = rapid.IntRange(1, 4).Draw(t, "ebad")
				}
				c.Events = append(c.Events, e)
			case opt.Restarts && k == 9 && rapid.IntRange(0, 2).Draw(t, "rq") == 0:
				c.Events = append(c.Events, ev{K: "r"})
			case opt.Copies && k == 4 && delivered > 0 && rapid.IntRange(0, 1).Draw(t, "cq") == 0:
				c.Events = append(c.Events, ev{K: "c", A: rapid.IntRange(0, 8).Draw(t, "ctgt"), B: rapid.IntRange(0, 1).Draw(t, "csrc"), C: rapid.IntRange(1, 1023).Draw(t, "cbits"), D: rapid.IntRange(0, 2).Draw(t, "ckind")})
			default:
				e := ev{K: "b"}
				if rapid.IntRange(0, 4).Draw(t, "oq") == 0 {
					e.A = rapid.IntRange(0, nb).Draw(t, "o")
				}
				c.Events = append(c.Events, e)
				delivered++
			}
		}
		return c
	}
}

// voteRec is one verification message the harness sent.
type voteRec struct {
	Key            int // key index of the signer
	Slot           int
	Source, Target int // world block indexes
	Flavor         int // 0 proper; else forged in some way
	Err            error
}

type hist struct {
	w         *ck.World
	n         *ck.Node
	remaining []int
	delivered map[int]bool
	votes     []voteRec
	restarts  int
	copies    int
	early     int // verification bursts sent for a target the node did not know
	desc      []string
	ffg       *ffgModel
	// trace records how each event was resolved (which block, which link); a history replayed on
	// another node of the same world (C19 re-delivery) sets script to a recorded trace so that it
	// is shown exactly the same blocks and messages whatever that node already has in its store
	trace  []resolvedEv
	script []resolvedEv
}

// resolvedEv is an event with its selectors resolved against the world.
type resolvedEv struct {
	K        string // "b", "v", "r", "noop"
	Block    int
	Src, Tgt int
}

func newHist(c evCase) (*hist, error) {
	w := ck.Build(c.Tree)
	n, err := ck.NewNode(w, ck.NewMemDB())
	if err != nil {
		return nil, fmt.Errorf("HARNESS: cannot start node: %v", err)
	}
	h := &hist{w: w, n: n, delivered: map[int]bool{0: true}, ffg: newFFG(w)}
	for i := 1; i < len(w.Blocks); i++ {
		h.remaining = append(h.remaining, i)
	}
	return h, nil
}

// knownCheckpoints lists delivered-and-stored checkpoint blocks above genesis, in index order.
func (h *hist) knownCheckpoints() []int {
	var out []int
	for i := 1; i < len(h.w.Blocks); i++ {
		if h.delivered[i] && h.w.Blocks[i].Block.Height%h.w.P.Epoch == 0 && h.n.Has(i) {
			out = append(out, i)
		}
	}
	return out
}

// unknownCheckpoints lists the checkpoint blocks of the world the node has not stored (not yet
// delivered, or waiting as orphans), in index order.
func (h *hist) unknownCheckpoints() []int {
	var out []int
	for i := 1; i < len(h.w.Blocks); i++ {
		if h.w.Blocks[i].Block.Height%h.w.P.Epoch == 0 && !h.n.Has(i) {
			out = append(out, i)
		}
	}
	return out
}

// settle waits until the node has carried out every queued replay of cached verification
// messages (they run in a goroutine of the finality engine, started by the first block of an epoch).
func (h *hist) settle(what string) error {
	if casper.VerifReplayIdle() {
		return nil
	}
	_, hung, dump := callWithWatchdog(callLimit, func() error {
		for !casper.VerifReplayIdle() {
			time.Sleep(20 * time.Microsecond)
		}
		return nil
	})
	if hung {
		return hangError("the replay of cached verification messages after "+what, dump)
	}
	return nil
}

const callLimit = 30 * time.Second

// step executes one event; it returns a description and, for a hang, the dump.
func (h *hist) step(e ev) (string, error) {
	switch e.K {
	case "b":
		if len(h.remaining) == 0 {
			h.trace = append(h.trace, resolvedEv{K: "noop"})
			return "noop", nil
		}
		s := e.A
		if s < 0 {
			s = -s
		}
		s %= len(h.remaining)
		i := h.remaining[s]
		h.remaining = append(h.remaining[:s], h.remaining[s+1:]...)
		h.trace = append(h.trace, resolvedEv{K: "b", Block: i})
		var derr error
		_, hung, dump := callWithWatchdog(callLimit, func() error { _, derr = h.n.Deliver(i); return nil })
		if hung {
			return "", hangError(fmt.Sprintf("ProcessBlock(block #%d)", i), dump)
		}
		h.delivered[i] = true
		if derr == nil {
			h.ffg.observeHeader(i, h.w.Blocks[i].Block)
		}
		if err := h.settle(fmt.Sprintf("block #%d", i)); err != nil {
			return "", err
		}
		return fmt.Sprintf("block #%d (h=%d, parent #%d) -> %v", i, h.w.Blocks[i].Block.Height, h.w.Blocks[i].Parent, derr), nil
	case "v", "e":
		var tgt, src int
		if h.script != nil {
			r := h.script[len(h.trace)]
			if r.K != e.K {
				h.trace = append(h.trace, resolvedEv{K: "noop"})
				return "noop", nil
			}
			tgt, src = r.Tgt, r.Src
		} else {
			cps := h.knownCheckpoints()
			if e.K == "e" {
				cps = h.unknownCheckpoints()
			}
			if len(cps) == 0 {
				h.trace = append(h.trace, resolvedEv{K: "noop"})
				return "noop", nil
			}
			tgt = cps[abs(e.A)%len(cps)]
			src = h.w.CheckpointBack(tgt, 1+abs(e.B)%3)
		}
		h.trace = append(h.trace, resolvedEv{K: e.K, Src: src, Tgt: tgt})
		early := !h.n.Has(tgt)
		vals := h.w.ValidatorsFor(tgt)
		d := fmt.Sprintf("votes #%d->#%d (h %d->%d) slots", src, tgt, h.w.Blocks[src].Block.Height, h.w.Blocks[tgt].Block.Height)
		if early {
			d = "early " + d
			h.early++
		}
		for slot := 0; slot < len(vals); slot++ {
			if e.C&(1<<uint(slot)) == 0 {
				continue
			}
			key := ck.KeyIndex(vals[slot])
			msg := h.w.Vote(key, src, tgt)
			switch e.D {
			case 1: // garbage signature
				for i := range msg.Signature {
					msg.Signature[i] = byte(i * 3)
				}
			case 2: // signed by a key that is not a validator, claiming to be itself
				o := ck.OutsiderKey()
				msg.Signature = o.Sign(ck.VoteMessage(msg.SourceHash, msg.TargetHash))
				msg.PubKey = o.XPub().String()
			case 3: // validator's signature over another link (reversed)
				msg.Signature = ck.Key(key).Sign(ck.VoteMessage(msg.TargetHash, msg.SourceHash))
			case 4: // outsider's signature under a validator's name
				o := ck.OutsiderKey()
				msg.Signature = o.Sign(ck.VoteMessage(msg.SourceHash, msg.TargetHash))
			}
			var verr error
			_, hung, dump := callWithWatchdog(callLimit, func() error { verr = h.n.Chain.ProcessBlockVerification(msg); return nil })
			if hung {
				return "", hangError(fmt.Sprintf("ProcessBlockVerification(validator slot %d, link #%d->#%d)", slot, src, tgt), dump)
			}
			h.votes = append(h.votes, voteRec{Key: key, Slot: slot, Source: src, Target: tgt, Flavor: e.D, Err: verr})
			h.ffg.observe(msg.PubKey, src, tgt, msg.Signature)
			d += fmt.Sprintf(" %d:%v", slot, verr)
		}
		if e.D != 0 {
			d += fmt.Sprintf(" (forged kind %d)", e.D)
		}
		if err := h.settle("a verification burst"); err != nil {
			return "", err
		}
		return d, nil
	case "r":
		if err := h.n.Restart(); err != nil {
			return "", fmt.Errorf("restart %d failed: %v", h.restarts+1, err)
		}
		h.restarts++
		h.trace = append(h.trace, resolvedEv{K: "r"})
		if err := h.settle("the restart"); err != nil {
			return "", err
		}
		return "restart", nil
	case "c":
		// a copy of a stored checkpoint block whose header carries forged signatures (the block hash does not cover them)
		cps := h.knownCheckpoints()
		if len(cps) == 0 {
			h.trace = append(h.trace, resolvedEv{K: "noop"})
			return "noop", nil
		}
		tgt := cps[abs(e.A)%len(cps)]
		src := h.w.CheckpointBack(tgt, 1+abs(e.B)%2)
		vals := h.w.ValidatorsFor(tgt)
		sh, th := h.w.Hash(src), h.w.Hash(tgt)
		cp := ck.CloneBlock(h.w.Blocks[tgt].Block)
		cp.SupLinks = types.SupLinks{}
		forged := 0
		for slot := 0; slot < len(vals); slot++ {
			if e.C&(1<<uint(slot)) == 0 {
				continue
			}
			var sig []byte
			switch abs(e.D) % 3 {
			case 0:
				sig = make([]byte, 64)
				for i := range sig {
					sig[i] = byte(i*11 + slot + 1)
				}
			case 1:
				sig = ck.Key(ck.KeyIndex(vals[slot])).Sign(ck.VoteMessage(th, sh))
			default:
				sig = ck.OutsiderKey().Sign(ck.VoteMessage(sh, th))
			}
			cp.SupLinks.AddSupLink(h.w.Blocks[src].Block.Height, sh, sig, slot)
			forged++
		}
		h.trace = append(h.trace, resolvedEv{K: "noop"})
		var perr error
		_, hung, dump := callWithWatchdog(callLimit, func() error { _, perr = h.n.Chain.ProcessBlock(cp); return nil })
		if hung {
			return "", hangError(fmt.Sprintf("ProcessBlock(copy of block #%d)", tgt), dump)
		}
		h.copies++
		if err := h.settle("the copy of a stored block"); err != nil {
			return "", err
		}
		return fmt.Sprintf("copy of block #%d with %d forged signatures (kind %d) on #%d->#%d -> %v", tgt, forged, abs(e.D)%3, src, tgt, perr), nil
	}
	h.trace = append(h.trace, resolvedEv{K: "noop"})
	return "noop", nil
}

type hangErr struct {
	what, sig, dump string
}

func (e *hangErr) Error() string {
	if e.sig != "" {
		return fmt.Sprintf("%s did not return within %v: %s", e.what, callLimit, e.sig)
	}
	return fmt.Sprintf("%s did not return within %v (no known lock-cycle signature in the goroutine dump)", e.what, callLimit)
}

func hangError(what, dump string) error {
	return &hangErr{what: what, sig: deadlockSignature(dump), dump: dump}
}

// run executes all events, calling after() following each one.
func (h *hist) run(c evCase, after func(k int, desc string) error) error {
	for k, e := range c.Events {
		d, err := h.step(e)
		if err != nil {
			return fmt.Errorf("event %d %+v: %w\nhistory so far:\n  %s", k, e, err, joinLines(h.desc))
		}
		h.desc = append(h.desc, fmt.Sprintf("%d: %s", k, d))
		if after != nil {
			if err := after(k, d); err != nil {
				return fmt.Errorf("%v\nhistory:\n  %s", err, joinLines(h.desc))
			}
		}
	}
	return nil
}

func (h *hist) knownSet() map[int]bool {
	known := map[int]bool{0: true}
	for i := 1; i < len(h.w.Blocks); i++ {
		if h.delivered[i] && h.n.Has(i) {
			known[i] = true
		}
	}
	return known
}

// nodeJustified reads the node's own persisted status of a checkpoint block.
func (h *hist) nodeJustified(i int) bool {
	st, ok := checkpointStatus(h.n, i)
	return ok && st == state.Justified
}

func (h *hist) finalizedIdx() (int, error) {
	hdr, err := h.n.Chain.LastFinalizedHeader()
	if err != nil {
		return -1, fmt.Errorf("LastFinalizedHeader: %v", err)
	}
	i, ok := h.w.ByHash[hdr.Hash()]
	if !ok {
		return -1, fmt.Errorf("last finalized block %s is not a block of the world", hx(hdr.Hash()))
	}
	return i, nil
}

func (h *hist) justifiedIdx() (int, error) {
	hdr, err := h.n.Chain.LastJustifiedHeader()
	if err != nil {
		return -1, fmt.Errorf("LastJustifiedHeader: %v", err)
	}
	i, ok := h.w.ByHash[hdr.Hash()]
	if !ok {
		return -1, fmt.Errorf("last justified block %s is not a block of the world", hx(hdr.Hash()))
	}
	return i, nil
}

var _ = casper.ValidCasperSignMsg{}
