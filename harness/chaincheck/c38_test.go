package chaincheck

import (
	"fmt"
	"testing"
	"time"

	"pgregory.net/rapid"

	"github.com/bytom/bytom/proposal"
	"github.com/bytom/bytom/protocol/bc"
	"github.com/bytom/bytom/protocol/bc/types"
	"github.com/bytom/bytom/protocol/state"

	ck "verifharness/chainkit"
	"verifharness/pbt"
)

// C38: a block the node's proposer builds and signs for its slot is accepted when fed
// back to the chain, including reward-paying blocks and pools with conflicting or
// chained transactions.

type c38Case struct {
	Tree      ck.TreeDesc `json:"tree"`
	Pool      []ck.TxDesc `json:"pool"`      // transactions for the mempool, resolved one after another on the best state (so later ones may chain on earlier ones)
	Conflicts []int       `json:"conflicts"` // indexes into Pool of which a second, conflicting version is submitted too
	Rounds    int         `json:"rounds"`    // how many blocks the node proposes in a row
	Multi     int         `json:"multi"`     // how many further versions of each conflicting transaction are submitted (1..3)
	// Odd: forms of the pool transactions that consensus refuses in the next block are submitted as
	// well (a peer may send anything): bit 0 a copy with transaction version 2, bit 1 a copy whose
	// time range ends at the current height, bit 2 a copy with version 0
	Odd int `json:"odd,omitempty"`
}

var c38Kinds = []string{"spend", "spend", "spend", "vote", "veto", "issue", "xfer", "retire"}

func c38Gen(t *rapid.T) c38Case {
	p := ck.Params{Epoch: uint64(rapid.IntRange(2, 4).Draw(t, "epoch")), Validators: rapid.SampledFrom([]int{1, 1, 3}).Draw(t, "validators"), NodeKey: 0, VoteLock: 2}
	c := c38Case{Tree: ck.TreeDesc{Params: p}}
	// chain length aimed at (but not only at) "next block is the first of an epoch"
	n := rapid.IntRange(1, 4*int(p.Epoch)+1).Draw(t, "len")
	if rapid.Bool().Draw(t, "atReward") {
		n = int(p.Epoch) * rapid.IntRange(1, 3).Draw(t, "k")
	}
	for i := 0; i < n; i++ {
		bd := ck.BlockDesc{Parent: i, Skip: rapid.IntRange(0, 2).Draw(t, "skip"), Jitter: rapid.SampledFrom([]int{0, 0, 0, 1, 500, 999}).Draw(t, "jitter")}
		for k := rapid.IntRange(0, 2).Draw(t, "ntx"); k > 0; k-- {
			bd.Txs = append(bd.Txs, ck.TxDesc{Kind: rapid.SampledFrom(c38Kinds).Draw(t, "kind"), Pick: []int{rapid.IntRange(0, 30).Draw(t, "p0"), rapid.IntRange(0, 30).Draw(t, "p1")}, N: rapid.IntRange(0, 5).Draw(t, "n"), Amt: rapid.IntRange(0, 4).Draw(t, "amt")})
		}
		for k := range bd.Txs {
			if bd.Txs[k].Kind == "vote" {
				bd.Txs[k].N = 16 * rapid.IntRange(0, 1).Draw(t, "votekey") // votes go to the node's own key: it stays a validator
			}
		}
		c.Tree.Blocks = append(c.Tree.Blocks, bd)
	}
	np := rapid.IntRange(0, 8).Draw(t, "npool")
	for i := 0; i < np; i++ {
		c.Pool = append(c.Pool, ck.TxDesc{Kind: rapid.SampledFrom(c38Kinds).Draw(t, "pkind"), Pick: []int{rapid.IntRange(0, 30).Draw(t, "pp0"), rapid.IntRange(0, 30).Draw(t, "pp1")}, N: rapid.IntRange(0, 5).Draw(t, "pn"), Amt: rapid.IntRange(0, 4).Draw(t, "pamt")})
	}
	for i := range c.Pool {
		if c.Pool[i].Kind == "vote" {
			c.Pool[i].N = 0
		}
	}
	for i := 0; i < np; i++ {
		if rapid.IntRange(0, 3).Draw(t, "conf") == 0 {
			c.Conflicts = append(c.Conflicts, i)
		}
	}
	c.Rounds = rapid.IntRange(1, 3).Draw(t, "rounds")
	c.Multi = rapid.IntRange(1, 3).Draw(t, "multi")
	if rapid.IntRange(0, 2).Draw(t, "oddq") == 0 {
		c.Odd = rapid.IntRange(1, 7).Draw(t, "odd")
	}
	return c
}

func c38Exec(c c38Case, x *pbt.Ctx) error {
	c.Tree.Params.NodeKey = 0
	w := ck.Build(c.Tree)
	n, err := ck.NewNode(w, ck.NewMemDB())
	if err != nil {
		return fmt.Errorf("HARNESS: cannot start node: %v", err)
	}
	defer n.Close()
	for i := 1; i < len(w.Blocks); i++ {
		if _, err := n.Deliver(i); err != nil {
			return fmt.Errorf("HARNESS: valid chain block #%d refused: %v", i, err)
		}
	}
	best := n.BestIdx()
	if best != len(w.Blocks)-1 {
		return fmt.Errorf("HARNESS: best is #%d, expected the chain tip", best)
	}
	myKey := ck.PubHex(0)
	reward, conflict, chained, manyWay := false, false, false, false

	for round := 0; round < c.Rounds; round++ {
		parent := w.Blocks[best]
		h := parent.Block.Height + 1
		// the mempool: candidate transactions resolved on the best state (a scratch block that is never delivered)
		var submitted []*types.Tx
		group := map[bc.Hash]bc.Hash{} // transaction -> the contested output it competes for
		groupSize := map[bc.Hash]int{} // contested output -> number of further versions submitted
		if round == 0 && len(c.Pool) > 0 {
			cand := w.Add(ck.BlockDesc{Parent: best, Txs: c.Pool})
			txs := w.Blocks[cand].Block.Transactions[1:]
			submitted = append(submitted, txs...)
			// further versions of some of them: same inputs, other outputs (two, three or four
			// transactions then compete for one output)
			multi := c.Multi
			if multi < 1 {
				multi = 1
			}
			if multi > 3 {
				multi = 3
			}
			for v := 1; v <= multi; v++ {
				alt := make([]ck.TxDesc, len(c.Pool))
				copy(alt, c.Pool)
				for i := range alt {
					alt[i].N += v
					alt[i].Amt += v
				}
				candV := w.Add(ck.BlockDesc{Parent: best, Txs: alt})
				txsV := w.Blocks[candV].Block.Transactions[1:]
				for _, ci := range c.Conflicts {
					if ci < len(txs) && ci < len(txsV) && len(txs[ci].SpentOutputIDs) > 0 && len(txsV[ci].SpentOutputIDs) > 0 && txs[ci].SpentOutputIDs[0] == txsV[ci].SpentOutputIDs[0] {
						if _, dup := group[txsV[ci].ID]; dup || txsV[ci].ID == txs[ci].ID {
							continue
						}
						submitted = append(submitted, txsV[ci])
						group[txsV[ci].ID] = txs[ci].SpentOutputIDs[0]
						group[txs[ci].ID] = txs[ci].SpentOutputIDs[0]
						groupSize[txs[ci].SpentOutputIDs[0]]++
						conflict = true
					}
				}
			}
			for _, k := range groupSize {
				if k >= 2 {
					manyWay = true
				}
			}
			for i, tx := range txs {
				for _, id := range tx.SpentOutputIDs {
					for _, prev := range txs[:i] {
						for _, rid := range prev.ResultIds {
							if *rid == id {
								chained = true
							}
						}
					}
				}
			}
		}
		oddIDs := map[bc.Hash]bool{}
		if c.Odd > 0 && c.Odd <= 7 {
			var odd []*types.Tx
			for i, tx := range submitted {
				if i >= 4 {
					break
				}
				if c.Odd&1 != 0 {
					d := tx.TxData
					d.Version = 2
					odd = append(odd, types.NewTx(d))
				}
				if c.Odd&2 != 0 {
					d := tx.TxData
					d.TimeRange = n.Chain.BestBlockHeight()
					odd = append(odd, types.NewTx(d))
				}
				if c.Odd&4 != 0 {
					d := tx.TxData
					d.Version = 0
					odd = append(odd, types.NewTx(d))
				}
			}
			// the odd forms first: whatever the pool makes of them, the proper forms follow
			for _, o := range odd {
				oddIDs[o.ID] = true
			}
			submitted = append(odd, submitted...)
			if len(odd) > 0 {
				x.Class("odd-forms-submitted")
			}
		}
		pooled := map[bc.Hash]*types.Tx{}
		for _, tx := range submitted {
			raw, _ := tx.MarshalText()
			cp := &types.Tx{}
			if err := cp.UnmarshalText(raw); err != nil {
				return fmt.Errorf("HARNESS: %v", err)
			}
			if _, err := n.Chain.ValidateTx(cp); err == nil && !oddIDs[tx.ID] {
				pooled[tx.ID] = tx // (an odd form the pool takes is not expected in the block: the block is judged by the chain)
			}
		}
		// the node's slot: first slot at or after parent+interval that the schedule gives to the node's key
		ts := parent.Block.Timestamp + ck.IntervalMs
		for k := 0; k < 12; k++ {
			if pub, _ := w.P.Proposer(parent.State.Last, ts); pub == myKey {
				break
			}
			ts += ck.IntervalMs
		}
		pub, order := w.P.Proposer(parent.State.Last, ts)
		if pub != myKey {
			x.Class("node-key-not-a-validator-in-this-epoch")
			return nil // votes made other keys validators; the node has no slot
		}
		blk, err := proposal.NewBlockTemplate(n.Chain, &state.Validator{PubKey: myKey, Order: order}, nil, ts, time.Hour, 2*time.Hour)
		if err != nil {
			return fmt.Errorf("round %d: NewBlockTemplate at height %d failed: %v", round, h, err)
		}
		if h%w.P.Epoch == 1 && h != 1 {
			reward = true
		}
		included := map[bc.Hash]bool{}
		for _, tx := range blk.Transactions[1:] {
			included[tx.ID] = true
		}
		isOrphan, perr := n.Chain.ProcessBlock(ck.CloneBlock(blk))
		if perr != nil || isOrphan {
			return fmt.Errorf("round %d: the block the node proposed for height %d (time slot of validator order %d, %d transactions, coinbase %s, expected rewards %v) was refused by its own chain: orphan=%v err=%v", round, h, order, len(blk.Transactions), coinbaseOuts(blk), parent.State.Last.Rewards, isOrphan, perr)
		}
		if got := n.Chain.BestBlockHeader().Hash(); got != blk.Hash() {
			return fmt.Errorf("round %d: the proposed block for height %d was accepted but is not the best block", round, h)
		}
		// every pooled transaction is included unless it conflicts with an included one (or, being a
		// descendant of an excluded one, cannot be included)
		for id, tx := range pooled {
			if included[id] {
				continue
			}
			if out, hasConflict := group[id]; hasConflict {
				rivalIncluded := false
				for other, o := range group {
					if o == out && other != id && included[other] {
						rivalIncluded = true
					}
				}
				if rivalIncluded {
					continue
				}
			}
			parentExcluded := false
			for _, spent := range tx.SpentOutputIDs {
				for pid, ptx := range pooled {
					if included[pid] {
						continue
					}
					for _, rid := range ptx.ResultIds {
						if *rid == spent {
							parentExcluded = true
						}
					}
				}
			}
			// a child whose parent sits later in the time order cannot be applied in this block either
			if parentExcluded || chainedOn(tx, pooled) {
				x.Class("child-left-for-the-next-block")
				continue
			}
			return fmt.Errorf("round %d: pooled transaction %s (valid on the best state, no conflict) was left out of the proposed block for height %d", round, id.String(), h)
		}
		// adopt the proposed block into the world so that the next round builds on it
		w.Blocks = append(w.Blocks, &ck.BlockInfo{Idx: len(w.Blocks), Parent: best, Block: blk, State: w.P.Apply(parent.State, blk)})
		w.ByHash[blk.Hash()] = len(w.Blocks) - 1
		best = len(w.Blocks) - 1
		if !w.Blocks[best].State.Valid {
			return fmt.Errorf("round %d: the accepted proposed block breaks a ledger rule per the model: %s", round, w.Blocks[best].State.Why)
		}
		if err := checkLedgerAgainstModel(n, best, fmt.Sprintf("after the proposed block of round %d", round)); err != nil {
			return err
		}
	}
	if reward {
		x.Class("reward-height")
	}
	if conflict {
		x.Class("pool-with-conflict")
	}
	if manyWay {
		x.Class("pool-with-three-or-more-spends-of-one-output")
	}
	if chained {
		x.Class("pool-with-chain")
	}
	x.NonTrivial = reward || conflict || chained
	return nil
}

func chainedOn(tx *types.Tx, pooled map[bc.Hash]*types.Tx) bool {
	for _, spent := range tx.SpentOutputIDs {
		for _, ptx := range pooled {
			for _, rid := range ptx.ResultIds {
				if *rid == spent {
					return true
				}
			}
		}
	}
	return false
}

func coinbaseOuts(b *types.Block) string {
	s := ""
	for _, o := range b.Transactions[0].Outputs {
		s += fmt.Sprintf("[%x:%d]", o.ControlProgram, o.Amount)
	}
	return s
}

func TestC38(t *testing.T) {
	pbt.Run(t, "C38", "chains of 1-17 blocks (aimed at epoch boundaries so that the proposed block pays rewards) with the node's key as a scheduled validator; mempools of 0-8 valid transactions resolved on the best state (chained parent/child, votes, vetoes, issuances) plus conflicting second versions; 1-3 rounds of NewBlockTemplate -> ProcessBlock: every proposed block must be accepted and become best, the ledger equals the model, and every pooled transaction is included unless it conflicts with an included one or chains on a pooled one; non-trivial = a reward height, a conflict or a chain in the pool",
		pbt.Options{Checks: pbt.Per(300, 30000), MinClass: map[string]int{"reward-height": 10, "pool-with-conflict": 10}}, c38Gen, c38Exec)
}
