package chaincheck

import (
	"fmt"
	"github.com/bytom/bytom/consensus"
	"runtime"
	"runtime/debug"
	"sync"
	"testing"
	"time"

	"pgregory.net/rapid"

	"github.com/bytom/bytom/protocol/bc/types"

	ck "verifharness/chainkit"
	"verifharness/pbt"
)

// C37: under any interleaving of block processing, verification messages (including
// ones that change the best chain and early ones that are replayed later), transaction
// submissions and read queries, every call returns and shared state is never accessed
// unsynchronised.  Built with the race detector; a watchdog turns a hang into a failure
// and the goroutine dump must show a lock cycle for it to be reported as a deadlock.

type c37Case struct {
	Tree    ck.TreeDesc `json:"tree"`
	Votes   []ev        `json:"votes"`  // vote bursts: A target selector among ALL checkpoint blocks (known or not), B source back, C slot mask
	Yields  []int       `json:"yields"` // per worker: Gosched calls before starting and between operations
	TxEvery int         `json:"tx_every"`
	// Waiters: heights (1..3) for which a caller takes Chain.BlockWaiter before the blocks arrive and
	// then stops listening, as the wallet does when a rescan is requested and the websocket layer
	// when its client goes away
	Waiters []int `json:"waiters,omitempty"`
	// Relays: 1-2 further peers relay transactions the node has refused before (a copy of a block's
	// transaction with one more output than its inputs can pay), each several times
	Relays int `json:"relays,omitempty"`
}

var c37Tree = ck.GenOpt{MinBlocks: 8, MaxBlocks: 26, Epochs: []uint64{2, 3}, Validators: []int{3, 4}, Txs: true, Sup: true, NodeKeyChoices: []int{-1, 0}}

func c37Gen(t *rapid.T) c37Case {
	c := c37Case{Tree: ck.GenTree(t, c37Tree)}
	// one parameter set per process: the consensus parameters are process-wide globals and idle
	// goroutines of earlier nodes may still read them (the race detector would, rightly, object
	// to the harness rewriting them)
	c.Tree.Params = ck.Params{Epoch: 2, Validators: 4, VoteLock: 2, NodeKey: 0}
	nv := rapid.IntRange(3, 14).Draw(t, "nvotes")
	for i := 0; i < nv; i++ {
		e := ev{K: "v", A: rapid.IntRange(0, 12).Draw(t, "tgt"), B: rapid.IntRange(0, 1).Draw(t, "src")}
		if rapid.IntRange(0, 2).Draw(t, "mask") == 0 {
			e.C = rapid.IntRange(1, 15).Draw(t, "bits")
		} else {
			e.C = 15
		}
		c.Votes = append(c.Votes, e)
	}
	for i := 0; i < 5; i++ {
		c.Yields = append(c.Yields, rapid.IntRange(0, 30).Draw(t, "yield"))
	}
	c.TxEvery = rapid.IntRange(1, 3).Draw(t, "txevery")
	c.Relays = rapid.IntRange(0, 2).Draw(t, "relays")
	if rapid.Bool().Draw(t, "waitersq") {
		c.Waiters = rapid.SliceOfN(rapid.IntRange(1, 3), 1, 3).Draw(t, "waiters")
	}
	return c
}

func yield(n int) {
	for i := 0; i < n; i++ {
		runtime.Gosched()
	}
}

func c37Exec(c c37Case, x *pbt.Ctx) error {
	if len(c.Yields) < 5 {
		return nil
	}
	w := ck.Build(c.Tree)
	n, err := ck.NewNode(w, ck.NewMemDB())
	if err != nil {
		return fmt.Errorf("HARNESS: cannot start node: %v", err)
	}
	defer n.Stop()
	e := w.P.Epoch
	var cps []int
	for i := 1; i < len(w.Blocks); i++ {
		if w.Blocks[i].Block.Height%e == 0 {
			cps = append(cps, i)
		}
	}
	var txs []*types.Tx
	for i := 1; i < len(w.Blocks); i++ {
		txs = append(txs, w.Blocks[i].Block.Transactions[1:]...)
	}

	for _, wh := range c.Waiters {
		if wh < 1 || wh > 3 || len(c.Waiters) > 4 {
			return nil
		}
	}
	for _, wh := range c.Waiters {
		_ = n.Chain.BlockWaiter(uint64(wh)) // nobody will read from it
	}
	if len(c.Waiters) > 0 {
		x.Class("abandoned-block-waiter")
	}

	var wg sync.WaitGroup
	var logMu sync.Mutex
	var calls []string
	note := func(format string, a ...interface{}) {
		logMu.Lock()
		calls = append(calls, fmt.Sprintf(format, a...))
		logMu.Unlock()
	}
	errs := make(chan error, 16)
	stopReaders := make(chan struct{})
	worker := func(f func() error) {
		wg.Add(1)
		go func() {
			defer wg.Done()
			defer func() {
				if p := recover(); p != nil {
					errs <- fmt.Errorf("panic in worker: %v\n%s", p, debug.Stack())
				}
			}()
			if err := f(); err != nil {
				errs <- err
			}
		}()
	}
	// blocks, in index order (parents first)
	worker(func() error {
		yield(c.Yields[0])
		for i := 1; i < len(w.Blocks); i++ {
			_, derr := n.Deliver(i)
			note("block #%d %s (h=%d parent #%d) -> %v ; best now #%d", i, hx(w.Hash(i))[:8], w.Blocks[i].Block.Height, w.Blocks[i].Parent, derr, n.BestIdx())
			yield(c.Yields[1] % 4)
		}
		return nil
	})
	// verification messages, also for targets that have not arrived yet
	if len(cps) > 0 {
		worker(func() error {
			yield(c.Yields[1])
			for _, v := range c.Votes {
				tgt := cps[abs(v.A)%len(cps)]
				src := w.CheckpointBack(tgt, 1+abs(v.B)%2)
				vals := w.ValidatorsFor(tgt)
				for slot := 0; slot < len(vals); slot++ {
					if v.C&(1<<uint(slot)) == 0 {
						continue
					}
					verr := n.Chain.ProcessBlockVerification(w.Vote(ck.KeyIndex(vals[slot]), src, tgt))
					note("vote slot %d #%d->#%d -> %v ; best now #%d", slot, src, tgt, verr, n.BestIdx())
				}
				yield(c.Yields[2] % 6)
			}
			return nil
		})
	}
	// transactions
	worker(func() error {
		yield(c.Yields[2])
		for i, tx := range txs {
			if i%c.TxEvery != 0 {
				continue
			}
			raw, _ := tx.MarshalText()
			cp := &types.Tx{}
			if err := cp.UnmarshalText(raw); err != nil {
				return fmt.Errorf("HARNESS: %v", err)
			}
			n.Chain.ValidateTx(cp)
			yield(c.Yields[3] % 4)
		}
		return nil
	})
	// peers relaying transactions the node refuses (and has refused before)
	if c.Relays > 0 && c.Relays <= 3 && len(txs) > 0 {
		var stale []*types.Tx
		for i, tx := range txs {
			if i >= 6 {
				break
			}
			d := tx.TxData
			// one more output of far more BTM than the inputs hold: refused at any height
			d.Outputs = append(append([]*types.TxOutput{}, d.Outputs...), types.NewOriginalTxOutput(*consensus.BTMAssetID, 1<<60, []byte{0x51}, nil))
			stale = append(stale, types.NewTx(d))
		}
		for r := 0; r < c.Relays; r++ {
			r := r
			worker(func() error {
				yield(c.Yields[(2+r)%5])
				for round := 0; round < 6; round++ {
					for k := range stale {
						tx := stale[(k+r)%len(stale)]
						raw, _ := tx.MarshalText()
						cp := &types.Tx{}
						if err := cp.UnmarshalText(raw); err != nil {
							return fmt.Errorf("HARNESS: %v", err)
						}
						n.Chain.ValidateTx(cp)
					}
					yield(c.Yields[(3+r)%5] % 4)
				}
				return nil
			})
		}
		x.Class("relays-of-refused-transactions-%d", c.Relays)
	}
	// readers
	readers := func() error {
		rix := 0
		yield(c.Yields[3])
		for {
			select {
			case <-stopReaders:
				return nil
			default:
			}
			best := n.Chain.BestBlockHeader()
			n.Chain.GetHeaderByHeight(best.Height)
			n.Chain.InMainChain(best.Hash())
			n.Chain.LastFinalizedHeader()
			n.Chain.LastJustifiedHeader()
			n.Chain.BestBlockHeight()
			n.Pool.GetTransactions()
			h := best.Hash()
			n.Chain.GetBlockByHash(&h)
			// what a peer asking for headers or blocks gets: the stored header of a checkpoint block,
			// verification signatures included, serialised (every byte of it is read)
			if len(cps) > 0 {
				ch := w.Hash(cps[rix%len(cps)])
				rix++
				if hdr, err := n.Chain.GetHeaderByHash(&ch); err == nil {
					hdr.MarshalText()
				}
				if blk, err := n.Chain.GetBlockByHash(&ch); err == nil {
					blk.MarshalText()
				}
			}
			if hdr, err := n.Chain.LastJustifiedHeader(); err == nil {
				hdr.MarshalText()
			}
			yield(1 + c.Yields[4]%5)
		}
	}
	var rwg sync.WaitGroup
	rwg.Add(1)
	go func() { defer rwg.Done(); readers() }()

	done := make(chan struct{})
	go func() { wg.Wait(); close(done) }()
	select {
	case <-done:
	case <-time.After(90 * time.Second):
		buf := make([]byte, 8<<20)
		m := runtime.Stack(buf, true)
		dump := string(buf[:m])
		close(stopReaders)
		if sig := deadlockSignature(dump); sig != "" {
			return fmt.Errorf("workload did not finish within 90 s: %s", sig)
		}
		return fmt.Errorf("HARNESS: workload did not finish within 90 s and the goroutine dump shows no known lock cycle (inconclusive)\n%s", firstLines(dump, 60))
	}
	close(stopReaders)
	rwg.Wait()
	select {
	case err := <-errs:
		return err
	default:
	}

	// the replay of early verification messages is asynchronous: poll (bounded, generous) until the
	// node is quiescent and consistent; only a state that stays inconsistent is a failure
	var lastErr error
	for attempt := 0; attempt < 400; attempt++ {
		lastErr = func() error {
			best := n.BestIdx()
			if best < 0 {
				return fmt.Errorf("best block is not a block of the world")
			}
			if err := checkIndex(n, "after the concurrent workload"); err != nil {
				return err
			}
			if err := checkLedgerAgainstModel(n, best, "after the concurrent workload"); err != nil {
				return err
			}
			h := &hist{w: w, n: n}
			fin, err := h.finalizedIdx()
			if err != nil {
				return err
			}
			if !w.IsAncestor(fin, best) {
				lj, _ := h.justifiedIdx()
				return fmt.Errorf("after the concurrent workload the best block #%d (height %d, path %v) does not descend from the last finalized checkpoint #%d (height %d, path %v); last justified #%d", best, w.Blocks[best].Block.Height, w.Path(best), fin, w.Blocks[fin].Block.Height, w.Path(fin), lj)
			}
			if fin != 0 {
				x.Class("something-finalized")
			}
			return nil
		}()
		if lastErr == nil {
			break
		}
		time.Sleep(50 * time.Millisecond)
	}
	if lastErr != nil {
		logMu.Lock()
		defer logMu.Unlock()
		return fmt.Errorf("still after 20 s: %v\ncalls in completion order:\n  %s", lastErr, joinLines(calls))
	}
	full := 0
	for _, v := range c.Votes {
		if v.C == 15 {
			full++
		}
	}
	x.NonTrivial = full > 0 && len(cps) > 1
	x.Class("vote-bursts-%d+", (len(c.Votes)/5)*5)
	return nil
}

func firstLines(s string, n int) string {
	out := ""
	for i, c := 0, 0; i < len(s) && c < n; i++ {
		out += string(s[i])
		if s[i] == '\n' {
			c++
		}
	}
	return out
}

func TestC37(t *testing.T) {
	pbt.Run(t, "C37", "block trees of 8-26 blocks with transactions and block-carried links; four concurrent workers with generated start offsets and yields: block delivery, verification-message bursts for checkpoints that are known or not yet known (early messages, best-chain-changing messages), transaction submissions, 0-2 peers relaying refused transactions again and again, read queries; in half of the cases 1-3 block waiters for heights 1-3 are taken beforehand and never listened to; built with -race; every worker must finish (90 s watchdog, goroutine dump must show the lock cycle), afterwards index, ledger and finality invariants hold; non-trivial = a full-majority burst and at least two checkpoints",
		pbt.Options{Journal: true, Checks: pbt.Per(60, 3000)}, c37Gen, c37Exec)
}
