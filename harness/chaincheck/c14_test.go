package chaincheck

import (
	"fmt"
	"testing"

	"pgregory.net/rapid"

	"github.com/bytom/bytom/consensus"
	"github.com/bytom/bytom/protocol/bc"

	ck "verifharness/chainkit"
	"verifharness/pbt"
)

// C14: the first block of each epoch pays exactly the reward table accumulated in the
// previous epoch (per block: fees + pledge-rate dependent subsidy, to that block's
// proposer); every other coinbase pays nothing; BTM in unspent outputs never exceeds
// genesis supply plus rewards paid.

type c14Case struct {
	Tree    ck.TreeDesc `json:"tree"`
	Mutants []c14Mut    `json:"mutants"`
}

type c14Mut struct {
	At  int    `json:"at"`  // main-chain position the mutant competes with (its parent is block At-1)
	Mut string `json:"mut"` // cb-* mutation
	Arg int    `json:"arg"`
}

var c14Muts = []string{"cb-amount-plus1", "cb-proposer-plus", "cb-proposer-plus", "cb-amount-minus1", "cb-extra-recipient", "cb-missing-recipient", "cb-zero-standin", "cb-zero-standin", "cb-vote-output"}

func c14Gen(t *rapid.T) c14Case {
	p := ck.Params{Epoch: uint64(rapid.IntRange(3, 5).Draw(t, "epoch")), Validators: rapid.IntRange(1, 4).Draw(t, "validators"), NodeKey: -1,
		VoteLock: uint64(rapid.IntRange(2, 3).Draw(t, "lock"))}
	epochs := rapid.IntRange(3, 5).Draw(t, "epochs")
	n := int(p.Epoch)*epochs + rapid.IntRange(1, 2).Draw(t, "tail")
	c := c14Case{Tree: ck.TreeDesc{Params: p}}
	for i := 0; i < n; i++ {
		bd := ck.BlockDesc{Parent: i, Skip: rapid.IntRange(0, 3).Draw(t, "skip"), Jitter: rapid.SampledFrom([]int{0, 0, 0, 1, 500, 999}).Draw(t, "jitter")}
		ntx := rapid.IntRange(0, 3).Draw(t, "ntx")
		for k := 0; k < ntx; k++ {
			switch rapid.IntRange(0, 9).Draw(t, "txk") {
			case 0, 1: // a very large vote: moves the pledge rate across the 0.5 threshold
				bd.Txs = append(bd.Txs, ck.TxDesc{Kind: "vote", Pick: []int{rapid.IntRange(8, 14).Draw(t, "bigpick")}, N: rapid.IntRange(0, 5).Draw(t, "key"), Amt: 3})
			case 2, 3:
				bd.Txs = append(bd.Txs, ck.TxDesc{Kind: "vote", Pick: []int{rapid.IntRange(0, 20).Draw(t, "pick")}, N: rapid.IntRange(0, 5).Draw(t, "key"), Amt: rapid.IntRange(0, 3).Draw(t, "amt")})
			case 4, 5:
				bd.Txs = append(bd.Txs, ck.TxDesc{Kind: "veto", Pick: []int{rapid.IntRange(0, 20).Draw(t, "pick")}, Amt: rapid.IntRange(0, 4).Draw(t, "amt")})
			default:
				bd.Txs = append(bd.Txs, ck.TxDesc{Kind: "spend", Pick: []int{rapid.IntRange(0, 20).Draw(t, "pick"), rapid.IntRange(0, 20).Draw(t, "pick2")}, N: rapid.IntRange(0, 2).Draw(t, "n"), Amt: rapid.IntRange(0, 4).Draw(t, "amt")})
			}
		}
		c.Tree.Blocks = append(c.Tree.Blocks, bd)
	}
	nm := rapid.IntRange(1, 3).Draw(t, "nmut")
	for i := 0; i < nm; i++ {
		at := rapid.IntRange(1, n).Draw(t, "mutat")
		if rapid.Bool().Draw(t, "onreward") {
			// aim at a reward block: height = k*E+1
			k := rapid.IntRange(1, epochs).Draw(t, "mutepoch")
			if h := k*int(p.Epoch) + 1; h <= n {
				at = h
			}
		}
		c.Mutants = append(c.Mutants, c14Mut{At: at, Mut: rapid.SampledFrom(c14Muts).Draw(t, "mut"), Arg: rapid.IntRange(0, 100).Draw(t, "arg")})
	}
	return c
}

func c14Exec(c c14Case, x *pbt.Ctx) error {
	w := ck.Build(c.Tree)
	main := len(w.Blocks) - 1
	n, err := ck.NewNode(w, ck.NewMemDB())
	if err != nil {
		return fmt.Errorf("HARNESS: cannot start node: %v", err)
	}
	defer n.Close()
	e := w.P.Epoch

	mutAt := map[int][]c14Mut{}
	for _, m := range c.Mutants {
		mutAt[m.At] = append(mutAt[m.At], m)
	}
	amounts := map[string]uint64{} // output id -> BTM amount, for every output of the world
	addAmounts := func(i int) {
		for _, tx := range w.Blocks[i].Block.Transactions {
			for oi, o := range tx.Outputs {
				if *o.AssetId == *consensus.BTMAssetID {
					amounts[tx.ResultIds[oi].String()] = o.Amount
				}
			}
		}
	}
	addAmounts(0)
	var genesisSupply uint64
	for _, u := range w.Blocks[0].State.Utxos {
		genesisSupply += u.Amount
	}

	multiProposerFee := false
	crossings := 0
	prevHigh := false
	for i := 1; i <= main; i++ {
		b := w.Blocks[i]
		h := b.Block.Height
		// competing mutants first: they must not become part of the chain
		for _, m := range mutAt[i] {
			mi := w.Add(ck.BlockDesc{Parent: i - 1, Skip: 1, Mut: m.Mut, MutArg: m.Arg})
			_, merr := n.Deliver(mi)
			x.Class("mutant:%s@reward=%v", m.Mut, h%e == 1 && h != 1)
			if n.BestIdx() == mi || n.Chain.InMainChain(w.Hash(mi)) {
				return fmt.Errorf("block at height %d with coinbase mutation %q (outputs %s) was connected (result %v); expected reward table %v", h, m.Mut, coinbaseOutputs(w, mi), merr, w.Blocks[i-1].State.Last.Rewards)
			}
		}
		_, derr := n.Deliver(i)
		if derr != nil || n.BestIdx() != i {
			return fmt.Errorf("block #%d at height %d (first of epoch: %v) built from the reference reward table %v with coinbase outputs %s was not accepted: %v (best #%d)", i, h, h%e == 1, w.Blocks[i-1].State.Last.Rewards, coinbaseOutputs(w, i), derr, n.BestIdx())
		}
		addAmounts(i)
		// a valid competitor for the same height that arrives after the block was connected (built
		// from the same reference table, other time slot) must be accepted as well; around epoch
		// boundaries this exercises the look-up of the governing checkpoint for a second child
		if len(mutAt[i]) > 0 || h%e == 1 {
			n.Chain.AllValidators(&[]bc.Hash{w.Hash(i - 1)}[0]) // a read query some callers make at any time
			sib := w.Add(ck.BlockDesc{Parent: i - 1, Skip: 2 + c.Tree.Blocks[i-1].Skip})
			if _, serr := n.Deliver(sib); serr != nil {
				return fmt.Errorf("a second valid block for height %d (sibling of #%d, built from the reference reward table %v, coinbase %s) is refused: %v", h, i, w.Blocks[i-1].State.Last.Rewards, coinbaseOutputs(w, sib), serr)
			}
			if n.BestIdx() != i && n.BestIdx() != sib {
				return fmt.Errorf("after a valid sibling for height %d the best block is #%d", h, n.BestIdx())
			}
			if n.BestIdx() == sib {
				// the sibling won the hash tie-break: continue the main chain anyway (next block re-wins by height)
				x.Class("sibling-won-tie")
			}
		}
		// persisted reward table of a completed epoch equals the reference fold
		if h%e == 0 {
			hash := w.Hash(i)
			cp, err := n.Store.GetCheckpoint(&hash)
			if err != nil {
				return fmt.Errorf("no checkpoint stored for block #%d (height %d): %v", i, h, err)
			}
			want := b.State.Last.Rewards
			if len(cp.Rewards) != len(want) {
				return fmt.Errorf("checkpoint at height %d: stored reward table %v, reference %v", h, cp.Rewards, want)
			}
			for k, v := range want {
				if cp.Rewards[k] != v {
					return fmt.Errorf("checkpoint at height %d: stored reward for %s is %d, reference %d (tables %v vs %v)", h, k, cp.Rewards[k], v, cp.Rewards, want)
				}
			}
			if len(want) >= 2 {
				fees := false
				for j := i; j > 0 && w.Blocks[j].Block.Height > h-e; j = w.Blocks[j].Parent {
					if len(w.Blocks[j].Block.Transactions) > 1 {
						fees = true
					}
				}
				if fees {
					multiProposerFee = true
				}
			}
			var total uint64
			for _, v := range b.State.Cur.Votes {
				total += v
			}
			high := float64(total)/float64(h*consensus.BlockReward/2+consensus.InitBTMSupply) > consensus.RewardThreshold
			if high != prevHigh {
				crossings++
			}
			prevHigh = high
		}
		// supply bound over the node's own unspent set
		gu, _, err := readLedger(n)
		if err != nil {
			return err
		}
		var sum uint64
		for id := range gu {
			a, ok := amounts[id.String()]
			if !ok {
				continue // non-BTM output
			}
			sum += a
		}
		if sum > genesisSupply+b.State.Minted {
			return fmt.Errorf("after block #%d (height %d): BTM in unspent outputs is %d, genesis supply %d + rewards paid %d = %d", i, h, sum, genesisSupply, b.State.Minted, genesisSupply+b.State.Minted)
		}
	}
	if multiProposerFee {
		x.Class("epoch-with->=2-proposers-and-fees")
	}
	if crossings > 0 {
		x.Class("pledge-rate-crosses-threshold")
	}
	x.NonTrivial = multiProposerFee
	return nil
}

func coinbaseOutputs(w *ck.World, i int) string {
	s := ""
	for _, o := range w.Blocks[i].Block.Transactions[0].Outputs {
		s += fmt.Sprintf("[%x:%d]", o.ControlProgram, o.Amount)
	}
	return s
}

func TestC14(t *testing.T) {
	pbt.Run(t, "C14", "linear chains of 3-5 epochs (epoch length 3-5, 1-4 federation keys, skipped slots rotate proposers, votes make other keys validators) with fee-paying spends, small and very large votes (pledge rate crosses 0.5) and vetoes; blocks are built from an independent reward fold and must be accepted; the stored reward table of every completed epoch equals the fold; competing blocks with a coinbase mutation (amount +-1, extra/missing recipient, vote output) on and off reward heights must never be connected; BTM in the node's unspent set <= genesis + rewards paid; non-trivial = an epoch with >=2 proposers and a fee-paying transaction",
		pbt.Options{Checks: pbt.Per(400, 36000), MinClass: map[string]int{"epoch-with->=2-proposers-and-fees": 10, "pledge-rate-crosses-threshold": 5}}, c14Gen, c14Exec)
}
