package chaincheck

import (
	"errors"
	"fmt"
	"testing"

	"pgregory.net/rapid"

	"github.com/bytom/bytom/event"
	"github.com/bytom/bytom/protocol/casper"

	ck "verifharness/chainkit"
	"verifharness/pbt"
)

// C18: the node neither produces nor accepts two votes by one validator for different
// targets at the same height, nor a vote whose span strictly surrounds / lies strictly
// inside another vote by that validator.
//
// Every vote the node produced or admitted ends up in the supLinks of the stored header
// of its target (own votes are added to the block, admitted messages are written back,
// block-carried links are stored with the block), so the stored headers are the record.
// A second record is what the node announces: every vote it produced or admitted is posted on its
// event dispatcher for relaying to the peers (casper.ValidCasperSignMsg); a vote the node announced
// counts as accepted whether or not it reached a header.

var c18Opt = evGenOpt{
	Tree:      ck.GenOpt{MinBlocks: 8, MaxBlocks: 30, Epochs: []uint64{2, 3}, Validators: []int{3, 4}, Sup: true, NodeKeyChoices: []int{0, 1, 2}},
	Votes:     true,
	Early:     true,
	MaxEvents: 30,
}

func c18Gen(t *rapid.T) evCase {
	c := evGen(c18Opt)(t)
	// adversarial bursts: arbitrary sources (1..3 checkpoints back) for any known target
	for i := range c.Events {
		if c.Events[i].K == "v" {
			c.Events[i].B = rapid.IntRange(0, 2).Draw(t, "advsrc")
			c.Events[i].A = rapid.IntRange(0, 14).Draw(t, "advtgt")
		}
	}
	return c
}

type recVote struct {
	src, tgt int
}

// recordedVotes reads, for every stored checkpoint block, the signature slots of its header.
func recordedVotes(h *hist) (map[string][]recVote, error) {
	w := h.w
	out := map[string][]recVote{}
	for i := range h.knownSet() {
		if i == 0 || w.Blocks[i].Block.Height%w.P.Epoch != 0 {
			continue
		}
		hash := w.Hash(i)
		hdr, err := h.n.Store.GetBlockHeader(&hash)
		if err != nil {
			return nil, err
		}
		vals := w.ValidatorsFor(i)
		for _, sl := range hdr.SupLinks {
			src, ok := w.ByHash[sl.SourceHash]
			if !ok {
				continue
			}
			for slot, sig := range sl.Signatures {
				if len(sig) == 0 || slot >= len(vals) {
					continue
				}
				out[vals[slot]] = append(out[vals[slot]], recVote{src, i})
			}
		}
	}
	return out, nil
}

func c18Exec(c evCase, x *pbt.Ctx) error {
	h, err := newHist(c)
	if err != nil {
		return err
	}
	defer h.n.Close()
	w := h.w
	refused := 0
	ownKey := ""
	if c.Tree.Params.NodeKey >= 0 {
		ownKey = ck.PubHex(c.Tree.Params.NodeKey)
	}
	seen := map[[4]int]bool{}
	// votes announced for relaying, per validator key
	announced := map[string][]recVote{}
	nAnnounced := 0
	var sub *event.Subscription
	var subOf *ck.Node
	resubscribe := func() error {
		if subOf == h.n {
			return nil
		}
		s, err := h.n.Disp.Subscribe(casper.ValidCasperSignMsg{})
		if err != nil {
			return fmt.Errorf("HARNESS: subscribe: %v", err)
		}
		sub, subOf = s, h.n
		return nil
	}
	if err := resubscribe(); err != nil {
		return err
	}
	drainAnnounced := func() {
		for {
			select {
			case obj := <-sub.Chan():
				m, ok := obj.Data.(casper.ValidCasperSignMsg)
				if !ok {
					continue
				}
				src, ok1 := w.ByHash[m.SourceHash]
				tgt, ok2 := w.ByHash[m.TargetHash]
				if !ok1 || !ok2 {
					continue
				}
				dup := false
				for _, v := range announced[m.PubKey] {
					dup = dup || v == (recVote{src, tgt})
				}
				if !dup {
					announced[m.PubKey] = append(announced[m.PubKey], recVote{src, tgt})
					nAnnounced++
				}
			default:
				return
			}
		}
	}
	err = h.run(c, func(k int, desc string) error {
		drainAnnounced()
		if err := resubscribe(); err != nil { // the node was restarted: a new dispatcher
			return err
		}
		votes, err := recordedVotes(h)
		if err != nil {
			return err
		}
		for key, vs := range announced {
			for _, v := range vs {
				dup := false
				for _, r := range votes[key] {
					dup = dup || r == v
				}
				if !dup {
					votes[key] = append(votes[key], v)
					x.Class("vote-announced-but-not-in-a-stored-header")
				}
			}
		}
		fin, err := h.finalizedIdx()
		if err != nil {
			return err
		}
		for key, vs := range votes {
			for a := 0; a < len(vs); a++ {
				for b := a + 1; b < len(vs); b++ {
					va, vb := vs[a], vs[b]
					sa, ta := w.Blocks[va.src].Block.Height, w.Blocks[va.tgt].Block.Height
					sb, tb := w.Blocks[vb.src].Block.Height, w.Blocks[vb.tgt].Block.Height
					double := ta == tb && va.tgt != vb.tgt
					nested := (sa < sb && sb < tb && tb < ta) || (sb < sa && sa < ta && ta < tb)
					if !double && !nested {
						continue
					}
					id := [4]int{va.src, va.tgt, vb.src, vb.tgt}
					if seen[id] {
						continue
					}
					seen[id] = true
					if !double && (!w.IsAncestor(fin, va.tgt) || !w.IsAncestor(fin, vb.tgt)) {
						// known finding: the span condition is only checked against votes whose target is
						// still in the checkpoint tree (descends from the last finalized checkpoint); a
						// vote on an abandoned branch is forgotten.  The same-height condition is checked
						// against the stored checkpoints of that height and has no such gap.
						x.Known("slashing-check-ignores-abandoned-branches")
						continue
					}
					who := "validator " + shortKey(key)
					if key == ownKey {
						who = "the node's own key " + shortKey(key)
					}
					if double {
						return fmt.Errorf("after event %d (%s): %s has recorded votes for two different targets at height %d: #%d->#%d and #%d->#%d (last finalized #%d)", k, desc, who, ta, va.src, va.tgt, vb.src, vb.tgt, fin)
					}
					return fmt.Errorf("after event %d (%s): %s has recorded votes with nested spans: #%d->#%d (heights %d->%d) and #%d->#%d (heights %d->%d) (last finalized #%d)", k, desc, who, va.src, va.tgt, sa, ta, vb.src, vb.tgt, sb, tb, fin)
				}
			}
		}
		return nil
	})
	for _, v := range h.votes {
		if v.Err != nil {
			refused++
		}
	}
	// competing checkpoints at one height?
	heights := map[uint64]int{}
	for i := 1; i < len(w.Blocks); i++ {
		if w.Blocks[i].Block.Height%w.P.Epoch == 0 {
			heights[w.Blocks[i].Block.Height]++
		}
	}
	competing := false
	for _, n := range heights {
		if n >= 2 {
			competing = true
		}
	}
	if competing {
		x.Class("competing-checkpoints")
	}
	if refused > 0 {
		x.Class("some-message-refused")
	}
	if h.early > 0 {
		x.Class("early-votes")
	}
	x.Count("announced_votes", nAnnounced)
	x.NonTrivial = competing || refused > 0
	var he *hangErr
	if errors.As(err, &he) {
		return fmt.Errorf("HARNESS: history not executable: %v", err)
	}
	return err
}

func TestC18(t *testing.T) {
	pbt.Run(t, "C18", "block trees of 8-30 blocks (epoch 2-3, competing checkpoints at one height) delivered in generated order to a node whose own key is validator 0-2, with block-carried links and bursts of verification messages from all validators with arbitrary sources (double votes at one height, nested spans); after every event the votes recorded in the stored headers, together with the votes the node announced for relaying on its event dispatcher, are checked per validator for the two slashing conditions; non-trivial = competing checkpoints at one height or a refused message",
		pbt.Options{Checks: pbt.Per(200, 30000), MinClass: map[string]int{"some-message-refused": 5, "competing-checkpoints": 5}}, c18Gen, c18Exec)
}
