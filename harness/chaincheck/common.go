// Package chaincheck holds the checks that drive a real protocol.Chain with worlds
// built by chainkit: C10-C19, C21(partly), C23, C37, C38.
package chaincheck

import (
	"bytes"
	"fmt"
	"io"
	"runtime"
	"runtime/debug"
	"sort"
	"strings"
	"time"

	"github.com/golang/protobuf/proto"
	log "github.com/sirupsen/logrus"

	"github.com/bytom/bytom/database"
	"github.com/bytom/bytom/database/storage"
	"github.com/bytom/bytom/protocol/bc"
	"github.com/bytom/bytom/protocol/state"

	ck "verifharness/chainkit"
)

func init() {
	log.SetOutput(io.Discard)
	log.SetLevel(log.PanicLevel)
}

// ledgerView is the consensus-relevant content of a node's UTXO and contract tables.
type utxoRow struct {
	Type   uint32
	Height uint64 // only meaningful for coinbase and vote outputs (spending constraints)
}

func readLedger(n *ck.Node) (map[bc.Hash]utxoRow, map[string]string, error) {
	utxos := map[bc.Hash]utxoRow{}
	it := n.DB.IteratorPrefix(database.UtxoKeyPrefix)
	for it.Next() {
		k := it.Key()
		var e storage.UtxoEntry
		if err := proto.Unmarshal(it.Value(), &e); err != nil {
			it.Release()
			return nil, nil, fmt.Errorf("undecodable utxo entry %x: %v", k, err)
		}
		if e.Spent {
			continue
		}
		var b32 [32]byte
		copy(b32[:], k[len(database.UtxoKeyPrefix):])
		row := utxoRow{Type: e.Type}
		if e.Type != storage.NormalUTXOType {
			row.Height = e.BlockHeight
		}
		utxos[bc.NewHash(b32)] = row
	}
	it.Release()
	contracts := map[string]string{}
	it = n.DB.IteratorPrefix(database.ContractPrefix)
	for it.Next() {
		contracts[fmt.Sprintf("%x", it.Key()[len(database.ContractPrefix):])] = fmt.Sprintf("%x", it.Value())
	}
	it.Release()
	return utxos, contracts, nil
}

// modelLedger is what the model says the tables are after applying the path to block idx.
func modelLedger(w *ck.World, idx int) (map[bc.Hash]utxoRow, map[string]string) {
	s := w.Blocks[idx].State
	utxos := map[bc.Hash]utxoRow{}
	for id, u := range s.Utxos {
		row := utxoRow{Type: u.Kind}
		if u.Kind != ck.KindNormal {
			row.Height = u.Height
		}
		utxos[id] = row
	}
	contracts := map[string]string{}
	for h, v := range s.Contracts {
		contracts[fmt.Sprintf("%x", h[:])] = fmt.Sprintf("%x", v)
	}
	return utxos, contracts
}

func typeName(t uint32) string {
	switch t {
	case 0:
		return "normal"
	case 1:
		return "coinbase"
	case 2:
		return "vote"
	}
	return fmt.Sprintf("type%d", t)
}

func diffLedger(what string, gotU, wantU map[bc.Hash]utxoRow, gotC, wantC map[string]string) error {
	var msgs []string
	for id, w := range wantU {
		g, ok := gotU[id]
		if !ok {
			msgs = append(msgs, fmt.Sprintf("output %s (%s created at %d) should be unspent but the node has no unspent entry", id.String(), typeName(w.Type), w.Height))
		} else if g != w {
			msgs = append(msgs, fmt.Sprintf("output %s: node has %s with constraint height %d, expected %s with constraint height %d", id.String(), typeName(g.Type), g.Height, typeName(w.Type), w.Height))
		}
	}
	for id, g := range gotU {
		if _, ok := wantU[id]; !ok {
			msgs = append(msgs, fmt.Sprintf("node holds unspent %s output %s that the main chain does not leave unspent", typeName(g.Type), id.String()))
		}
	}
	for h, w := range wantC {
		if g, ok := gotC[h]; !ok {
			msgs = append(msgs, fmt.Sprintf("contract %s should be registered", h))
		} else if g != w {
			msgs = append(msgs, fmt.Sprintf("contract %s registered as %s, expected %s", h, g, w))
		}
	}
	for h := range gotC {
		if _, ok := wantC[h]; !ok {
			msgs = append(msgs, fmt.Sprintf("contract %s registered but not on the main chain", h))
		}
	}
	if len(msgs) == 0 {
		return nil
	}
	sort.Strings(msgs)
	if len(msgs) > 6 {
		msgs = append(msgs[:6], fmt.Sprintf("... and %d more", len(msgs)-6))
	}
	return fmt.Errorf("%s:\n  %s", what, joinLines(msgs))
}

func joinLines(m []string) string {
	var b bytes.Buffer
	for i, s := range m {
		if i > 0 {
			b.WriteString("\n  ")
		}
		b.WriteString(s)
	}
	return b.String()
}

// checkLedgerAgainstModel compares the node's tables with the model of the main chain ending at idx.
func checkLedgerAgainstModel(n *ck.Node, idx int, when string) error {
	gu, gc, err := readLedger(n)
	if err != nil {
		return err
	}
	wu, wc := modelLedger(n.W, idx)
	return diffLedger(fmt.Sprintf("%s: ledger state differs from the fold of the main chain ending at block #%d (height %d)", when, idx, n.W.Blocks[idx].Block.Height), gu, wu, gc, wc)
}

// checkpointStatus reads the status the node has recorded for the checkpoint at world block i (ok=false if none).
func checkpointStatus(n *ck.Node, i int) (state.CheckpointStatus, bool) {
	h := n.W.Hash(i)
	cp, err := n.Store.GetCheckpoint(&h)
	if err != nil {
		return 0, false
	}
	return cp.Status, true
}

// forkChoice computes the block the fork-choice rule selects over the given set of
// connected blocks: highest justified checkpoint on the path (from the finalized
// root), then greatest height, then largest hash (as a hex string).  justified(i)
// says whether checkpoint block i is justified.  root is the last finalized checkpoint.
func forkChoice(w *ck.World, known map[int]bool, root int, justified func(int) bool) int {
	best, bestJ := -1, uint64(0)
	e := w.P.Epoch
	for i := range known {
		if !known[i] || !w.IsAncestor(root, i) {
			continue
		}
		// highest justified checkpoint on the path root..i (the root counts with its own height)
		j := w.Blocks[root].Block.Height
		for k := i; k != root; k = w.Blocks[k].Parent {
			hk := w.Blocks[k].Block.Height
			if hk%e == 0 && hk > j && justified(k) {
				j = hk
			}
		}
		if best < 0 {
			best, bestJ = i, j
			continue
		}
		hb, hi := w.Blocks[best].Block.Height, w.Blocks[i].Block.Height
		sb, si := w.Hash(best), w.Hash(i)
		if j > bestJ || (j == bestJ && hi > hb) || (j == bestJ && hi == hb && hx(si) > hx(sb)) {
			best, bestJ = i, j
		}
	}
	return best
}

// checkIndex verifies the main-chain index against the best block: every height up to
// best maps to best's ancestor, InMainChain(b) <=> b is an ancestor-or-self of best,
// heights above best are absent.
func checkIndex(n *ck.Node, when string) error {
	w := n.W
	best := n.BestIdx()
	if best < 0 {
		return fmt.Errorf("%s: best block is not a block of the world", when)
	}
	bh := w.Blocks[best].Block.Height
	for _, i := range append([]int{0}, w.Path(best)...) {
		h := w.Blocks[i].Block.Height
		hdr, err := n.Chain.GetHeaderByHeight(h)
		if err != nil {
			return fmt.Errorf("%s: GetHeaderByHeight(%d) fails (%v) although best is at height %d", when, h, err, bh)
		}
		if hdr.Hash() != w.Hash(i) {
			return fmt.Errorf("%s: height %d maps to %s, but best block's ancestor there is block #%d %s", when, h, hx(hdr.Hash()), i, hx(w.Hash(i)))
		}
	}
	maxH := bh
	for i := range w.Blocks {
		if !n.Has(i) {
			continue
		}
		hash := w.Hash(i)
		want := w.IsAncestor(i, best)
		if got := n.Chain.InMainChain(hash); got != want {
			return fmt.Errorf("%s: InMainChain(block #%d at height %d) = %v, but ancestor-of-best = %v (best is #%d at height %d)", when, i, w.Blocks[i].Block.Height, got, want, best, bh)
		}
		if h := w.Blocks[i].Block.Height; h > maxH {
			maxH = h
		}
	}
	for h := bh + 1; h <= maxH+1; h++ {
		if hdr, err := n.Chain.GetHeaderByHeight(h); err == nil {
			return fmt.Errorf("%s: GetHeaderByHeight(%d) answers %s although the best block is at height %d", when, h, hx(hdr.Hash()), bh)
		}
	}
	return nil
}

func hx(h bc.Hash) string { return h.String() }

// callWithWatchdog runs f and waits for it.  Calls under test take milliseconds; if f has
// not returned after the (generous) limit the goroutine dump is returned so that the
// caller can decide whether it shows a lock cycle.
func callWithWatchdog(limit time.Duration, f func() error) (err error, hung bool, dump string) {
	done := make(chan error, 1)
	go func() {
		defer func() {
			if p := recover(); p != nil {
				done <- fmt.Errorf("panic: %v\n%s", p, debug.Stack())
			}
		}()
		done <- f()
	}()
	select {
	case err = <-done:
		return err, false, ""
	case <-time.After(limit):
		buf := make([]byte, 4<<20)
		n := runtime.Stack(buf, true)
		return nil, true, string(buf[:n])
	}
}

// deadlockSignature looks for the lock cycle between the finality engine and the block
// processor in a goroutine dump: a verification caller waiting for the chain's rollback
// reply while the block processor waits for the finality lock.
func deadlockSignature(dump string) string {
	waitingRollback := strings.Contains(dump, "casper.(*Casper).tryRollback") || strings.Contains(dump, "casper.(*Casper).AuthVerification")
	procBlocked := false
	for _, g := range strings.Split(dump, "\n\n") {
		if strings.Contains(g, "protocol.(*Chain).blockProcessor") && (strings.Contains(g, "sync.(*RWMutex).RLock") || strings.Contains(g, "sync.(*RWMutex).Lock") || strings.Contains(g, "sync.(*Mutex).Lock")) {
			procBlocked = true
		}
	}
	if waitingRollback && procBlocked {
		return "verification caller waits for the chain's rollback reply while the block processor waits for the finality lock"
	}
	// any goroutine of the node that has been waiting for a lock, or to hand over a value, for a
	// minute or more (the operations under these locks take milliseconds): the header of a dumped
	// goroutine reads "goroutine 12 [sync.Mutex.Lock, 1 minutes]:"
	for _, g := range strings.Split(dump, "\n\n") {
		nl := strings.IndexByte(g, '\n')
		if nl < 0 || !strings.HasPrefix(g, "goroutine ") {
			continue
		}
		head := g[:nl]
		lb, rb := strings.IndexByte(head, '['), strings.IndexByte(head, ']')
		if lb < 0 || rb < lb || !strings.Contains(head[lb:rb], " minutes") {
			continue
		}
		st := head[lb+1 : rb]
		blockedOnLock := strings.HasPrefix(st, "sync.Mutex.Lock") || strings.HasPrefix(st, "sync.RWMutex.") || strings.HasPrefix(st, "semacquire") || strings.HasPrefix(st, "chan send")
		if !blockedOnLock {
			continue
		}
		for _, line := range strings.Split(g[nl+1:], "\n") {
			if strings.HasPrefix(line, "github.com/bytom/bytom/protocol") {
				fn := line
				if i := strings.IndexByte(fn, '('); i > 0 && strings.HasPrefix(fn[i:], "(0x") {
					fn = fn[:i]
				}
				return fmt.Sprintf("a goroutine has been blocked in %s [%s]", strings.TrimPrefix(fn, "github.com/bytom/bytom/"), st)
			}
		}
	}
	return ""
}
