package chaincheck

import (
	"errors"
	"fmt"
	"testing"

	"pgregory.net/rapid"

	"github.com/bytom/bytom/protocol/state"

	ck "verifharness/chainkit"
	"verifharness/pbt"
)

// C17: a checkpoint becomes justified only with valid signatures of more than two
// thirds of the parent epoch's effective validators on one link from a justified
// source; forged / foreign / unused-slot signatures never count; finalized only when
// the direct child is justified from it; all of it across restarts.

var c17Opt = evGenOpt{
	Tree:      ck.GenOpt{MinBlocks: 8, MaxBlocks: 30, Epochs: []uint64{3, 4}, Validators: []int{1, 2, 3, 4, 5, 7, 10}, Txs: true, Sup: true, BadSup: true},
	Votes:     true,
	Early:     true,
	BadVotes:  true,
	Restarts:  true,
	Copies:    true,
	MaxEvents: 16,
}

// checkFFGSound compares the node's view with the model's closure.
func checkFFGSound(h *hist, x *pbt.Ctx, when string) error {
	w := h.w
	known := h.knownSet()
	just := h.ffg.justifiable(known)
	fin := h.ffg.finalizable(known)
	anyLink := func(c int) bool { // a supermajority link into c from any ancestor checkpoint
		for s := range h.ffg.sigs[c] {
			if h.ffg.supermajority(s, c) {
				return true
			}
		}
		return false
	}
	for i := range known {
		if i == 0 || w.Blocks[i].Block.Height%w.P.Epoch != 0 {
			continue
		}
		st, ok := checkpointStatus(h.n, i)
		if !ok {
			continue
		}
		childLink := false // a supermajority link from i to a direct child checkpoint
		for t := range h.ffg.sigs {
			if h.ffg.supermajority(i, t) && w.Blocks[t].Block.Height == w.Blocks[i].Block.Height+w.P.Epoch {
				childLink = true
			}
		}
		switch {
		case st == state.Justified && !just[i]:
			if anyLink(i) {
				// known finding: a supermajority of valid signatures exists on a link whose source is not justified
				x.Known("justified-from-unjustified-source")
				continue
			}
			return fmt.Errorf("%s: checkpoint #%d (height %d) is justified, but no link into it carries valid signatures of more than 2/3 of its %d validators:%s", when, i, w.Blocks[i].Block.Height, len(w.ValidatorsFor(i)), h.ffg.describe(i))
		case st == state.Finalized && !fin[i]:
			if childLink {
				// same known finding seen from the source side: the link to the direct child has a
				// supermajority, but this checkpoint itself was never justifiable
				x.Known("justified-from-unjustified-source")
				continue
			}
			return fmt.Errorf("%s: checkpoint #%d (height %d) is finalized but no direct child checkpoint is justified by a supermajority link from it (links into it:%s)", when, i, w.Blocks[i].Block.Height, h.ffg.describe(i))
		}
	}
	lj, err := h.justifiedIdx()
	if err != nil {
		return fmt.Errorf("%s: %v", when, err)
	}
	lf, err := h.finalizedIdx()
	if err != nil {
		return fmt.Errorf("%s: %v", when, err)
	}
	if !just[lj] && !anyLink(lj) {
		return fmt.Errorf("%s: LastJustifiedHeader is block #%d (height %d) which cannot be justified by the valid signatures seen:%s", when, lj, w.Blocks[lj].Block.Height, h.ffg.describe(lj))
	}
	if !fin[lf] {
		child := false
		for t := range h.ffg.sigs {
			if h.ffg.supermajority(lf, t) && w.Blocks[t].Block.Height == w.Blocks[lf].Block.Height+w.P.Epoch {
				child = true
			}
		}
		if !child {
			return fmt.Errorf("%s: LastFinalizedHeader is block #%d (height %d) which has no direct child justified from it", when, lf, w.Blocks[lf].Block.Height)
		}
		x.Known("justified-from-unjustified-source")
	}
	return nil
}

func c17Exec(c evCase, x *pbt.Ctx) error {
	h, err := newHist(c)
	if err != nil {
		return err
	}
	defer h.n.Close()
	forged, restartBetween := false, false
	sawVote := false
	err = h.run(c, func(k int, desc string) error {
		e := c.Events[k]
		if e.K == "v" {
			sawVote = true
			if e.D != 0 {
				forged = true
			}
		}
		if e.K == "r" && sawVote {
			restartBetween = true
		}
		return checkFFGSound(h, x, fmt.Sprintf("after event %d (%s)", k, desc))
	})
	for _, b := range c.Tree.Blocks {
		for _, s := range b.Sup {
			if s.Bad != "" {
				forged = true
			}
		}
	}
	if forged {
		x.Class("forged-signatures")
	}
	if restartBetween {
		x.Class("restart-between-votes")
	}
	if h.early > 0 {
		x.Class("early-votes")
	}
	if h.copies > 0 {
		x.Class("forged-copy-of-a-stored-block")
	}
	x.NonTrivial = forged || restartBetween
	var he *hangErr
	if errors.As(err, &he) {
		return fmt.Errorf("HARNESS: history not executable: %v", err)
	}
	return err
}

// canonical scenario: a linear chain, n federation validators, k of them sign the link
// from the (justified) parent checkpoint, delivered as messages or inside the header,
// plus forged material that must not count; a restart at a generated position.
type c17Canon struct {
	N        int   `json:"n"`
	Epoch    int   `json:"epoch"`
	K1       int   `json:"k1"`        // signers of genesis -> cp1
	K2       int   `json:"k2"`        // signers of cp1 -> cp2
	InHeader bool  `json:"in_header"` // signatures travel in the block header instead of messages
	Forged   []int `json:"forged"`    // kinds of forged header slots added on cp1 (see badSupKinds)
	ForgedN  int   `json:"forged_n"`  // how many forged slots
	Restart  int   `json:"restart"`   // position of a restart (0 = none)
	Garbage  int   `json:"garbage"`   // forged verification messages sent for cp1 before the real ones
}

func c17CanonGen(t *rapid.T) c17Canon {
	n := rapid.IntRange(1, 10).Draw(t, "n")
	thr := n*2/3 + 1
	near := func(label string) int {
		k := thr + rapid.IntRange(-2, 1).Draw(t, label)
		if k < 0 {
			k = 0
		}
		if k > n {
			k = n
		}
		return k
	}
	return c17Canon{
		N: n, Epoch: rapid.IntRange(3, 4).Draw(t, "epoch"), K1: near("k1"), K2: near("k2"),
		InHeader: rapid.Bool().Draw(t, "inheader"),
		ForgedN:  rapid.IntRange(0, 4).Draw(t, "forgedn"),
		Forged:   []int{rapid.IntRange(0, 4).Draw(t, "f0"), rapid.IntRange(0, 4).Draw(t, "f1")},
		Restart:  rapid.IntRange(0, 5).Draw(t, "restart"),
		Garbage:  rapid.IntRange(0, 3).Draw(t, "garbage"),
	}
}

var c17BadSup = []string{"garbage", "wrong-slot", "non-validator", "other-link", "unused-slot", "unknown-source", "wrong-source-height"}

func c17CanonExec(c c17Canon, x *pbt.Ctx) error {
	if c.N < 1 || c.N > 10 || c.Epoch < 2 || c.K1 < 0 || c.K1 > c.N || c.K2 < 0 || c.K2 > c.N {
		return nil
	}
	td := ck.TreeDesc{Params: ck.Params{Epoch: uint64(c.Epoch), Validators: c.N, NodeKey: -1}}
	for i := 0; i < 2*c.Epoch+1; i++ {
		bd := ck.BlockDesc{Parent: i}
		h := i + 1
		if h == c.Epoch || h == 2*c.Epoch {
			k := c.K1
			if h == 2*c.Epoch {
				k = c.K2
			}
			if c.InHeader {
				for v := 0; v < k; v++ {
					bd.Sup = append(bd.Sup, ck.SupDesc{Validator: v, Source: 0})
				}
			}
			if h == c.Epoch {
				for f := 0; f < c.ForgedN; f++ {
					// forged slots sit on validators that did not sign
					slot := k + f
					if slot >= c.N {
						break
					}
					bd.Sup = append(bd.Sup, ck.SupDesc{Validator: slot, Source: 0, Bad: c17BadSup[c.Forged[f%len(c.Forged)]%len(c17BadSup)]})
				}
			}
		}
		td.Blocks = append(td.Blocks, bd)
	}
	ec := evCase{Tree: td}
	h, err := newHist(ec)
	if err != nil {
		return err
	}
	defer h.n.Close()
	w := h.w
	cp1, cp2 := c.Epoch, 2*c.Epoch
	thr := c.N*2/3 + 1
	pos := 0
	maybeRestart := func() error {
		pos++
		if c.Restart == pos {
			x.Class("restart@%d", pos)
			return h.n.Restart()
		}
		return nil
	}
	deliver := func(i int) error {
		if _, err := h.step(ev{K: "b"}); err != nil {
			return err
		}
		_ = i
		return nil
	}
	sendVotes := func(src, tgt, k int) error {
		vals := w.ValidatorsFor(tgt)
		for v := 0; v < k; v++ {
			msg := w.Vote(ck.KeyIndex(vals[v]), src, tgt)
			var verr error
			_, hung, dump := callWithWatchdog(callLimit, func() error { verr = h.n.Chain.ProcessBlockVerification(msg); return nil })
			if hung {
				return hangError("ProcessBlockVerification", dump)
			}
			if verr != nil {
				return fmt.Errorf("valid verification message of validator %d for link #%d->#%d refused: %v", v, src, tgt, verr)
			}
			h.ffg.observe(msg.PubKey, src, tgt, msg.Signature)
		}
		return nil
	}
	expect := func(when string, wantJ1, wantJ2 bool) error {
		for _, q := range []struct {
			idx  int
			want bool
		}{{cp1, wantJ1}, {cp2, wantJ2}} {
			if !h.n.Has(q.idx) {
				continue
			}
			st, ok := checkpointStatus(h.n, q.idx)
			got := ok && (st == state.Justified || st == state.Finalized)
			if got != q.want {
				return fmt.Errorf("%s: n=%d validators (threshold %d), signers cp1=%d cp2=%d, in header=%v, forged slots=%d: checkpoint at height %d justified=%v (status %d), expected %v", when, c.N, thr, c.K1, c.K2, c.InHeader, c.ForgedN, w.Blocks[q.idx].Block.Height, got, st, q.want)
			}
		}
		return nil
	}

	// phase 1: chain up to cp1 (+ forged messages), then its signatures
	for i := 1; i <= cp1; i++ {
		if err := deliver(i); err != nil {
			return err
		}
	}
	if err := maybeRestart(); err != nil {
		return fmt.Errorf("restart failed: %v", err)
	}
	for g := 0; g < c.Garbage; g++ {
		vals := w.ValidatorsFor(cp1)
		slot := (c.K1 + g) % len(vals)
		msg := w.Vote(ck.KeyIndex(vals[slot]), 0, cp1)
		for i := range msg.Signature {
			msg.Signature[i] ^= byte(0x5a + g)
		}
		_ = h.n.Chain.ProcessBlockVerification(msg) // must be refused; whatever it answers, it must not count
	}
	if !c.InHeader {
		if err := sendVotes(0, cp1, c.K1); err != nil {
			return err
		}
	}
	if err := maybeRestart(); err != nil {
		return fmt.Errorf("restart failed: %v", err)
	}
	// what the valid signatures shown so far imply (forged header slots may have displaced valid ones)
	j1 := h.ffg.supermajority(0, cp1)
	// (with 10 validators an "unused-slot" forgery on validator 9 lands in its own slot and is a
	// valid signature, so the model may count one more than the messages sent; never fewer)
	if !c.InHeader && c.K1 >= thr && !j1 {
		return fmt.Errorf("HARNESS: %d valid messages sent but the model counts supermajority=%v", c.K1, j1)
	}
	if err := expect("after the signatures for the first checkpoint", j1, false); err != nil {
		return err
	}
	// phase 2: on to cp2, signatures cp1 -> cp2 (source justified only if j1)
	for i := cp1 + 1; i <= cp2; i++ {
		if err := deliver(i); err != nil {
			return err
		}
	}
	if err := maybeRestart(); err != nil {
		return fmt.Errorf("restart failed: %v", err)
	}
	if !c.InHeader {
		if err := sendVotes(cp1, cp2, c.K2); err != nil {
			return err
		}
	}
	if err := maybeRestart(); err != nil {
		return fmt.Errorf("restart failed: %v", err)
	}
	if err := deliver(cp2 + 1); err != nil {
		return err
	}
	if err := maybeRestart(); err != nil {
		return fmt.Errorf("restart failed: %v", err)
	}
	link2 := h.ffg.supermajority(cp1, cp2)
	j2 := j1 && link2
	x.Class("n=%d", c.N)
	x.Class("k1-thr=%d", c.K1-thr)
	x.NonTrivial = c.ForgedN > 0 || c.Garbage > 0 || c.Restart > 0
	if !j1 && link2 {
		// signatures on a link from an unjustified source: the statement says the target must not
		// become justified; on this tree it does (known finding), checked by the soundness oracle
		x.Class("supermajority-from-unjustified-source")
		return checkFFGSound(h, x, "end of canonical scenario")
	}
	if err := expect("at the end", j1, j2); err != nil {
		return err
	}
	// finalization: cp1 finalized iff both justified (cp2 is its direct child)
	lf, err := h.finalizedIdx()
	if err != nil {
		return err
	}
	wantF := 0
	if j2 {
		wantF = cp1
	}
	if lf != wantF {
		return fmt.Errorf("n=%d signers cp1=%d cp2=%d (threshold %d): last finalized is block #%d (height %d), expected height %d", c.N, c.K1, c.K2, thr, lf, w.Blocks[lf].Block.Height, w.Blocks[wantF].Block.Height)
	}
	return checkFFGSound(h, x, "end of canonical scenario")
}

func TestC17(t *testing.T) {
	pbt.Run(t, "C17", "canonical scenario: linear chain over two epochs, 1-10 validators, signer counts around the 2/3 threshold on the links genesis->cp1 and cp1->cp2, delivered as verification messages or inside the block header, forged header slots (garbage, wrong slot, non-validator, other link, unused slot) and corrupted messages that must not count, a restart at one of five positions; justified/finalized must be exactly what the counts imply; non-trivial = forged material or a restart",
		pbt.Options{Sub: "canonical", Checks: pbt.Per(500, 40000)}, c17CanonGen, c17CanonExec)
	pbt.Run(t, "C17", "skip-link scenario: cp1 without majority, cp2 justified by a supermajority link from genesis that skips cp1, then 1..n validators sign cp1 -> cp2 (before or after), optional restart; the soundness oracle must hold (cp1 neither justified nor finalized unless the direct link has a supermajority itself)",
		pbt.Options{Sub: "skip-link", Checks: pbt.Per(200, 20000)}, c17SkipGen, c17SkipExec)
	pbt.Run(t, "C17", "random block trees with valid and forged header signatures, bursts of valid and forged verification messages, copies of stored checkpoint blocks with forged header signatures, and restarts; after every event every checkpoint the node reports as justified/finalized (and LastJustified/LastFinalized) must be derivable from the valid signatures it was shown (supermajority of the parent epoch's validators on one link from a justifiable source; direct child for finalization); non-trivial = forged signatures or a restart between votes",
		pbt.Options{Sub: "random", Checks: pbt.Per(150, 20000)}, evGen(c17Opt), c17Exec)
}

// skip-link scenario: the first checkpoint gets no majority, the second is justified by a
// supermajority link that skips it (genesis -> cp2), then k validators sign the link cp1 -> cp2.
// Unless that link itself has a supermajority (which is the known finding's shape), cp1 must
// stay unjustified and must not be finalized, and cp2 stays justified.
type c17Skip struct {
	N       int  `json:"n"`
	Epoch   int  `json:"epoch"`
	K       int  `json:"k"`
	First   bool `json:"first"` // the cp1->cp2 signatures arrive before the skipping link is complete
	Restart bool `json:"restart"`
}

func c17SkipGen(t *rapid.T) c17Skip {
	n := rapid.IntRange(1, 10).Draw(t, "n")
	return c17Skip{N: n, Epoch: rapid.IntRange(2, 4).Draw(t, "epoch"), K: rapid.IntRange(1, n).Draw(t, "k"), First: rapid.Bool().Draw(t, "first"), Restart: rapid.Bool().Draw(t, "restart")}
}

func c17SkipExec(c c17Skip, x *pbt.Ctx) error {
	if c.N < 1 || c.N > 10 || c.Epoch < 2 || c.K < 0 || c.K > c.N {
		return nil
	}
	td := ck.TreeDesc{Params: ck.Params{Epoch: uint64(c.Epoch), Validators: c.N, NodeKey: -1}}
	for i := 0; i < 2*c.Epoch+1; i++ {
		td.Blocks = append(td.Blocks, ck.BlockDesc{Parent: i})
	}
	h, err := newHist(evCase{Tree: td})
	if err != nil {
		return err
	}
	defer h.n.Close()
	w := h.w
	cp1, cp2 := c.Epoch, 2*c.Epoch
	thr := c.N*2/3 + 1
	for i := 1; i <= cp2; i++ {
		if _, err := h.step(ev{K: "b"}); err != nil {
			return err
		}
	}
	vote := func(src, tgt, from, to int) error {
		vals := w.ValidatorsFor(tgt)
		for v := from; v < to; v++ {
			msg := w.Vote(ck.KeyIndex(vals[v]), src, tgt)
			var verr error
			_, hung, dump := callWithWatchdog(callLimit, func() error { verr = h.n.Chain.ProcessBlockVerification(msg); return nil })
			if hung {
				return hangError("ProcessBlockVerification", dump)
			}
			_ = verr // a refusal (e.g. a second vote by this validator for the same target height is fine) just does not count
			if verr == nil {
				h.ffg.observe(msg.PubKey, src, tgt, msg.Signature)
			}
		}
		return nil
	}
	// the validators that sign cp1->cp2 are taken from the end of the list, the skipping link is signed from the front
	if c.First {
		if err := vote(cp1, cp2, c.N-c.K, c.N); err != nil {
			return err
		}
	}
	if err := vote(0, cp2, 0, thr); err != nil {
		return err
	}
	if !c.First {
		if err := vote(cp1, cp2, c.N-c.K, c.N); err != nil {
			return err
		}
	}
	if c.Restart {
		if err := h.n.Restart(); err != nil {
			return fmt.Errorf("restart failed: %v", err)
		}
	}
	if _, err := h.step(ev{K: "b"}); err != nil {
		return err
	}
	x.Class("skip n=%d", c.N)
	x.NonTrivial = true
	if h.ffg.supermajority(cp1, cp2) {
		x.Class("direct-link-has-supermajority-too")
	}
	return checkFFGSound(h, x, fmt.Sprintf("skip-link scenario n=%d k=%d first=%v restart=%v", c.N, c.K, c.First, c.Restart))
}
