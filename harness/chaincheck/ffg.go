package chaincheck

import (
	"crypto/ed25519"
	"encoding/hex"
	"fmt"

	"github.com/bytom/bytom/protocol/bc/types"

	ck "verifharness/chainkit"
)

// ffgModel is the reference for justification and finalization (Casper FFG as in the
// paper casper.go cites, restricted to what the property states): it records every
// VALID validator signature over a link that the harness has shown to the node (in a
// verification message or in a block header), and derives from them which checkpoints
// CAN be justified / finalized:
//
//	justifiable(c) = c is genesis, or some ancestor checkpoint s with justifiable(s) has
//	                 valid signatures over s->c from more than 2/3 of the effective
//	                 validators of c's parent epoch
//	finalizable(c) = justifiable(c) and a direct child checkpoint c' has such a link c->c'
//
// Signatures are verified here with crypto/ed25519 on the first 32 bytes of the
// extended public key, independently of chainkd.
type ffgModel struct {
	w *ck.World
	// sigs[target][source][validator key hex] = true
	sigs map[int]map[int]map[string]bool
}

func newFFG(w *ck.World) *ffgModel {
	return &ffgModel{w: w, sigs: map[int]map[int]map[string]bool{}}
}

func validSig(pubHex string, source, target int, w *ck.World, sig []byte) bool {
	pub, err := hex.DecodeString(pubHex)
	if err != nil || len(pub) < 32 || len(sig) != ed25519.SignatureSize {
		return false
	}
	return ed25519.Verify(ed25519.PublicKey(pub[:32]), ck.VoteMessage(w.Hash(source), w.Hash(target)), sig)
}

// observe records one signature shown to the node; it returns whether it counts.
func (m *ffgModel) observe(pubHex string, source, target int, sig []byte) bool {
	w := m.w
	e := w.P.Epoch
	hs, ht := w.Blocks[source].Block.Height, w.Blocks[target].Block.Height
	if ht == 0 || ht%e != 0 || hs%e != 0 || hs >= ht || !w.IsAncestor(source, target) {
		return false
	}
	isValidator := false
	for _, v := range w.ValidatorsFor(target) {
		if v == pubHex {
			isValidator = true
		}
	}
	if !isValidator || !validSig(pubHex, source, target, w, sig) {
		return false
	}
	if m.sigs[target] == nil {
		m.sigs[target] = map[int]map[string]bool{}
	}
	if m.sigs[target][source] == nil {
		m.sigs[target][source] = map[string]bool{}
	}
	m.sigs[target][source][pubHex] = true
	return true
}

// observeHeader records the signatures a delivered block carries in its header.
func (m *ffgModel) observeHeader(idx int, b *types.Block) {
	w := m.w
	if b.Height%w.P.Epoch != 0 || b.Height == 0 {
		return
	}
	vals := w.ValidatorsFor(idx)
	for _, sl := range b.SupLinks {
		src, ok := w.ByHash[sl.SourceHash]
		if !ok || w.Blocks[src].Block.Height != sl.SourceHeight {
			continue
		}
		for slot, sig := range sl.Signatures {
			if len(sig) == 0 || slot >= len(vals) {
				continue
			}
			m.observe(vals[slot], src, idx, sig)
		}
	}
}

func (m *ffgModel) supermajority(source, target int) bool {
	n := len(m.w.ValidatorsFor(target))
	return len(m.sigs[target][source]) > n*2/3
}

// justifiable computes the closure over the blocks in `known`.
func (m *ffgModel) justifiable(known map[int]bool) map[int]bool {
	w := m.w
	e := w.P.Epoch
	j := map[int]bool{0: true}
	// checkpoints in height order (world indexes grow with height along a branch, but not globally)
	changed := true
	for changed {
		changed = false
		for t := range m.sigs {
			if j[t] || !known[t] {
				continue
			}
			for s := range m.sigs[t] {
				if j[s] && known[s] && m.supermajority(s, t) && w.Blocks[t].Block.Height%e == 0 {
					j[t] = true
					changed = true
					break
				}
			}
		}
	}
	return j
}

// finalizable: justifiable checkpoints with a supermajority link to a direct child checkpoint.
func (m *ffgModel) finalizable(known map[int]bool) map[int]bool {
	w := m.w
	j := m.justifiable(known)
	f := map[int]bool{0: true}
	for t := range m.sigs {
		if !known[t] || !j[t] {
			continue
		}
		for s := range m.sigs[t] {
			if j[s] && m.supermajority(s, t) && w.Blocks[t].Block.Height == w.Blocks[s].Block.Height+w.P.Epoch {
				f[s] = true
			}
		}
	}
	return f
}

func (m *ffgModel) describe(target int) string {
	s := ""
	for src, by := range m.sigs[target] {
		s += fmt.Sprintf(" #%d->#%d:%d/%d", src, target, len(by), len(m.w.ValidatorsFor(target)))
	}
	if s == "" {
		return " (no valid signatures seen)"
	}
	return s
}
