package chaincheck

import (
	"fmt"
	"testing"

	"pgregory.net/rapid"

	"github.com/bytom/bytom/protocol/bc/types"

	ck "verifharness/chainkit"
	"verifharness/pbt"
)

// C17, sub-check "redelivered-copy": the verification signatures in a header are not covered by the
// block hash, so a peer can deliver a block the node already has with other signatures in it.  A
// tall branch T (two epochs, nothing justified) is stored, then a short branch M whose first
// checkpoint is justified by messages becomes the best chain, so that T's blocks are stored blocks
// above the best height.  A copy of one of T's checkpoint blocks arrives whose header carries
// forged signatures (bytes that are no signature, signatures over the reversed link, signatures by
// a key that is no validator); optionally the node is restarted; then a few validators sign that
// link properly, fewer than the threshold.  Whatever the node reports as justified or finalized
// must have a supermajority link of valid signatures (checkFFGSound), at every stage.

type c17Copy struct {
	N       int    `json:"n"`      // validators 4..7
	Epoch   int    `json:"epoch"`  // 2..3
	Which   int    `json:"which"`  // 0: T's first checkpoint block, 1: its second
	Forged  int    `json:"forged"` // number of forged slots (from the front)
	Kind    string `json:"kind"`   // garbage, other-link, non-validator
	Valid   int    `json:"valid"`  // validators (from the end) signing the link properly afterwards
	Restart bool   `json:"restart"`
	Twice   bool   `json:"twice"` // the copy is delivered again after the restart
}

func c17CopyGen(t *rapid.T) c17Copy {
	n := rapid.IntRange(4, 7).Draw(t, "n")
	thr := n*2/3 + 1
	valid := rapid.IntRange(0, thr-1).Draw(t, "valid")
	return c17Copy{N: n, Epoch: rapid.IntRange(2, 3).Draw(t, "epoch"), Which: rapid.IntRange(0, 1).Draw(t, "which"),
		Forged: rapid.IntRange(1, n-valid).Draw(t, "forged"), Kind: rapid.SampledFrom([]string{"garbage", "other-link", "non-validator"}).Draw(t, "kind"),
		Valid: valid, Restart: rapid.Bool().Draw(t, "restart"), Twice: rapid.Bool().Draw(t, "twice")}
}

func c17CopyExec(c c17Copy, x *pbt.Ctx) error {
	if c.N < 4 || c.N > 10 || c.Epoch < 2 || c.Epoch > 4 || c.Which < 0 || c.Which > 1 || c.Forged < 0 || c.Valid < 0 || c.Forged+c.Valid > c.N {
		return nil
	}
	thr := c.N*2/3 + 1
	if c.Valid >= thr {
		return nil
	}
	e := c.Epoch
	td := ck.TreeDesc{Params: ck.Params{Epoch: uint64(e), Validators: c.N, NodeKey: -1}}
	for i := 0; i < 2*e; i++ { // T: world blocks 1..2e
		td.Blocks = append(td.Blocks, ck.BlockDesc{Parent: i})
	}
	for i := 0; i < e; i++ { // M: world blocks 2e+1..3e, forking at genesis
		p := 2*e + i
		if i == 0 {
			p = 0
		}
		td.Blocks = append(td.Blocks, ck.BlockDesc{Parent: p})
	}
	h, err := newHist(evCase{Tree: td})
	if err != nil {
		return err
	}
	defer h.n.Close()
	w := h.w
	desc := fmt.Sprintf("redelivered-copy scenario %+v", c)
	for i := 1; i <= 3*e; i++ {
		if _, err := h.step(ev{K: "b"}); err != nil {
			return err
		}
	}
	tcp := []int{e, 2 * e}
	mcp := 3 * e
	vote := func(key, src, tgt int) error {
		msg := w.Vote(key, src, tgt)
		var verr error
		_, hung, dump := callWithWatchdog(callLimit, func() error { verr = h.n.Chain.ProcessBlockVerification(msg); return nil })
		if hung {
			return hangError("ProcessBlockVerification", dump)
		}
		if verr == nil {
			h.ffg.observe(msg.PubKey, src, tgt, msg.Signature)
		}
		return nil
	}
	// M's checkpoint is justified: the best chain becomes the short branch
	mvals := w.ValidatorsFor(mcp)
	for v := 0; v < thr; v++ {
		if err := vote(ck.KeyIndex(mvals[v]), 0, mcp); err != nil {
			return err
		}
	}
	if err := h.settle("the votes for the short branch"); err != nil {
		return err
	}
	if best := h.n.BestIdx(); best != mcp {
		x.Class("copy/short-branch-did-not-become-best")
		return checkFFGSound(h, x, desc+" (the short branch did not become the best chain)")
	}
	// the copy with forged signatures
	tgt := tcp[c.Which]
	src := 0
	if c.Which == 1 {
		src = tcp[0]
	}
	vals := w.ValidatorsFor(tgt)
	sh, th := w.Hash(src), w.Hash(tgt)
	cp := ck.CloneBlock(w.Blocks[tgt].Block)
	cp.SupLinks = types.SupLinks{}
	for slot := 0; slot < c.Forged && slot < len(vals); slot++ {
		var sig []byte
		switch c.Kind {
		case "garbage":
			sig = make([]byte, 64)
			for i := range sig {
				sig[i] = byte(i*11 + slot + 1)
			}
		case "other-link":
			sig = ck.Key(ck.KeyIndex(vals[slot])).Sign(ck.VoteMessage(th, sh))
		case "non-validator":
			sig = ck.OutsiderKey().Sign(ck.VoteMessage(sh, th))
		default:
			return nil
		}
		cp.SupLinks.AddSupLink(w.Blocks[src].Block.Height, sh, sig, slot)
	}
	if cp.Hash() != th {
		return fmt.Errorf("HARNESS: the signatures in the header changed the block hash")
	}
	deliverCopy := func(when string) error {
		var perr error
		_, hung, dump := callWithWatchdog(callLimit, func() error { _, perr = h.n.Chain.ProcessBlock(ck.CloneBlock(cp)); return nil })
		if hung {
			return hangError("ProcessBlock of the copy", dump)
		}
		_ = perr // the node may refuse the copy or take it: what it reports afterwards is judged
		if err := h.settle("the copy " + when); err != nil {
			return err
		}
		return checkFFGSound(h, x, desc+" after the copy was delivered "+when)
	}
	if err := deliverCopy("the first time"); err != nil {
		return err
	}
	if c.Restart {
		if err := h.n.Restart(); err != nil {
			return fmt.Errorf("restart failed: %v", err)
		}
		if err := checkFFGSound(h, x, desc+" after the restart"); err != nil {
			return err
		}
		if c.Twice {
			if err := deliverCopy("again after the restart"); err != nil {
				return err
			}
		}
	}
	for v := len(vals) - c.Valid; v < len(vals); v++ {
		if err := vote(ck.KeyIndex(vals[v]), src, tgt); err != nil {
			return err
		}
		if err := checkFFGSound(h, x, fmt.Sprintf("%s after validator %d signed #%d->#%d", desc, v, src, tgt)); err != nil {
			return err
		}
	}
	x.Class("copy/%s", c.Kind)
	if c.Restart {
		x.Class("copy/restart")
	}
	x.NonTrivial = c.Forged+c.Valid >= thr
	if x.NonTrivial {
		x.Class("copy/forged-and-valid-together-reach-the-threshold")
	}
	return nil
}

func TestC17Copy(t *testing.T) {
	pbt.Run(t, "C17", "redelivered-copy scenario: 4-7 validators; a tall branch of two epochs is stored, a short branch whose checkpoint is justified by messages becomes the best chain; a copy of one of the tall branch's checkpoint blocks is delivered whose header carries 1..n forged signatures (no signature at all, over the reversed link, by a non-validator) on the link from its parent checkpoint; optional restart and second delivery; 0..threshold-1 validators then sign that link properly; the soundness oracle is evaluated after every step; non-trivial = forged and valid signatures together reach the threshold; distinct = case JSON",
		pbt.Options{Sub: "redelivered-copy", Checks: pbt.Per(200, 16000)}, c17CopyGen, c17CopyExec)
}

// C17, sub-check "growing-block-links": a block in the middle of an epoch carries signatures in its
// header as well (the field exists in every header).  They speak about no checkpoint and must never
// count.  Linear chain; the block `at` blocks into the second epoch carries forged signatures on a
// link from the first checkpoint; the node is restarted right after that block or some blocks later
// (or not at all); the epoch is completed; a few validators sign cp1 -> cp2 properly, fewer than the
// threshold.

type c17Growing struct {
	N          int    `json:"n"`      // 4..7
	Epoch      int    `json:"epoch"`  // 2..4
	At         int    `json:"at"`     // 1..epoch-1: offset of the carrying block in the second epoch
	Forged     int    `json:"forged"` // forged slots from the front
	Kind       string `json:"kind"`   // garbage, non-validator, for-final-hash (properly signed by non-validators over the final checkpoint hash)
	Valid      int    `json:"valid"`
	RestartLag int    `json:"restart_lag"` // -1: no restart; k: restart after k further blocks
}

func c17GrowingGen(t *rapid.T) c17Growing {
	n := rapid.IntRange(4, 7).Draw(t, "n")
	e := rapid.IntRange(2, 4).Draw(t, "epoch")
	thr := n*2/3 + 1
	valid := rapid.IntRange(0, thr-1).Draw(t, "valid")
	return c17Growing{N: n, Epoch: e, At: rapid.IntRange(1, e-1).Draw(t, "at"), Forged: rapid.IntRange(1, n-valid).Draw(t, "forged"),
		Kind: rapid.SampledFrom([]string{"garbage", "non-validator", "for-final-hash"}).Draw(t, "kind"), Valid: valid, RestartLag: rapid.IntRange(-1, 2).Draw(t, "restartlag")}
}

func c17GrowingExec(c c17Growing, x *pbt.Ctx) error {
	if c.N < 4 || c.N > 10 || c.Epoch < 2 || c.Epoch > 4 || c.At < 1 || c.At >= c.Epoch || c.Forged < 0 || c.Valid < 0 || c.Forged+c.Valid > c.N || c.RestartLag < -1 {
		return nil
	}
	thr := c.N*2/3 + 1
	if c.Valid >= thr {
		return nil
	}
	e := c.Epoch
	td := ck.TreeDesc{Params: ck.Params{Epoch: uint64(e), Validators: c.N, NodeKey: -1}}
	for i := 0; i < 2*e+1; i++ {
		td.Blocks = append(td.Blocks, ck.BlockDesc{Parent: i})
	}
	h, err := newHist(evCase{Tree: td})
	if err != nil {
		return err
	}
	defer h.n.Close()
	w := h.w
	cp1, cp2 := e, 2*e
	carrier := e + c.At
	vals := w.ValidatorsFor(cp2)
	sh := w.Hash(cp1)
	var links types.SupLinks
	for slot := 0; slot < c.Forged && slot < len(vals); slot++ {
		var sig []byte
		switch c.Kind {
		case "garbage":
			sig = make([]byte, 64)
			for i := range sig {
				sig[i] = byte(i*13 + slot + 1)
			}
		case "non-validator":
			sig = ck.OutsiderKey().Sign(ck.VoteMessage(sh, w.Hash(carrier)))
		case "for-final-hash":
			sig = ck.OutsiderKey().Sign(ck.VoteMessage(sh, w.Hash(cp2)))
		default:
			return nil
		}
		links.AddSupLink(w.Blocks[cp1].Block.Height, sh, sig, slot)
	}
	before := w.Hash(carrier)
	w.Blocks[carrier].Block.SupLinks = links
	if w.Hash(carrier) != before {
		return fmt.Errorf("HARNESS: the signatures in the header changed the block hash")
	}
	desc := fmt.Sprintf("growing-block-links scenario %+v", c)
	for i := 1; i <= 2*e+1; i++ {
		if i > cp2 {
			// before the block after the second checkpoint: the proper signatures
			for v := len(vals) - c.Valid; v < len(vals); v++ {
				msg := w.Vote(ck.KeyIndex(vals[v]), cp1, cp2)
				var verr error
				_, hung, dump := callWithWatchdog(callLimit, func() error { verr = h.n.Chain.ProcessBlockVerification(msg); return nil })
				if hung {
					return hangError("ProcessBlockVerification", dump)
				}
				if verr == nil {
					h.ffg.observe(msg.PubKey, cp1, cp2, msg.Signature)
				}
				if err := checkFFGSound(h, x, fmt.Sprintf("%s after validator %d signed #%d->#%d", desc, v, cp1, cp2)); err != nil {
					return err
				}
			}
		}
		if _, err := h.step(ev{K: "b"}); err != nil {
			return err
		}
		if c.RestartLag >= 0 && i == carrier+c.RestartLag && i <= 2*e {
			if err := h.n.Restart(); err != nil {
				return fmt.Errorf("restart failed: %v", err)
			}
			x.Class("growing/restart-lag-%d", c.RestartLag)
		}
		if err := checkFFGSound(h, x, fmt.Sprintf("%s after block #%d", desc, i)); err != nil {
			return err
		}
	}
	x.Class("growing/%s", c.Kind)
	x.NonTrivial = c.Forged+c.Valid >= thr
	if x.NonTrivial && c.RestartLag == 0 {
		x.Class("growing/threshold-reached-with-forged-and-restart-at-the-carrier")
	}
	return nil
}

func TestC17Growing(t *testing.T) {
	pbt.Run(t, "C17", "growing-block-links scenario: linear chain over two epochs, 4-7 validators; a block in the middle of the second epoch carries 1..n forged signatures in its header on a link from the first checkpoint (no signature at all, by a non-validator over that block's hash, by a non-validator over the final checkpoint hash); restart right after it, one or two blocks later, or never; the epoch is completed and 0..threshold-1 validators sign cp1 -> cp2 properly; the soundness oracle is evaluated after every block and message; non-trivial = forged and valid signatures together reach the threshold; distinct = case JSON",
		pbt.Options{Sub: "growing-block-links", Checks: pbt.Per(200, 16000)}, c17GrowingGen, c17GrowingExec)
}
