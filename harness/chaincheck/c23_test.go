package chaincheck

import (
	"fmt"
	"testing"

	"pgregory.net/rapid"

	"github.com/bytom/bytom/protocol"
	"github.com/bytom/bytom/protocol/bc"
	"github.com/bytom/bytom/protocol/bc/types"

	ck "verifharness/chainkit"
	"verifharness/pbt"
)

// C23: after any block connection or reorganisation no pooled transaction is also in
// the main chain; pool notifications pair each addition with at most one later removal.

type c23Case struct {
	Tree   ck.TreeDesc `json:"tree"`
	Events []ev        `json:"events"` // "b" deliver next block (A selector), "t" submit transaction (A selector)
}

var c23Tree = ck.GenOpt{MinBlocks: 5, MaxBlocks: 24, Epochs: []uint64{3, 4}, Validators: []int{1, 3}, Txs: true}

func c23Gen(t *rapid.T) c23Case {
	c := c23Case{Tree: ck.GenTree(t, c23Tree)}
	// more ordinary spends so that there is something to pool
	for i := range c.Tree.Blocks {
		c.Tree.Blocks[i].Txs = append(c.Tree.Blocks[i].Txs, ck.TxDesc{Kind: "spend", Pick: []int{rapid.IntRange(0, 30).Draw(t, "p0"), rapid.IntRange(0, 30).Draw(t, "p1")}, N: rapid.IntRange(0, 2).Draw(t, "n")})
	}
	nb := len(c.Tree.Blocks)
	n := nb + rapid.IntRange(nb/2, 2*nb).Draw(t, "nsub")
	for i := 0; i < n; i++ {
		if rapid.IntRange(0, 2).Draw(t, "k") == 0 {
			e := ev{K: "b"}
			if rapid.IntRange(0, 5).Draw(t, "oq") == 0 {
				e.A = rapid.IntRange(0, nb).Draw(t, "o")
			}
			c.Events = append(c.Events, e)
		} else {
			c.Events = append(c.Events, ev{K: "t", A: rapid.IntRange(0, 80).Draw(t, "tx")})
		}
	}
	for i := 0; i < nb; i++ { // make sure every block is delivered in the end
		c.Events = append(c.Events, ev{K: "b"})
	}
	return c
}

func c23Exec(c c23Case, x *pbt.Ctx) error {
	h, err := newHist(evCase{Tree: c.Tree})
	if err != nil {
		return err
	}
	defer h.n.Close()
	w := h.w
	sub, err := h.n.Disp.Subscribe(protocol.TxMsgEvent{})
	if err != nil {
		return fmt.Errorf("HARNESS: subscribe: %v", err)
	}
	defer sub.Unsubscribe()

	// all non-coinbase transactions of the world, in block order
	var txs []*types.Tx
	where := map[bc.Hash][]int{} // tx id -> blocks containing it
	for i := 1; i < len(w.Blocks); i++ {
		for _, tx := range w.Blocks[i].Block.Transactions[1:] {
			if _, ok := where[tx.ID]; !ok {
				txs = append(txs, tx)
			}
			where[tx.ID] = append(where[tx.ID], i)
		}
	}
	if len(txs) == 0 {
		return nil
	}
	inPool := map[bc.Hash]bool{} // per the event stream
	drain := func(when string) error {
		for {
			select {
			case obj := <-sub.Chan():
				e, ok := obj.Data.(protocol.TxMsgEvent)
				if !ok {
					continue
				}
				id := e.TxMsg.Tx.ID
				switch e.TxMsg.MsgType {
				case protocol.MsgNewTx:
					if inPool[id] {
						return fmt.Errorf("%s: second 'new transaction' notification for %s without a removal in between", when, id.String())
					}
					inPool[id] = true
				case protocol.MsgRemoveTx:
					if !inPool[id] {
						return fmt.Errorf("%s: 'removed' notification for %s which was not announced as added (or was already removed)", when, id.String())
					}
					inPool[id] = false
				}
			default:
				return nil
			}
		}
	}
	prevBest := 0
	switched, confirmedOnOneBranch := false, false
	for k, e := range c.Events {
		var desc string
		switch e.K {
		case "b":
			d, err := h.step(e)
			if err != nil {
				return fmt.Errorf("event %d: %w", k, err)
			}
			desc = d
		case "t":
			tx := txs[abs(e.A)%len(txs)]
			// a copy, as a transaction arriving from the network would be
			raw, _ := tx.MarshalText()
			cp := &types.Tx{}
			if err := cp.UnmarshalText(raw); err != nil {
				return fmt.Errorf("HARNESS: %v", err)
			}
			_, verr := h.n.Chain.ValidateTx(cp)
			desc = fmt.Sprintf("submit tx %s (in blocks %v) -> %v", tx.ID.String()[:8], where[tx.ID], verr)
		}
		h.desc = append(h.desc, fmt.Sprintf("%d: %s", k, desc))
		when := fmt.Sprintf("after event %d (%s)", k, desc)
		if err := drain(when); err != nil {
			return fmt.Errorf("%v\nhistory:\n  %s", err, joinLines(h.desc))
		}
		best := h.n.BestIdx()
		onMain := map[bc.Hash]int{}
		for _, i := range w.Path(best) {
			for _, tx := range w.Blocks[i].Block.Transactions[1:] {
				onMain[tx.ID] = i
			}
		}
		pooled := map[bc.Hash]bool{}
		poolTxs := h.n.Pool.GetTransactions()
		for _, td := range poolTxs {
			pooled[td.Tx.ID] = true
			if blk, ok := onMain[td.Tx.ID]; ok {
				if c23TwinShape(w, best, td.Tx, poolTxs) {
					x.Known("confirmed-tx-readmitted-through-twin-output")
					continue
				}
				return fmt.Errorf("%s: transaction %s is in the pool and in main-chain block #%d (height %d)\nhistory:\n  %s", when, td.Tx.ID.String(), blk, w.Blocks[blk].Block.Height, joinLines(h.desc))
			}
		}
		for id, in := range inPool {
			if in != pooled[id] {
				return fmt.Errorf("%s: notifications say transaction %s pooled=%v, the pool says %v\nhistory:\n  %s", when, id.String(), in, pooled[id], joinLines(h.desc))
			}
		}
		if best != prevBest && !w.IsAncestor(prevBest, best) {
			switched = true
			// a transaction confirmed on the abandoned branch only
			for i := prevBest; i > 0 && !w.IsAncestor(i, best); i = w.Blocks[i].Parent {
				for _, tx := range w.Blocks[i].Block.Transactions[1:] {
					if _, ok := onMain[tx.ID]; !ok {
						confirmedOnOneBranch = true
					}
				}
			}
		}
		prevBest = best
	}
	if switched {
		x.Class("reorganisation")
	}
	if confirmedOnOneBranch {
		x.Class("tx-confirmed-on-abandoned-branch-only")
	}
	x.NonTrivial = confirmedOnOneBranch
	return nil
}

// c23TwinShape recognises the known finding: the confirmed transaction tx was admitted to the pool
// because another pooled transaction has an output with the same id as the output tx spends.  At the
// root of it is a pooled transaction that is not on the main chain and shares an output id with the
// main-chain transaction that really created the output (two transactions with the same inputs and
// one identical output, e.g. two versions of a payment on competing branches); confirmed
// transactions further down the chain of spends are then admitted as children of the re-admitted ones.
func c23TwinShape(w *ck.World, best int, tx *types.Tx, poolTxs []*protocol.TxDesc) bool {
	mainMakers := map[bc.Hash]bc.Hash{} // output id -> main-chain transaction creating it
	for _, i := range w.Path(best) {
		for _, mtx := range w.Blocks[i].Block.Transactions[1:] {
			for _, rid := range mtx.ResultIds {
				mainMakers[*rid] = mtx.ID
			}
		}
	}
	pooledBy := map[bc.Hash][]*types.Tx{} // output id -> pooled transactions with such an output
	byID := map[bc.Hash]*types.Tx{}
	for _, td := range poolTxs {
		byID[td.Tx.ID] = td.Tx
		for _, rid := range td.Tx.ResultIds {
			pooledBy[*rid] = append(pooledBy[*rid], td.Tx)
		}
	}
	memo := map[bc.Hash]bool{}
	var explained func(t *types.Tx, depth int) bool
	explained = func(t *types.Tx, depth int) bool {
		if v, ok := memo[t.ID]; ok {
			return v
		}
		memo[t.ID] = false
		if depth > 64 {
			return false
		}
		for _, spent := range t.SpentOutputIDs {
			maker, onChain := mainMakers[spent]
			if !onChain {
				continue
			}
			for _, p := range pooledBy[spent] {
				if p.ID == t.ID {
					continue
				}
				if p.ID != maker || explained(p, depth+1) {
					memo[t.ID] = true
					return true
				}
			}
		}
		return false
	}
	return explained(tx, 0)
}

func TestC23(t *testing.T) {
	pbt.Run(t, "C23", "block trees of 5-24 blocks whose transactions are also submitted to the node (Chain.ValidateTx) before, between and after the blocks that confirm them, with reorganisations; after every event no pooled transaction is in a main-chain block, the notification stream per transaction is (new remove?)* and agrees with the pool content; non-trivial = a reorganisation abandons a block whose transaction is not on the new main chain",
		pbt.Options{Checks: pbt.Per(150, 20000), MinClass: map[string]int{"tx-confirmed-on-abandoned-branch-only": 3}}, c23Gen, c23Exec)
}
