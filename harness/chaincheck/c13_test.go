package chaincheck

import (
	"fmt"
	"testing"

	"pgregory.net/rapid"

	ck "verifharness/chainkit"
	"verifharness/pbt"
)

// C13: a block that breaks a consensus rule (or descends from one that does) never
// enters the main chain; valid blocks are accepted.

var c13Opt = ck.GenOpt{MinBlocks: 5, MaxBlocks: 30, Epochs: []uint64{3, 4, 5}, Validators: []int{1, 3, 4}, Txs: true, BadTxs: true, Mut: true, TwoLocks: true}

func c13Gen(t *rapid.T) histCase {
	opt := c13Opt
	// a header/coinbase/transaction mutant only, ledger-invalid transactions only, or both
	switch rapid.IntRange(0, 2).Draw(t, "mode") {
	case 0:
		opt.BadTxs = false
	case 1:
		opt.Mut = false
	}
	c := histGen(opt)(t)
	c.Tree.Params.MaxOffsetMs = 3600 * 1000
	return c
}

func c13Exec(c histCase, x *pbt.Ctx) error {
	w := ck.Build(c.Tree)
	nb := len(w.Blocks) - 1
	n, err := ck.NewNode(w, ck.NewMemDB())
	if err != nil {
		return fmt.Errorf("HARNESS: cannot start node: %v", err)
	}
	defer n.Close()
	order := ck.ApplyOrder(c.Order, nb)
	nBad, badOnWinningFork := 0, false
	for i := 1; i <= nb; i++ {
		b := w.Blocks[i]
		if b.HdrBad != "" {
			nBad++
			x.Class("mutant:" + b.Desc.Mut + b.HdrBadTx())
		} else if !b.State.Valid && w.Blocks[b.Parent].State.Valid {
			nBad++
			x.Class("ledger-invalid-block")
		}
	}
	delivered := map[int]bool{0: true}
	knownHit := false
	for k, i := range order {
		_, derr := n.Deliver(i)
		delivered[i] = true
		when := fmt.Sprintf("after delivery %d (block #%d h=%d parent #%d mut=%q txs=%v, result %v)", k, i, w.Blocks[i].Block.Height, w.Blocks[i].Parent, w.Blocks[i].Desc.Mut, w.Blocks[i].TxKinds, derr)

		// safety: the best block and every block reported on the main chain obey all rules
		best := n.BestIdx()
		if best < 0 {
			return fmt.Errorf("%s: best block is not a block of the world", when)
		}
		if !w.Valid(best) {
			return fmt.Errorf("%s: best block #%d (height %d) breaks a consensus rule or descends from a block that does: %s", when, best, w.Blocks[best].Block.Height, whyInvalid(w, best))
		}
		for j := 1; j <= nb; j++ {
			if !w.Valid(j) && n.Chain.InMainChain(w.Hash(j)) {
				return fmt.Errorf("%s: block #%d (height %d) is reported on the main chain although it is invalid: %s", when, j, w.Blocks[j].Block.Height, whyInvalid(w, j))
			}
		}
		if err := checkLedgerAgainstModel(n, best, when); err != nil {
			return err
		}

		// acceptance: every valid block whose ancestors were all delivered is stored, and the
		// best block is the fork-choice winner over the valid blocks
		validKnown := map[int]bool{0: true}
		storedAll := map[int]bool{0: true}
		for j := 1; j <= nb; j++ {
			if !delivered[j] {
				continue
			}
			connected := true
			for a := j; a > 0; a = w.Blocks[a].Parent {
				if !delivered[a] {
					connected = false
				}
			}
			if n.Has(j) {
				storedAll[j] = true
			}
			if connected && w.Valid(j) {
				validKnown[j] = true
				if !n.Has(j) {
					return fmt.Errorf("%s: valid block #%d (height %d, all ancestors delivered) is not stored", when, j, w.Blocks[j].Block.Height)
				}
			}
		}
		want := forkChoice(w, validKnown, 0, func(int) bool { return false })
		if w.Blocks[want].Block.Height > 0 && want != 0 {
			for j := range storedAll {
				if !w.Valid(j) && w.Blocks[j].Block.Height >= w.Blocks[want].Block.Height {
					badOnWinningFork = true
				}
			}
		}
		if best != want {
			// known finding: a stored block that is only ledger-invalid (header, coinbase and
			// transactions valid, but a spend is missing/spent/immature/locked) is admitted to
			// the fork-choice tree; while it (or a descendant) is the fork-choice winner over
			// everything stored, the node keeps its previous valid best block.
			winner := forkChoice(w, storedAll, 0, func(int) bool { return false })
			if !w.Valid(winner) && w.Blocks[winner].HdrBad == "" && validKnown[best] {
				x.Known("ledger-invalid-block-wins-fork-choice")
				knownHit = true
				continue
			}
			return fmt.Errorf("%s: best block is #%d (height %d) but the fork-choice winner over the valid blocks is #%d (height %d)", when, best, w.Blocks[best].Block.Height, want, w.Blocks[want].Block.Height)
		}
	}
	if knownHit {
		x.Class("known-finding-shape")
	}
	if badOnWinningFork {
		x.Class("invalid-block-at-or-above-best-height")
	}
	x.NonTrivial = nBad > 0 && badOnWinningFork
	return nil
}

func whyInvalid(w *ck.World, i int) string {
	for ; i > 0; i = w.Blocks[i].Parent {
		b := w.Blocks[i]
		if b.HdrBad != "" {
			return fmt.Sprintf("block #%d: %s", i, b.HdrBad)
		}
		if !b.State.Valid && w.Blocks[b.Parent].State.Valid {
			return fmt.Sprintf("block #%d: %s", i, b.State.Why)
		}
	}
	return "?"
}

func TestC13(t *testing.T) {
	pbt.Run(t, "C13", "block trees of 5-30 blocks where one block carries a single-rule mutation (height, version, timestamp early/equal/far future, merkle root, wrong proposer, outsider/corrupt/missing signature, coinbase amount +-1, extra/missing recipient, vote output, unbalanced transaction) and/or blocks carry ledger-invalid transactions (missing, double spend in and across blocks, immature coinbase, locked vote); after every delivery: best and every InMainChain block obey all rules, ledger = model, every valid connected block is stored and best = fork choice over valid blocks; non-trivial = an invalid block sits at or above the best height",
		pbt.Options{Checks: pbt.Per(700, 60000), MinClass: map[string]int{"invalid-block-at-or-above-best-height": 5}}, c13Gen, c13Exec)
}
