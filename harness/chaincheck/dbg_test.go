package chaincheck

import (
	"encoding/json"
	"os"
	"testing"

	ck "verifharness/chainkit"
)

func TestDbg19(t *testing.T) {
	raw, _ := os.ReadFile(os.Getenv("DBG"))
	var rf struct {
		Case c19Case `json:"case"`
	}
	if err := json.Unmarshal(raw, &rf); err != nil {
		t.Fatal(err)
	}
	c := rf.Case
	w := ck.Build(c.Tree)
	for i, b := range w.Blocks {
		t.Logf("#%d parent=%d h=%d kinds=%v sup=%d", i, b.Parent, b.Block.Height, b.TxKinds, len(b.Block.SupLinks))
	}
	for rep := 0; rep < 3; rep++ {
		db := ck.NewCrashDB(ck.NewMemDB())
		var log []string
		db.Log = &log
		h, snaps, err := c19RunOn(c, w, len(w.Blocks), db, false)
		t.Logf("rep %d: err=%v writes=%d snaps=%v", rep, err, db.Writes(), snaps)
		for _, l := range log {
			t.Log("   ", l)
		}
		for _, d := range h.desc {
			t.Log(d)
		}
		h.n.Stop()
	}
}
