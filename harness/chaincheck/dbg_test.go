package chaincheck

import (
	"encoding/json"
	"os"
	"testing"

	ck "verifharness/chainkit"
)

func TestDbg(t *testing.T) {
	raw, _ := os.ReadFile(os.Getenv("DBG"))
	var rf struct{ Case histCase `json:"case"` }
	if err := json.Unmarshal(raw, &rf); err != nil {
		t.Fatal(err)
	}
	w := ck.Build(rf.Case.Tree)
	for i, b := range w.Blocks {
		t.Logf("#%d parent=%d h=%d kinds=%v skipped=%v valid=%v", i, b.Parent, b.Block.Height, b.TxKinds, b.Skipped, b.State.Valid)
	}
	idx := w.Add(ck.BlockDesc{Parent: 9, Txs: []ck.TxDesc{{Kind: "spend", Pick: []int{3, 0}, N: 3}}})
	b := w.Blocks[idx]
	par := w.Blocks[9].State
	for _, tx := range b.Block.Transactions[1:] {
		for _, id := range tx.SpentOutputIDs {
			u := par.Utxos[id]
			t.Logf("probe spends %s kind=%d height=%d amount=%d", id.String(), u.Kind, u.Height, u.Amount)
		}
	}
}
