package chaincheck

import (
	"errors"
	"fmt"
	"testing"

	ck "verifharness/chainkit"
	"verifharness/pbt"
)

// C11: the best block is the fork-choice winner over the known valid tree (highest
// justified checkpoint, then height, then hash); every height up to the best block maps
// to its ancestor; InMainChain(b) <=> b is an ancestor-or-self of the best block.
//
// Which checkpoints are justified is read from the node itself (that they are justified
// for the right reasons is C17's business); the fork-choice rule and the indexes are
// recomputed independently from the block tree after every event.

func abs(x int) int {
	if x < 0 {
		return -x
	}
	return x
}

var c11Opt = evGenOpt{
	Tree:      ck.GenOpt{MinBlocks: 6, MaxBlocks: 36, Epochs: []uint64{3, 4}, Validators: []int{1, 3, 4}, Txs: true, Sup: true, BadSup: true},
	Votes:     true,
	Early:     true,
	MaxEvents: 14,
}

func c11Exec(c evCase, x *pbt.Ctx) error {
	h, err := newHist(c)
	if err != nil {
		return err
	}
	defer h.n.Close()
	w := h.w
	prevBest := 0
	longToShort, tie, voteSwitch, replaySwitch := false, false, false, false
	err = h.run(c, func(k int, desc string) error {
		root, err := h.finalizedIdx()
		if err != nil {
			return err
		}
		known := h.knownSet()
		want := forkChoice(w, known, root, h.nodeJustified)
		got := h.n.BestIdx()
		if got != want {
			return fmt.Errorf("after event %d (%s): best block is #%d (height %d), the fork-choice rule selects #%d (height %d) [last finalized #%d]", k, desc, got, w.Blocks[max(got, 0)].Block.Height, want, w.Blocks[want].Block.Height, root)
		}
		if err := checkIndex(h.n, fmt.Sprintf("after event %d (%s)", k, desc)); err != nil {
			return err
		}
		if got != prevBest && !w.IsAncestor(prevBest, got) {
			if w.Blocks[got].Block.Height < w.Blocks[prevBest].Block.Height {
				longToShort = true
			}
			if c.Events[k].K == "v" {
				voteSwitch = true
			}
			if c.Events[k].K == "b" && h.early > 0 && w.Blocks[got].Block.Height < w.Blocks[prevBest].Block.Height {
				replaySwitch = true
			}
		}
		// hash tie-break: another known tip with the same justified height and height lost
		for i := range known {
			if i != got && w.Blocks[i].Block.Height == w.Blocks[got].Block.Height && w.IsAncestor(root, i) {
				tie = true
			}
		}
		prevBest = got
		return nil
	})
	if longToShort {
		x.Class("switch-longer-to-shorter")
	}
	if tie {
		x.Class("height-tie")
	}
	if voteSwitch {
		x.Class("best-changed-by-vote")
	}
	if h.early > 0 {
		x.Class("early-votes")
	}
	if replaySwitch {
		x.Class("best-changed-by-replayed-early-vote")
	}
	x.NonTrivial = longToShort || tie
	var he *hangErr
	if errors.As(err, &he) {
		// a call that never returns is C37's finding; here it only means the history could not be run
		return fmt.Errorf("HARNESS: history not executable: %v", err)
	}
	return err
}

func TestC11(t *testing.T) {
	pbt.Run(t, "C11", "block trees of 6-36 valid blocks (with transactions and justifying header signatures) interleaved with bursts of verification messages for known checkpoints; after every event best = independent fork choice over the blocks the node stores (justified flags read from the node), height index and InMainChain agree with the best block, heights above it are absent; non-trivial = a switch from a longer to a shorter chain, or a height tie decided by hash",
		pbt.Options{Checks: pbt.Per(150, 24000), MinClass: map[string]int{"height-tie": 3}}, evGen(c11Opt), c11Exec)
}
