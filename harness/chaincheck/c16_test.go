package chaincheck

import (
	"errors"
	"fmt"
	"testing"

	"pgregory.net/rapid"

	"github.com/bytom/bytom/protocol/state"

	ck "verifharness/chainkit"
	"verifharness/pbt"
)

// C16: two checkpoints that are not on one chain are never both finalized; the last
// finalized checkpoint only moves to its own descendants; the main chain always
// contains it.  Four validators, at most one of which equivocates; the other three
// follow the honest rule (source = highest justified ancestor of the target; never two
// targets at one height; never a surrounding or surrounded span).

type c16Case struct {
	Tree   ck.TreeDesc `json:"tree"`
	Byz    int         `json:"byz"` // slot of the equivocating validator, -1 = none
	Events []ev        `json:"events"`
	// AllPerms: ignore the order of Events and run every permutation (small event sets only)
	AllPerms bool `json:"all_perms,omitempty"`
}

var c16Tree = ck.GenOpt{MinBlocks: 8, MaxBlocks: 26, Epochs: []uint64{2, 3}, Validators: []int{4}}

func c16Gen(t *rapid.T) c16Case {
	c := c16Case{Tree: ck.GenTree(t, c16Tree), Byz: rapid.IntRange(-1, 3).Draw(t, "byz")}
	nb := len(c.Tree.Blocks)
	n := nb + rapid.IntRange(4, 24).Draw(t, "extra")
	delivered := 0
	for i := 0; i < n; i++ {
		if delivered > 2 && rapid.IntRange(0, 9).Draw(t, "evk") >= 5 {
			e := ev{K: "v", A: rapid.IntRange(0, 12).Draw(t, "tgt"), B: rapid.IntRange(0, 2).Draw(t, "src")}
			switch rapid.IntRange(0, 3).Draw(t, "mask") {
			case 0:
				e.C = 1 << uint(rapid.IntRange(0, 3).Draw(t, "slot"))
			case 1:
				e.C = rapid.IntRange(1, 15).Draw(t, "bits")
			default:
				e.C = 15
			}
			c.Events = append(c.Events, e)
			continue
		}
		e := ev{K: "b"}
		if rapid.IntRange(0, 5).Draw(t, "oq") == 0 {
			e.A = rapid.IntRange(0, nb).Draw(t, "o")
		}
		c.Events = append(c.Events, e)
		delivered++
	}
	return c
}

// small fixed-shape scenario for exhaustive interleaving: two competing checkpoints at
// the first epoch boundary and one more epoch on each, vote bursts for them.
func c16GenPerm(t *rapid.T) c16Case {
	e := uint64(2)
	td := ck.TreeDesc{Params: ck.Params{Epoch: e, Validators: 4, NodeKey: -1}}
	// blocks: 1 (h1) ; 2,3 children of 1 (h2, two checkpoints) ; 4 on 2 (h3), 5 on 4 (h4); 6 on 3 (h3), 7 on 6 (h4)
	td.Blocks = []ck.BlockDesc{{Parent: 0}, {Parent: 1}, {Parent: 1, Skip: 1}, {Parent: 2}, {Parent: 4}, {Parent: 3}, {Parent: 6}}
	c := c16Case{Tree: td, Byz: rapid.IntRange(-1, 3).Draw(t, "byz"), AllPerms: true}
	// all blocks are delivered first (as "b" events in order), then the permuted vote events
	for i := 0; i < len(td.Blocks); i++ {
		c.Events = append(c.Events, ev{K: "b"})
	}
	nv := rapid.IntRange(3, 6).Draw(t, "nvotes")
	for i := 0; i < nv; i++ {
		c.Events = append(c.Events, ev{K: "v", A: rapid.IntRange(0, 3).Draw(t, "tgt"), B: rapid.IntRange(0, 1).Draw(t, "src"), C: rapid.IntRange(1, 15).Draw(t, "bits")})
	}
	return c
}

type voteKey struct{ src, tgt int }

type sentVote struct {
	key, src, tgt int
}

// c16Run executes one schedule; it returns the number of finalization steps and whether conflicting votes occurred.
func c16Run(c c16Case, events []ev, x *pbt.Ctx) (int, bool, error) {
	var sent []sentVote
	h, err := newHist(evCase{Tree: c.Tree})
	if err != nil {
		return 0, false, err
	}
	defer h.n.Close()
	w := h.w
	e := w.P.Epoch
	honest := map[int][]voteKey{} // key index -> votes cast
	conflicting := false
	lastFin := 0
	finSteps := 0
	everFinal := map[int]bool{0: true}

	allowed := func(key int, v voteKey) bool {
		hs, ht := w.Blocks[v.src].Block.Height, w.Blocks[v.tgt].Block.Height
		for _, o := range honest[key] {
			os, ot := w.Blocks[o.src].Block.Height, w.Blocks[o.tgt].Block.Height
			if o == v {
				return false // nothing new
			}
			if ot == ht && o.tgt != v.tgt {
				return false
			}
			if ot == ht && o.tgt == v.tgt {
				return false // one vote per target is enough for an honest validator
			}
			if (os < hs && hs < ht && ht < ot) || (hs < os && os < ot && ot < ht) {
				return false
			}
		}
		return true
	}

	for k, evn := range events {
		var desc string
		switch evn.K {
		case "b":
			d, err := h.step(evn)
			if err != nil {
				return 0, false, fmt.Errorf("event %d: %w", k, err)
			}
			desc = d
		case "v":
			cps := h.knownCheckpoints()
			if len(cps) == 0 {
				continue
			}
			tgt := cps[abs(evn.A)%len(cps)]
			vals := w.ValidatorsFor(tgt)
			known := h.knownSet()
			just := h.ffg.justifiable(known)
			// honest source: highest justifiable ancestor checkpoint of the target
			hsrc := 0
			for a := w.CheckpointBack(tgt, 1); ; a = w.CheckpointBack(a, 1) {
				if just[a] {
					hsrc = a
					break
				}
				if a == 0 {
					break
				}
			}
			desc = fmt.Sprintf("votes ->#%d(h%d):", tgt, w.Blocks[tgt].Block.Height)
			for slot := 0; slot < len(vals); slot++ {
				if evn.C&(1<<uint(slot)) == 0 {
					continue
				}
				key := ck.KeyIndex(vals[slot])
				src := hsrc
				if slot == c.Byz {
					src = w.CheckpointBack(tgt, 1+abs(evn.B)%3) // anything
					conflicting = true
				} else if !allowed(key, voteKey{src, tgt}) {
					conflicting = true // an honest validator declines; the request itself was a conflicting one
					continue
				} else {
					honest[key] = append(honest[key], voteKey{src, tgt})
				}
				msg := w.Vote(key, src, tgt)
				sent = append(sent, sentVote{key, src, tgt})
				var verr error
				_, hung, dump := callWithWatchdog(callLimit, func() error { verr = h.n.Chain.ProcessBlockVerification(msg); return nil })
				if hung {
					return 0, false, hangError("ProcessBlockVerification", dump)
				}
				h.ffg.observe(msg.PubKey, src, tgt, msg.Signature)
				desc += fmt.Sprintf(" s%d:#%d->#%d=%v", slot, src, tgt, verr)
			}
		}
		h.desc = append(h.desc, fmt.Sprintf("%d: %s", k, desc))

		// invariants
		fin, err := h.finalizedIdx()
		if err != nil {
			return 0, false, err
		}
		fail := func(format string, a ...interface{}) error {
			return fmt.Errorf("after event %d (%s): %s\nbyzantine slot %d; history:\n  %s", k, desc, fmt.Sprintf(format, a...), c.Byz, joinLines(h.desc))
		}
		if fin != lastFin {
			if !w.IsAncestor(lastFin, fin) {
				return 0, false, fail("last finalized checkpoint moved from block #%d (height %d) to #%d (height %d), which does not descend from it", lastFin, w.Blocks[lastFin].Block.Height, fin, w.Blocks[fin].Block.Height)
			}
			lastFin = fin
			finSteps++
		}
		everFinal[fin] = true
		for i := range h.knownSet() {
			if i == 0 || w.Blocks[i].Block.Height%e != 0 {
				continue
			}
			if st, ok := checkpointStatus(h.n, i); ok && st == state.Finalized {
				everFinal[i] = true
			}
		}
		for a := range everFinal {
			for b := range everFinal {
				if !w.IsAncestor(a, b) && !w.IsAncestor(b, a) {
					return 0, false, fail("checkpoints #%d (height %d) and #%d (height %d) are both finalized but are not on one chain", a, w.Blocks[a].Block.Height, b, w.Blocks[b].Block.Height)
				}
			}
		}
		best := h.n.BestIdx()
		if best < 0 || !w.IsAncestor(fin, best) {
			return 0, false, fail("the best block #%d does not descend from the last finalized checkpoint #%d (height %d)", best, fin, w.Blocks[fin].Block.Height)
		}
		if !h.n.Chain.InMainChain(w.Hash(fin)) {
			return 0, false, fail("the last finalized checkpoint #%d is not reported on the main chain", fin)
		}
	}
	// a second node gets the same blocks (all first) and the same verification messages in another
	// order: whatever either node finalizes must lie on one chain
	if len(sent) > 1 {
		n2, err := ck.NewNode(w, ck.NewMemDB())
		if err != nil {
			return 0, false, fmt.Errorf("HARNESS: %v", err)
		}
		defer n2.Close()
		for i := 1; i < len(w.Blocks); i++ {
			if h.delivered[i] {
				n2.Deliver(i)
			}
		}
		h2 := &hist{w: w, n: n2, delivered: h.delivered}
		order := make([]int, len(sent))
		for i := range order {
			order[i] = i
		}
		// deterministic other order: by target height descending, then reverse arrival
		for i := 0; i < len(order); i++ {
			for j := i + 1; j < len(order); j++ {
				a, b := sent[order[i]], sent[order[j]]
				ha, hb := w.Blocks[a.tgt].Block.Height, w.Blocks[b.tgt].Block.Height
				if hb > ha || (hb == ha && order[j] > order[i]) {
					order[i], order[j] = order[j], order[i]
				}
			}
		}
		for _, oi := range order {
			v := sent[oi]
			msg := w.Vote(v.key, v.src, v.tgt)
			_, hung, dump := callWithWatchdog(callLimit, func() error { n2.Chain.ProcessBlockVerification(msg); return nil })
			if hung {
				return 0, false, hangError("ProcessBlockVerification (second node)", dump)
			}
			fin2, err := h2.finalizedIdx()
			if err != nil {
				return 0, false, err
			}
			for a := range everFinal {
				if !w.IsAncestor(a, fin2) && !w.IsAncestor(fin2, a) {
					return 0, false, fmt.Errorf("two nodes that received the same blocks and verification messages in different orders finalized checkpoints that are not on one chain: #%d (height %d) on the first node, #%d (height %d) on the second\nbyzantine slot %d; history of the first node:\n  %s", a, w.Blocks[a].Block.Height, fin2, w.Blocks[fin2].Block.Height, c.Byz, joinLines(h.desc))
				}
			}
		}
	}
	return finSteps, conflicting, nil
}

func c16Exec(c c16Case, x *pbt.Ctx) error {
	var he *hangErr
	if !c.AllPerms {
		steps, conf, err := c16Run(c, c.Events, x)
		x.Class("finalizations-%d", min(steps, 3))
		if conf {
			x.Class("conflicting-vote-requests")
		}
		x.NonTrivial = conf && steps > 0
		if errors.As(err, &he) {
			return fmt.Errorf("HARNESS: history not executable: %v", err)
		}
		return err
	}
	var blocks, votes []ev
	for _, e := range c.Events {
		if e.K == "b" {
			blocks = append(blocks, e)
		} else {
			votes = append(votes, e)
		}
	}
	if len(votes) > 6 {
		return nil
	}
	maxSteps, conf, count := 0, false, 0
	err := permutations(len(votes), func(p []int) error {
		count++
		seq := append([]ev(nil), blocks...)
		for _, i := range p {
			seq = append(seq, votes[i-1])
		}
		steps, cf, err := c16Run(c, seq, x)
		if steps > maxSteps {
			maxSteps = steps
		}
		conf = conf || cf
		return err
	})
	x.Class("perm-schedules-%d", count)
	x.Class("finalizations-%d", min(maxSteps, 3))
	x.NonTrivial = conf && maxSteps > 0
	if errors.As(err, &he) {
		return fmt.Errorf("HARNESS: history not executable: %v", err)
	}
	return err
}

func TestC16(t *testing.T) {
	pbt.Run(t, "C16", "fixed small fork (two competing checkpoints at the first epoch boundary, one more epoch on each branch), 3-6 generated vote bursts by 4 validators (one optionally equivocating), EVERY permutation of the bursts executed on a fresh node; invariants after every event: finalized checkpoints form a chain, the last finalized one only moves to descendants, it is on the main chain and an ancestor of the best block; non-trivial = conflicting vote requests and at least one finalization",
		pbt.Options{Sub: "perm", Checks: pbt.Per(12, 800)}, c16GenPerm, c16Exec)
	pbt.Run(t, "C16", "random block trees of 8-26 blocks (epoch 2-3, forks at and inside epoch boundaries) with interleaved block deliveries and vote bursts; three validators follow the honest rule (source = highest justifiable ancestor, no double vote, no surround), one optional equivocator signs anything; same invariants",
		pbt.Options{Sub: "random", Checks: pbt.Per(150, 24000), MinClass: map[string]int{"finalizations-1": 1}}, c16Gen, c16Exec)
}
