package chaincheck

import (
	"fmt"
	"github.com/bytom/bytom/consensus"
	"github.com/bytom/bytom/protocol/bc/types"
	"testing"

	"pgregory.net/rapid"

	"github.com/bytom/bytom/protocol/state"

	ck "verifharness/chainkit"
	"verifharness/pbt"
)

// C10: ledger state (spendable outputs, their spending constraints, registered
// contracts) depends only on the main chain, not on the reorganisation history;
// consequently acceptance of a new block does not depend on the forks seen before.

type histCase struct {
	Tree  ck.TreeDesc `json:"tree"`
	Order []int       `json:"order"`
	Probe int         `json:"probe"` // selector for the probe transactions
}

var c10Opt = ck.GenOpt{MinBlocks: 5, MaxBlocks: 40, Epochs: []uint64{3, 4, 5}, Validators: []int{1, 3, 4}, Txs: true, Sup: true, TwoLocks: true}

func histGen(opt ck.GenOpt) func(t *rapid.T) histCase {
	return func(t *rapid.T) histCase {
		c := histCase{Tree: ck.GenTree(t, opt)}
		// mostly parents first (so that the node walks through reorganisations), sometimes shuffled
		c.Order = ck.GenOrder(t, len(c.Tree.Blocks), rapid.IntRange(0, 3).Draw(t, "shuffle") == 0)
		c.Probe = rapid.IntRange(0, 50).Draw(t, "probe")
		return c
	}
}

// detachedSpecial reports whether moving the best block from a to b detaches a block
// that spends a coinbase or vote output.
func detachedSpecial(w *ck.World, a, b int) (reorg bool, special bool, depth int) {
	if a < 0 || b < 0 || w.IsAncestor(a, b) {
		return false, false, 0
	}
	for i := a; i > 0 && !w.IsAncestor(i, b); i = w.Blocks[i].Parent {
		depth++
		par := w.Blocks[w.Blocks[i].Parent].State
		for _, tx := range w.Blocks[i].Block.Transactions {
			for _, id := range tx.SpentOutputIDs {
				if u, ok := par.Utxos[id]; ok && u.Kind != ck.KindNormal {
					special = true
				}
				// outputs created earlier in the same block are normal outputs
			}
		}
	}
	return true, special, depth
}

func c10Exec(c histCase, x *pbt.Ctx) error {
	w := ck.Build(c.Tree)
	nb := len(w.Blocks) - 1
	n, err := ck.NewNode(w, ck.NewMemDB())
	if err != nil {
		return fmt.Errorf("HARNESS: cannot start node: %v", err)
	}
	defer n.Close()
	order := ck.ApplyOrder(c.Order, nb)
	prev := 0
	reorgs, specials, maxDepth := 0, 0, 0
	for k, i := range order {
		_, derr := n.Deliver(i)
		best := n.BestIdx()
		if best < 0 {
			return fmt.Errorf("after delivery %d: best block is not a block of the world", k)
		}
		if r, s, d := detachedSpecial(w, prev, best); r {
			reorgs++
			if s {
				specials++
			}
			if d > maxDepth {
				maxDepth = d
			}
		}
		prev = best
		when := fmt.Sprintf("after delivery %d (block #%d, result %v), order %v", k, i, derr, order[:k+1])
		if err := checkLedgerAgainstModel(n, best, when); err != nil {
			return err
		}
	}
	x.NonTrivial = specials > 0
	x.Class("reorgs-%d", min(reorgs, 3))
	if specials > 0 {
		x.Class("reorg-detaches-coinbase-or-vote-spend")
	}
	if maxDepth >= 3 {
		x.Class("reorg-depth>=3")
	}

	// probes: the same candidate blocks offered to the node that went through the history and
	// to a fresh node that only ever saw the main chain must get the same verdict, and that
	// verdict must be the model's.
	best := n.BestIdx()
	fresh, err := ck.NewNode(w, ck.NewMemDB())
	if err != nil {
		return fmt.Errorf("HARNESS: cannot start fresh node: %v", err)
	}
	defer fresh.Close()
	for _, i := range w.Path(best) {
		if _, err := fresh.Deliver(i); err != nil {
			return fmt.Errorf("fresh node refuses main-chain block #%d (height %d) that the history node has on its main chain: %v", i, w.Blocks[i].Block.Height, err)
		}
	}
	if fresh.BestIdx() != best {
		return fmt.Errorf("fresh node fed the main chain ends at block #%d, history node at #%d", fresh.BestIdx(), best)
	}
	if err := checkLedgerAgainstModel(fresh, best, "fresh node fed only the main chain"); err != nil {
		return fmt.Errorf("HARNESS-SUSPECT (model vs fresh node): %v", err)
	}
	// if the best tip is not the fork-choice winner of the history node (finality, justification),
	// children of it may not become best; the verdict compared is the error value of ProcessBlock
	// every fourth case the probe is a side branch instead: it forks one or two blocks below the
	// best block, is one block longer than the main chain, and its last block spends an output that
	// exists only on the main chain above the fork point.  It is delivered last block first, so that
	// the whole branch is connected by one reorganisation (detach the main-chain blocks, attach the
	// branch); the last block is invalid on its branch and must be refused by both nodes.
	if c.Probe%4 == 3 {
		if done, err := c10CrossBranchProbe(w, n, fresh, best, c.Probe, x); done || err != nil {
			return err
		}
	}
	probes := []string{"veto", "bad-premature-veto", "bad-immature-coinbase", "spend", "bad-double-spend", "bad-missing"}
	// exactly one probe block is delivered per case: a refused probe stays in the node's block
	// tree (see the C13 known finding) and would disturb the verdict on the next one
	for k := 0; k < len(probes); k++ {
		pi := (c.Probe + k) % len(probes)
		kind := probes[pi]
		idx := w.Add(ck.BlockDesc{Parent: best, Txs: []ck.TxDesc{{Kind: kind, Pick: []int{c.Probe + pi, c.Probe}, N: pi}}})
		info := w.Blocks[idx]
		if len(info.TxKinds) == 0 {
			continue // no candidate output for this probe on this chain
		}
		wantOK := info.State.Valid
		_, e1 := n.Deliver(idx)
		_, e2 := fresh.Deliver(idx)
		x.Class("probe:" + kind)
		if (e1 == nil) != (e2 == nil) {
			return fmt.Errorf("probe block with a %q transaction on top of block #%d (height %d): node that went through order %v answers %v, a fresh node fed only the main chain answers %v", kind, best, w.Blocks[best].Block.Height, order, e1, e2)
		}
		if (e2 == nil) != wantOK {
			return fmt.Errorf("probe block with a %q transaction on top of block #%d: both nodes answer %v, the ledger rules say valid=%v (%s)", kind, best, e2, wantOK, info.State.Why)
		}
		if wantOK && n.BestIdx() == idx {
			if err := checkLedgerAgainstModel(n, idx, "after accepted probe"); err != nil {
				return err
			}
		}
		break
	}
	return nil
}

func c10CrossBranchProbe(w *ck.World, n, fresh *ck.Node, best, sel int, x *pbt.Ctx) (bool, error) {
	path := w.Path(best)
	depth := 1 + (sel/4)%2
	if len(path) <= depth {
		return false, nil
	}
	fork := path[len(path)-1-depth]
	// an OP_TRUE BTM output created on the main chain above the fork point and still unspent
	forkState := w.Blocks[fork].State
	var target *ck.Utxo
	for _, u := range w.Blocks[best].State.Sorted() {
		if _, old := forkState.Utxos[u.ID]; old {
			continue
		}
		if u.Kind == ck.KindNormal && u.Asset == *consensus.BTMAssetID && len(u.Program) == 1 && u.Program[0] == 0x51 && u.Amount > 100000000 {
			target = u
			break
		}
	}
	if target == nil {
		return false, nil
	}
	d := &types.TxData{Version: 1, Inputs: []*types.TxInput{types.NewSpendInput(nil, target.SourceID, target.Asset, target.Amount, target.SourcePos, target.Program, target.StateData)},
		Outputs: []*types.TxOutput{types.NewOriginalTxOutput(target.Asset, target.Amount-50000000, []byte{0x51}, nil)}}
	raw, err := d.MarshalText()
	if err != nil {
		return false, fmt.Errorf("HARNESS: %v", err)
	}
	var branch []int
	parent := fork
	for k := 0; k <= depth; k++ {
		bd := ck.BlockDesc{Parent: parent, Skip: 1}
		if k == depth {
			bd.Raw = []string{string(raw)}
		}
		parent = w.Add(bd)
		branch = append(branch, parent)
	}
	last := branch[len(branch)-1]
	if w.Blocks[last].State.Valid {
		return false, fmt.Errorf("HARNESS: the model accepts a spend of an output of another branch")
	}
	x.Class("probe:cross-branch-spend")
	deliver := func(node *ck.Node) (error, int) {
		var lastErr error
		for k := len(branch) - 1; k >= 0; k-- {
			if _, err := node.Deliver(branch[k]); err != nil {
				lastErr = err
			}
		}
		return lastErr, node.BestIdx()
	}
	e1, b1 := deliver(n)
	e2, b2 := deliver(fresh)
	for _, r := range []struct {
		who  string
		best int
		err  error
	}{{"the node that went through the history", b1, e1}, {"a fresh node fed only the main chain", b2, e2}} {
		if r.best == last || r.best < 0 || !w.Blocks[r.best].State.Valid {
			return true, fmt.Errorf("side branch of %d blocks forking %d below the best block #%d, delivered last block first; its last block #%d spends output %s, which exists only on the main chain above the fork point: %s ends with best block #%d (errors: %v)", len(branch), depth, best, last, target.ID.String()[:8], r.who, r.best, r.err)
		}
	}
	if b1 != b2 {
		return true, fmt.Errorf("after the side branch with an invalid last block the history node is at #%d, the fresh node at #%d", b1, b2)
	}
	if err := checkLedgerAgainstModel(n, b1, "after the cross-branch probe"); err != nil {
		return true, err
	}
	return true, nil
}

// contract-heavy histories: two contract codes registered again and again on every branch, so that
// a contract is registered in a common ancestor, on the abandoned branch and on the adopted branch
func c10GenContracts(t *rapid.T) histCase {
	opt := ck.GenOpt{MinBlocks: 6, MaxBlocks: 24, Epochs: []uint64{4}, Validators: []int{1, 3}}
	c := histCase{Tree: ck.GenTree(t, opt)}
	for i := range c.Tree.Blocks {
		n := rapid.IntRange(0, 2).Draw(t, "nreg")
		for k := 0; k < n; k++ {
			c.Tree.Blocks[i].Txs = append(c.Tree.Blocks[i].Txs, ck.TxDesc{Kind: "register", Pick: []int{rapid.IntRange(0, 30).Draw(t, "rp")}, N: rapid.IntRange(0, 1).Draw(t, "code")})
		}
	}
	c.Order = ck.GenOrder(t, len(c.Tree.Blocks), rapid.IntRange(0, 5).Draw(t, "shuffle") == 0)
	c.Probe = rapid.IntRange(0, 50).Draw(t, "probe")
	return c
}

func TestC10(t *testing.T) {
	pbt.Run(t, "C10", "contract-heavy block trees of 6-24 blocks: two contract codes are registered repeatedly on every branch (common ancestor, abandoned branch, adopted branch); same oracle (contract table raw value = first registration on the main chain)",
		pbt.Options{Sub: "contracts", Checks: pbt.Per(150, 24000)}, c10GenContracts, c10Exec)
	pbt.Run(t, "C10", "block trees of 5-40 valid blocks (spends, coinbase spends, votes, vetoes, contract registrations, issuances; optional justifying signatures in checkpoint headers) delivered parents-first or shuffled; after every delivery the node's unspent set with constraint heights and its contract table equal the model fold of its main chain; then probe blocks (veto at/inside lock, immature coinbase, double spend...) get the same verdict from the history node, a fresh node fed only the main chain, and the model; non-trivial = a reorganisation detached a block spending a coinbase or vote output",
		pbt.Options{Checks: pbt.Per(150, 24000), MinClass: map[string]int{"reorg-detaches-coinbase-or-vote-spend": 3}}, histGen(c10Opt), c10Exec)
}

var _ = state.Justified
