package chaincheck

import (
	"fmt"
	"testing"

	"pgregory.net/rapid"

	"github.com/bytom/bytom/protocol/state"

	ck "verifharness/chainkit"
	"verifharness/pbt"
)

// C10: ledger state (spendable outputs, their spending constraints, registered
// contracts) depends only on the main chain, not on the reorganisation history;
// consequently acceptance of a new block does not depend on the forks seen before.

type histCase struct {
	Tree  ck.TreeDesc `json:"tree"`
	Order []int       `json:"order"`
	Probe int         `json:"probe"` // selector for the probe transactions
}

var c10Opt = ck.GenOpt{MinBlocks: 5, MaxBlocks: 40, Epochs: []uint64{3, 4, 5}, Validators: []int{1, 3, 4}, Txs: true, Sup: true, TwoLocks: true}

func histGen(opt ck.GenOpt) func(t *rapid.T) histCase {
	return func(t *rapid.T) histCase {
		c := histCase{Tree: ck.GenTree(t, opt)}
		// mostly parents first (so that the node walks through reorganisations), sometimes shuffled
		c.Order = ck.GenOrder(t, len(c.Tree.Blocks), rapid.IntRange(0, 3).Draw(t, "shuffle") == 0)
		c.Probe = rapid.IntRange(0, 50).Draw(t, "probe")
		return c
	}
}

// detachedSpecial reports whether moving the best block from a to b detaches a block
// that spends a coinbase or vote output.
func detachedSpecial(w *ck.World, a, b int) (reorg bool, special bool, depth int) {
	if a < 0 || b < 0 || w.IsAncestor(a, b) {
		return false, false, 0
	}
	for i := a; i > 0 && !w.IsAncestor(i, b); i = w.Blocks[i].Parent {
		depth++
		par := w.Blocks[w.Blocks[i].Parent].State
		for _, tx := range w.Blocks[i].Block.Transactions {
			for _, id := range tx.SpentOutputIDs {
				if u, ok := par.Utxos[id]; ok && u.Kind != ck.KindNormal {
					special = true
				}
				// outputs created earlier in the same block are normal outputs
			}
		}
	}
	return true, special, depth
}

func c10Exec(c histCase, x *pbt.Ctx) error {
	w := ck.Build(c.Tree)
	nb := len(w.Blocks) - 1
	n, err := ck.NewNode(w, ck.NewMemDB())
	if err != nil {
		return fmt.Errorf("HARNESS: cannot start node: %v", err)
	}
	defer n.Close()
	order := ck.ApplyOrder(c.Order, nb)
	prev := 0
	reorgs, specials, maxDepth := 0, 0, 0
	for k, i := range order {
		_, derr := n.Deliver(i)
		best := n.BestIdx()
		if best < 0 {
			return fmt.Errorf("after delivery %d: best block is not a block of the world", k)
		}
		if r, s, d := detachedSpecial(w, prev, best); r {
			reorgs++
			if s {
				specials++
			}
			if d > maxDepth {
				maxDepth = d
			}
		}
		prev = best
		when := fmt.Sprintf("after delivery %d (block #%d, result %v), order %v", k, i, derr, order[:k+1])
		if err := checkLedgerAgainstModel(n, best, when); err != nil {
			return err
		}
	}
	x.NonTrivial = specials > 0
	x.Class("reorgs-%d", min(reorgs, 3))
	if specials > 0 {
		x.Class("reorg-detaches-coinbase-or-vote-spend")
	}
	if maxDepth >= 3 {
		x.Class("reorg-depth>=3")
	}

	// probes: the same candidate blocks offered to the node that went through the history and
	// to a fresh node that only ever saw the main chain must get the same verdict, and that
	// verdict must be the model's.
	best := n.BestIdx()
	fresh, err := ck.NewNode(w, ck.NewMemDB())
	if err != nil {
		return fmt.Errorf("HARNESS: cannot start fresh node: %v", err)
	}
	defer fresh.Close()
	for _, i := range w.Path(best) {
		if _, err := fresh.Deliver(i); err != nil {
			return fmt.Errorf("fresh node refuses main-chain block #%d (height %d) that the history node has on its main chain: %v", i, w.Blocks[i].Block.Height, err)
		}
	}
	if fresh.BestIdx() != best {
		return fmt.Errorf("fresh node fed the main chain ends at block #%d, history node at #%d", fresh.BestIdx(), best)
	}
	if err := checkLedgerAgainstModel(fresh, best, "fresh node fed only the main chain"); err != nil {
		return fmt.Errorf("HARNESS-SUSPECT (model vs fresh node): %v", err)
	}
	// if the best tip is not the fork-choice winner of the history node (finality, justification),
	// children of it may not become best; the verdict compared is the error value of ProcessBlock
	probes := []string{"veto", "bad-premature-veto", "bad-immature-coinbase", "spend", "bad-double-spend", "bad-missing"}
	// exactly one probe block is delivered per case: a refused probe stays in the node's block
	// tree (see the C13 known finding) and would disturb the verdict on the next one
	for k := 0; k < len(probes); k++ {
		pi := (c.Probe + k) % len(probes)
		kind := probes[pi]
		idx := w.Add(ck.BlockDesc{Parent: best, Txs: []ck.TxDesc{{Kind: kind, Pick: []int{c.Probe + pi, c.Probe}, N: pi}}})
		info := w.Blocks[idx]
		if len(info.TxKinds) == 0 {
			continue // no candidate output for this probe on this chain
		}
		wantOK := info.State.Valid
		_, e1 := n.Deliver(idx)
		_, e2 := fresh.Deliver(idx)
		x.Class("probe:" + kind)
		if (e1 == nil) != (e2 == nil) {
			return fmt.Errorf("probe block with a %q transaction on top of block #%d (height %d): node that went through order %v answers %v, a fresh node fed only the main chain answers %v", kind, best, w.Blocks[best].Block.Height, order, e1, e2)
		}
		if (e2 == nil) != wantOK {
			return fmt.Errorf("probe block with a %q transaction on top of block #%d: both nodes answer %v, the ledger rules say valid=%v (%s)", kind, best, e2, wantOK, info.State.Why)
		}
		if wantOK && n.BestIdx() == idx {
			if err := checkLedgerAgainstModel(n, idx, "after accepted probe"); err != nil {
				return err
			}
		}
		break
	}
	return nil
}

// contract-heavy histories: two contract codes registered again and again on every branch, so that
// a contract is registered in a common ancestor, on the abandoned branch and on the adopted branch
func c10GenContracts(t *rapid.T) histCase {
	opt := ck.GenOpt{MinBlocks: 6, MaxBlocks: 24, Epochs: []uint64{4}, Validators: []int{1, 3}}
	c := histCase{Tree: ck.GenTree(t, opt)}
	for i := range c.Tree.Blocks {
		n := rapid.IntRange(0, 2).Draw(t, "nreg")
		for k := 0; k < n; k++ {
			c.Tree.Blocks[i].Txs = append(c.Tree.Blocks[i].Txs, ck.TxDesc{Kind: "register", Pick: []int{rapid.IntRange(0, 30).Draw(t, "rp")}, N: rapid.IntRange(0, 1).Draw(t, "code")})
		}
	}
	c.Order = ck.GenOrder(t, len(c.Tree.Blocks), rapid.IntRange(0, 5).Draw(t, "shuffle") == 0)
	c.Probe = rapid.IntRange(0, 50).Draw(t, "probe")
	return c
}

func TestC10(t *testing.T) {
	pbt.Run(t, "C10", "contract-heavy block trees of 6-24 blocks: two contract codes are registered repeatedly on every branch (common ancestor, abandoned branch, adopted branch); same oracle (contract table raw value = first registration on the main chain)",
		pbt.Options{Sub: "contracts", Checks: pbt.Per(150, 24000)}, c10GenContracts, c10Exec)
	pbt.Run(t, "C10", "block trees of 5-40 valid blocks (spends, coinbase spends, votes, vetoes, contract registrations, issuances; optional justifying signatures in checkpoint headers) delivered parents-first or shuffled; after every delivery the node's unspent set with constraint heights and its contract table equal the model fold of its main chain; then probe blocks (veto at/inside lock, immature coinbase, double spend...) get the same verdict from the history node, a fresh node fed only the main chain, and the model; non-trivial = a reorganisation detached a block spending a coinbase or vote output",
		pbt.Options{Checks: pbt.Per(150, 24000), MinClass: map[string]int{"reorg-detaches-coinbase-or-vote-spend": 3}}, histGen(c10Opt), c10Exec)
}

var _ = state.Justified
