package chaincheck

import (
	"bytes"
	"encoding/json"
	"fmt"
	"testing"

	"pgregory.net/rapid"

	"github.com/bytom/bytom/database"
	"github.com/bytom/bytom/protocol/state"

	ck "verifharness/chainkit"
	"verifharness/pbt"
)

// C19: if the process stops after any prefix of its storage writes, the node restarts
// without error into a state a crash-free node passed through, and re-delivering the
// blocks and votes leads to the crash-free final state.
//
// Fault enumeration: a crash-free reference run counts the storage writes W of the
// history (after genesis initialisation); then for every k in [0, W] (all of them for
// short histories, an evenly spread sample plus all event boundaries +-1 for long
// ones) the history is re-run on a database that silently drops every write after the
// k-th, the running objects are abandoned and a new chain is opened on what was written.

type c19Case struct {
	Tree   ck.TreeDesc `json:"tree"`
	Events []ev        `json:"events"`
	// Only: when non-empty, crash only at these write counts (replay of a shrunk case)
	Only []int `json:"only,omitempty"`
}

var c19Opt = evGenOpt{
	Tree:      ck.GenOpt{MinBlocks: 5, MaxBlocks: 12, Epochs: []uint64{2, 3}, Validators: []int{1, 3, 4}, Txs: true, Sup: true},
	Votes:     true,
	MaxEvents: 6,
}

func c19Gen(t *rapid.T) c19Case {
	e := evGen(c19Opt)(t)
	return c19Case{Tree: e.Tree, Events: e.Events}
}

type c19Snap struct {
	best, fin int
	writes    int
}

func c19RunOn(c c19Case, w *ck.World, nOrig int, db *ck.CrashDB, stopWhenCrashed bool, script []resolvedEv) (*hist, []c19Snap, error) {
	return c19RunOnHook(c, w, nOrig, db, stopWhenCrashed, script, nil)
}

func c19RunOnHook(c c19Case, w *ck.World, nOrig int, db *ck.CrashDB, stopWhenCrashed bool, script []resolvedEv, started func(*ck.Node)) (*hist, []c19Snap, error) {
	n, err := ck.NewNode(w, db)
	if err != nil {
		return nil, nil, fmt.Errorf("HARNESS: cannot start node: %v", err)
	}
	if started != nil {
		started(n)
	}
	h := &hist{w: w, n: n, delivered: map[int]bool{0: true}, ffg: newFFG(w), script: script}
	for i := 1; i < nOrig; i++ {
		h.remaining = append(h.remaining, i)
	}
	var snaps []c19Snap
	for k, e := range c.Events {
		if _, err := h.step(e); err != nil {
			return h, snaps, fmt.Errorf("event %d: %w", k, err)
		}
		fin, err := h.finalizedIdx()
		if err != nil {
			fin = -1
		}
		snaps = append(snaps, c19Snap{best: h.n.BestIdx(), fin: fin, writes: db.Writes()})
		if stopWhenCrashed && db.Crashed() {
			break
		}
	}
	return h, snaps, nil
}

func c19Exec(c c19Case, x *pbt.Ctx) error {
	w := ck.Build(c.Tree)
	nOrig := len(w.Blocks) // probe blocks appended later are never part of the history
	probeChild := -1
	// crash-free reference run
	refDB := ck.NewCrashDB(ck.NewMemDB())
	ref, err := ck.NewNode(w, refDB) // genesis initialisation
	if err != nil {
		return fmt.Errorf("HARNESS: %v", err)
	}
	ref.Close()
	base := refDB.Writes()
	refDB2 := ck.NewCrashDB(ck.NewMemDB())
	// best blocks the crash-free node reports between two commits of one event (one delivery can
	// attach a parent and its waiting orphans one after another: each is best for a moment)
	midBest := map[int]bool{}
	var refNode *ck.Node
	midFin := map[int]bool{}
	refDB2.OnWrite = func() {
		if refNode != nil {
			midBest[refNode.BestIdx()] = true
		}
		// finalized checkpoints between two commits, read from the records themselves (the engine's
		// lock is held by the writer at this point)
		it := refDB2.DB.IteratorPrefix([]byte{6, ':'})
		defer it.Release()
		for it.Next() {
			cp := &state.Checkpoint{}
			if json.Unmarshal(it.Value(), cp) == nil && cp.Status == state.Finalized {
				if i, ok := w.ByHash[cp.Hash]; ok {
					midFin[i] = true
				}
			}
		}
	}
	hRef, snaps, err := c19RunOnHook(c, w, nOrig, refDB2, false, nil, func(n *ck.Node) { refNode = n })
	refDB2.OnWrite = nil
	if err != nil {
		return fmt.Errorf("HARNESS: crash-free run failed: %v", err)
	}
	defer hRef.n.Close()
	total := refDB2.Writes()
	if len(snaps) == 0 {
		return nil
	}
	final := snaps[len(snaps)-1]
	refLedgerU, refLedgerC, err := readLedger(hRef.n)
	if err != nil {
		return err
	}
	bestSeen := map[int]bool{0: true}
	finSeen := map[int]bool{0: true}
	boundary := map[int]bool{base: true}
	for b := range midBest {
		if b >= 0 {
			bestSeen[b] = true
		}
	}
	for f := range midFin {
		finSeen[f] = true
	}
	for _, s := range snaps {
		bestSeen[s.best] = true
		finSeen[s.fin] = true
		boundary[s.writes] = true
	}

	// crash points
	var ks []int
	switch {
	case len(c.Only) > 0:
		ks = c.Only
	case total-base <= 80 || pbt.Thorough():
		for k := base; k <= total; k++ {
			ks = append(ks, k)
		}
	default:
		step := (total - base) / 40
		if step < 1 {
			step = 1
		}
		pick := map[int]bool{}
		for k := base; k <= total; k += step {
			pick[k] = true
		}
		for b := range boundary {
			for d := -1; d <= 1; d++ {
				if b+d >= base && b+d <= total {
					pick[b+d] = true
				}
			}
		}
		for k := base; k <= total; k++ {
			if pick[k] {
				ks = append(ks, k)
			}
		}
	}
	x.Class("crash-points-%d+", (len(ks)/20)*20)
	inner := 0
	for _, k := range ks {
		if !boundary[k] {
			inner++
		}
		db := ck.NewCrashDB(ck.NewMemDB())
		db.Arm(k)
		var log []string
		db.Log = &log
		h, _, rerr := c19RunOn(c, w, nOrig, db, true, hRef.trace)
		_ = rerr // after the crash point the abandoned process may report anything
		if h == nil {
			return fmt.Errorf("HARNESS: node could not start under crash point %d", k)
		}
		h.n.Stop()
		db.Log = nil
		db.Disarm()
		where := fmt.Sprintf("crash after write %d of %d (%d belong to genesis initialisation); last writes: %v", k, total, base, tail(log, k, 4))
		// what the stored chain status says before the node starts again
		statusBest := 0
		if st := database.NewStore(db).GetStoreStatus(); st != nil && st.Hash != nil {
			if i, ok := w.ByHash[*st.Hash]; ok {
				statusBest = i
			}
		}
		// (1) restart
		if err := h.n.Restart(); err != nil {
			return fmt.Errorf("%s: restart fails: %v", where, err)
		}
		n := h.n
		// (2) a state the crash-free run passed through, internally consistent
		best := n.BestIdx()
		// "a state a crash-free node passed through": the best block is one the crash-free run had, or
		// an ancestor of one (the main chain of a crash-free node that has seen fewer of the blocks;
		// one delivery can attach several blocks at once, e.g. a parent and its waiting orphans)
		okBest := false
		for b := range bestSeen {
			if best >= 0 && w.IsAncestor(best, b) {
				okBest = true
			}
		}
		if !okBest && best >= 0 {
			// ... or the best chain of a crash-free node that has been given exactly the connected
			// blocks this node has in its store (blocks that were waiting as orphans are lost with the
			// process, so the restarted node can know fewer blocks than any state of the crash-free
			// run of this delivery order): fork choice over the stored blocks, with the node's own
			// justification records and finalized checkpoint
			stored := map[int]bool{0: true}
			for i := 1; i < nOrig; i++ {
				if n.Has(i) {
					connected := true
					for k := i; k != 0; k = w.Blocks[k].Parent {
						if !n.Has(k) {
							connected = false
						}
					}
					if connected {
						stored[i] = true
					}
				}
			}
			hx := &hist{w: w, n: n}
			// (only if every checkpoint record belongs to a stored block: justification or finality taken
			// from a block the node does not have is no state of a crash-free node, see the known finding)
			if fin, ferr := hx.finalizedIdx(); ferr == nil && finSeen[fin] && checkpointRecordWithoutBlock(n, nOrig) < 0 {
				fc := forkChoice(w, stored, fin, hx.nodeJustified)
				// what the finality engine can know at start-up: the stored checkpoint blocks with their
				// ancestors, and the chain the stored status points at (the checkpoint of a running epoch
				// is kept in memory only and is not rebuilt from the stored blocks)
				visible := map[int]bool{0: true}
				for i := range stored {
					if w.Blocks[i].Block.Height%w.P.Epoch == 0 || i == statusBest {
						for k := i; k != 0; k = w.Blocks[k].Parent {
							visible[k] = true
						}
					}
				}
				switch {
				case best == fc:
					okBest = true
					x.Class("restart-best-is-fork-choice-over-stored-blocks")
				case stored[fc] && !visible[fc] && best == forkChoice(w, visible, fin, hx.nodeJustified):
					// known finding (same cause as after re-delivery below): the winner among the stored
					// blocks lies in a running epoch, which start-up does not look at
					okBest = true
					x.Known("winner-stored-before-crash-not-adopted")
					x.Class("restart-ignores-stored-blocks-of-the-running-epoch")
				default:
					where += fmt.Sprintf(" [stored connected blocks %v: fork choice over them is #%d]", keys(stored), fc)
				}
			}
		}
		if !okBest {
			// known finding: casper persists what a block's header signatures do to the checkpoints
			// (justify the block's checkpoint, finalize its source, prune the other branches) before
			// the block itself is stored.  A crash in between leaves that finality without the block;
			// the restarted node then follows the fork choice under it and may pick a block the
			// crash-free node never had as best.  Matched only if exactly that happened: a checkpoint
			// record without its block, a finalized checkpoint the crash-free run also reached, and a
			// best block below it.  Everything else (index, ledger, convergence) is still judged.
			orphanRecord := checkpointRecordWithoutBlock(n, nOrig)
			hx := &hist{w: w, n: n}
			fin, ferr := hx.finalizedIdx()
			if orphanRecord < 0 || ferr != nil || !finSeen[fin] || best < 0 || !w.IsAncestor(fin, best) {
				n.Close()
				return fmt.Errorf("%s: restarted node has best block #%d, which is on none of the main chains the crash-free run had (its best blocks: %v); last finalized #%d (%v; crash-free run: %v), checkpoint record without block: #%d", where, best, keys(bestSeen), fin, ferr, keys(finSeen), orphanRecord)
			}
			x.Known("checkpoint-effects-stored-before-block")
		}
		if err := checkIndex(n, where+": after restart"); err != nil {
			n.Close()
			return err
		}
		if err := checkLedgerAgainstModel(n, best, where+": after restart"); err != nil {
			n.Close()
			return err
		}
		storedAtRestart := map[int]bool{}
		for i := 0; i < nOrig; i++ {
			storedAtRestart[i] = n.Has(i)
		}
		// the re-delivery shows the node exactly the blocks and messages of the crash-free run (the
		// selectors of vote events are not resolved again against what this node happens to store)
		hh := &hist{w: w, n: n, delivered: map[int]bool{0: true}, ffg: newFFG(w), script: hRef.trace}
		fin, err := hh.finalizedIdx()
		if err != nil {
			n.Close()
			return fmt.Errorf("%s: after restart: %v", where, err)
		}
		if !finSeen[fin] || !w.IsAncestor(fin, best) {
			n.Close()
			return fmt.Errorf("%s: after restart the last finalized checkpoint is #%d (crash-free run: %v) and the best block is #%d", where, fin, keys(finSeen), best)
		}
		// (3) re-deliver everything: converge to the crash-free final state
		for i := 1; i < nOrig; i++ {
			hh.remaining = append(hh.remaining, i)
		}
		for kk, e := range c.Events {
			d, err := hh.step(e)
			if err != nil {
				n.Close()
				return fmt.Errorf("%s: re-delivery event %d: %v", where, kk, err)
			}
			hh.desc = append(hh.desc, fmt.Sprintf("%d: %s", kk, d))
		}
		where += "\nre-delivery:\n  " + joinLines(hh.desc) + "\n"
		if got := n.BestIdx(); got != final.best {
			// the winner is in the store (it was saved before the crash point) and not higher than the
			// restarted node's best block, which is exactly when ProcessBlock answers "already processed"
			// ... or the node's best block is an ancestor of the winner: a justification arriving after
			// the restart rolls the chain back to the justified checkpoint itself, because the stored
			// descendants of that checkpoint are not in casper's tree either
			tie := got >= 0 && storedAtRestart[final.best] && (w.Blocks[got].Block.Height >= w.Blocks[final.best].Block.Height || w.IsAncestor(got, final.best))
			if !tie {
				n.Close()
				return fmt.Errorf("%s: after re-delivering all blocks and votes the best block is #%d, the crash-free run ends at #%d", where, got, final.best)
			}
			// known finding: the crash-free winner (by hash tie-break or by justification) was stored
			// before the crash but the chain status did not follow; its re-delivery is answered
			// "already processed" and the fork choice is not re-evaluated.  The node must still
			// converge as soon as the winner's branch grows.
			x.Known("winner-stored-before-crash-not-adopted")
			if probeChild < 0 {
				probeChild = w.Add(ck.BlockDesc{Parent: final.best})
			}
			child := probeChild
			if _, err := n.Deliver(child); err != nil || n.BestIdx() != child {
				n.Close()
				return fmt.Errorf("%s: even after a further block #%d on top of the crash-free best block #%d the node stays at #%d (%v)", where, child, final.best, n.BestIdx(), err)
			}
			n.Close()
			continue
		}
		fin2, err := hh.finalizedIdx()
		if err != nil || fin2 != final.fin {
			n.Close()
			return fmt.Errorf("%s: after re-delivery the last finalized checkpoint is #%d (%v), the crash-free run ends with #%d", where, fin2, err, final.fin)
		}
		gu, gc, err := readLedger(n)
		if err != nil {
			n.Close()
			return err
		}
		if err := diffLedger(where+": after re-delivery the ledger differs from the crash-free run", gu, refLedgerU, gc, refLedgerC); err != nil {
			n.Close()
			return err
		}
		if err := checkIndex(n, where+": after re-delivery"); err != nil {
			n.Close()
			return err
		}
		n.Close()
	}
	x.Class("inner-crash-points-%d+", (inner/20)*20)
	x.Count("crash_points_executed", len(ks))
	x.Count("crash_points_between_commits_of_one_event", inner)
	x.NonTrivial = inner > 0
	x.Sample = map[string]interface{}{"blocks": len(c.Tree.Blocks), "events": len(c.Events), "writes": total - base, "crash_points": len(ks), "between_commits_of_one_event": inner}
	return nil
}

// checkpointRecordWithoutBlock scans the raw checkpoint records (key = prefix, height, block hash)
// for one whose block the node does not have; -1 if there is none.
func checkpointRecordWithoutBlock(n *ck.Node, nOrig int) int {
	prefix := []byte{6, ':'}
	it := n.DB.IteratorPrefix(prefix)
	defer it.Release()
	found := -1
	for it.Next() {
		k := it.Key()
		if len(k) != len(prefix)+8+32 {
			continue
		}
		for i := 1; i < nOrig; i++ {
			h := n.W.Hash(i)
			if bytes.Equal(k[len(prefix)+8:], h.Bytes()) && !n.Has(i) {
				found = i
			}
		}
	}
	return found
}

func tail(log []string, k, n int) []string {
	if k > len(log) {
		k = len(log)
	}
	lo := k - n
	if lo < 0 {
		lo = 0
	}
	hi := k + 1
	if hi > len(log) {
		hi = len(log)
	}
	return log[lo:hi]
}

func keys(m map[int]bool) []int {
	var out []int
	for k := range m {
		out = append(out, k)
	}
	return out
}

func TestC19(t *testing.T) {
	pbt.Run(t, "C19", "histories of 5-12 blocks (forks, reorganisations, transactions, block-carried links) and up to 6 vote bursts; a crash-free run counts the storage writes W; for every crash point k in [0,W] (all for short histories and in the thorough tier, else ~40 evenly spread plus every event boundary +-1) the history is re-run on a database dropping all writes after k, then a new chain is opened: it must start, be a consistent state the crash-free run passed through (best block, index, ledger = model, finalized checkpoint), and converge to the crash-free final state after re-delivery; non-trivial = a case with crash points strictly between two commits of one event",
		pbt.Options{Journal: true, Checks: pbt.Per(14, 2400), MaxSamples: 8}, c19Gen, c19Exec)
}
