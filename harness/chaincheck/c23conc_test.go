package chaincheck

import (
	"fmt"
	"runtime"
	"sync"
	"sync/atomic"
	"testing"

	"pgregory.net/rapid"

	"github.com/bytom/bytom/protocol/bc"
	"github.com/bytom/bytom/protocol/bc/types"

	ck "verifharness/chainkit"
	"verifharness/pbt"
)

// C23, sub-check "concurrent": the transactions of the blocks are submitted again and again by
// other goroutines (peers relaying them) while the blocks that confirm them are being connected.
// Once everything has returned, no pooled transaction may be in a main-chain block.
//
// Why this must hold whatever the interleaving: the pool checks a submitted transaction's inputs
// against the store and inserts it under one hold of the pool lock, and the chain removes a
// block's transactions from the pool after the chain status (with the spent outputs) is committed;
// a submission either sees the outputs unspent and is inserted before the removal runs, or sees
// them spent.  The interleaving is the scheduler's; a failure need not reproduce on replay.

type c23ConcCase struct {
	Tree       ck.TreeDesc `json:"tree"`
	Submitters int         `json:"submitters"`
	Yield      int         `json:"yield"` // deliverer yields this often between blocks
}

var c23ConcTree = ck.GenOpt{MinBlocks: 6, MaxBlocks: 16, Epochs: []uint64{3, 4}, Validators: []int{1, 3}, Txs: true}

func c23ConcGen(t *rapid.T) c23ConcCase {
	c := c23ConcCase{Tree: ck.GenTree(t, c23ConcTree), Submitters: rapid.IntRange(1, 3).Draw(t, "submitters"), Yield: rapid.IntRange(0, 3).Draw(t, "yield")}
	for i := range c.Tree.Blocks {
		for k := rapid.IntRange(1, 3).Draw(t, "nspend"); k > 0; k-- {
			c.Tree.Blocks[i].Txs = append(c.Tree.Blocks[i].Txs, ck.TxDesc{Kind: "spend", Pick: []int{rapid.IntRange(0, 30).Draw(t, "p0"), rapid.IntRange(0, 30).Draw(t, "p1")}, N: rapid.IntRange(0, 2).Draw(t, "n")})
		}
	}
	return c
}

func c23ConcExec(c c23ConcCase, x *pbt.Ctx) error {
	if c.Submitters < 1 || c.Submitters > 4 {
		return nil
	}
	c.Tree.Params.NodeKey = -1
	w := ck.Build(c.Tree)
	n, err := ck.NewNode(w, ck.NewMemDB())
	if err != nil {
		return fmt.Errorf("HARNESS: cannot start node: %v", err)
	}
	// Close (which lets the database go) only once every submitter has returned; on an early error
	// return they may still be inside the pool, then the node is only stopped
	joined := false
	defer func() {
		if joined {
			n.Close()
		} else {
			n.Stop()
		}
	}()
	var raws [][]byte
	for i := 1; i < len(w.Blocks); i++ {
		for _, tx := range w.Blocks[i].Block.Transactions[1:] {
			raw, _ := tx.MarshalText()
			raws = append(raws, raw)
		}
	}
	if len(raws) == 0 {
		return nil
	}
	var done atomic.Bool
	var wg sync.WaitGroup
	var submissions atomic.Uint64
	var panicMu sync.Mutex
	var panicked error
	for s := 0; s < c.Submitters; s++ {
		wg.Add(1)
		go func(s int) {
			defer wg.Done()
			defer func() {
				if p := recover(); p != nil {
					panicMu.Lock()
					panicked = fmt.Errorf("submitter %d panicked: %v", s, p)
					panicMu.Unlock()
				}
			}()
			for k := s; !done.Load(); k++ {
				cp := &types.Tx{}
				if err := cp.UnmarshalText(raws[k%len(raws)]); err != nil {
					return
				}
				n.Chain.ValidateTx(cp)
				submissions.Add(1)
			}
		}(s)
	}
	var derr error
	_, hung, dump := callWithWatchdog(90e9, func() error {
		for i := 1; i < len(w.Blocks); i++ {
			if _, err := n.Deliver(i); err != nil && w.Blocks[i].State.Valid && w.Blocks[i].HdrBad == "" {
				derr = fmt.Errorf("valid block #%d refused while transactions were being submitted: %v", i, err)
				return nil
			}
			for k := 0; k < c.Yield; k++ {
				runtime.Gosched()
			}
		}
		return nil
	})
	done.Store(true)
	if hung {
		return hangError("delivering the blocks while transactions are submitted", dump)
	}
	wg.Wait()
	joined = true
	if panicked != nil {
		return panicked
	}
	if derr != nil {
		return derr
	}
	h := &hist{w: w, n: n}
	if err := h.settle("the concurrent deliveries"); err != nil {
		return err
	}
	best := n.BestIdx()
	if best < 0 {
		return fmt.Errorf("best block is not a block of the world")
	}
	onMain := map[bc.Hash]int{}
	for _, i := range w.Path(best) {
		for _, tx := range w.Blocks[i].Block.Transactions[1:] {
			onMain[tx.ID] = i
		}
	}
	poolTxs := n.Pool.GetTransactions()
	for _, td := range poolTxs {
		if blk, ok := onMain[td.Tx.ID]; ok {
			if c23TwinShape(w, best, td.Tx, poolTxs) {
				x.Known("confirmed-tx-readmitted-through-twin-output")
				continue
			}
			return fmt.Errorf("after %d blocks were delivered while %d goroutines kept submitting their transactions (%d submissions): transaction %s is in the pool and in main-chain block #%d (height %d)", len(w.Blocks)-1, c.Submitters, submissions.Load(), td.Tx.ID.String(), blk, w.Blocks[blk].Block.Height)
		}
	}
	x.Class("concurrent/submitters-%d", c.Submitters)
	x.Count("concurrent_submissions", int(submissions.Load()))
	x.NonTrivial = submissions.Load() > uint64(len(raws)) && len(onMain) > 0
	return nil
}

func TestC23Concurrent(t *testing.T) {
	pbt.Run(t, "C23", "block trees of 6-16 blocks with 1-3 extra spends per block; 1-3 goroutines submit copies of all their transactions over and over (Chain.ValidateTx) while another delivers the blocks in order; after all calls have returned no pooled transaction may be in a main-chain block; scheduler-chosen interleaving; non-trivial = more submissions than transactions and at least one transaction confirmed; distinct = case JSON",
		pbt.Options{Sub: "concurrent", Journal: true, Checks: pbt.Per(400, 6000)}, c23ConcGen, c23ConcExec)
}
