package chaincheck

import (
	"fmt"
	"testing"

	"pgregory.net/rapid"

	ck "verifharness/chainkit"
	"verifharness/pbt"
)

// C12, sub-check "pool-limit": the pool of waiting blocks holds 256 blocks; when one more arrives
// the oldest is dropped.  Tree: genesis <- P <- 2-3 siblings, and 250-262 further blocks that are
// children of one of the siblings.  Everything but P is delivered first, in a generated order of the
// siblings and with the further blocks before, between or after them, so that the limit is reached
// or passed by a few blocks and one or more of the early blocks are dropped; then P; then every
// block is delivered once more in index order, as a peer asked for the missing blocks would.
// Oracle: in the end every block is stored and the best block is one of the deepest; and right
// after P arrived, every sibling that was still waiting is connected.

type c12Limit struct {
	Siblings int   `json:"siblings"` // 2..3
	Under    int   `json:"under"`    // which sibling gets the further blocks
	Further  int   `json:"further"`  // 250..262
	Order    []int `json:"order"`    // position selectors of the siblings among the further blocks
}

func c12LimitGen(t *rapid.T) c12Limit {
	s := rapid.IntRange(2, 3).Draw(t, "siblings")
	c := c12Limit{Siblings: s, Under: rapid.IntRange(0, s-1).Draw(t, "under"), Further: rapid.IntRange(250, 262).Draw(t, "further")}
	for i := 0; i < s; i++ {
		c.Order = append(c.Order, rapid.SampledFrom([]int{0, 0, 1, 2, 5, 100, 254, 255, 256, 300}).Draw(t, "pos"))
	}
	return c
}

func c12LimitExec(c c12Limit, x *pbt.Ctx) error {
	if c.Siblings < 2 || c.Siblings > 3 || c.Under < 0 || c.Under >= c.Siblings || c.Further < 1 || c.Further > 300 || len(c.Order) != c.Siblings {
		return nil
	}
	td := ck.TreeDesc{Params: ck.Params{Epoch: 1000, Validators: 1, NodeKey: -1}}
	td.Blocks = append(td.Blocks, ck.BlockDesc{Parent: 0}) // P = #1
	for i := 0; i < c.Siblings; i++ {
		td.Blocks = append(td.Blocks, ck.BlockDesc{Parent: 1}) // #2..
	}
	under := 2 + c.Under
	for i := 0; i < c.Further; i++ {
		td.Blocks = append(td.Blocks, ck.BlockDesc{Parent: under})
	}
	w := ck.Build(td)
	n, err := ck.NewNode(w, ck.NewMemDB())
	if err != nil {
		return fmt.Errorf("HARNESS: cannot start node: %v", err)
	}
	defer n.Close()
	// delivery order of everything but P
	firstFurther := 2 + c.Siblings
	var order []int
	for i := 0; i < c.Further; i++ {
		order = append(order, firstFurther+i)
	}
	for s := 0; s < c.Siblings; s++ {
		pos := c.Order[s]
		if pos < 0 {
			pos = -pos
		}
		if pos > len(order) {
			pos = len(order)
		}
		order = append(order[:pos], append([]int{2 + s}, order[pos:]...)...)
	}
	deliver := func(i int) error {
		var derr error
		_, hung, dump := callWithWatchdog(callLimit, func() error { _, derr = n.Deliver(i); return nil })
		if hung {
			return hangError(fmt.Sprintf("ProcessBlock(block #%d)", i), dump)
		}
		if derr != nil {
			return fmt.Errorf("valid block #%d refused: %v", i, derr)
		}
		return nil
	}
	for _, i := range order {
		if err := deliver(i); err != nil {
			return err
		}
	}
	// which siblings are still waiting: the pool keeps the 256 youngest arrivals
	waiting := map[int]bool{}
	for k, i := range order {
		if len(order)-k <= 256 && i < firstFurther {
			waiting[i] = true
		}
	}
	if err := deliver(1); err != nil {
		return err
	}
	for i := range waiting {
		if !n.Has(i) {
			return fmt.Errorf("block #%d (a child of #1) was among the 256 blocks delivered last and waiting when its parent #1 arrived, but it was not connected (%d siblings, %d further blocks under #%d, order of arrival of the first blocks: %v)", i, c.Siblings, c.Further, under, order[:minInt(8, len(order))])
		}
	}
	for i := 1; i < len(w.Blocks); i++ {
		if err := deliver(i); err != nil {
			return err
		}
	}
	for i := 1; i < len(w.Blocks); i++ {
		if !n.Has(i) {
			return fmt.Errorf("after every block was delivered once more in index order, block #%d (parent #%d) is still not stored (%d siblings, %d further blocks under #%d)", i, w.Blocks[i].Parent, c.Siblings, c.Further, under)
		}
	}
	if best := n.BestIdx(); best < firstFurther {
		return fmt.Errorf("all %d blocks are stored but the best block is #%d (height %d), not one of the blocks at height 3", len(w.Blocks)-1, best, w.Blocks[best].Block.Height)
	}
	if len(order) > 256 {
		x.Class("pool-limit/passed-by-%d", len(order)-256)
	} else {
		x.Class("pool-limit/not-reached")
	}
	if len(waiting) < c.Siblings {
		x.Class("pool-limit/a-sibling-was-dropped")
	}
	x.NonTrivial = len(order) > 256 && len(waiting) < c.Siblings
	return nil
}

func minInt(a, b int) int {
	if a < b {
		return a
	}
	return b
}

func TestC12Limit(t *testing.T) {
	pbt.Run(t, "C12", "tree genesis <- P <- 2-3 siblings with 250-262 further blocks under one sibling; everything but P delivered first with the siblings inserted at generated positions (start, near 255-256, end) among the further blocks, so that the 256-block limit of the waiting pool is reached or passed and early arrivals are dropped; then P; then every block once more in index order; oracle: siblings still waiting when P arrives are connected at once, in the end every block is stored and the best block is at height 3; non-trivial = the limit was passed and a sibling dropped; distinct = case JSON",
		pbt.Options{Sub: "pool-limit", Checks: pbt.Per(12, 600)}, c12LimitGen, c12LimitExec)
}
