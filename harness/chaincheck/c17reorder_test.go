package chaincheck

import (
	"fmt"
	"testing"

	"pgregory.net/rapid"

	"github.com/bytom/bytom/protocol/state"

	ck "verifharness/chainkit"
	"verifharness/pbt"
)

// C17, sub-check "reorder": the validator set changes inside an epoch whose checkpoint is never
// justified, and the next checkpoint is voted for on a link that skips it (genesis -> cp2).  The
// validators entitled to vote on cp2 are those of cp2's parent epoch (cp1), not those at the
// link's source.  The same votes travel in cp2's header, as verification messages, or both; keys
// that are validators at the source but not in the parent epoch vote too.  cp2 is justified
// exactly when distinct validators of the parent epoch with valid signatures exceed two thirds.

type c17Reorder struct {
	N      int         `json:"n"`     // federation size
	Epoch  int         `json:"epoch"` // 2..4
	Votes  []ck.TxDesc `json:"votes"` // vote transactions in the first epoch
	Mask   int         `json:"mask"`  // which validators of cp2's list sign genesis -> cp2
	Mode   int         `json:"mode"`  // 0 messages, 1 header, 2 header then messages, 3 messages for half, header for all
	Ex     int         `json:"ex"`    // how many federation keys that are NOT in cp2's list send a message too
	ExLast bool        `json:"ex_last"`
}

func c17ReorderGen(t *rapid.T) c17Reorder {
	c := c17Reorder{N: rapid.IntRange(2, 6).Draw(t, "n"), Epoch: rapid.IntRange(2, 4).Draw(t, "epoch")}
	nv := rapid.IntRange(1, 5).Draw(t, "nvotes")
	for i := 0; i < nv; i++ {
		c.Votes = append(c.Votes, ck.TxDesc{Kind: "vote", Pick: []int{rapid.IntRange(0, 11).Draw(t, "pick")},
			N: rapid.IntRange(0, 9).Draw(t, "key"), Amt: rapid.IntRange(0, 3).Draw(t, "amt")})
	}
	c.Mask = rapid.IntRange(1, 1023).Draw(t, "mask")
	if rapid.Bool().Draw(t, "near") {
		c.Mask = (1 << uint(rapid.IntRange(1, 6).Draw(t, "k"))) - 1 // the first k validators
	}
	c.Mode = rapid.IntRange(0, 3).Draw(t, "mode")
	c.Ex = rapid.IntRange(0, 3).Draw(t, "ex")
	c.ExLast = rapid.Bool().Draw(t, "exlast")
	return c
}

func c17ReorderExec(c c17Reorder, x *pbt.Ctx) error {
	if c.N < 1 || c.N > 10 || c.Epoch < 2 || c.Epoch > 5 || len(c.Votes) > 8 {
		return nil
	}
	p := ck.Params{Epoch: uint64(c.Epoch), Validators: c.N, NodeKey: -1}
	cp1, cp2 := c.Epoch, 2*c.Epoch
	// first pass without signatures to learn who may vote on cp2
	build := func(sup []ck.SupDesc) *ck.World {
		td := ck.TreeDesc{Params: p}
		for i := 0; i < 2*c.Epoch+1; i++ {
			bd := ck.BlockDesc{Parent: i}
			if i < c.Epoch-1 {
				// vote transactions are spread over the blocks before the first checkpoint block
				for k, v := range c.Votes {
					if k%(c.Epoch-1) == i {
						bd.Txs = append(bd.Txs, v)
					}
				}
			}
			if i+1 == cp2 {
				bd.Sup = sup
			}
			td.Blocks = append(td.Blocks, bd)
		}
		return ck.Build(td)
	}
	w0 := build(nil)
	vals := w0.ValidatorsFor(cp2)
	atSource := w0.P.EffectiveValidators(w0.Blocks[0].State.Last)
	changed := len(vals) != len(atSource)
	for i := range vals {
		if i < len(atSource) && vals[i] != atSource[i] {
			changed = true
		}
	}
	var signers []int
	for s := range vals {
		if c.Mask&(1<<uint(s)) != 0 {
			signers = append(signers, s)
		}
	}
	var sup []ck.SupDesc
	if c.Mode >= 1 {
		for _, s := range signers {
			sup = append(sup, ck.SupDesc{Validator: s, Source: 1}) // source two checkpoints back: genesis
		}
	}
	w := build(sup)
	if fmt.Sprint(w.ValidatorsFor(cp2)) != fmt.Sprint(vals) {
		return fmt.Errorf("HARNESS: header signatures changed the validator list")
	}
	n, err := ck.NewNode(w, ck.NewMemDB())
	if err != nil {
		return fmt.Errorf("HARNESS: cannot start node: %v", err)
	}
	h := &hist{w: w, n: n, delivered: map[int]bool{0: true}, ffg: newFFG(w)}
	defer n.Close()
	for i := 1; i < len(w.Blocks); i++ {
		h.remaining = append(h.remaining, i)
	}
	for i := 1; i <= cp2; i++ {
		if _, err := h.step(ev{K: "b"}); err != nil {
			return err
		}
	}
	send := func(key int) error {
		msg := w.Vote(key, 0, cp2)
		var verr error
		_, hung, dump := callWithWatchdog(callLimit, func() error { verr = n.Chain.ProcessBlockVerification(msg); return nil })
		if hung {
			return hangError("ProcessBlockVerification", dump)
		}
		_ = verr // whatever the node answers, the judgement is about what ends up justified
		h.ffg.observe(msg.PubKey, 0, cp2, msg.Signature)
		return nil
	}
	// keys entitled at the source (the federation) but not in the parent epoch
	var ex []int
	for _, pub := range atSource {
		in := false
		for _, v := range vals {
			in = in || v == pub
		}
		if !in && len(ex) < c.Ex {
			ex = append(ex, ck.KeyIndex(pub))
		}
	}
	if !c.ExLast {
		for _, k := range ex {
			if err := send(k); err != nil {
				return err
			}
		}
	}
	if c.Mode != 1 {
		for i, s := range signers {
			if c.Mode == 3 && i%2 == 1 {
				continue
			}
			if err := send(ck.KeyIndex(vals[s])); err != nil {
				return err
			}
		}
	}
	if c.ExLast {
		for _, k := range ex {
			if err := send(k); err != nil {
				return err
			}
		}
	}
	if err := h.settle("the votes"); err != nil {
		return err
	}
	if _, err := h.step(ev{K: "b"}); err != nil { // first block of the next epoch
		return err
	}
	want := h.ffg.supermajority(0, cp2)
	st, ok := checkpointStatus(n, cp2)
	got := ok && (st == state.Justified || st == state.Finalized)
	desc := fmt.Sprintf("federation of %d, epoch %d, validators of the parent epoch %v (at the source: %v), signers %v of them, mode %d, %d messages from keys outside the parent epoch's list", c.N, c.Epoch, keyNames(vals), keyNames(atSource), signers, c.Mode, len(ex))
	if got != want {
		return fmt.Errorf("%s: checkpoint at height %d justified=%v, but distinct valid signatures of the parent epoch's validators on genesis->cp2 are %d of %d (supermajority=%v)", desc, cp2, got, len(h.ffg.sigs[cp2][0]), len(vals), want)
	}
	if st1, ok := checkpointStatus(n, cp1); ok && st1 != state.Unjustified && st1 != state.Growing {
		return fmt.Errorf("%s: the skipped checkpoint at height %d has status %d", desc, cp1, st1)
	}
	if changed {
		x.Class("reorder/validator-list-differs-from-source")
	}
	if len(ex) > 0 {
		x.Class("reorder/ex-validators-vote")
	}
	x.Class("reorder/mode-%d", c.Mode)
	if want {
		x.Class("reorder/justified")
	} else {
		x.Class("reorder/not-justified")
	}
	x.NonTrivial = changed
	return checkFFGSound(h, x, "reorder scenario: "+desc)
}

func keyNames(l []string) []string {
	var out []string
	for _, k := range l {
		out = append(out, fmt.Sprintf("key%d", ck.KeyIndex(k)))
	}
	return out
}

func TestC17Reorder(t *testing.T) {
	pbt.Run(t, "C17", "reorder scenario: 1-5 vote transactions in the first epoch change the validator list (members and order) while its checkpoint stays unjustified; a generated subset of the parent epoch's validators signs the skipping link genesis -> cp2, carried in cp2's header, as messages, both, or half/half; up to 3 keys that are validators at the link's source but not in the parent epoch send messages too; cp2 must be justified exactly when distinct valid signatures of the parent epoch's validators exceed two thirds, the skipped checkpoint stays unjustified, and the soundness oracle holds; non-trivial = the validator list of the parent epoch differs from the one at the source",
		pbt.Options{Sub: "reorder", Checks: pbt.Per(300, 30000), MinClass: map[string]int{"reorder/validator-list-differs-from-source": 50, "reorder/justified": 20, "reorder/not-justified": 20}}, c17ReorderGen, c17ReorderExec)
}
