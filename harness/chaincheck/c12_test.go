package chaincheck

import (
	"fmt"
	"testing"

	"github.com/bytom/bytom/protocol/bc"
	"pgregory.net/rapid"

	ck "verifharness/chainkit"
	"verifharness/pbt"
)

// C12: blocks delivered in any order are all connected, nothing is left in the
// orphan pool, the result equals in-order delivery, and block processing never panics.

type c12Case struct {
	Tree  ck.TreeDesc `json:"tree"`
	Order []int       `json:"order"` // selector indexes, see chainkit.ApplyOrder
	Dups  []int       `json:"dups"`  // positions after which the block delivered there is delivered again
	// Exhaustive: ignore Order and run every permutation of the blocks (small trees only).
	Exhaustive bool `json:"exhaustive,omitempty"`
}

var c12Opt = ck.GenOpt{MinBlocks: 3, MaxBlocks: 24, Epochs: []uint64{3, 4, 5}, Validators: []int{1, 3, 4}, Txs: true}

func c12Gen(t *rapid.T) c12Case {
	c := c12Case{Tree: ck.GenTree(t, c12Opt)}
	c.Order = ck.GenOrder(t, len(c.Tree.Blocks), true)
	nd := rapid.IntRange(0, 2).Draw(t, "ndups")
	for i := 0; i < nd; i++ {
		c.Dups = append(c.Dups, rapid.IntRange(0, len(c.Tree.Blocks)-1).Draw(t, "dup"))
	}
	return c
}

// bushy small trees: many siblings on few parents
func c12GenSmall(t *rapid.T) c12Case {
	n := rapid.SampledFrom([]int{3, 4, 4, 5, 5, 5, 6}).Draw(t, "n")
	td := ck.TreeDesc{Params: ck.Params{Epoch: uint64(rapid.IntRange(3, 4).Draw(t, "epoch")), Validators: 3, NodeKey: -1}}
	for i := 0; i < n; i++ {
		td.Blocks = append(td.Blocks, ck.BlockDesc{Parent: rapid.IntRange(0, min(i, 2)).Draw(t, "parent"), Skip: rapid.IntRange(0, 3).Draw(t, "skip")})
	}
	return c12Case{Tree: td, Exhaustive: true}
}

func permutations(n int, f func([]int) error) error {
	p := make([]int, n)
	for i := range p {
		p[i] = i + 1
	}
	var rec func(k int) error
	rec = func(k int) error {
		if k == n {
			return f(p)
		}
		for i := k; i < n; i++ {
			p[k], p[i] = p[i], p[k]
			if err := rec(k + 1); err != nil {
				return err
			}
			p[k], p[i] = p[i], p[k]
		}
		return nil
	}
	return rec(0)
}

// siblingsBeforeParent counts the largest group of siblings all delivered before their common parent.
func siblingsBeforeParent(w *ck.World, order []int) int {
	pos := map[int]int{0: -1}
	for k, i := range order {
		pos[i] = k
	}
	groups := map[int]int{}
	for _, i := range order {
		par := w.Blocks[i].Parent
		if par != 0 && pos[i] < pos[par] {
			groups[par]++
		}
	}
	m := 0
	for _, v := range groups {
		if v > m {
			m = v
		}
	}
	return m
}

func c12RunOrder(w *ck.World, order []int, dups []int, ref *refResult) error {
	n, err := ck.NewNode(w, ck.NewMemDB())
	if err != nil {
		return fmt.Errorf("HARNESS: cannot start node: %v", err)
	}
	defer n.Close()
	for k, i := range order {
		if _, err := n.Deliver(i); err != nil {
			return fmt.Errorf("delivery %d of valid block #%d (height %d, parent #%d) in order %v returned an error: %v", k, i, w.Blocks[i].Block.Height, w.Blocks[i].Parent, order, err)
		}
		for _, d := range dups {
			if d == k {
				if _, err := n.Deliver(i); err != nil {
					return fmt.Errorf("re-delivery of block #%d returned an error: %v", i, err)
				}
			}
		}
	}
	known := map[int]bool{0: true}
	for i := 1; i < len(w.Blocks); i++ {
		known[i] = true
		if !n.Has(i) {
			return fmt.Errorf("after delivering every block in order %v, block #%d (height %d, parent #%d) is not connected", order, i, w.Blocks[i].Block.Height, w.Blocks[i].Parent)
		}
	}
	want := forkChoice(w, known, 0, func(int) bool { return false })
	if got := n.BestIdx(); got != want {
		return fmt.Errorf("order %v: best block is #%d (height %d), fork choice over the whole tree is #%d (height %d)", order, got, w.Blocks[max(got, 0)].Block.Height, want, w.Blocks[want].Block.Height)
	}
	if err := checkIndex(n, fmt.Sprintf("order %v", order)); err != nil {
		return err
	}
	if err := checkLedgerAgainstModel(n, want, fmt.Sprintf("order %v", order)); err != nil {
		return err
	}
	if ref != nil {
		gu, gc, err := readLedger(n)
		if err != nil {
			return err
		}
		if err := diffLedger(fmt.Sprintf("order %v: ledger differs from in-order delivery", order), gu, ref.utxos, gc, ref.contracts); err != nil {
			return err
		}
	}
	return nil
}

type refResult struct {
	utxos     map[bc.Hash]utxoRow
	contracts map[string]string
}

func c12Exec(c c12Case, x *pbt.Ctx) error {
	w := ck.Build(c.Tree)
	nb := len(w.Blocks) - 1
	if nb == 0 {
		return nil
	}
	if c.Exhaustive {
		if nb > 7 {
			return nil
		}
		count := 0
		maxSib := 0
		err := permutations(nb, func(p []int) error {
			count++
			if s := siblingsBeforeParent(w, p); s > maxSib {
				maxSib = s
			}
			return c12RunOrder(w, append([]int(nil), p...), nil, nil)
		})
		x.Class("exhaustive-tree")
		x.Class("exhaustive-perms-%d", count)
		x.NonTrivial = maxSib >= 2
		if maxSib >= 3 {
			x.Class("three-orphan-siblings")
		}
		return err
	}
	order := ck.ApplyOrder(c.Order, nb)
	sib := siblingsBeforeParent(w, order)
	x.NonTrivial = sib >= 3
	x.Class("siblings-before-parent-%d", min(sib, 4))
	if len(c.Dups) > 0 {
		x.Class("with-duplicates")
	}
	return c12RunOrder(w, order, c.Dups, nil)
}

func TestC12(t *testing.T) {
	pbt.Run(t, "C12", "every permutation of the blocks of small bushy trees (3-6 blocks on at most 3 parents) delivered to a fresh node; non-trivial = some permutation delivers >=2 siblings before their parent; distinct by tree",
		pbt.Options{Sub: "exhaustive", Journal: true, Checks: pbt.Per(10, 600)}, c12GenSmall, c12Exec)
	pbt.Run(t, "C12", "random trees of 3-24 valid blocks with transactions, delivered in a generated permutation with optional duplicates; oracle: every block connected, best = fork choice, index consistent, ledger = model of main chain; non-trivial = >=3 siblings delivered before their parent",
		pbt.Options{Sub: "random", Journal: true, Checks: pbt.Per(250, 20000)}, c12Gen, c12Exec)
}
