package ledger

import (
	"bytes"
	"encoding/hex"
	"encoding/json"
	"fmt"
	"math"
	"os"
	"strings"
	"testing"

	"github.com/bytom/bytom/netsync/chainmgr"
	"github.com/bytom/bytom/netsync/consensusmgr"
	msgs "github.com/bytom/bytom/netsync/messages"
	"github.com/bytom/bytom/protocol/bc"
	"github.com/bytom/bytom/protocol/bc/types"
	wire "github.com/tendermint/go-wire"
	"pgregory.net/rapid"

	lg "verifharness/ledgergen"
	"verifharness/pbt"
)

// C04: encoding round-trips every well-formed ledger value.
//
// Two sources of values: (A) built through the constructors (suffix fields set
// directly, they are exported), (B) obtained by decoding bytes produced by the
// independent encoder ledgergen.Encode* (suffixes, unknown asset versions).
// For a value v: encode(v) must succeed, decode(encode(v)) == v field by field
// (nil == empty), the recorded SerializedSize is the byte length, the id/hash
// is the same and encode(decode(encode(v))) is byte-identical.  An integer
// above 2^63-1 cannot be carried by the wire format: the encoders refuse it
// with an error, such values are outside the domain (class "unencodable").

type c04Case struct {
	Target  string          `json:"target"` // tx | header | block | text | p2p
	Tx      *lg.TxDesc      `json:"tx,omitempty"`
	Header  *lg.HeaderDesc  `json:"header,omitempty"`
	Block   *lg.BlockDesc   `json:"block,omitempty"`
	Headers []lg.HeaderDesc `json:"headers,omitempty"`
	Hash    lg.HexBytes     `json:"hash,omitempty"`
	Skip    uint64          `json:"skip,omitempty"`
}

func c04Opts(t *rapid.T, exotic bool) lg.Opts {
	return lg.Opts{Int63: rapid.IntRange(0, 9).Draw(t, "int63") > 0, Exotic: exotic && rapid.IntRange(0, 2).Draw(t, "exotic") > 0}
}

// c04Skip: development aid for listing every distinct root cause although the
// search stops at the first one: VERIF_C04_SKIP=spend-suffix makes the generator
// avoid that class.  Unset (the default, and what the driver runs) excludes nothing.
func c04Skip(class string) bool {
	for _, s := range strings.Split(os.Getenv("VERIF_C04_SKIP"), ",") {
		if s == class {
			return true
		}
	}
	return false
}

func c04GenTx(t *rapid.T) c04Case {
	d := lg.GenTx(t, c04Opts(t, true))
	if c04Skip("spend-suffix") {
		for i := range d.Inputs {
			d.Inputs[i].SpendSuffix = nil
		}
	}
	return c04Case{Target: "tx", Tx: &d}
}

func c04GenHeader(t *rapid.T) c04Case {
	h := lg.GenHeader(t, c04Opts(t, false))
	return c04Case{Target: "header", Header: &h}
}

func c04GenBlock(t *rapid.T) c04Case {
	b := lg.GenBlock(t, c04Opts(t, false))
	return c04Case{Target: "block", Block: &b}
}

func c04GenText(t *rapid.T) c04Case {
	return c04Case{Target: "text", Hash: lg.GenHash(t, "hash")}
}

func c04GenP2P(t *rapid.T) c04Case {
	o := lg.Opts{Int63: true, MaxInputs: 3, MaxOutputs: 3}
	b := lg.GenBlock(t, o)
	c := c04Case{Target: "p2p", Block: &b, Hash: lg.GenHash(t, "stop-hash"), Skip: lg.GenAmount(t, "skip", false)}
	n := rapid.IntRange(0, 4).Draw(t, "n-headers")
	for i := 0; i < n; i++ {
		c.Headers = append(c.Headers, lg.GenHeader(t, o))
	}
	return c
}

// ---- classification helpers -------------------------------------------------------------

func over63(vs ...uint64) bool {
	for _, v := range vs {
		if v > math.MaxInt64 {
			return true
		}
	}
	return false
}

func txOver63(d lg.TxDesc) bool {
	if over63(d.Version, d.TimeRange) {
		return true
	}
	for _, in := range d.Inputs {
		if (in.Kind != lg.Coinbase && over63(in.Amount)) || ((in.Kind == lg.Spend || in.Kind == lg.Veto) && over63(in.SourcePos)) {
			return true
		}
	}
	for _, o := range d.Outputs {
		if over63(o.Amount) {
			return true
		}
	}
	return false
}

func headerOver63(h lg.HeaderDesc) bool {
	if over63(h.Version, h.Height, h.Timestamp) {
		return true
	}
	for _, s := range h.SupLinks {
		if over63(s.SourceHeight) {
			return true
		}
	}
	return false
}

func blockOver63(b lg.BlockDesc) bool {
	if headerOver63(b.Header) {
		return true
	}
	for _, t := range b.Txs {
		if txOver63(t) {
			return true
		}
	}
	return false
}

func emptyNonNil(bs ...lg.HexBytes) bool {
	for _, b := range bs {
		if b != nil && len(b) == 0 {
			return true
		}
	}
	return false
}

func listEmptyNonNil(l []lg.HexBytes) bool {
	if l != nil && len(l) == 0 {
		return true
	}
	return emptyNonNil(l...)
}

// c04TxTraits sets the classes and the non-trivial flag by the rule of DESIGN C04.
func c04TxTraits(d lg.TxDesc, x *pbt.Ctx) {
	var suffix, voteState, emptyNil, otherAV bool
	for _, in := range d.Inputs {
		if len(in.CommitmentSuffix)+len(in.WitnessSuffix)+len(in.SpendSuffix) > 0 {
			suffix = true
		}
		if in.AssetVersion > 1 {
			otherAV = true
		}
		if emptyNonNil(in.Program, in.VoteKey, in.Nonce, in.AssetDef, in.Arbitrary) || listEmptyNonNil(in.StateData) || listEmptyNonNil(in.Arguments) {
			emptyNil = true
		}
		x.Class("in:" + in.Kind)
	}
	for _, o := range d.Outputs {
		if len(o.CommitmentSuffix) > 0 {
			suffix = true
		}
		if o.AssetVersion > 1 {
			otherAV = true
		}
		if o.Kind == lg.Vote && len(o.StateData) > 0 {
			voteState = true
		}
		if emptyNonNil(o.Program, o.VoteKey) || listEmptyNonNil(o.StateData) {
			emptyNil = true
		}
		x.Class("out:" + o.Kind)
	}
	for name, on := range map[string]bool{"trait:suffix": suffix, "trait:vote-output-with-state": voteState, "trait:empty-non-nil-field": emptyNil, "trait:asset-version-not-1": otherAV} {
		if on {
			x.Class(name)
			x.NonTrivial = true
		}
	}
}

func unhex(text []byte) []byte {
	b, err := hex.DecodeString(string(text))
	if err != nil {
		panic(err)
	}
	return b
}

// ---- transaction ---------------------------------------------------------------------

// c04RoundTripTxData checks one value v whose encoding must exist.
// wantSize > 0: v itself was decoded from that many bytes.
func c04RoundTripTxData(src string, v *types.TxData, typed bool) error {
	text, err := v.MarshalText()
	if err != nil {
		return fmt.Errorf("%s: MarshalText of a well-formed transaction fails: %v", src, err)
	}
	var bin bytes.Buffer
	n, err := v.WriteTo(&bin)
	if err != nil || int(n) != bin.Len() || !bytes.Equal(bin.Bytes(), unhex(text)) {
		return fmt.Errorf("%s: WriteTo (n=%d, err=%v, %x) disagrees with MarshalText %s", src, n, err, bin.Bytes(), text)
	}
	var v2 types.TxData
	if err := v2.UnmarshalText(text); err != nil {
		return fmt.Errorf("%s: own encoding %s does not decode: %v", src, text, err)
	}
	if d := eqTxData("tx", v, &v2); d != "" {
		return fmt.Errorf("%s: decode(encode(v)) != v: %s\n  encoding %s", src, d, text)
	}
	if v2.SerializedSize != uint64(len(text)/2) {
		return fmt.Errorf("%s: SerializedSize %d recorded for %d bytes", src, v2.SerializedSize, len(text)/2)
	}
	text2, err := v2.MarshalText()
	if err != nil || !bytes.Equal(text, text2) {
		return fmt.Errorf("%s: re-encoding differs (err=%v):\n  first  %s\n  second %s", src, err, text, text2)
	}
	if !typed {
		return nil
	}
	// the same through types.Tx (entries, id) and through JSON
	id := types.MapTx(v).ID
	var t2 types.Tx
	if err := t2.UnmarshalText(text); err != nil {
		return fmt.Errorf("%s: Tx.UnmarshalText of own encoding fails: %v", src, err)
	}
	if t2.ID != id {
		return fmt.Errorf("%s: id changes across the round trip: %s -> %s", src, hs(id), hs(t2.ID))
	}
	if t2.Tx.SerializedSize != uint64(len(text)/2) {
		return fmt.Errorf("%s: tx header SerializedSize %d for %d bytes", src, t2.Tx.SerializedSize, len(text)/2)
	}
	js, err := json.Marshal(&t2)
	if err != nil {
		return fmt.Errorf("%s: json.Marshal: %v", src, err)
	}
	if want := `"` + string(text) + `"`; string(js) != want {
		return fmt.Errorf("%s: JSON form %s is not the quoted hex form %s", src, js, want)
	}
	var t3 types.Tx
	if err := json.Unmarshal(js, &t3); err != nil {
		return fmt.Errorf("%s: json.Unmarshal of own JSON fails: %v", src, err)
	}
	if d := eqTxData("tx", &t2.TxData, &t3.TxData); d != "" || t3.ID != id || t3.SerializedSize != t2.SerializedSize {
		return fmt.Errorf("%s: JSON round trip changes the transaction: %s (id %s -> %s)", src, d, hs(id), hs(t3.ID))
	}
	return nil
}

func allTyped(v *types.TxData) bool {
	for _, in := range v.Inputs {
		if in.TypedInput == nil {
			return false
		}
	}
	return true
}

func c04Tx(d lg.TxDesc, x *pbt.Ctx) error {
	c04TxTraits(d, x)
	x.Key = lg.CanonTx(d, true)
	// (A) constructor-built: constructors always give asset version 1
	da := lg.CloneTx(d)
	for i := range da.Inputs {
		da.Inputs[i].AssetVersion = 0
	}
	for i := range da.Outputs {
		da.Outputs[i].AssetVersion = 0
	}
	va := lg.BuildTxData(da)
	if txOver63(da) {
		x.Class("built:unencodable-int-above-2^63-1")
		x.NonTrivial = false
		if text, err := va.MarshalText(); err == nil {
			// the encoder accepted it: then it must round-trip like anything else
			var v2 types.TxData
			if err := v2.UnmarshalText(text); err != nil {
				return fmt.Errorf("built: encoder accepted an integer above 2^63-1 but its output does not decode: %v (%s)", err, text)
			}
		}
		return nil
	}
	x.Class("built:ok")
	if err := c04RoundTripTxData("built", &va, true); err != nil {
		return err
	}
	// (B) decoded from independently generated bytes
	w := lg.EncodeTx(d).Hex()
	var vb types.TxData
	if err := vb.UnmarshalText(w); err != nil {
		x.Class("decoded:generated-bytes-rejected")
		return nil
	}
	x.Class("decoded:ok")
	if vb.SerializedSize != uint64(len(w)/2) {
		return fmt.Errorf("decoded: SerializedSize %d recorded for %d bytes", vb.SerializedSize, len(w)/2)
	}
	typed := allTyped(&vb)
	if !typed {
		x.Class("decoded:untyped-input(asset-version-not-1)")
	}
	if err := c04RoundTripTxData("decoded from "+string(w), &vb, typed); err != nil {
		return err
	}
	if text, _ := vb.MarshalText(); bytes.Equal(text, w) {
		x.Class("decoded:re-encodes-to-input-bytes")
	} else {
		x.Class("decoded:re-encodes-differently")
	}
	return nil
}

// ---- header --------------------------------------------------------------------------

func c04RoundTripHeader(src string, v *types.BlockHeader) error {
	text, err := v.MarshalText()
	if err != nil {
		return fmt.Errorf("%s: MarshalText of a well-formed header fails: %v", src, err)
	}
	var bin bytes.Buffer
	n, err := v.WriteTo(&bin)
	if err != nil || int(n) != bin.Len() || !bytes.Equal(bin.Bytes(), unhex(text)) {
		return fmt.Errorf("%s: WriteTo (n=%d, err=%v) disagrees with MarshalText", src, n, err)
	}
	var v2 types.BlockHeader
	if err := v2.UnmarshalText(text); err != nil {
		return fmt.Errorf("%s: own encoding %s does not decode: %v", src, text, err)
	}
	if d := eqHeader("header", v, &v2); d != "" {
		return fmt.Errorf("%s: decode(encode(v)) != v: %s\n  encoding %s", src, d, text)
	}
	if v.Hash() != v2.Hash() {
		return fmt.Errorf("%s: hash changes across the round trip: %s -> %s", src, hs(v.Hash()), hs(v2.Hash()))
	}
	text2, err := v2.MarshalText()
	if err != nil || !bytes.Equal(text, text2) {
		return fmt.Errorf("%s: re-encoding differs (err=%v):\n  first  %s\n  second %s", src, err, text, text2)
	}
	js, err := json.Marshal(&v2)
	if err != nil {
		return fmt.Errorf("%s: json.Marshal: %v", src, err)
	}
	var v3 types.BlockHeader
	if err := json.Unmarshal(js, &v3); err != nil {
		return fmt.Errorf("%s: json.Unmarshal of own JSON %s fails: %v", src, js, err)
	}
	if d := eqHeader("header", &v2, &v3); d != "" {
		return fmt.Errorf("%s: JSON round trip changes the header: %s", src, d)
	}
	return nil
}

func c04HeaderTraits(h lg.HeaderDesc, x *pbt.Ctx) {
	x.Class("suplinks:%d", len(h.SupLinks))
	if len(h.SupLinks) >= 2 {
		x.NonTrivial = true
	}
	sparse := false
	for _, s := range h.SupLinks {
		if listEmptyNonNil(s.Signatures) {
			x.NonTrivial = true
		}
		var filled, empty bool
		for i := 0; i < lg.MaxSigSlots; i++ {
			if i < len(s.Signatures) && len(s.Signatures[i]) > 0 {
				filled = true
			} else {
				empty = true
			}
		}
		sparse = sparse || (filled && empty)
	}
	if sparse {
		x.Class("trait:sparse-signatures")
	}
	if emptyNonNil(h.Witness) || (h.SupLinks != nil && len(h.SupLinks) == 0) {
		x.Class("trait:empty-non-nil-field")
		x.NonTrivial = true
	}
}

func c04Header(d lg.HeaderDesc, x *pbt.Ctx) error {
	c04HeaderTraits(d, x)
	x.Key = lg.CanonHeader(d, true)
	v := lg.BuildHeader(d)
	if headerOver63(d) {
		x.Class("built:unencodable-int-above-2^63-1")
		x.NonTrivial = false
		if text, err := v.MarshalText(); err == nil {
			var v2 types.BlockHeader
			if err := v2.UnmarshalText(text); err != nil {
				return fmt.Errorf("built: encoder accepted an integer above 2^63-1 but its output does not decode: %v (%s)", err, text)
			}
		}
		return nil
	}
	x.Class("built:ok")
	if err := c04RoundTripHeader("built", &v); err != nil {
		return err
	}
	w := lg.EncodeHeader(d, lg.SerHeader).Hex()
	var vb types.BlockHeader
	if err := vb.UnmarshalText(w); err != nil {
		x.Class("decoded:generated-bytes-rejected")
		return nil
	}
	x.Class("decoded:ok")
	return c04RoundTripHeader("decoded from "+string(w), &vb)
}

// ---- block ---------------------------------------------------------------------------

func c04TxSizes(src string, b *types.Block) error {
	for i, tx := range b.Transactions {
		text, err := tx.TxData.MarshalText()
		if err != nil {
			return fmt.Errorf("%s: transaction %d does not encode: %v", src, i, err)
		}
		if tx.SerializedSize != uint64(len(text)/2) || tx.Tx.SerializedSize != tx.SerializedSize {
			return fmt.Errorf("%s: transaction %d records SerializedSize %d / %d for %d bytes", src, i, tx.SerializedSize, tx.Tx.SerializedSize, len(text)/2)
		}
	}
	return nil
}

func c04RoundTripBlock(src string, v *types.Block, flags int) error {
	enc := func(b *types.Block, f int) ([]byte, error) {
		switch f {
		case lg.SerHeader:
			return b.MarshalTextForBlockHeader()
		case lg.SerTransactions:
			return b.MarshalTextForTransactions()
		}
		return b.MarshalText()
	}
	for _, f := range []int{lg.SerFull, lg.SerHeader, lg.SerTransactions} {
		if flags != lg.SerFull && f != flags {
			continue // a value decoded from a partial encoding only has that part
		}
		name := fmt.Sprintf("%s serflags=%d", src, f)
		text, err := enc(v, f)
		if err != nil {
			return fmt.Errorf("%s: encoding a well-formed block fails: %v", name, err)
		}
		var v2 types.Block
		if err := v2.UnmarshalText(text); err != nil {
			return fmt.Errorf("%s: own encoding does not decode: %v\n  %s", name, err, text)
		}
		want := *v
		switch f {
		case lg.SerHeader:
			want.Transactions = nil
		case lg.SerTransactions:
			want.BlockHeader = types.BlockHeader{}
		}
		if d := eqBlock("block", &want, &v2); d != "" {
			return fmt.Errorf("%s: decode(encode(v)) != v: %s\n  encoding %s", name, d, text)
		}
		if want.Hash() != v2.Hash() {
			return fmt.Errorf("%s: block hash changes across the round trip", name)
		}
		if err := c04TxSizes(name, &v2); err != nil {
			return err
		}
		text2, err := enc(&v2, f)
		if err != nil || !bytes.Equal(text, text2) {
			return fmt.Errorf("%s: re-encoding differs (err=%v):\n  first  %s\n  second %s", name, err, text, text2)
		}
		if f != lg.SerTransactions {
			// the header can be read alone from a header-only or a full encoding
			var h types.BlockHeader
			if err := h.UnmarshalText(text); err != nil {
				return fmt.Errorf("%s: BlockHeader.UnmarshalText of the block encoding fails: %v", name, err)
			}
			if d := eqHeader("header", &v.BlockHeader, &h); d != "" {
				return fmt.Errorf("%s: header read from the block encoding differs: %s", name, d)
			}
		}
		if f == lg.SerFull {
			var bin bytes.Buffer
			n, err := v.WriteTo(&bin)
			if err != nil || int(n) != bin.Len() || !bytes.Equal(bin.Bytes(), unhex(text)) {
				return fmt.Errorf("%s: WriteTo (n=%d, err=%v) disagrees with MarshalText", name, n, err)
			}
			js, err := json.Marshal(v)
			if err != nil {
				return fmt.Errorf("%s: json.Marshal: %v", name, err)
			}
			var v3 types.Block
			if err := json.Unmarshal(js, &v3); err != nil {
				return fmt.Errorf("%s: json.Unmarshal of own JSON fails: %v", name, err)
			}
			if d := eqBlock("block", v, &v3); d != "" {
				return fmt.Errorf("%s: JSON round trip changes the block: %s", name, d)
			}
		}
	}
	return nil
}

func c04Block(d lg.BlockDesc, x *pbt.Ctx) error {
	c04HeaderTraits(d.Header, x)
	for _, t := range d.Txs {
		c04TxTraits(t, x)
	}
	x.Class("txs:%d", len(d.Txs))
	raw, _ := json.Marshal(d)
	x.Key = string(raw)
	v := lg.BuildBlock(d)
	if blockOver63(d) {
		x.Class("built:unencodable-int-above-2^63-1")
		x.NonTrivial = false
		if text, err := v.MarshalText(); err == nil {
			var v2 types.Block
			if err := v2.UnmarshalText(text); err != nil {
				return fmt.Errorf("built: encoder accepted an integer above 2^63-1 but its output does not decode: %v (%s)", err, text)
			}
		}
		return nil
	}
	x.Class("built:ok")
	if err := c04RoundTripBlock("built", v, lg.SerFull); err != nil {
		return err
	}
	for _, f := range []int{lg.SerFull, lg.SerHeader, lg.SerTransactions} {
		w := lg.EncodeBlock(d, byte(f)).Hex()
		var vb types.Block
		if err := vb.UnmarshalText(w); err != nil {
			x.Class("decoded:generated-bytes-rejected")
			continue
		}
		x.Class("decoded:ok")
		if err := c04TxSizes("decoded", &vb); err != nil {
			return err
		}
		if err := c04RoundTripBlock(fmt.Sprintf("decoded(serflags %d)", f), &vb, f); err != nil {
			return err
		}
	}
	return nil
}

// ---- text forms of hashes ------------------------------------------------------------

func c04Text(raw lg.HexBytes, x *pbt.Ctx) error {
	h := lg.Hash32(raw)
	a := lg.Asset32(raw)
	x.NonTrivial = true
	x.Key = hex.EncodeToString(raw)
	text, err := h.MarshalText()
	if err != nil {
		return fmt.Errorf("Hash.MarshalText: %v", err)
	}
	if string(text) != hex.EncodeToString(h.Bytes()) {
		return fmt.Errorf("Hash.MarshalText %s is not the hex of Bytes() %x", text, h.Bytes())
	}
	var h2 bc.Hash
	if err := h2.UnmarshalText(text); err != nil || h2 != h {
		return fmt.Errorf("Hash text round trip: %v, %s -> %s", err, hs(h), hs(h2))
	}
	type holder struct {
		H  bc.Hash     `json:"h"`
		P  *bc.Hash    `json:"p"`
		A  bc.AssetID  `json:"a"`
		PA *bc.AssetID `json:"pa"`
		N  *bc.Hash    `json:"n"`
	}
	in := holder{H: h, P: &h, A: a, PA: &a}
	js, err := json.Marshal(in)
	if err != nil {
		return fmt.Errorf("json.Marshal: %v", err)
	}
	var out holder
	if err := json.Unmarshal(js, &out); err != nil {
		return fmt.Errorf("json.Unmarshal(%s): %v", js, err)
	}
	if out.H != h || out.P == nil || *out.P != h || out.A != a || out.PA == nil || *out.PA != a || out.N != nil {
		return fmt.Errorf("JSON round trip of hashes changes them: %s -> %+v", js, out)
	}
	var b32 [32]byte
	copy(b32[:], raw)
	if h.Byte32() != b32 || a.Byte32() != b32 || bc.NewHash(h.Byte32()) != h {
		return fmt.Errorf("Byte32/NewHash round trip changes %x", raw)
	}
	var h3 bc.Hash
	if _, err := h3.ReadFrom(bytes.NewReader(h.Bytes())); err != nil || h3 != h {
		return fmt.Errorf("Hash.ReadFrom(Bytes()) = %s, %v", hs(h3), err)
	}
	return nil
}

// ---- P2P wrappers --------------------------------------------------------------------

func c04WireRoundTrip(m msgs.BlockchainMessage, wantType byte) (msgs.BlockchainMessage, error) {
	bz := wire.BinaryBytes(struct{ msgs.BlockchainMessage }{m})
	typ, m2, err := chainmgr.VerifDecodeMessage(bz)
	if err != nil {
		return nil, fmt.Errorf("%T: decodeMessage of own wire encoding fails: %v", m, err)
	}
	if typ != wantType {
		return nil, fmt.Errorf("%T: message type byte %#x, want %#x", m, typ, wantType)
	}
	if fmt.Sprintf("%T", m2) != fmt.Sprintf("%T", m) {
		return nil, fmt.Errorf("decodeMessage gives %T for %T", m2, m)
	}
	if bz2 := wire.BinaryBytes(struct{ msgs.BlockchainMessage }{m2}); !bytes.Equal(bz, bz2) {
		return nil, fmt.Errorf("%T: wire re-encoding differs", m)
	}
	return m2, nil
}

func c04P2P(c c04Case, x *pbt.Ctx) error {
	d := *c.Block
	if blockOver63(d) {
		x.Class("not-a-case:unencodable")
		return nil
	}
	for _, h := range c.Headers {
		if headerOver63(h) {
			x.Class("not-a-case:unencodable")
			return nil
		}
	}
	x.NonTrivial = len(d.Txs) > 0 || len(c.Headers) > 0
	x.Class("txs:%d", len(d.Txs))
	x.Class("headers:%d", len(c.Headers))
	b := lg.BuildBlock(d)

	// block carriers
	bm, err := msgs.NewBlockMessage(b)
	if err != nil {
		return fmt.Errorf("NewBlockMessage: %v", err)
	}
	m2, err := c04WireRoundTrip(bm, msgs.BlockResponseByte)
	if err != nil {
		return err
	}
	for _, m := range []*msgs.BlockMessage{bm, m2.(*msgs.BlockMessage)} {
		got, err := m.GetBlock()
		if err != nil {
			return fmt.Errorf("BlockMessage.GetBlock: %v", err)
		}
		if diff := eqBlock("block", b, got); diff != "" || got.Hash() != b.Hash() {
			return fmt.Errorf("NewBlockMessage -> GetBlock changes the block: %s", diff)
		}
	}
	mm, err := msgs.NewMinedBlockMessage(b)
	if err != nil {
		return fmt.Errorf("NewMinedBlockMessage: %v", err)
	}
	m2, err = c04WireRoundTrip(mm, msgs.NewMineBlockByte)
	if err != nil {
		return err
	}
	if got, err := m2.(*msgs.MineBlockMessage).GetMineBlock(); err != nil || eqBlock("block", b, got) != "" {
		return fmt.Errorf("NewMinedBlockMessage -> GetMineBlock changes the block: %v %s", err, eqBlock("block", b, got))
	}
	bsm, err := msgs.NewBlocksMessage([]*types.Block{b, b})
	if err != nil {
		return fmt.Errorf("NewBlocksMessage: %v", err)
	}
	m2, err = c04WireRoundTrip(bsm, msgs.BlocksResponseByte)
	if err != nil {
		return err
	}
	blocks, err := m2.(*msgs.BlocksMessage).GetBlocks()
	if err != nil || len(blocks) != 2 {
		return fmt.Errorf("BlocksMessage.GetBlocks: %d blocks, %v", len(blocks), err)
	}
	for _, got := range blocks {
		if diff := eqBlock("block", b, got); diff != "" {
			return fmt.Errorf("NewBlocksMessage -> GetBlocks changes the block: %s", diff)
		}
	}
	pm, err := consensusmgr.NewBlockProposeMsg(b)
	if err != nil {
		return fmt.Errorf("NewBlockProposeMsg: %v", err)
	}
	pbz := wire.BinaryBytes(struct{ consensusmgr.ConsensusMessage }{pm})
	_, pm2, err := consensusmgr.VerifDecodeMessage(pbz)
	if err != nil {
		return fmt.Errorf("consensus decodeMessage of own encoding: %v", err)
	}
	if got, err := pm2.(*consensusmgr.BlockProposeMsg).GetProposeBlock(); err != nil || eqBlock("block", b, got) != "" {
		return fmt.Errorf("NewBlockProposeMsg -> GetProposeBlock changes the block: %v %s", err, eqBlock("block", b, got))
	}
	vm := consensusmgr.NewBlockVerificationMsg(b.Hash(), lg.Hash32(c.Hash), b.BlockWitness, c.Hash)
	vbz := wire.BinaryBytes(struct{ consensusmgr.ConsensusMessage }{vm})
	_, vm2, err := consensusmgr.VerifDecodeMessage(vbz)
	if err != nil {
		return fmt.Errorf("consensus decodeMessage of own encoding: %v", err)
	}
	va, vb := vm.(*consensusmgr.BlockVerificationMsg), vm2.(*consensusmgr.BlockVerificationMsg)
	if va.SourceHash != vb.SourceHash || va.TargetHash != vb.TargetHash || !bytes.Equal(va.PubKey, vb.PubKey) || !bytes.Equal(va.Signature, vb.Signature) {
		return fmt.Errorf("BlockVerificationMsg changes across the wire: %v -> %v", va, vb)
	}

	// headers
	var hdrs []*types.BlockHeader
	for _, h := range c.Headers {
		v := lg.BuildHeader(h)
		hdrs = append(hdrs, &v)
	}
	hm, err := msgs.NewHeadersMessage(hdrs)
	if err != nil {
		return fmt.Errorf("NewHeadersMessage: %v", err)
	}
	m2, err = c04WireRoundTrip(hm, msgs.HeadersResponseByte)
	if err != nil {
		return err
	}
	gotH, err := m2.(*msgs.HeadersMessage).GetHeaders()
	if err != nil || len(gotH) != len(hdrs) {
		return fmt.Errorf("HeadersMessage.GetHeaders: %d headers for %d, %v", len(gotH), len(hdrs), err)
	}
	for i := range hdrs {
		if diff := eqHeader("header", hdrs[i], gotH[i]); diff != "" {
			return fmt.Errorf("NewHeadersMessage -> GetHeaders changes header %d: %s", i, diff)
		}
	}

	// transactions
	for i, tx := range b.Transactions {
		tm, err := msgs.NewTransactionMessage(tx)
		if err != nil {
			return fmt.Errorf("NewTransactionMessage: %v", err)
		}
		m2, err = c04WireRoundTrip(tm, msgs.NewTransactionByte)
		if err != nil {
			return err
		}
		got, err := m2.(*msgs.TransactionMessage).GetTransaction()
		if err != nil {
			return fmt.Errorf("TransactionMessage.GetTransaction: %v", err)
		}
		if diff := eqTxData("tx", &tx.TxData, &got.TxData); diff != "" || got.ID != tx.ID {
			return fmt.Errorf("NewTransactionMessage -> GetTransaction changes transaction %d: %s", i, diff)
		}
	}
	tsm, err := msgs.NewTransactionsMessage(b.Transactions)
	if err != nil {
		return fmt.Errorf("NewTransactionsMessage: %v", err)
	}
	m2, err = c04WireRoundTrip(tsm, msgs.NewTransactionsByte)
	if err != nil {
		return err
	}
	gotT, err := m2.(*msgs.TransactionsMessage).GetTransactions()
	if err != nil {
		return fmt.Errorf("TransactionsMessage.GetTransactions: %v", err)
	}
	if diff := eqTxs("txs", b.Transactions, gotT); diff != "" {
		return fmt.Errorf("NewTransactionsMessage -> GetTransactions changes the list: %s", diff)
	}

	// requests and status
	var locator []*bc.Hash
	for _, h := range hdrs {
		hash := h.Hash()
		locator = append(locator, &hash)
	}
	stop := lg.Hash32(c.Hash)
	m2, err = c04WireRoundTrip(msgs.NewGetHeadersMessage(locator, &stop, c.Skip), msgs.HeadersRequestByte)
	if err != nil {
		return err
	}
	gh := m2.(*msgs.GetHeadersMessage)
	if *gh.GetStopHash() != stop || gh.GetSkip() != c.Skip || !sameHashes(gh.GetBlockLocator(), locator) {
		return fmt.Errorf("GetHeadersMessage changes across the wire")
	}
	m2, err = c04WireRoundTrip(msgs.NewGetBlocksMessage(locator, &stop), msgs.BlocksRequestByte)
	if err != nil {
		return err
	}
	gb := m2.(*msgs.GetBlocksMessage)
	if *gb.GetStopHash() != stop || !sameHashes(gb.GetBlockLocator(), locator) {
		return fmt.Errorf("GetBlocksMessage changes across the wire")
	}
	m2, err = c04WireRoundTrip(&msgs.GetBlockMessage{Height: b.Height, RawHash: b.Hash().Byte32()}, msgs.BlockRequestByte)
	if err != nil {
		return err
	}
	if g := m2.(*msgs.GetBlockMessage); g.Height != b.Height || *g.GetHash() != b.Hash() {
		return fmt.Errorf("GetBlockMessage changes across the wire")
	}
	just := &b.BlockHeader
	if len(hdrs) > 0 {
		just = hdrs[0]
	}
	m2, err = c04WireRoundTrip(msgs.NewStatusMessage(&b.BlockHeader, just), msgs.StatusByte)
	if err != nil {
		return err
	}
	if s := m2.(*msgs.StatusMessage); s.BestHeight != b.Height || *s.GetBestHash() != b.Hash() || s.JustifiedHeight != just.Height || *s.GetIrreversibleHash() != just.Hash() {
		return fmt.Errorf("StatusMessage changes across the wire")
	}
	return nil
}

func sameHashes(a, b []*bc.Hash) bool {
	if len(a) != len(b) {
		return false
	}
	for i := range a {
		if *a[i] != *b[i] {
			return false
		}
	}
	return true
}

func c04Exec(c c04Case, x *pbt.Ctx) error {
	x.Class("target:" + c.Target)
	switch c.Target {
	case "tx":
		if c.Tx == nil {
			return fmt.Errorf("HARNESS: tx case without tx")
		}
		return c04Tx(*c.Tx, x)
	case "header":
		if c.Header == nil {
			return fmt.Errorf("HARNESS: header case without header")
		}
		return c04Header(*c.Header, x)
	case "block":
		if c.Block == nil {
			return fmt.Errorf("HARNESS: block case without block")
		}
		return c04Block(*c.Block, x)
	case "text":
		return c04Text(c.Hash, x)
	case "p2p":
		if c.Block == nil {
			return fmt.Errorf("HARNESS: p2p case without block")
		}
		return c04P2P(c, x)
	}
	return fmt.Errorf("HARNESS: unknown target %q", c.Target)
}

func TestC04(t *testing.T) {
	rule := "ledgergen values, (A) built through the constructors with suffix fields set, (B) decoded from bytes of the independent encoder (suffixes, asset versions != 1): encode succeeds, decode(encode(v)) == v field-wise with nil == empty, SerializedSize == byte length, id/hash equal, re-encoding byte-identical; via MarshalText/UnmarshalText, WriteTo, JSON, the three block serialisation flags, bc.Hash/AssetID text+JSON, and the netsync/consensus message wrappers through the real wire codec and decodeMessage; integers above 2^63-1 are outside the domain (encoders refuse them); non-trivial = non-empty suffix, vote output with state data, >= 2 supLinks, an empty-but-non-nil field, or asset version != 1; distinct by canonical description"
	pbt.Run(t, "C04", rule, pbt.Options{Sub: "tx", Checks: pbt.Per(6000, 1200000),
		MinClass: map[string]int{"trait:suffix": 50, "decoded:ok": 500}}, c04GenTx, c04Exec)
	pbt.Run(t, "C04", rule, pbt.Options{Sub: "header", Checks: pbt.Per(2000, 300000)}, c04GenHeader, c04Exec)
	pbt.Run(t, "C04", rule, pbt.Options{Sub: "block", Checks: pbt.Per(1000, 150000)}, c04GenBlock, c04Exec)
	pbt.Run(t, "C04", rule, pbt.Options{Sub: "text", Checks: pbt.Per(300, 20000)}, c04GenText, c04Exec)
	pbt.Run(t, "C04", rule, pbt.Options{Sub: "p2p", Checks: pbt.Per(500, 100000)}, c04GenP2P, c04Exec)
}
