package ledger

import (
	"fmt"
	"testing"

	"pgregory.net/rapid"

	"github.com/bytom/bytom/protocol/bc"
	"github.com/bytom/bytom/protocol/bc/types"
	"github.com/bytom/bytom/protocol/validation"

	"verifharness/pbt"
)

// C01, sub-check "batch": blocks and the block proposer validate transactions through
// validation.ValidateTxs, which runs them on worker goroutines and reports one result per
// transaction.  A caller matches result i to transaction i, so the property must hold for what is
// reported at each position: a transaction reported as passing conserves every asset, does not
// create BTM, and the reported fee is its own inputs minus outputs.  As a metamorphic cross-check
// the verdict at position i must be the verdict ValidateTx gives for that transaction alone.
//
// The transactions of a batch take very different times to validate (spend programs with 0 to
// 3 000 hash instructions), so that workers finish in another order than they started.

type c01BatchCase struct {
	Txs []c01Case `json:"txs"`
}

func c01BatchGen(t *rapid.T) c01BatchCase {
	one := rapid.Custom(c01Gen).Filter(func(c c01Case) bool { return c.Family != "coinbase" })
	n := rapid.IntRange(2, 10).Draw(t, "ntx")
	var c c01BatchCase
	for i := 0; i < n; i++ {
		tx := one.Draw(t, "tx")
		tx.Slow = rapid.SampledFrom([]int{0, 0, 0, 40, 400, 3000}).Draw(t, "slow")
		if i == 0 && rapid.Bool().Draw(t, "firstslow") {
			tx.Slow = 3000
		}
		c.Txs = append(c.Txs, tx)
	}
	return c
}

func c01BatchExec(c c01BatchCase, x *pbt.Ctx) error {
	if len(c.Txs) < 2 || len(c.Txs) > 32 {
		return nil
	}
	conv := func(prog []byte) ([]byte, error) { return nil, fmt.Errorf("no contracts") }
	block := &bc.Block{BlockHeader: &bc.BlockHeader{Version: 1, Height: 7}}
	var txs []*types.Tx
	var descs []c01Case
	for _, d := range c.Txs {
		if d.Family == "coinbase" || d.Slow < 0 || d.Slow > 5000 {
			return nil
		}
		for _, in := range d.Ins {
			if in.Asset < 0 || in.Asset > 3 || in.Kind == "coinbase" {
				return nil
			}
		}
		for _, o := range d.Outs {
			if o.Asset < 0 || o.Asset > 3 {
				return nil
			}
		}
		tx, err := c01Build(d)
		if err != nil {
			continue
		}
		txs = append(txs, tx)
		descs = append(descs, d)
	}
	if len(txs) < 2 {
		return nil
	}
	bcTxs := make([]*bc.Tx, len(txs))
	for i, tx := range txs {
		bcTxs[i] = tx.Tx
	}
	results := validation.ValidateTxs(bcTxs, block, conv)
	if len(results) != len(txs) {
		return fmt.Errorf("ValidateTxs returned %d results for %d transactions", len(results), len(txs))
	}
	passed, failed, slowFirst := 0, 0, false
	for i, r := range results {
		if r == nil {
			return fmt.Errorf("ValidateTxs: no result at position %d of %d", i, len(txs))
		}
		aloneGas, aloneErr := validation.ValidateTx(bcTxs[i], block, conv)
		if (r.GetError() == nil) != (aloneErr == nil) {
			return fmt.Errorf("position %d of a batch of %d: ValidateTxs reports error %v for the transaction, ValidateTx on the same transaction alone reports %v\ntransaction: %+v", i, len(txs), r.GetError(), aloneErr, descs[i])
		}
		if r.GetError() != nil {
			failed++
			continue
		}
		passed++
		gas := r.GetGasState()
		if gas == nil {
			return fmt.Errorf("position %d of a batch of %d: passing result without a gas state", i, len(txs))
		}
		nt, err := c01Judge(descs[i], txs[i], gas)
		if err != nil {
			return fmt.Errorf("position %d of a batch of %d (validated through ValidateTxs): %v", i, len(txs), err)
		}
		if nt {
			x.NonTrivial = true
		}
		if *gas != *aloneGas {
			return fmt.Errorf("position %d of a batch of %d: ValidateTxs reports gas state %+v, ValidateTx on the same transaction alone %+v\ntransaction: %+v", i, len(txs), *gas, *aloneGas, descs[i])
		}
	}
	for i := 0; i+1 < len(descs); i++ {
		if descs[i].Slow >= 400 && descs[i+1].Slow < 400 {
			slowFirst = true
		}
	}
	if slowFirst {
		x.Class("batch/slow-transaction-before-a-fast-one")
	}
	if passed > 0 && failed > 0 {
		x.Class("batch/passing-and-failing-mixed")
	}
	x.NonTrivial = x.NonTrivial && slowFirst && passed > 0
	return nil
}

func TestC01Batch(t *testing.T) {
	pbt.Run(t, "C01", "batches of 2-10 transactions of the families above (no coinbase) whose spend programs carry 0, 40, 400 or 3000 hash instructions, validated together through ValidateTxs (worker goroutines, as block validation and the proposer do): the result at every position is judged against that position's transaction (big-integer sums, reported fee) and must equal what ValidateTx reports for it alone; non-trivial = a slow transaction precedes a fast one, some transaction passes and one of the passing ones is non-trivial in the sense above; distinct = case JSON",
		pbt.Options{Sub: "batch", Checks: pbt.Per(1500, 60000), MinClass: map[string]int{"batch/slow-transaction-before-a-fast-one": 200, "batch/passing-and-failing-mixed": 100}}, c01BatchGen, c01BatchExec)
}
