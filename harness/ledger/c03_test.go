package ledger

import (
	"fmt"
	"strings"
	"testing"

	"github.com/bytom/bytom/protocol/bc"
	"github.com/bytom/bytom/protocol/bc/types"
	"pgregory.net/rapid"

	lg "verifharness/ledgergen"
	"verifharness/pbt"
)

// C03: transaction and block identity commit to all consensus content.
// Metamorphic: one single-field mutation of a description; a consensus
// mutation must change the identity, a witness-only mutation must not.

type c03Case struct {
	Target string         `json:"target"` // "tx" | "header" | "block" | "merkle"
	Tx     *lg.TxDesc     `json:"tx,omitempty"`
	Header *lg.HeaderDesc `json:"header,omitempty"`
	Block  *lg.BlockDesc  `json:"block,omitempty"`
	// block: "tx" mutates transaction TxIndex with Mut, "header" mutates the
	// header with Mut, "swap-txs" swaps transactions TxIndex and TxIndex2,
	// "remove-tx" removes transaction TxIndex.
	BlockOp  string      `json:"block_op,omitempty"`
	TxIndex  int         `json:"tx_index,omitempty"`
	TxIndex2 int         `json:"tx_index2,omitempty"`
	Mut      lg.Mutation `json:"mut"`
	// merkle: a list of transaction ids, one of which (TxIndex) is replaced by NewID.
	IDs   []lg.HexBytes `json:"ids,omitempty"`
	NewID lg.HexBytes   `json:"new_id,omitempty"`
}

var c03Opts = lg.Opts{} // full 64-bit integers, constructor-built values only

func c03GenTx(t *rapid.T) c03Case {
	d := lg.GenTx(t, c03Opts)
	m, _ := lg.GenTxMutation(t, d, c03Opts)
	return c03Case{Target: "tx", Tx: &d, Mut: m}
}

func c03GenHeader(t *rapid.T) c03Case {
	h := lg.GenHeader(t, c03Opts)
	return c03Case{Target: "header", Header: &h, Mut: lg.GenHeaderMutation(t, h, c03Opts)}
}

func c03GenBlock(t *rapid.T) c03Case {
	if rapid.IntRange(0, 4).Draw(t, "merkle-only") == 0 {
		n := rapid.IntRange(1, 20).Draw(t, "n-ids")
		c := c03Case{Target: "merkle"}
		for i := 0; i < n; i++ {
			c.IDs = append(c.IDs, lg.GenHash(t, "id"))
		}
		c.TxIndex = rapid.IntRange(0, n-1).Draw(t, "replace-at")
		c.NewID = lg.GenHash(t, "new-id")
		return c
	}
	b := lg.GenBlock(t, lg.Opts{MaxInputs: 3, MaxOutputs: 3})
	b.AutoRoot = true
	c := c03Case{Target: "block", Block: &b}
	ops := []string{"header"}
	if len(b.Txs) > 0 {
		ops = append(ops, "tx", "tx", "tx", "remove-tx")
	}
	if len(b.Txs) > 1 {
		ops = append(ops, "swap-txs")
	}
	c.BlockOp = rapid.SampledFrom(ops).Draw(t, "block-op")
	switch c.BlockOp {
	case "header":
		c.Mut = lg.GenHeaderMutation(t, b.Header, c03Opts)
	case "tx":
		c.TxIndex = rapid.IntRange(0, len(b.Txs)-1).Draw(t, "tx-index")
		c.Mut, _ = lg.GenTxMutation(t, b.Txs[c.TxIndex], lg.Opts{MaxInputs: 3, MaxOutputs: 3})
	case "remove-tx":
		c.TxIndex = rapid.IntRange(0, len(b.Txs)-1).Draw(t, "tx-index")
	case "swap-txs":
		c.TxIndex = rapid.IntRange(0, len(b.Txs)-2).Draw(t, "tx-index")
		c.TxIndex2 = rapid.IntRange(c.TxIndex+1, len(b.Txs)-1).Draw(t, "tx-index2")
	}
	return c
}

// c03Site describes the mutated site for classes and the distinct key.
func c03Site(d lg.TxDesc, m lg.Mutation) string {
	switch {
	case strings.HasPrefix(m.Name, "in.") && m.I >= 0 && m.I < len(d.Inputs):
		return d.Inputs[m.I].Kind
	case strings.HasPrefix(m.Name, "out.") && m.I >= 0 && m.I < len(d.Outputs):
		o := d.Outputs[m.I]
		if o.IsRetirement() {
			return o.Kind + "+retire"
		}
		return o.Kind
	case m.Name == "insert-input" && m.Input != nil:
		return m.Input.Kind
	case m.Name == "insert-output" && m.Output != nil:
		return m.Output.Kind
	}
	return "-"
}

func c03Shape(d lg.TxDesc) string {
	var k [7]int // coinbase issuance spend veto | original vote retire
	for _, in := range d.Inputs {
		k[map[string]int{lg.Coinbase: 0, lg.Issuance: 1, lg.Spend: 2, lg.Veto: 3}[in.Kind]]++
	}
	for _, o := range d.Outputs {
		switch {
		case o.IsRetirement():
			k[6]++
		case o.Kind == lg.Vote:
			k[5]++
		default:
			k[4]++
		}
	}
	return fmt.Sprint(k)
}

// c03EraseRetireData returns d with, in every output that is a retirement
// (control program starting with OP_FAIL), everything erased that MapTx's
// retirement branch ignores: output type, program bytes after OP_FAIL, state
// data and vote key.  Asset, amount and position stay.
func c03EraseRetireData(d lg.TxDesc) lg.TxDesc {
	out := lg.CloneTx(d)
	for i := range out.Outputs {
		if o := &out.Outputs[i]; o.IsRetirement() {
			o.Kind, o.Program, o.StateData, o.VoteKey = lg.Original, lg.HexBytes{lg.OpFail}, nil, nil
		}
	}
	return out
}

// c03RetireDataOnly reports whether the two transactions differ only in what
// the known finding "retire-data-not-committed" describes: data of outputs
// that are retirements on both sides (the same outputs: positions, assets and
// amounts agree) which the Retirement entry does not hash.
func c03RetireDataOnly(orig, mut lg.TxDesc, m lg.Mutation) bool {
	if !strings.HasPrefix(m.Name, "out.") && m.Name != "swap-outputs" {
		return false
	}
	return lg.CanonTx(c03EraseRetireData(orig), false) == lg.CanonTx(c03EraseRetireData(mut), false)
}

// c03TxJudge compares the identities of the two transactions.
func c03TxJudge(orig, mut lg.TxDesc, m lg.Mutation, x *pbt.Ctx) (idA, idB bc.Hash, err error) {
	idA = lg.BuildTx(orig).ID
	idB = lg.BuildTx(mut).ID
	if len(orig.Outputs) == 0 && len(mut.Outputs) == 0 && m.Kind() == lg.Consensus && (strings.HasPrefix(m.Name, "in.") || strings.HasSuffix(m.Name, "-input") || m.Name == "swap-inputs") {
		// A transaction id is the hash of (version, time range, result ids); inputs are
		// reached through the results.  A transaction without outputs has no results, is
		// rejected by validation (ErrEmptyResults; blocks and hence transactions must have
		// version 1) and is therefore outside the domain of "input content reaches the id".
		x.Class("outside-domain:input-mutation-of-tx-without-outputs")
		x.NonTrivial = false
		return idA, idB, nil
	}
	if again := lg.BuildTx(orig).ID; again != idA {
		return idA, idB, fmt.Errorf("building the same description twice gives ids %s and %s", hs(idA), hs(again))
	}
	switch m.Kind() {
	case lg.Consensus:
		if idA == idB {
			if c03RetireDataOnly(orig, mut, m) {
				x.Known("retire-data-not-committed")
				return idA, idB, nil
			}
			return idA, idB, fmt.Errorf("consensus mutation %s (site %d: %s) leaves the transaction id unchanged: %s",
				m.Name, m.I, c03Site(orig, m), hs(idA))
		}
	case lg.Witness:
		if idA != idB {
			return idA, idB, fmt.Errorf("witness-only mutation %s (input %d) changes the transaction id: %s -> %s",
				m.Name, m.I, hs(idA), hs(idB))
		}
	}
	return idA, idB, nil
}

func c03Exec(c c03Case, x *pbt.Ctx) error {
	x.Class("target:" + c.Target)
	switch c.Target {
	case "tx":
		if c.Tx == nil {
			return fmt.Errorf("HARNESS: tx case without tx")
		}
		mut, changed, err := lg.ApplyTx(*c.Tx, c.Mut)
		if err != nil {
			x.Class("not-a-case:mutation-does-not-fit")
			return nil
		}
		if !changed {
			x.Class("not-a-case:no-change")
			return nil
		}
		site := c03Site(*c.Tx, c.Mut)
		x.Class("mut:" + c.Mut.Name)
		x.Class("kind:" + c.Mut.Kind())
		x.Class("site:" + site)
		x.NonTrivial = true
		x.Key = fmt.Sprintf("tx|%s|%s|%s", c.Mut.Name, site, c03Shape(*c.Tx))
		_, _, err = c03TxJudge(*c.Tx, mut, c.Mut, x)
		return err

	case "header":
		if c.Header == nil {
			return fmt.Errorf("HARNESS: header case without header")
		}
		mut, changed, err := lg.ApplyHeader(*c.Header, c.Mut)
		if err != nil {
			x.Class("not-a-case:mutation-does-not-fit")
			return nil
		}
		if !changed {
			x.Class("not-a-case:no-change")
			return nil
		}
		x.Class("mut:" + c.Mut.Name)
		x.Class("kind:" + c.Mut.Kind())
		x.NonTrivial = true
		x.Key = fmt.Sprintf("header|%s|links=%d", c.Mut.Name, len(c.Header.SupLinks))
		a, b := lg.BuildHeader(*c.Header), lg.BuildHeader(mut)
		return c03HeaderJudge(a.Hash(), b.Hash(), c.Mut)

	case "merkle":
		n := len(c.IDs)
		if n == 0 || c.TxIndex < 0 || c.TxIndex >= n {
			x.Class("not-a-case:bad-index")
			return nil
		}
		oldID, newID := lg.Hash32(c.IDs[c.TxIndex]), lg.Hash32(c.NewID)
		if oldID == newID {
			x.Class("not-a-case:no-change")
			return nil
		}
		mk := func(repl bool) []*bc.Tx {
			txs := make([]*bc.Tx, n)
			for i, id := range c.IDs {
				txs[i] = &bc.Tx{ID: lg.Hash32(id)}
			}
			if repl {
				txs[c.TxIndex] = &bc.Tx{ID: newID}
			}
			return txs
		}
		ra, err := types.TxMerkleRoot(mk(false))
		if err != nil {
			return fmt.Errorf("TxMerkleRoot: %v", err)
		}
		rb, err := types.TxMerkleRoot(mk(true))
		if err != nil {
			return fmt.Errorf("TxMerkleRoot: %v", err)
		}
		x.Class("mut:merkle.replace-id")
		x.NonTrivial = true
		x.Key = fmt.Sprintf("merkle|n=%d|at=%d", n, c.TxIndex)
		if ra == rb {
			return fmt.Errorf("replacing transaction id %d of %d (%s -> %s) leaves TxMerkleRoot unchanged: %s", c.TxIndex, n, hs(oldID), hs(newID), hs(ra))
		}
		return nil

	case "block":
		if c.Block == nil {
			return fmt.Errorf("HARNESS: block case without block")
		}
		orig := lg.CloneBlock(*c.Block)
		orig.AutoRoot = true
		mut := lg.CloneBlock(orig)
		nTx := len(orig.Txs)
		x.Class("blockop:" + c.BlockOp)
		switch c.BlockOp {
		case "header":
			h, changed, err := lg.ApplyHeader(orig.Header, c.Mut)
			if err != nil {
				x.Class("not-a-case:mutation-does-not-fit")
				return nil
			}
			if !changed {
				x.Class("not-a-case:no-change")
				return nil
			}
			if c.Mut.Name == "hdr.merkle-root" {
				// the root of a block is derived from its transactions here; a direct
				// root mutation is covered by the header target
				x.Class("not-a-case:auto-root")
				return nil
			}
			mut.Header = h
			x.Class("mut:" + c.Mut.Name)
			x.Class("kind:" + c.Mut.Kind())
			x.NonTrivial = true
			x.Key = fmt.Sprintf("block|%s|txs=%d", c.Mut.Name, nTx)
			return c03HeaderJudge(lg.BuildBlock(orig).Hash(), lg.BuildBlock(mut).Hash(), c.Mut)
		case "tx":
			if c.TxIndex < 0 || c.TxIndex >= nTx {
				x.Class("not-a-case:bad-index")
				return nil
			}
			td, changed, err := lg.ApplyTx(orig.Txs[c.TxIndex], c.Mut)
			if err != nil {
				x.Class("not-a-case:mutation-does-not-fit")
				return nil
			}
			if !changed {
				x.Class("not-a-case:no-change")
				return nil
			}
			mut.Txs[c.TxIndex] = td
			x.Class("mut:" + c.Mut.Name)
			x.Class("kind:" + c.Mut.Kind())
			x.NonTrivial = true
			x.Key = fmt.Sprintf("block|tx|%s|%s|txs=%d|at=%d", c.Mut.Name, c03Site(orig.Txs[c.TxIndex], c.Mut), nTx, c.TxIndex)
			idA, idB, err := c03TxJudge(orig.Txs[c.TxIndex], td, c.Mut, x)
			if err != nil {
				return err
			}
			ba, bb := lg.BuildBlock(orig), lg.BuildBlock(mut)
			ha, hb := ba.Hash(), bb.Hash()
			if idA != idB {
				x.Class("block:tx-id-changed")
				if ba.TransactionsMerkleRoot == bb.TransactionsMerkleRoot {
					return fmt.Errorf("transaction %d of %d changed its id (%s -> %s) but TxMerkleRoot stayed %s", c.TxIndex, nTx, hs(idA), hs(idB), hs(ba.TransactionsMerkleRoot))
				}
				if ha == hb {
					return fmt.Errorf("transaction %d of %d changed its id but the block hash stayed %s", c.TxIndex, nTx, hs(ha))
				}
			} else {
				x.Class("block:tx-id-unchanged")
				if ha != hb {
					return fmt.Errorf("transaction %d kept its id (mutation %s) but the block hash changed %s -> %s", c.TxIndex, c.Mut.Name, hs(ha), hs(hb))
				}
			}
			return nil
		case "swap-txs", "remove-tx":
			if c.TxIndex < 0 || c.TxIndex >= nTx {
				x.Class("not-a-case:bad-index")
				return nil
			}
			ba := lg.BuildBlock(orig)
			if c.BlockOp == "swap-txs" {
				if c.TxIndex2 < 0 || c.TxIndex2 >= nTx || c.TxIndex2 == c.TxIndex {
					x.Class("not-a-case:bad-index")
					return nil
				}
				if ba.Transactions[c.TxIndex].ID == ba.Transactions[c.TxIndex2].ID {
					x.Class("not-a-case:no-change")
					return nil
				}
				mut.Txs[c.TxIndex], mut.Txs[c.TxIndex2] = mut.Txs[c.TxIndex2], mut.Txs[c.TxIndex]
			} else {
				mut.Txs = append(mut.Txs[:c.TxIndex], mut.Txs[c.TxIndex+1:]...)
			}
			x.Class("mut:" + c.BlockOp)
			x.NonTrivial = true
			x.Key = fmt.Sprintf("block|%s|txs=%d|%d,%d", c.BlockOp, nTx, c.TxIndex, c.TxIndex2)
			bb := lg.BuildBlock(mut)
			if ba.Hash() == bb.Hash() {
				return fmt.Errorf("%s (%d,%d) on a block of %d transactions leaves the block hash unchanged: %s", c.BlockOp, c.TxIndex, c.TxIndex2, nTx, hs(ba.Hash()))
			}
			return nil
		}
		return fmt.Errorf("HARNESS: unknown block op %q", c.BlockOp)
	}
	return fmt.Errorf("HARNESS: unknown target %q", c.Target)
}

func hs(h bc.Hash) string { return h.String() }

func c03HeaderJudge(ha, hb bc.Hash, m lg.Mutation) error {
	switch m.Kind() {
	case lg.Consensus:
		if ha == hb {
			return fmt.Errorf("header mutation %s leaves the block hash unchanged: %s", m.Name, hs(ha))
		}
	case lg.Witness:
		if ha != hb {
			return fmt.Errorf("witness-only header mutation %s changes the block hash: %s -> %s", m.Name, hs(ha), hs(hb))
		}
	}
	return nil
}

func TestC03(t *testing.T) {
	rule := "a ledgergen description (tx: 0..12 inputs of 4 kinds, 0..12 outputs of 3 kinds, boundary-heavy integers, pooled assets; header: 0..4 supLinks; block: 0..6 txs) plus ONE named single-field mutation that really changes the value; both sides built through the repository constructors; consensus mutation => id/hash differs, witness-only mutation (arguments, block witness, supLinks) => equal; block: changed tx id => TxMerkleRoot and block hash change; every applied mutation is non-trivial; distinct by (target, mutation name, site kind, shape)"
	pbt.Run(t, "C03", rule, pbt.Options{Sub: "tx", Checks: pbt.Per(12000, 1800000),
		MinClass: map[string]int{"kind:witness": 20, "site:original+retire": 5}}, c03GenTx, c03Exec)
	pbt.Run(t, "C03", rule, pbt.Options{Sub: "header", Checks: pbt.Per(3000, 400000)}, c03GenHeader, c03Exec)
	pbt.Run(t, "C03", rule, pbt.Options{Sub: "block", Checks: pbt.Per(3000, 240000)}, c03GenBlock, c03Exec)
}
