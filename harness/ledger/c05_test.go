package ledger

import (
	"encoding/binary"
	"encoding/hex"
	"encoding/json"
	"fmt"
	"os"
	"runtime"
	"runtime/debug"
	"strings"
	"syscall"
	"testing"

	"github.com/bytom/bytom/netsync/chainmgr"
	"github.com/bytom/bytom/netsync/consensusmgr"
	msgs "github.com/bytom/bytom/netsync/messages"
	"github.com/bytom/bytom/protocol/bc/types"
	wire "github.com/tendermint/go-wire"
	"pgregory.net/rapid"

	lg "verifharness/ledgergen"
	"verifharness/pbt"
)

// C05: decoding untrusted bytes never crashes and uses bounded memory.
//
// Targets: types.Tx / Block / BlockHeader UnmarshalText, the netsync chain
// message decoder (decodeMessage + the payload accessors GetBlock, GetHeaders,
// ...) and the consensus message decoder.  Oracle: the call returns, no panic,
// runtime.MemStats.TotalAlloc grows by at most 4096*len(input) + 1 MiB, and a
// successfully decoded value encodes again without error.
//
// The process must run under an address-space limit (ulimit -v): one known
// input class makes the decoder ask for ~17 GB.  The case is journaled before
// it is executed, so a death is attributed to the case.

type c05Case struct {
	Target string      `json:"target"` // tx | block | header | chainmsg | consensusmsg
	Data   lg.HexBytes `json:"data"`   // the bytes (binary form)
	// Raw: for the three text decoders, pass Data itself as the text instead of its hex form.
	Raw bool `json:"raw,omitempty"`
	// Prefix: number of leading bytes of Data that are an untouched prefix of a valid encoding.
	Prefix int      `json:"valid_prefix"`
	Origin string   `json:"origin"`
	Muts   []string `json:"muts"`
}

const c05Slack = 1 << 20
const c05PerByte = 4096

func c05Skip(class string) bool {
	for _, s := range strings.Split(os.Getenv("VERIF_C05_SKIP"), ",") {
		if s == class {
			return true
		}
	}
	return false
}

// ---- generator ---------------------------------------------------------------------------

var c05Targets = []string{"tx", "block", "header", "chainmsg", "consensusmsg"}

var c05HostileInts = []uint64{0, 1, 0x7f, 0x80, 0xffff, 0x7fffffff, 0x80000000, 0xffffffff, 1<<63 - 1, 1 << 63, 1<<64 - 1}

func uvarint(v uint64) []byte {
	var tmp [binary.MaxVarintLen64]byte
	return append([]byte(nil), tmp[:binary.PutUvarint(tmp[:], v)]...)
}

// wireVarint is go-wire's length encoding: one size byte, then big-endian bytes.
func wireVarint(v uint64) []byte {
	if v == 0 {
		return []byte{0}
	}
	var b [8]byte
	binary.BigEndian.PutUint64(b[:], v)
	i := 0
	for b[i] == 0 {
		i++
	}
	return append([]byte{byte(8 - i)}, b[i:]...)
}

var c05Small = lg.Opts{Int63: true, MaxInputs: 3, MaxOutputs: 3}

// c05Valid draws a valid encoding of the kind with its field marks.
func c05Valid(t *rapid.T, kind string) lg.Encoded {
	o := c05Small
	o.Exotic = rapid.IntRange(0, 3).Draw(t, "exotic") == 0
	switch kind {
	case "tx":
		return lg.EncodeTx(lg.GenTx(t, o))
	case "header":
		return lg.EncodeHeader(lg.GenHeader(t, o), byte(rapid.SampledFrom([]int{1, 1, 3}).Draw(t, "serflags")))
	default: // block
		o.MaxInputs, o.MaxOutputs = 2, 2
		b := lg.GenBlock(t, o)
		if len(b.Txs) > 3 {
			b.Txs = b.Txs[:3]
		}
		return lg.EncodeBlock(b, byte(rapid.SampledFrom([]int{3, 3, 3, 1, 2}).Draw(t, "serflags")))
	}
}

// c05Mutate applies 0..2 field-aware and 0..2 blind byte-level mutations.
// It returns the bytes, the length of the untouched valid prefix and the names.
func c05Mutate(t *rapid.T, e lg.Encoded) ([]byte, int, []string) {
	out := append([]byte(nil), e.Bytes...)
	prefix := len(out)
	var names []string
	touch := func(off int) {
		if off < prefix {
			prefix = off
		}
	}
	if len(e.Marks) > 0 && rapid.IntRange(0, 3).Draw(t, "field-mutation") > 0 {
		// one field-aware mutation on the pristine encoding (marks are only valid there)
		var cands []int
		want := rapid.SampledFrom([]string{"int", "int", "int", "tag", "tag", "bytes"}).Draw(t, "field-class")
		for i, m := range e.Marks {
			switch {
			case want == "int" && (m.What == "varint" || m.What == "count" || m.What == "length" || m.What == "assetver"),
				want == "tag" && (m.What == "assetver" || m.What == "intype" || m.What == "outtype" || m.What == "serflags"),
				want == "bytes" && (m.What == "hash" || m.What == "bytes"):
				cands = append(cands, i)
			}
		}
		if len(cands) > 0 {
			i := cands[rapid.IntRange(0, len(cands)-1).Draw(t, "mark")]
			m := e.Marks[i]
			var repl []byte
			switch want {
			case "int":
				repl = uvarint(rapid.SampledFrom(c05HostileInts).Draw(t, "hostile-int"))
			case "tag":
				repl = []byte{rapid.SampledFrom([]byte{0, 1, 2, 3, 4, 5, 7, 0x7f, 0x80, 0xff}).Draw(t, "tag-byte")}
			case "bytes":
				repl = rapid.SliceOfN(rapid.Byte(), 0, m.Len+2).Draw(t, "replacement")
			}
			if repl != nil {
				fix := rapid.Bool().Draw(t, "fix-enclosing-lengths")
				out = e.Replace(i, repl, fix)
				if fix {
					// enclosing prefixes before the field were rewritten as well
					for _, l := range e.Marks {
						if l.What == "length" && l.Off+l.Len <= m.Off && m.Off+m.Len <= l.Off+l.Len+l.Span {
							touch(l.Off)
						}
					}
				}
				touch(m.Off)
				names = append(names, fmt.Sprintf("%s:%s", want, m.What))
			}
		}
	}
	for n := rapid.IntRange(0, 2).Draw(t, "n-blind"); n > 0; n-- {
		kind := rapid.SampledFrom([]string{"flip", "truncate", "splice", "insert", "set"}).Draw(t, "blind")
		if len(out) == 0 && kind != "insert" {
			continue
		}
		switch kind {
		case "flip":
			i := rapid.IntRange(0, len(out)-1).Draw(t, "at")
			out[i] ^= 1 << uint(rapid.IntRange(0, 7).Draw(t, "bit"))
			touch(i)
		case "set":
			i := rapid.IntRange(0, len(out)-1).Draw(t, "at")
			out[i] = rapid.SampledFrom([]byte{0, 1, 2, 0x7f, 0x80, 0xff}).Draw(t, "value")
			touch(i)
		case "truncate":
			i := rapid.IntRange(0, len(out)-1).Draw(t, "at")
			out = out[:i]
			touch(i)
		case "splice": // copy a chunk of the encoding over another place
			i := rapid.IntRange(0, len(out)-1).Draw(t, "from")
			n := rapid.IntRange(1, len(out)-i).Draw(t, "len")
			j := rapid.IntRange(0, len(out)).Draw(t, "to")
			chunk := append([]byte(nil), out[i:i+n]...)
			out = append(out[:j], append(chunk, out[j:]...)...)
			touch(j)
		case "insert":
			j := rapid.IntRange(0, len(out)).Draw(t, "to")
			var chunk []byte
			if rapid.Bool().Draw(t, "insert-int") {
				chunk = uvarint(rapid.SampledFrom(c05HostileInts).Draw(t, "hostile-int"))
			} else {
				chunk = rapid.SliceOfN(rapid.Byte(), 1, 8).Draw(t, "chunk")
			}
			out = append(out[:j], append(chunk, out[j:]...)...)
			touch(j)
		}
		names = append(names, kind)
	}
	if prefix > len(out) {
		prefix = len(out)
	}
	return out, prefix, names
}

func hexText(b []byte) []byte {
	out := make([]byte, hex.EncodedLen(len(b)))
	hex.Encode(out, b)
	return out
}

func jsonString(text []byte) []byte {
	js, _ := json.Marshal(string(text))
	return js
}

var c05ChainTypes = []byte{0x10, 0x11, 0x12, 0x13, 0x14, 0x15, 0x21, 0x30, 0x31, 0x40, 0x50, 0x51, 0x52, 0x60, 0x61}

// c05Message wraps (possibly hostile) payloads into a real message and encodes
// it with the real wire codec.
func c05Message(t *rapid.T, target string) ([]byte, string) {
	payload := func(kind string) []byte {
		b, _, _ := c05Mutate(t, c05Valid(t, kind))
		return hexText(b)
	}
	if target == "consensusmsg" {
		if rapid.Bool().Draw(t, "propose") {
			return wire.BinaryBytes(struct{ consensusmgr.ConsensusMessage }{&consensusmgr.BlockProposeMsg{RawBlock: payload("block")}}), "BlockProposeMsg"
		}
		m := consensusmgr.NewBlockVerificationMsg(lg.Hash32(lg.GenHash(t, "source")), lg.Hash32(lg.GenHash(t, "target")), lg.GenBytes(t, "pubkey", 40), lg.GenBytes(t, "signature", 70))
		return wire.BinaryBytes(struct{ consensusmgr.ConsensusMessage }{m}), "BlockVerificationMsg"
	}
	var m msgs.BlockchainMessage
	var raw32 [32]byte
	copy(raw32[:], lg.GenHash(t, "hash"))
	kind := rapid.SampledFrom([]string{"Block", "MineBlock", "Blocks", "Headers", "Transaction", "Transactions", "MerkleBlock", "GetBlock", "GetHeaders", "GetBlocks", "Status", "FilterLoad", "FilterAdd", "FilterClear", "GetMerkleBlock"}).Draw(t, "message")
	n := rapid.IntRange(0, 3).Draw(t, "n-elems")
	switch kind {
	case "Block":
		m = &msgs.BlockMessage{RawBlock: payload("block")}
	case "MineBlock":
		m = &msgs.MineBlockMessage{RawBlock: payload("block")}
	case "Blocks":
		bm := &msgs.BlocksMessage{}
		for i := 0; i < n; i++ {
			bm.RawBlocks = append(bm.RawBlocks, jsonString(payload("block")))
		}
		m = bm
	case "Headers":
		hm := &msgs.HeadersMessage{}
		for i := 0; i < n; i++ {
			hm.RawHeaders = append(hm.RawHeaders, jsonString(payload("header")))
		}
		m = hm
	case "Transaction":
		m = &msgs.TransactionMessage{RawTx: payload("tx")}
	case "Transactions":
		tm := &msgs.TransactionsMessage{}
		for i := 0; i < n; i++ {
			tm.RawTxs = append(tm.RawTxs, payload("tx"))
		}
		m = tm
	case "MerkleBlock":
		mm := &msgs.MerkleBlockMessage{RawBlockHeader: payload("header"), Flags: lg.GenBytes(t, "flags", 8)}
		for i := 0; i < n; i++ {
			mm.TxHashes = append(mm.TxHashes, raw32)
			mm.RawTxDatas = append(mm.RawTxDatas, payload("tx"))
		}
		m = mm
	case "GetBlock":
		m = &msgs.GetBlockMessage{Height: lg.GenAmount(t, "height", false), RawHash: raw32}
	case "GetMerkleBlock":
		m = &msgs.GetMerkleBlockMessage{Height: lg.GenAmount(t, "height", false), RawHash: raw32}
	case "GetHeaders":
		gm := &msgs.GetHeadersMessage{RawStopHash: raw32, Skip: lg.GenAmount(t, "skip", false)}
		for i := 0; i < n; i++ {
			gm.RawBlockLocator = append(gm.RawBlockLocator, raw32)
		}
		m = gm
	case "GetBlocks":
		gm := &msgs.GetBlocksMessage{RawStopHash: raw32}
		for i := 0; i < n; i++ {
			gm.RawBlockLocator = append(gm.RawBlockLocator, raw32)
		}
		m = gm
	case "Status":
		m = &msgs.StatusMessage{BestHeight: lg.GenAmount(t, "height", false), BestHash: raw32, JustifiedHash: raw32}
	case "FilterLoad":
		fm := &msgs.FilterLoadMessage{}
		for i := 0; i < n; i++ {
			fm.Addresses = append(fm.Addresses, lg.GenBytes(t, "address", 40))
		}
		m = fm
	case "FilterAdd":
		m = &msgs.FilterAddMessage{Address: lg.GenBytes(t, "address", 40)}
	default:
		m = &msgs.FilterClearMessage{}
	}
	return wire.BinaryBytes(struct{ msgs.BlockchainMessage }{m}), kind
}

func c05Blind(t *rapid.T, b []byte) ([]byte, int, []string) {
	return c05Mutate(t, lg.Encoded{Bytes: b})
}

func c05Gen(t *rapid.T) c05Case {
	c := c05Case{Target: rapid.SampledFrom(c05Targets).Draw(t, "target")}
	text := c.Target == "tx" || c.Target == "block" || c.Target == "header"
	switch origin := rapid.SampledFrom([]string{"structured", "structured", "structured", "structured", "raw", "hostile"}).Draw(t, "origin"); {
	case origin == "raw":
		c.Origin = "raw"
		c.Data = rapid.SliceOfN(rapid.Byte(), 0, 120).Draw(t, "raw-bytes")
		if text {
			switch rapid.IntRange(0, 2).Draw(t, "raw-form") {
			case 0: // arbitrary bytes as the text itself
				c.Raw = true
			case 1: // a plausible first byte
				if len(c.Data) > 0 {
					c.Data[0] = rapid.SampledFrom(map[string][]byte{"tx": {7}, "block": {1, 2, 3}, "header": {1, 3}}[c.Target]).Draw(t, "first-byte")
				}
			}
		} else if len(c.Data) > 0 && rapid.IntRange(0, 3).Draw(t, "known-type") > 0 {
			if c.Target == "chainmsg" {
				c.Data[0] = rapid.SampledFrom(c05ChainTypes).Draw(t, "type-byte")
			} else {
				c.Data[0] = rapid.SampledFrom([]byte{0x10, 0x11}).Draw(t, "type-byte")
			}
		}
		if len(c.Data) == 0 && !text && c05Skip("empty-msg") {
			c.Data = []byte{0}
		}
	case text:
		c.Origin = "structured"
		c.Data, c.Prefix, c.Muts = c05Mutate(t, c05Valid(t, c.Target))
	case origin == "hostile":
		// a message type byte followed by a wire length prefix and a short tail
		c.Origin = "hostile-wire-length"
		var typ byte
		if c.Target == "chainmsg" {
			typ = rapid.SampledFrom(c05ChainTypes).Draw(t, "type-byte")
		} else {
			typ = rapid.SampledFrom([]byte{0x10, 0x11}).Draw(t, "type-byte")
		}
		lens := []uint64{0, 1, 1 << 10, 1 << 16, 1 << 20, 1<<20 + 1, 4 << 20, 22020096, 22020098, 22020099, 1<<31 - 1, 1 << 31, 1<<63 - 1}
		if c05Skip("wire-alloc") {
			lens = []uint64{0, 1, 1 << 10, 1 << 16, 22020099, 1<<31 - 1, 1 << 31, 1<<63 - 1}
		}
		c.Data = append([]byte{typ}, wireVarint(rapid.SampledFrom(lens).Draw(t, "wire-length"))...)
		c.Data = append(c.Data, rapid.SliceOfN(rapid.Byte(), 0, 40).Draw(t, "tail")...)
		c.Prefix = 1
	default:
		var kind string
		c.Data, kind = c05Message(t, c.Target)
		c.Origin = "message:" + kind
		c.Prefix = len(c.Data)
		if rapid.Bool().Draw(t, "mutate-message") {
			c.Data, c.Prefix, c.Muts = c05Blind(t, c.Data)
		}
	}
	return c
}

// ---- executor ----------------------------------------------------------------------------

// guarded runs f, turning a panic into an error that names the call.
func guarded(call string, f func() error) (err error, panicked bool) {
	defer func() {
		if p := recover(); p != nil {
			err = fmt.Errorf("%s panicked: %v\n%s", call, p, shortStack(debug.Stack()))
			panicked = true
		}
	}()
	return f(), false
}

// shortStack keeps the frames between the panic and the harness.
func shortStack(st []byte) string {
	lines := strings.Split(string(st), "\n")
	start := 0
	for i, l := range lines {
		if strings.HasPrefix(l, "panic(") {
			start = i + 2
			break
		}
	}
	end := len(lines)
	for i := start; i < len(lines); i++ {
		if strings.HasPrefix(lines[i], "verifharness/") {
			end = i
			break
		}
	}
	if end-start > 16 {
		end = start + 16
	}
	return strings.Join(lines[start:end], "\n")
}

// c05SupLinkCount parses the head of a block-header encoding and returns the
// announced number of supLinks (only used by the VERIF_C05_SKIP development aid).
func c05SupLinkCount(bin []byte) (uint64, bool) {
	if len(bin) == 0 || (bin[0] != 1 && bin[0] != 3) {
		return 0, false
	}
	p := 1
	uv := func() (uint64, bool) {
		v, n := binary.Uvarint(bin[p:])
		if n <= 0 {
			return 0, false
		}
		p += n
		return v, true
	}
	if _, ok := uv(); !ok {
		return 0, false
	}
	if _, ok := uv(); !ok {
		return 0, false
	}
	p += 32
	if p > len(bin) {
		return 0, false
	}
	if _, ok := uv(); !ok {
		return 0, false
	}
	for i := 0; i < 2; i++ {
		l, ok := uv()
		if !ok || l > uint64(len(bin)-p) {
			return 0, false
		}
		p += int(l)
	}
	if _, ok := uv(); !ok {
		return 0, false
	}
	return uv()
}

func c05SupLinkBombText(text []byte) bool {
	text = []byte(strings.Trim(string(text), `"`))
	bin := make([]byte, hex.DecodedLen(len(text)))
	n, _ := hex.Decode(bin, text)
	cnt, ok := c05SupLinkCount(bin[:n])
	return ok && cnt > uint64(n)
}

func c05Exec(c c05Case, x *pbt.Ctx) error {
	x.Class("target:" + c.Target)
	x.Class("origin:" + strings.SplitN(c.Origin, ":", 2)[0])
	if strings.HasPrefix(c.Origin, "message:") {
		x.Class(c.Origin)
	}
	for _, m := range c.Muts {
		x.Class("mut:" + m)
	}
	input := []byte(c.Data)
	text := c.Target == "tx" || c.Target == "block" || c.Target == "header"
	if text && !c.Raw {
		input = hexText(c.Data)
	}
	x.Key = c.Target + "|" + string(input)
	budget := uint64(c05PerByte*len(input) + c05Slack)

	skipBomb := c05Skip("suplink-count")
	if skipBomb && (c.Target == "block" || c.Target == "header") && c05SupLinkBombText(input) {
		x.Class("skipped:suplink-count")
		return nil
	}

	var decodeErr error
	var reencode func() error
	var stage string
	decode := func() error {
		switch c.Target {
		case "tx":
			stage = "types.Tx.UnmarshalText"
			var v types.Tx
			decodeErr = v.UnmarshalText(input)
			reencode = func() error { _, err := v.TxData.MarshalText(); return err }
		case "block":
			stage = "types.Block.UnmarshalText"
			var v types.Block
			decodeErr = v.UnmarshalText(input)
			reencode = func() error { _, err := v.MarshalText(); return err }
		case "header":
			stage = "types.BlockHeader.UnmarshalText"
			var v types.BlockHeader
			decodeErr = v.UnmarshalText(input)
			reencode = func() error { _, err := v.MarshalText(); return err }
		case "chainmsg":
			stage = "netsync/chainmgr.decodeMessage"
			_, m, err := chainmgr.VerifDecodeMessage(input)
			decodeErr = err
			if err != nil {
				return nil
			}
			x.Class("decoded-message:%T", m)
			switch m := m.(type) {
			case *msgs.BlockMessage:
				if skipBomb && c05SupLinkBombText(m.RawBlock) {
					x.Class("skipped:suplink-count")
					return nil
				}
				stage = "BlockMessage.GetBlock"
				_, decodeErr = m.GetBlock()
			case *msgs.MineBlockMessage:
				if skipBomb && c05SupLinkBombText(m.RawBlock) {
					x.Class("skipped:suplink-count")
					return nil
				}
				stage = "MineBlockMessage.GetMineBlock"
				_, decodeErr = m.GetMineBlock()
			case *msgs.BlocksMessage:
				for _, r := range m.RawBlocks {
					if skipBomb && c05SupLinkBombText(r) {
						x.Class("skipped:suplink-count")
						return nil
					}
				}
				stage = "BlocksMessage.GetBlocks"
				_, decodeErr = m.GetBlocks()
			case *msgs.HeadersMessage:
				for _, r := range m.RawHeaders {
					if skipBomb && c05SupLinkBombText(r) {
						x.Class("skipped:suplink-count")
						return nil
					}
				}
				stage = "HeadersMessage.GetHeaders"
				_, decodeErr = m.GetHeaders()
			case *msgs.TransactionMessage:
				stage = "TransactionMessage.GetTransaction"
				_, decodeErr = m.GetTransaction()
			case *msgs.TransactionsMessage:
				stage = "TransactionsMessage.GetTransactions"
				_, decodeErr = m.GetTransactions()
			case *msgs.GetHeadersMessage:
				m.GetBlockLocator()
			case *msgs.GetBlocksMessage:
				m.GetBlockLocator()
			}
		case "consensusmsg":
			stage = "netsync/consensusmgr.decodeMessage"
			_, m, err := consensusmgr.VerifDecodeMessage(input)
			decodeErr = err
			if err != nil {
				return nil
			}
			x.Class("decoded-message:%T", m)
			if p, ok := m.(*consensusmgr.BlockProposeMsg); ok {
				if skipBomb && c05SupLinkBombText(p.RawBlock) {
					x.Class("skipped:suplink-count")
					return nil
				}
				stage = "BlockProposeMsg.GetProposeBlock"
				_, decodeErr = p.GetProposeBlock()
			}
		default:
			return fmt.Errorf("HARNESS: unknown target %q", c.Target)
		}
		return nil
	}

	var before, after runtime.MemStats
	runtime.ReadMemStats(&before)
	err, panicked := guarded("decoding", decode)
	runtime.ReadMemStats(&after)
	grown := after.TotalAlloc - before.TotalAlloc

	if panicked {
		msg := err.Error()
		switch {
		case c05Skip("asset-version") && strings.Contains(msg, "fail on handle transaction input"):
			x.Class("skipped:asset-version")
			return nil
		case c05Skip("empty-msg") && len(input) == 0:
			x.Class("skipped:empty-msg")
			return nil
		}
		return fmt.Errorf("%s on %d input bytes (%s): %s", stage, len(input), c05Show(input), strings.Replace(msg, "decoding panicked", "panicked", 1))
	}
	if err != nil {
		return err
	}
	if grown > budget {
		if c05Skip("wire-alloc") && strings.HasSuffix(stage, "decodeMessage") {
			x.Class("skipped:wire-alloc")
			return nil
		}
		return fmt.Errorf("%s allocated %d bytes for an input of %d bytes (budget %d*len + 1 MiB = %d): %s", stage, grown, len(input), c05PerByte, budget, c05Show(input))
	}
	switch {
	case decodeErr == nil:
		x.Class("result:decoded")
		x.NonTrivial = true
		if reencode != nil {
			if err, _ := guarded("re-encoding the decoded value", reencode); err != nil {
				return fmt.Errorf("%s accepted %s but the value does not encode again: %v", stage, c05Show(input), err)
			}
		}
	default:
		x.Class("result:error")
		if c.Prefix >= 8 {
			x.Class("result:error-after-valid-prefix>=8")
			x.NonTrivial = true
		}
	}
	return nil
}

func c05Show(input []byte) string {
	if len(input) > 400 {
		return fmt.Sprintf("%q... (%d bytes)", input[:400], len(input))
	}
	return fmt.Sprintf("%q", input)
}

func TestC05(t *testing.T) {
	// Safety net in addition to the driver's ulimit: cap the address space of this
	// process at 6 GiB (never raises an existing lower limit), so that the known
	// 17 GB request dies cleanly ("runtime: out of memory") instead of taking the
	// machine down.  VERIF_C05_NO_RLIMIT=1 disables it.
	if os.Getenv("VERIF_C05_NO_RLIMIT") == "" {
		var lim syscall.Rlimit
		if err := syscall.Getrlimit(syscall.RLIMIT_AS, &lim); err == nil {
			const want = 6 << 30
			if lim.Cur > want {
				lim.Cur = want
				if err := syscall.Setrlimit(syscall.RLIMIT_AS, &lim); err != nil {
					t.Logf("cannot lower RLIMIT_AS: %v", err)
				}
			}
		}
	}
	pbt.Run(t, "C05",
		"inputs for Tx/Block/BlockHeader.UnmarshalText and the chain / consensus message decoders (decodeMessage + payload accessors): (a) valid ledgergen encodings with 0..1 field-aware mutation (hostile integers 0x7fffffff, 2^63-1, 2^64-1, ... in place of a varint/count/length/asset version, with or without fixing the enclosing lengths; tag bytes: asset version, input type, output type, serflags; replaced byte strings) and 0..2 blind mutations (flip, set, truncate, splice, insert), also wrapped as payload of real wire-encoded messages, (b) raw random bytes, (c) a message type byte plus a hostile wire length; oracle: no panic, TotalAlloc growth <= 4096*len(input) + 1 MiB, decoded value encodes again; non-trivial = decoded successfully, or rejected with an untouched valid prefix of >= 8 bytes; distinct by (target, input bytes)",
		pbt.Options{Journal: true, Checks: pbt.Per(20000, 2400000),
			MinClass: map[string]int{"result:decoded": 500, "result:error-after-valid-prefix>=8": 500}}, c05Gen, c05Exec)
}

// TestC05WriteCorpus regenerates the seed corpus /verif/corpus/C05 (replay-format
// files executed by the regression tier on every run).  It only runs when
// VERIF_WRITE_CORPUS names the output directory.  Every file it writes passes on
// the unchanged tree; inputs that expose a defect belong in replays/, not here.
func TestC05WriteCorpus(t *testing.T) {
	dir := os.Getenv("VERIF_WRITE_CORPUS")
	if dir == "" {
		t.Skip("VERIF_WRITE_CORPUS not set")
	}
	h32 := func(b byte) lg.HexBytes {
		out := make([]byte, 32)
		for i := range out {
			out[i] = b
		}
		return out
	}
	tx := lg.TxDesc{Version: 1, TimeRange: 5,
		Inputs: []lg.InputDesc{
			{Kind: lg.Spend, SourceID: h32(0x11), SourcePos: 1, AssetID: lg.AssetPool[0], Amount: 100, Program: lg.HexBytes{0x51}, Arguments: []lg.HexBytes{{0xaa}}},
			{Kind: lg.Issuance, Nonce: lg.HexBytes{1, 2}, Amount: 7, Program: lg.HexBytes{0x51}, AssetDef: lg.HexBytes("{}")},
		},
		Outputs: []lg.OutputDesc{
			{Kind: lg.Original, AssetID: lg.AssetPool[0], Amount: 90, Program: lg.HexBytes{0x00, 0x14, 1, 2, 3, 4, 5, 6, 7, 8, 9, 10, 11, 12, 13, 14, 15, 16, 17, 18, 19, 20}},
			{Kind: lg.Vote, AssetID: lg.AssetPool[0], Amount: 5, Program: lg.HexBytes{0x51}, VoteKey: h32(0x77), StateData: []lg.HexBytes{{1}}},
			{Kind: lg.Original, AssetID: lg.AssetPool[1], Amount: 7, Program: lg.HexBytes{lg.OpFail, 1, 2}},
		}}
	cbTx := lg.TxDesc{Version: 1, Inputs: []lg.InputDesc{{Kind: lg.Coinbase, Arbitrary: lg.HexBytes{0, 1}}},
		Outputs: []lg.OutputDesc{{Kind: lg.Original, AssetID: lg.AssetPool[0], Amount: 41250000000, Program: lg.HexBytes{0x51}}}}
	hdr := lg.HeaderDesc{Version: 1, Height: 100, PrevHash: h32(0x22), Timestamp: 1600000000000, MerkleRoot: h32(0x33), Witness: append(h32(0x44), h32(0x45)...)}
	hdr2 := hdr
	hdr2.SupLinks = []lg.SupLinkDesc{
		{SourceHeight: 0, SourceHash: h32(0x55), Signatures: []lg.HexBytes{append(h32(1), h32(2)...), nil, append(h32(3), h32(4)...)}},
		{SourceHeight: 100, SourceHash: h32(0x56)},
	}
	blk := lg.BlockDesc{Header: hdr, Txs: []lg.TxDesc{cbTx, tx}, AutoRoot: true}
	etx, ehdr := lg.EncodeTx(tx), lg.EncodeHeader(hdr, lg.SerHeader)
	mark := func(e lg.Encoded, what string, nth int) int {
		for i, m := range e.Marks {
			if m.What == what {
				if nth == 0 {
					return i
				}
				nth--
			}
		}
		t.Fatalf("no mark %s", what)
		return -1
	}
	chain := func(m msgs.BlockchainMessage) []byte { return wire.BinaryBytes(struct{ msgs.BlockchainMessage }{m}) }
	blockText, _ := lg.BuildBlock(blk).MarshalText()
	var raw32 [32]byte
	copy(raw32[:], h32(0x66))
	cases := []struct {
		name string
		c    c05Case
	}{
		{"01-tx-empty", c05Case{Target: "tx", Data: lg.HexBytes{7, 0, 0, 0, 0}, Prefix: 5, Origin: "corpus"}},
		{"02-tx-valid", c05Case{Target: "tx", Data: etx.Bytes, Prefix: len(etx.Bytes), Origin: "corpus"}},
		{"03-tx-truncated", c05Case{Target: "tx", Data: etx.Bytes[:len(etx.Bytes)/2], Prefix: len(etx.Bytes) / 2, Origin: "corpus"}},
		{"04-tx-input-count-max", c05Case{Target: "tx", Data: etx.Replace(mark(etx, "count", 0), uvarint(0x7fffffff), false), Prefix: 3, Origin: "corpus"}},
		{"05-tx-version-2^64-1", c05Case{Target: "tx", Data: etx.Replace(mark(etx, "varint", 0), uvarint(1<<64-1), false), Prefix: 1, Origin: "corpus"}},
		{"06-tx-program-length-2^31-1", c05Case{Target: "tx", Data: etx.Replace(mark(etx, "length", 2), uvarint(0x7fffffff), true), Prefix: 4, Origin: "corpus"}},
		{"07-tx-input-type-9", c05Case{Target: "tx", Data: etx.Replace(mark(etx, "intype", 0), []byte{9}, false), Prefix: 6, Origin: "corpus"}},
		{"08-tx-output-type-5", c05Case{Target: "tx", Data: etx.Replace(mark(etx, "outtype", 0), []byte{5}, false), Prefix: 8, Origin: "corpus"}},
		{"10-tx-state-data-count-max", c05Case{Target: "tx", Data: etx.Replace(mark(etx, "count", 1), uvarint(0x7fffffff), true), Prefix: 4, Origin: "corpus"}},
		{"12-header-valid", c05Case{Target: "header", Data: ehdr.Bytes, Prefix: len(ehdr.Bytes), Origin: "corpus"}},
		{"13-header-two-suplinks", c05Case{Target: "header", Data: lg.EncodeHeader(hdr2, lg.SerHeader).Bytes, Prefix: 100, Origin: "corpus"}},
		{"14-header-suplink-count-1-no-data", c05Case{Target: "header", Data: ehdr.Replace(mark(ehdr, "count", 0), uvarint(1), true), Prefix: 50, Origin: "corpus"}},
		{"16-block-valid", c05Case{Target: "block", Data: lg.EncodeBlock(blk, lg.SerFull).Bytes, Prefix: 100, Origin: "corpus"}},
		{"18-block-tx-count-max", c05Case{Target: "block", Data: append(append([]byte(nil), lg.EncodeHeader(hdr, lg.SerFull).Bytes...), uvarint(0x7fffffff)...), Prefix: 100, Origin: "corpus"}},
		{"19-chainmsg-block", c05Case{Target: "chainmsg", Data: chain(&msgs.BlockMessage{RawBlock: blockText}), Prefix: 100, Origin: "corpus"}},
		{"20-chainmsg-status", c05Case{Target: "chainmsg", Data: chain(&msgs.StatusMessage{BestHeight: 5, BestHash: raw32, JustifiedHeight: 4, JustifiedHash: raw32}), Prefix: 82, Origin: "corpus"}},
		{"21-chainmsg-length-over-limit", c05Case{Target: "chainmsg", Data: append([]byte{0x11}, wireVarint(22020099)...), Prefix: 1, Origin: "corpus"}},
		{"22-chainmsg-locator-count-2^31-1", c05Case{Target: "chainmsg", Data: append([]byte{0x12}, wireVarint(1<<31-1)...), Prefix: 1, Origin: "corpus"}},
		{"23-chainmsg-headers-garbage-json", c05Case{Target: "chainmsg", Data: chain(&msgs.HeadersMessage{RawHeaders: [][]byte{[]byte(`"01"`), []byte(`{`)}}), Prefix: 8, Origin: "corpus"}},
		{"24-consensusmsg-verification", c05Case{Target: "consensusmsg", Data: wire.BinaryBytes(struct{ consensusmgr.ConsensusMessage }{consensusmgr.NewBlockVerificationMsg(lg.Hash32(h32(1)), lg.Hash32(h32(2)), h32(3), append(h32(4), h32(5)...))}), Prefix: 100, Origin: "corpus"}},
	}
	if err := os.MkdirAll(dir, 0o755); err != nil {
		t.Fatal(err)
	}
	for _, c := range cases {
		x := &pbt.Ctx{}
		if err := c05Exec(c.c, x); err != nil {
			t.Errorf("%s fails on this tree, not written: %v", c.name, err)
			continue
		}
		raw, _ := json.Marshal(c.c)
		out, _ := json.MarshalIndent(map[string]any{"property": "C05", "message": "seed corpus: " + c.name + " -> " + strings.Join(x.Classes, " "), "case": json.RawMessage(raw)}, "", " ")
		if err := os.WriteFile(dir+"/"+c.name+".json", out, 0o644); err != nil {
			t.Fatal(err)
		}
	}
}
