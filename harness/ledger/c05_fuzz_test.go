package ledger

import (
	"encoding/json"
	"os"
	"path/filepath"
	"testing"

	"verifharness/pbt"
)

// Native coverage-guided fuzz targets for C05 (thorough tier only; `go test -fuzz`).  The
// oracle is the same executor as the rapid check: no panic, bounded allocation.  The corpus is
// seeded from /verif/corpus/C05.  A failing input is written as an ordinary replay file.

func c05FuzzTarget(f *testing.F, target string) {
	files, _ := filepath.Glob(filepath.Join(pbt.VerifRoot(), "corpus", "C05", "*.json"))
	for _, fn := range files {
		raw, err := os.ReadFile(fn)
		if err != nil {
			continue
		}
		var rf struct {
			Case c05Case `json:"case"`
		}
		if json.Unmarshal(raw, &rf) == nil && rf.Case.Target == target && !rf.Case.Raw {
			f.Add([]byte(rf.Case.Data))
		}
	}
	f.Add([]byte{})
	f.Fuzz(func(t *testing.T, data []byte) {
		c := c05Case{Target: target, Data: data, Origin: "native-fuzz"}
		if err := c05Exec(c, &pbt.Ctx{}); err != nil {
			path := pbt.WriteReplay("C05", "", c, err.Error())
			t.Fatalf("FAILCASE property=C05 replay=%s\n%v", path, err)
		}
	})
}

func FuzzC05Tx(f *testing.F)           { c05FuzzTarget(f, "tx") }
func FuzzC05Block(f *testing.F)        { c05FuzzTarget(f, "block") }
func FuzzC05Header(f *testing.F)       { c05FuzzTarget(f, "header") }
func FuzzC05ChainMsg(f *testing.F)     { c05FuzzTarget(f, "chainmsg") }
func FuzzC05ConsensusMsg(f *testing.F) { c05FuzzTarget(f, "consensusmsg") }
