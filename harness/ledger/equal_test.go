package ledger

import (
	"bytes"
	"fmt"

	"github.com/bytom/bytom/protocol/bc/types"
)

// Field-wise equality of ledger values under DESIGN 4.1 (nil and empty byte
// strings / lists are the same value).  Each function returns "" when equal,
// else a description of the first difference.

func eqBytes(name string, a, b []byte) string {
	if !bytes.Equal(a, b) {
		return fmt.Sprintf("%s: %x != %x", name, a, b)
	}
	return ""
}

func eqList(name string, a, b [][]byte) string {
	if len(a) != len(b) {
		return fmt.Sprintf("%s: %d elements != %d elements", name, len(a), len(b))
	}
	for i := range a {
		if d := eqBytes(fmt.Sprintf("%s[%d]", name, i), a[i], b[i]); d != "" {
			return d
		}
	}
	return ""
}

func eqU64(name string, a, b uint64) string {
	if a != b {
		return fmt.Sprintf("%s: %d != %d", name, a, b)
	}
	return ""
}

func first(ds ...string) string {
	for _, d := range ds {
		if d != "" {
			return d
		}
	}
	return ""
}

func eqSpendCommitment(p string, a, b *types.SpendCommitment) string {
	if (a.AssetId == nil) != (b.AssetId == nil) {
		return p + ".AssetId: nil-ness differs"
	}
	if a.AssetId != nil && *a.AssetId != *b.AssetId {
		return fmt.Sprintf("%s.AssetId: %x != %x", p, a.AssetId.Bytes(), b.AssetId.Bytes())
	}
	if a.SourceID != b.SourceID {
		return fmt.Sprintf("%s.SourceID: %x != %x", p, a.SourceID.Bytes(), b.SourceID.Bytes())
	}
	return first(
		eqU64(p+".Amount", a.Amount, b.Amount),
		eqU64(p+".SourcePosition", a.SourcePosition, b.SourcePosition),
		eqU64(p+".VMVersion", a.VMVersion, b.VMVersion),
		eqBytes(p+".ControlProgram", a.ControlProgram, b.ControlProgram),
		eqList(p+".StateData", a.StateData, b.StateData))
}

func eqInput(p string, a, b *types.TxInput) string {
	if d := first(eqU64(p+".AssetVersion", a.AssetVersion, b.AssetVersion),
		eqBytes(p+".CommitmentSuffix", a.CommitmentSuffix, b.CommitmentSuffix),
		eqBytes(p+".WitnessSuffix", a.WitnessSuffix, b.WitnessSuffix)); d != "" {
		return d
	}
	if (a.TypedInput == nil) != (b.TypedInput == nil) {
		return fmt.Sprintf("%s.TypedInput: %T != %T", p, a.TypedInput, b.TypedInput)
	}
	if a.TypedInput == nil {
		return ""
	}
	if a.InputType() != b.InputType() {
		return fmt.Sprintf("%s: input type %d != %d", p, a.InputType(), b.InputType())
	}
	switch x := a.TypedInput.(type) {
	case *types.CoinbaseInput:
		return eqBytes(p+".Arbitrary", x.Arbitrary, b.TypedInput.(*types.CoinbaseInput).Arbitrary)
	case *types.IssuanceInput:
		y := b.TypedInput.(*types.IssuanceInput)
		if x.AssetID() != y.AssetID() {
			return fmt.Sprintf("%s.AssetID(): %x != %x", p, x.AssetID().Bytes(), y.AssetID().Bytes())
		}
		return first(eqBytes(p+".Nonce", x.Nonce, y.Nonce), eqU64(p+".Amount", x.Amount, y.Amount),
			eqBytes(p+".AssetDefinition", x.AssetDefinition, y.AssetDefinition), eqU64(p+".VMVersion", x.VMVersion, y.VMVersion),
			eqBytes(p+".IssuanceProgram", x.IssuanceProgram, y.IssuanceProgram), eqList(p+".Arguments", x.Arguments, y.Arguments))
	case *types.SpendInput:
		y := b.TypedInput.(*types.SpendInput)
		return first(eqSpendCommitment(p, &x.SpendCommitment, &y.SpendCommitment),
			eqBytes(p+".SpendCommitmentSuffix", x.SpendCommitmentSuffix, y.SpendCommitmentSuffix),
			eqList(p+".Arguments", x.Arguments, y.Arguments))
	case *types.VetoInput:
		y := b.TypedInput.(*types.VetoInput)
		return first(eqSpendCommitment(p, &x.SpendCommitment, &y.SpendCommitment),
			eqBytes(p+".VetoCommitmentSuffix", x.VetoCommitmentSuffix, y.VetoCommitmentSuffix),
			eqBytes(p+".Vote", x.Vote, y.Vote),
			eqList(p+".Arguments", x.Arguments, y.Arguments))
	}
	return fmt.Sprintf("%s: unknown typed input %T", p, a.TypedInput)
}

func eqOutput(p string, a, b *types.TxOutput) string {
	if d := first(eqU64(p+".AssetVersion", a.AssetVersion, b.AssetVersion),
		eqBytes(p+".CommitmentSuffix", a.CommitmentSuffix, b.CommitmentSuffix)); d != "" {
		return d
	}
	if (a.TypedOutput == nil) != (b.TypedOutput == nil) {
		return p + ".TypedOutput: nil-ness differs"
	}
	if a.TypedOutput != nil {
		if a.OutputType() != b.OutputType() {
			return fmt.Sprintf("%s: output type %d != %d", p, a.OutputType(), b.OutputType())
		}
		if va, ok := a.TypedOutput.(*types.VoteOutput); ok {
			if d := eqBytes(p+".Vote", va.Vote, b.TypedOutput.(*types.VoteOutput).Vote); d != "" {
				return d
			}
		}
	}
	if a.AssetVersion != 1 {
		// the commitment of an unknown asset version is carried by the suffix only
		return ""
	}
	if (a.AssetId == nil) != (b.AssetId == nil) {
		return p + ".AssetId: nil-ness differs"
	}
	if a.AssetId != nil && *a.AssetId != *b.AssetId {
		return fmt.Sprintf("%s.AssetId: %x != %x", p, a.AssetId.Bytes(), b.AssetId.Bytes())
	}
	return first(eqU64(p+".Amount", a.Amount, b.Amount), eqU64(p+".VMVersion", a.VMVersion, b.VMVersion),
		eqBytes(p+".ControlProgram", a.ControlProgram, b.ControlProgram), eqList(p+".StateData", a.StateData, b.StateData))
}

// eqTxData compares everything but SerializedSize (recorded by the decoder only).
func eqTxData(p string, a, b *types.TxData) string {
	if d := first(eqU64(p+".Version", a.Version, b.Version), eqU64(p+".TimeRange", a.TimeRange, b.TimeRange)); d != "" {
		return d
	}
	if len(a.Inputs) != len(b.Inputs) {
		return fmt.Sprintf("%s: %d inputs != %d inputs", p, len(a.Inputs), len(b.Inputs))
	}
	if len(a.Outputs) != len(b.Outputs) {
		return fmt.Sprintf("%s: %d outputs != %d outputs", p, len(a.Outputs), len(b.Outputs))
	}
	for i := range a.Inputs {
		if d := eqInput(fmt.Sprintf("%s.Inputs[%d]", p, i), a.Inputs[i], b.Inputs[i]); d != "" {
			return d
		}
	}
	for i := range a.Outputs {
		if d := eqOutput(fmt.Sprintf("%s.Outputs[%d]", p, i), a.Outputs[i], b.Outputs[i]); d != "" {
			return d
		}
	}
	return ""
}

func eqHeader(p string, a, b *types.BlockHeader) string {
	if a.PreviousBlockHash != b.PreviousBlockHash {
		return fmt.Sprintf("%s.PreviousBlockHash: %x != %x", p, a.PreviousBlockHash.Bytes(), b.PreviousBlockHash.Bytes())
	}
	if a.TransactionsMerkleRoot != b.TransactionsMerkleRoot {
		return fmt.Sprintf("%s.TransactionsMerkleRoot: %x != %x", p, a.TransactionsMerkleRoot.Bytes(), b.TransactionsMerkleRoot.Bytes())
	}
	if d := first(eqU64(p+".Version", a.Version, b.Version), eqU64(p+".Height", a.Height, b.Height),
		eqU64(p+".Timestamp", a.Timestamp, b.Timestamp), eqBytes(p+".BlockWitness", a.BlockWitness, b.BlockWitness)); d != "" {
		return d
	}
	if len(a.SupLinks) != len(b.SupLinks) {
		return fmt.Sprintf("%s: %d supLinks != %d supLinks", p, len(a.SupLinks), len(b.SupLinks))
	}
	for i := range a.SupLinks {
		x, y := a.SupLinks[i], b.SupLinks[i]
		q := fmt.Sprintf("%s.SupLinks[%d]", p, i)
		if (x == nil) != (y == nil) {
			return q + ": nil-ness differs"
		}
		if x == nil {
			continue
		}
		if x.SourceHash != y.SourceHash {
			return fmt.Sprintf("%s.SourceHash: %x != %x", q, x.SourceHash.Bytes(), y.SourceHash.Bytes())
		}
		if d := eqU64(q+".SourceHeight", x.SourceHeight, y.SourceHeight); d != "" {
			return d
		}
		for j := range x.Signatures {
			if d := eqBytes(fmt.Sprintf("%s.Signatures[%d]", q, j), x.Signatures[j], y.Signatures[j]); d != "" {
				return d
			}
		}
	}
	return ""
}

func eqBlock(p string, a, b *types.Block) string {
	if d := eqHeader(p, &a.BlockHeader, &b.BlockHeader); d != "" {
		return d
	}
	return eqTxs(p, a.Transactions, b.Transactions)
}

func eqTxs(p string, a, b []*types.Tx) string {
	if len(a) != len(b) {
		return fmt.Sprintf("%s: %d transactions != %d transactions", p, len(a), len(b))
	}
	for i := range a {
		q := fmt.Sprintf("%s.Transactions[%d]", p, i)
		if d := eqTxData(q, &a[i].TxData, &b[i].TxData); d != "" {
			return d
		}
		if a[i].ID != b[i].ID {
			return fmt.Sprintf("%s.ID: %x != %x", q, a[i].ID.Bytes(), b[i].ID.Bytes())
		}
	}
	return ""
}
