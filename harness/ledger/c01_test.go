package ledger

import (
	"bytes"
	"fmt"
	"math/big"
	"testing"

	"pgregory.net/rapid"

	"github.com/bytom/bytom/consensus"
	"github.com/bytom/bytom/protocol/bc"
	"github.com/bytom/bytom/protocol/bc/types"
	"github.com/bytom/bytom/protocol/validation"

	"verifharness/pbt"
)

// C01: for every transaction that passes validation every non-BTM asset has equal
// totals in and out, BTM in >= BTM out, and the fee the validator reports equals that
// difference and the transaction's own Fee().
//
// Programs are OP_TRUE so that the value graph, not scripting, decides.

type c01In struct {
	Kind   string `json:"kind"` // spend, issue, veto, coinbase
	Asset  int    `json:"asset"`
	Amount uint64 `json:"amount"`
}

type c01Out struct {
	Kind   string `json:"kind"` // original, vote, retire
	Asset  int    `json:"asset"`
	Amount uint64 `json:"amount"`
}

type c01Case struct {
	Family string   `json:"family"` // balanced, unbalanced, mutated, coinbase
	Ins    []c01In  `json:"ins"`
	Outs   []c01Out `json:"outs"`
	Slow   int      `json:"slow,omitempty"` // spend programs are OP_1 followed by this many OP_SHA3 (the value graph still decides; validation just takes longer)
}

var c01Amounts = []uint64{0, 1, 2, 1<<31 - 1, 1 << 31, 1<<31 + 1, 1 << 32, 1 << 62, 1<<63 - 1, 1 << 63, 1<<64 - 1}

func c01Amount(t *rapid.T, label string) uint64 {
	switch rapid.IntRange(0, 3).Draw(t, label+"k") {
	case 0:
		return rapid.SampledFrom(c01Amounts).Draw(t, label+"b")
	case 1:
		return rapid.Uint64Range(1, 1000).Draw(t, label+"s")
	case 2:
		return rapid.Uint64Range(1<<61, 1<<63).Draw(t, label+"h")
	default:
		return rapid.Uint64Range(1, 1<<40).Draw(t, label+"m")
	}
}

// assets: 0 = BTM, 1..3 other asset ids (for issuance inputs the id is derived from the definition)
func c01Asset(i int) bc.AssetID {
	if i == 0 {
		return *consensus.BTMAssetID
	}
	return c01Issuance(i, 0).AssetID()
}

func c01Issuance(asset int, amount uint64) *types.TxInput {
	return types.NewIssuanceInput([]byte{byte(asset), 0x77}, amount, []byte{0x51}, nil, []byte{byte('A' + asset)})
}

var c01VoteKey = func() []byte {
	k := make([]byte, 64)
	for i := range k {
		k[i] = byte(i + 1)
	}
	return k
}()

func c01Gen(t *rapid.T) c01Case {
	c := c01Case{Family: rapid.SampledFrom([]string{"balanced", "balanced", "balanced", "unbalanced", "mutated", "mutated", "coinbase", "wrap", "wrap"}).Draw(t, "family")}
	if c.Family == "wrap" {
		// totals that exceed 2^63 or 2^64 only in sum: several same-asset inputs whose exact total
		// differs from what 64-bit wrap-around arithmetic gives, outputs matching the wrapped total
		asset := rapid.IntRange(0, 3).Draw(t, "wasset")
		c.Ins = append(c.Ins, c01In{Kind: "spend", Asset: 0, Amount: rapid.Uint64Range(1<<30, 1<<40).Draw(t, "wbtm")})
		n := rapid.IntRange(2, 4).Draw(t, "wn")
		var wrapped uint64
		for i := 0; i < n; i++ {
			a := rapid.SampledFrom([]uint64{1, 5, 1 << 62, 1<<63 - 1, 1 << 63, 1<<63 + 5, 1<<64 - 3, 1<<64 - 1}).Draw(t, "wa")
			if rapid.Bool().Draw(t, "wjit") {
				a -= uint64(rapid.IntRange(0, 3).Draw(t, "wj"))
			}
			kind := "spend"
			if asset != 0 && rapid.IntRange(0, 3).Draw(t, "wiss") == 0 {
				kind = "issue"
			}
			c.Ins = append(c.Ins, c01In{Kind: kind, Asset: asset, Amount: a})
			wrapped += a
		}
		if asset == 0 {
			wrapped += c.Ins[0].Amount
			fee := uint64(1 << 28)
			if wrapped > fee {
				wrapped -= fee
			}
		}
		if wrapped == 0 {
			wrapped = 2
		}
		c.Outs = append(c.Outs, c01Out{Kind: "original", Asset: asset, Amount: wrapped})
		if asset != 0 {
			c.Outs = append(c.Outs, c01Out{Kind: "original", Asset: 0, Amount: c.Ins[0].Amount - 1<<28})
		}
		return c
	}
	if c.Family == "coinbase" {
		c.Ins = []c01In{{Kind: "coinbase"}}
		n := rapid.IntRange(1, 4).Draw(t, "nout")
		for i := 0; i < n; i++ {
			a := uint64(0)
			if rapid.IntRange(0, 2).Draw(t, "paid") == 0 {
				a = rapid.Uint64Range(1, 1<<40).Draw(t, "amt")
			}
			asset := 0
			if rapid.IntRange(0, 5).Draw(t, "wrongasset") == 0 {
				asset = 1
			}
			c.Outs = append(c.Outs, c01Out{Kind: "original", Asset: asset, Amount: a})
		}
		return c
	}
	nin := rapid.IntRange(1, 12).Draw(t, "nin")
	// a BTM spend first (pays the fee), large enough for any fee
	c.Ins = append(c.Ins, c01In{Kind: "spend", Asset: 0, Amount: rapid.Uint64Range(1<<33, 1<<45).Draw(t, "btm")})
	for i := 1; i < nin; i++ {
		in := c01In{Kind: rapid.SampledFrom([]string{"spend", "spend", "issue", "veto"}).Draw(t, "ikind"), Asset: rapid.IntRange(0, 3).Draw(t, "iasset")}
		in.Amount = c01Amount(t, "ia")
		switch in.Kind {
		case "issue":
			if in.Asset == 0 {
				in.Asset = 1
			}
		case "veto":
			in.Asset = 0
		}
		c.Ins = append(c.Ins, in)
	}
	if c.Family == "unbalanced" {
		nout := rapid.IntRange(1, 12).Draw(t, "nout")
		for i := 0; i < nout; i++ {
			c.Outs = append(c.Outs, c01Out{Kind: rapid.SampledFrom([]string{"original", "original", "vote", "retire"}).Draw(t, "okind"), Asset: rapid.IntRange(0, 3).Draw(t, "oasset"), Amount: c01Amount(t, "oa")})
		}
		return c
	}
	// balanced: split every asset's input total over 1..3 outputs (overflowing totals are left to fail)
	tot := map[int]*big.Int{}
	for _, in := range c.Ins {
		if tot[in.Asset] == nil {
			tot[in.Asset] = new(big.Int)
		}
		tot[in.Asset].Add(tot[in.Asset], new(big.Int).SetUint64(in.Amount))
	}
	for asset := 0; asset <= 3; asset++ {
		total := tot[asset]
		if total == nil || !total.IsUint64() {
			if total != nil {
				// cannot be balanced with uint64 outputs in one piece: put a huge output, validation must refuse somewhere
				c.Outs = append(c.Outs, c01Out{Kind: "original", Asset: asset, Amount: 1<<64 - 1})
			}
			continue
		}
		rest := total.Uint64()
		if asset == 0 {
			fee := rapid.Uint64Range(1<<28, 1<<32).Draw(t, "fee")
			if rest > fee {
				rest -= fee
			}
		}
		parts := rapid.IntRange(1, 3).Draw(t, "parts")
		for p := 0; p < parts && rest > 0; p++ {
			amt := rest
			if p < parts-1 {
				amt = rapid.Uint64Range(0, rest).Draw(t, "part")
			}
			if amt == 0 {
				continue
			}
			kind := "original"
			switch rapid.IntRange(0, 5).Draw(t, "okind") {
			case 0:
				kind = "retire"
			case 1:
				if asset == 0 && amt >= consensus.MinVoteOutputAmount {
					kind = "vote"
				}
			}
			c.Outs = append(c.Outs, c01Out{Kind: kind, Asset: asset, Amount: amt})
			rest -= amt
		}
	}
	if len(c.Outs) == 0 {
		c.Outs = append(c.Outs, c01Out{Kind: "original", Asset: 0, Amount: 1})
	}
	if c.Family == "mutated" {
		// exactly one amount changed by a small or a boundary delta
		d := rapid.SampledFrom([]uint64{1, 2, 1 << 31, 1 << 32, 1 << 62, 1 << 63}).Draw(t, "delta")
		if rapid.Bool().Draw(t, "mutin") {
			i := rapid.IntRange(0, len(c.Ins)-1).Draw(t, "mi")
			if rapid.Bool().Draw(t, "plus") {
				c.Ins[i].Amount += d
			} else {
				c.Ins[i].Amount -= d
			}
		} else {
			i := rapid.IntRange(0, len(c.Outs)-1).Draw(t, "mo")
			switch rapid.IntRange(0, 2).Draw(t, "how") {
			case 0:
				c.Outs[i].Amount += d
			case 1:
				c.Outs[i].Amount -= d
			default:
				c.Outs[i].Asset = (c.Outs[i].Asset + 1) % 4
			}
		}
	}
	return c
}

func c01Build(c c01Case) (*types.Tx, error) {
	d := &types.TxData{Version: 1}
	spendProg := []byte{0x51}
	if c.Slow > 0 && c.Slow <= 5000 {
		spendProg = append(spendProg, bytes.Repeat([]byte{0xaa}, c.Slow)...)
	}
	for i, in := range c.Ins {
		var src bc.Hash
		src.V0, src.V1 = uint64(i+1), 0xabcdef
		switch in.Kind {
		case "coinbase":
			d.Inputs = append(d.Inputs, types.NewCoinbaseInput([]byte{0x00, '1'}))
		case "spend":
			d.Inputs = append(d.Inputs, types.NewSpendInput(nil, src, c01Asset(in.Asset), in.Amount, uint64(i), spendProg, nil))
		case "veto":
			d.Inputs = append(d.Inputs, types.NewVetoInput(nil, src, c01Asset(0), in.Amount, uint64(i), []byte{0x51}, c01VoteKey, nil))
		case "issue":
			a := in.Asset
			if a == 0 {
				a = 1
			}
			d.Inputs = append(d.Inputs, c01Issuance(a, in.Amount))
		default:
			return nil, fmt.Errorf("bad input kind %q", in.Kind)
		}
	}
	for _, o := range c.Outs {
		switch o.Kind {
		case "original":
			d.Outputs = append(d.Outputs, types.NewOriginalTxOutput(c01Asset(o.Asset), o.Amount, []byte{0x51}, nil))
		case "vote":
			d.Outputs = append(d.Outputs, types.NewVoteOutput(c01Asset(o.Asset), o.Amount, []byte{0x51}, c01VoteKey, nil))
		case "retire":
			d.Outputs = append(d.Outputs, types.NewOriginalTxOutput(c01Asset(o.Asset), o.Amount, []byte{0x6a}, nil))
		default:
			return nil, fmt.Errorf("bad output kind %q", o.Kind)
		}
	}
	raw, err := d.MarshalText()
	if err != nil {
		// amounts above 2^63-1 cannot be serialised, but a transaction built in memory (as the
		// wallet's builder does before it validates) can carry them: validate the constructed form
		d.SerializedSize = 400
		return types.NewTx(*d), nil
	}
	tx := &types.Tx{}
	if err := tx.UnmarshalText(raw); err != nil {
		return nil, err
	}
	return tx, nil
}

func c01Exec(c c01Case, x *pbt.Ctx) error {
	x.Class("family:" + c.Family)
	for _, in := range c.Ins {
		if in.Asset < 0 || in.Asset > 3 {
			return nil
		}
	}
	for _, o := range c.Outs {
		if o.Asset < 0 || o.Asset > 3 {
			return nil
		}
	}
	tx, err := c01Build(c)
	if err != nil {
		x.Class("not-buildable")
		return nil
	}
	if tx.SerializedSize == 400 {
		x.Class("constructed-only(amount>2^63-1)")
	}
	block := &bc.Block{BlockHeader: &bc.BlockHeader{Version: 1, Height: 7}}
	if c.Family == "coinbase" {
		block.Transactions = []*bc.Tx{tx.Tx}
	}
	gas, verr := validation.ValidateTx(tx.Tx, block, func(prog []byte) ([]byte, error) { return nil, fmt.Errorf("no contracts") })
	if verr != nil {
		x.Class("rejected:" + c.Family)
		return nil
	}
	x.Class("validated:" + c.Family)
	nt, err := c01Judge(c, tx, gas)
	x.NonTrivial = nt
	return err
}

// c01Judge judges a transaction the validator passed, with independent sums over the transaction data.
func c01Judge(c c01Case, tx *types.Tx, gas *validation.GasState) (nonTrivial bool, err error) {
	in := map[bc.AssetID]*big.Int{}
	out := map[bc.AssetID]*big.Int{}
	add := func(m map[bc.AssetID]*big.Int, a bc.AssetID, v uint64) {
		if m[a] == nil {
			m[a] = new(big.Int)
		}
		m[a].Add(m[a], new(big.Int).SetUint64(v))
	}
	coinbase := false
	for _, i := range tx.Inputs {
		switch ti := i.TypedInput.(type) {
		case *types.SpendInput:
			add(in, *ti.AssetId, ti.Amount)
		case *types.VetoInput:
			add(in, *ti.AssetId, ti.Amount)
		case *types.IssuanceInput:
			add(in, ti.AssetID(), ti.Amount)
		case *types.CoinbaseInput:
			coinbase = true
		}
	}
	assets := map[bc.AssetID]bool{}
	big62 := false
	for _, o := range tx.Outputs {
		add(out, *o.AssetId, o.Amount)
		assets[*o.AssetId] = true
		if o.Amount >= 1<<62 {
			big62 = true
		}
	}
	for a := range in {
		assets[a] = true
	}
	nonTrivial = len(assets) >= 2 || big62 || c.Family == "mutated"
	zero := new(big.Int)
	get := func(m map[bc.AssetID]*big.Int, a bc.AssetID) *big.Int {
		if m[a] == nil {
			return zero
		}
		return m[a]
	}
	if coinbase {
		for _, o := range tx.Outputs {
			if *o.AssetId != *consensus.BTMAssetID {
				return nonTrivial, fmt.Errorf("validated coinbase transaction has a non-BTM output (asset %x, amount %d)", o.AssetId.Bytes(), o.Amount)
			}
		}
		if gas.BTMValue != 0 || tx.Fee() != 0 {
			return nonTrivial, fmt.Errorf("validated coinbase transaction: validator reports BTM value %d, Fee() = %d; both must be 0", gas.BTMValue, tx.Fee())
		}
		return nonTrivial, nil
	}
	for a := range assets {
		i, o := get(in, a), get(out, a)
		if a == *consensus.BTMAssetID {
			continue
		}
		if i.Cmp(o) != 0 {
			return nonTrivial, fmt.Errorf("validated transaction does not conserve asset %x: inputs total %s, outputs total %s\ncase: %+v", a.Bytes(), i, o, c)
		}
	}
	bi, bo := get(in, *consensus.BTMAssetID), get(out, *consensus.BTMAssetID)
	if bi.Cmp(bo) < 0 {
		return nonTrivial, fmt.Errorf("validated transaction creates BTM: inputs %s < outputs %s\ncase: %+v", bi, bo, c)
	}
	diff := new(big.Int).Sub(bi, bo)
	if !diff.IsUint64() || diff.Uint64() != gas.BTMValue {
		return nonTrivial, fmt.Errorf("validator reports a fee of %d, BTM inputs - outputs = %s\ncase: %+v", gas.BTMValue, diff, c)
	}
	if tx.Fee() != gas.BTMValue {
		return nonTrivial, fmt.Errorf("TxData.Fee() = %d, validator reports %d (inputs - outputs = %s)\ncase: %+v", tx.Fee(), gas.BTMValue, diff, c)
	}
	return nonTrivial, nil
}

func TestC01(t *testing.T) {
	pbt.Run(t, "C01", "transactions of 1-12 inputs (spend, issuance, veto; coinbase in a one-transaction block context) and 1-12 outputs (original, vote, retirement) over BTM and three other assets with boundary-heavy amounts (0, 1, 2^31+-1, 2^32, 2^62, 2^63-1, 2^63, 2^64-1); families: balanced and funded, unbalanced/overflowing, one amount or asset of a balanced one mutated, coinbase; every transaction that passes ValidateTx is judged with big-integer sums over the transaction data; non-trivial = >=2 assets, an amount >= 2^62, or a mutated case; generator health: balanced ones mostly validate",
		pbt.Options{Checks: pbt.Per(20000, 2400000), MinClass: map[string]int{"validated:balanced": 1000, "validated:coinbase": 20}}, c01Gen, c01Exec)
}
