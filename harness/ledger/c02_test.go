package ledger

import (
	"crypto/ed25519"
	"crypto/sha256"
	"encoding/hex"
	"fmt"
	"math/big"
	"testing"

	"golang.org/x/crypto/ripemd160"
	"golang.org/x/crypto/sha3"
	"pgregory.net/rapid"

	"github.com/bytom/bytom/consensus"
	"github.com/bytom/bytom/crypto/ed25519/chainkd"
	"github.com/bytom/bytom/protocol/bc"
	"github.com/bytom/bytom/protocol/bc/types"
	"github.com/bytom/bytom/protocol/validation"
	"github.com/bytom/bytom/protocol/vm/vmutil"

	"verifharness/pbt"
)

// C02: an output locked to a pay-to-key-hash, pay-to-script-hash or multisig program can
// be spent only by a witness with valid signatures, from the committed keys, over this
// exact transaction's signature hash; any change to a signature, key, redeem script or
// committed transaction field makes the spend invalid.

type c02Case struct {
	Lock    string `json:"lock"` // p2wpkh, p2wsh, multisig
	N       int    `json:"n"`    // number of keys (1 for p2wpkh)
	M       int    `json:"m"`    // quorum
	KeySeed int    `json:"key_seed"`
	Subset  []int  `json:"subset"`  // which keys sign (indexes, in this order)
	Variant string `json:"variant"` // see c02Variants
	Idx     int    `json:"idx"`     // position the variant applies to
	Bit     int    `json:"bit"`
	Extra   int    `json:"extra"` // number of unrelated other inputs/outputs
	// Primed: the properly signed transaction has been validated before (when it entered the pool, and
	// in a block), then the variant arrives in a block (ValidateTxs)
	Primed bool `json:"primed,omitempty"`
}

var c02Variants = []string{"correct", "correct", "flip-sig-bit", "truncate-sig", "sig-plus-group-order", "sig-r-other-encoding", "sig-other-message", "sig-other-key", "alter-key-or-script",
	"duplicate-sig", "reverse-sigs", "one-sig-less", "mutate-output-amount", "mutate-output-program", "mutate-timerange", "mutate-other-input", "extra-arg", "no-witness"}

func c02Key(seed, i int) chainkd.XPrv {
	h := sha256.Sum256([]byte(fmt.Sprintf("c02-key-%d-%d", seed, i)))
	return chainkd.RootXPrv(h[:])
}

func c02Gen(t *rapid.T) c02Case {
	c := c02Case{Lock: rapid.SampledFrom([]string{"p2wpkh", "p2wsh", "p2wsh", "multisig"}).Draw(t, "lock"), KeySeed: rapid.IntRange(0, 1000).Draw(t, "seed")}
	c.N = 1
	c.M = 1
	if c.Lock != "p2wpkh" {
		c.N = rapid.IntRange(1, 6).Draw(t, "n")
		c.M = rapid.IntRange(1, c.N).Draw(t, "m")
	}
	// an m-subset in key order
	perm := rapid.Permutation([]int{0, 1, 2, 3, 4, 5}[:c.N]).Draw(t, "perm")
	sub := append([]int(nil), perm[:c.M]...)
	for i := 0; i < len(sub); i++ {
		for j := i + 1; j < len(sub); j++ {
			if sub[j] < sub[i] {
				sub[i], sub[j] = sub[j], sub[i]
			}
		}
	}
	c.Subset = sub
	c.Variant = rapid.SampledFrom(c02Variants).Draw(t, "variant")
	c.Idx = rapid.IntRange(0, 5).Draw(t, "idx")
	c.Bit = rapid.IntRange(0, 511).Draw(t, "bit")
	c.Extra = rapid.IntRange(0, 2).Draw(t, "extra")
	c.Primed = rapid.Bool().Draw(t, "primed")
	return c
}

func c02Exec(c c02Case, x *pbt.Ctx) error {
	if c.N < 1 || c.N > 6 || c.M < 1 || c.M > c.N || len(c.Subset) != c.M {
		return nil
	}
	for i, s := range c.Subset {
		if s < 0 || s >= c.N || (i > 0 && s <= c.Subset[i-1]) {
			return nil
		}
	}
	x.Class("lock:" + c.Lock)
	x.Class("variant:" + c.Variant)
	var prvs []chainkd.XPrv
	var pubs []ed25519.PublicKey
	for i := 0; i < c.N; i++ {
		k := c02Key(c.KeySeed, i)
		prvs = append(prvs, k)
		pubs = append(pubs, k.XPub().PublicKey())
	}
	script, err := vmutil.P2SPMultiSigProgram(pubs, c.M)
	if err != nil {
		return fmt.Errorf("HARNESS: %v", err)
	}
	var prog []byte
	var keyHash, scriptHash []byte
	switch c.Lock {
	case "p2wpkh":
		r := ripemd160.New()
		r.Write(pubs[0])
		keyHash = r.Sum(nil)
		prog, err = vmutil.P2WPKHProgram(keyHash)
	case "p2wsh":
		h := sha3.Sum256(script)
		scriptHash = h[:]
		prog, err = vmutil.P2WSHProgram(scriptHash)
	case "multisig":
		prog = script
	default:
		return nil
	}
	if err != nil {
		return fmt.Errorf("HARNESS: %v", err)
	}

	build := func(outAmount uint64, outProg []byte, timeRange uint64, otherAmount uint64) *types.Tx {
		d := &types.TxData{Version: 1, TimeRange: timeRange}
		var src bc.Hash
		src.V0, src.V3 = 7, uint64(c.KeySeed)
		d.Inputs = append(d.Inputs, types.NewSpendInput(nil, src, *consensus.BTMAssetID, 5000000000, 1, prog, nil))
		for e := 0; e < c.Extra; e++ {
			var s2 bc.Hash
			s2.V0, s2.V1 = uint64(100+e), 5
			d.Inputs = append(d.Inputs, types.NewSpendInput(nil, s2, *consensus.BTMAssetID, otherAmount, uint64(e), []byte{0x51}, nil))
		}
		d.Outputs = append(d.Outputs, types.NewOriginalTxOutput(*consensus.BTMAssetID, outAmount, outProg, nil))
		for e := 0; e < c.Extra; e++ {
			d.Outputs = append(d.Outputs, types.NewOriginalTxOutput(*consensus.BTMAssetID, otherAmount, []byte{0x51}, nil))
		}
		raw, err := d.MarshalText()
		if err != nil {
			panic(err)
		}
		tx := &types.Tx{}
		if err := tx.UnmarshalText(raw); err != nil {
			panic(err)
		}
		return tx
	}
	tx := build(4000000000, []byte{0x51}, 0, 777)
	sigHash := tx.SigHash(0).Bytes()

	// witness of the signed transaction
	var sigs [][]byte
	for _, ki := range c.Subset {
		sigs = append(sigs, prvs[ki].Sign(sigHash))
	}
	tail := [][]byte{} // key (p2wpkh) or redeem script (p2wsh)
	switch c.Lock {
	case "p2wpkh":
		tail = [][]byte{append([]byte(nil), pubs[0]...)}
	case "p2wsh":
		tail = [][]byte{append([]byte(nil), script...)}
	}
	idx := c.Idx % len(sigs)
	var goodArgs [][]byte
	for _, a := range append(append([][]byte{}, sigs...), tail...) {
		goodArgs = append(goodArgs, append([]byte(nil), a...))
	}
	final := tx
	switch c.Variant {
	case "correct":
	case "flip-sig-bit":
		sigs[idx][c.Bit/8%len(sigs[idx])] ^= 1 << uint(c.Bit%8)
	case "truncate-sig":
		sigs[idx] = sigs[idx][:len(sigs[idx])-1-c.Bit%8]
	case "sig-plus-group-order":
		// (R, S) -> (R, S + k*L): the same point equation, another encoding of the scalar; a verifier
		// that does not insist on S < L accepts it
		l, _ := new(big.Int).SetString("7237005577332262213973186563042994240857116359379907606001950938285454250989", 10)
		sc := make([]byte, 32)
		for i := 0; i < 32; i++ {
			sc[i] = sigs[idx][63-i]
		}
		v := new(big.Int).SetBytes(sc)
		v.Add(v, new(big.Int).Mul(l, big.NewInt(int64(1+c.Bit%7))))
		if v.BitLen() > 256 {
			return nil
		}
		be := v.FillBytes(make([]byte, 32))
		for i := 0; i < 32; i++ {
			sigs[idx][32+i] = be[31-i]
		}
	case "sig-r-other-encoding":
		// the sign bit of R's x coordinate flipped: another point, must not verify
		sigs[idx][31] ^= 0x80
	case "sig-other-message":
		other := sha3.Sum256(append([]byte("other"), sigHash...))
		sigs[idx] = prvs[c.Subset[idx]].Sign(other[:])
	case "sig-other-key":
		sigs[idx] = c02Key(c.KeySeed+5000, 9).Sign(sigHash)
	case "alter-key-or-script":
		if len(tail) == 0 {
			return nil // raw multisig: nothing but signatures in the witness
		}
		tail[0][c.Bit%len(tail[0])] ^= 1 << uint(c.Bit%7)
	case "duplicate-sig":
		if len(sigs) < 2 {
			return nil
		}
		sigs[(idx+1)%len(sigs)] = append([]byte(nil), sigs[idx]...)
	case "reverse-sigs":
		if len(sigs) < 2 {
			return nil
		}
		for i, j := 0, len(sigs)-1; i < j; i, j = i+1, j-1 {
			sigs[i], sigs[j] = sigs[j], sigs[i]
		}
	case "one-sig-less":
		sigs = sigs[1:]
	case "mutate-output-amount":
		final = build(4000000000-1-uint64(c.Bit), []byte{0x51}, 0, 777)
	case "mutate-output-program":
		final = build(4000000000, []byte{0x51, 0x51, 0x9c}, 0, 777)
	case "mutate-timerange":
		final = build(4000000000, []byte{0x51}, 1000+uint64(c.Bit), 777)
	case "mutate-other-input":
		if c.Extra == 0 {
			return nil
		}
		final = build(4000000000, []byte{0x51}, 0, 778+uint64(c.Bit))
	case "extra-arg":
		sigs = append([][]byte{{0x01}}, sigs...)
	case "no-witness":
		sigs, tail = nil, nil
	default:
		return nil
	}
	args := append(append([][]byte{}, sigs...), tail...)
	final.SetInputArguments(0, args)
	finalHash := final.SigHash(0).Bytes()

	// independent predicate: does the witness carry what the statement requires?
	holds := false
	switch c.Lock {
	case "p2wpkh":
		// the witness "contains" a valid signature and the committed key: further items below them
		// on the stack are not looked at by the program and do not matter
		if n := len(args); n >= 2 && len(args[n-1]) == ed25519.PublicKeySize {
			r := ripemd160.New()
			r.Write(args[n-1])
			holds = hex.EncodeToString(r.Sum(nil)) == hex.EncodeToString(keyHash) && ed25519.Verify(ed25519.PublicKey(args[n-1]), finalHash, args[n-2])
		}
	default:
		ws := args
		okScript := true
		if c.Lock == "p2wsh" {
			okScript = len(args) >= 1 && func() bool {
				h := sha3.Sum256(args[len(args)-1])
				return hex.EncodeToString(h[:]) == hex.EncodeToString(scriptHash)
			}()
			if len(args) >= 1 {
				ws = args[:len(args)-1]
			}
		}
		used := map[int]bool{}
		valid := 0
		for _, s := range ws {
			for ki, pk := range pubs {
				if !used[ki] && len(s) == ed25519.SignatureSize && ed25519.Verify(pk, finalHash, s) {
					used[ki] = true
					valid++
					break
				}
			}
		}
		holds = okScript && valid >= c.M
	}
	x.NonTrivial = c.Variant != "correct" || c.N >= 3

	block := &bc.Block{BlockHeader: &bc.BlockHeader{Version: 1, Height: 5}}
	conv := func([]byte) ([]byte, error) { return nil, fmt.Errorf("no contracts") }
	if c.Primed {
		good := build(4000000000, []byte{0x51}, 0, 777)
		good.SetInputArguments(0, goodArgs)
		if _, err := validation.ValidateTx(good.Tx, block, conv); err != nil {
			return fmt.Errorf("%s lock, %d-of-%d, signers %v: the properly signed transaction is refused: %v", c.Lock, c.M, c.N, c.Subset, err)
		}
		if r := validation.ValidateTxs([]*bc.Tx{good.Tx}, block, conv); len(r) != 1 || r[0].GetError() != nil {
			return fmt.Errorf("%s lock, %d-of-%d, signers %v: the properly signed transaction is refused in a block", c.Lock, c.M, c.N, c.Subset)
		}
		x.Class("primed")
	}
	_, verr := validation.ValidateTx(final.Tx, block, conv)
	if res := validation.ValidateTxs([]*bc.Tx{final.Tx}, block, conv); len(res) != 1 || res[0] == nil {
		return fmt.Errorf("ValidateTxs returned no result for a one-transaction batch")
	} else if (res[0].GetError() == nil) != (verr == nil) {
		return fmt.Errorf("%s lock, %d-of-%d, signers %v, variant %s (primed %v): ValidateTx reports %v, the block path ValidateTxs reports %v for the same transaction", c.Lock, c.M, c.N, c.Subset, c.Variant, c.Primed, verr, res[0].GetError())
	}
	if c.Primed {
		// a block that holds the properly signed transaction and the variant side by side, several times
		// (workers take them in turn): every position must get the verdict of its own transaction
		good := build(4000000000, []byte{0x51}, 0, 777)
		good.SetInputArguments(0, goodArgs)
		var batch []*bc.Tx
		for k := 0; k < 12; k++ {
			batch = append(batch, good.Tx, final.Tx)
		}
		for k, r := range validation.ValidateTxs(batch, block, conv) {
			if r == nil {
				return fmt.Errorf("ValidateTxs: no result at position %d", k)
			}
			want := error(nil)
			if k%2 == 1 {
				want = verr
			}
			if (r.GetError() == nil) != (want == nil) {
				return fmt.Errorf("%s lock, %d-of-%d, signers %v, variant %s: in a batch that alternates the properly signed transaction and the variant, position %d gets verdict %v; the transaction at that position alone gets %v", c.Lock, c.M, c.N, c.Subset, c.Variant, k, r.GetError(), want)
			}
		}
	}
	accepted := verr == nil
	if accepted {
		x.Class("accepted")
	} else {
		x.Class("refused")
	}
	desc := fmt.Sprintf("%s lock, %d-of-%d, signers %v, variant %s (idx %d, bit %d), %d other inputs", c.Lock, c.M, c.N, c.Subset, c.Variant, idx, c.Bit, c.Extra)
	if accepted && !holds {
		return fmt.Errorf("%s: the spend is ACCEPTED although the witness does not carry %d valid signatures by distinct committed keys over this transaction's signature hash (or the key/script does not hash to the committed value)", desc, c.M)
	}
	if c.Variant == "correct" && !accepted {
		return fmt.Errorf("%s: the correct in-order witness is refused: %v", desc, verr)
	}
	return nil
}

func TestC02(t *testing.T) {
	pbt.Run(t, "C02", "keys from generated seeds, m-of-n up to 6; outputs locked by P2WPKH, P2WSH(multisig) and the raw multisig program, spent by a transaction with 0-2 other inputs/outputs; witness variants: correct (any m-subset in key order), one signature bit flipped / truncated / over another message / by a foreign key, key or redeem script altered in one bit, duplicated, reversed, one signature missing, an extra argument, no witness, and a correct witness kept while a committed field (output amount, output program, time range, another input) changes; oracle: accept => the witness holds m valid signatures (crypto/ed25519) by distinct committed keys over H(inputID||txID) and the key/script hashes to the committed value; correct in-order witness => accept; in half of the cases the properly signed transaction was validated before (alone and in a batch) and the variant is then judged on both paths, ValidateTx and the block path ValidateTxs, which must agree, and a batch alternating the properly signed transaction and the variant twelve times must give every position its own verdict; non-trivial = any non-correct variant or n >= 3",
		pbt.Options{Checks: pbt.Per(10000, 600000), MinClass: map[string]int{"accepted": 300, "refused": 1000}}, c02Gen, c02Exec)
}
