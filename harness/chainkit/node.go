package chainkit

import (
	"fmt"
	"sync"

	"github.com/bytom/bytom/database"
	dbm "github.com/bytom/bytom/database/leveldb"
	"github.com/bytom/bytom/event"
	"github.com/bytom/bytom/protocol"
	"github.com/bytom/bytom/protocol/bc"
	"github.com/bytom/bytom/protocol/bc/types"
	"github.com/bytom/bytom/protocol/state"
)

// CrashDB wraps a DB, counts every write (Set, Delete, batch commit) and, once armed,
// lets the first k writes through and silently drops everything after: the content
// is then exactly what a process that stopped after k writes left behind (a batch is
// atomic, as in LevelDB).
type CrashDB struct {
	dbm.DB
	mu     sync.Mutex
	writes int
	limit  int // -1 = unlimited
	// Log receives a short description of every write when non-nil.
	Log *[]string
	// OnWrite, when non-nil, is called before every write (outside the wrapper's own lock), e.g. to
	// sample what the node reports between two commits of one event.
	OnWrite func()
}

// NewCrashDB wraps db with no limit.
func NewCrashDB(db dbm.DB) *CrashDB { return &CrashDB{DB: db, limit: -1} }

// Arm makes the DB drop every write after the first k.
func (c *CrashDB) Arm(k int) { c.mu.Lock(); c.limit = k; c.mu.Unlock() }

// Disarm removes the limit (the restarted process writes normally).
func (c *CrashDB) Disarm() { c.mu.Lock(); c.limit = -1; c.mu.Unlock() }

// Writes returns the number of write operations seen so far (dropped ones included).
func (c *CrashDB) Writes() int { c.mu.Lock(); defer c.mu.Unlock(); return c.writes }

// Crashed reports whether at least one write was dropped.
func (c *CrashDB) Crashed() bool {
	c.mu.Lock()
	defer c.mu.Unlock()
	return c.limit >= 0 && c.writes > c.limit
}

func (c *CrashDB) admit(what string) bool {
	if f := c.OnWrite; f != nil {
		f()
	}
	c.mu.Lock()
	defer c.mu.Unlock()
	c.writes++
	ok := c.limit < 0 || c.writes <= c.limit
	if c.Log != nil {
		*c.Log = append(*c.Log, fmt.Sprintf("%d %s admitted=%v", c.writes, what, ok))
	}
	return ok
}

func (c *CrashDB) Set(k, v []byte) {
	if c.admit("set " + keyClass(k)) {
		c.DB.Set(k, v)
	}
}
func (c *CrashDB) SetSync(k, v []byte) {
	if c.admit("set " + keyClass(k)) {
		c.DB.SetSync(k, v)
	}
}
func (c *CrashDB) Delete(k []byte) {
	if c.admit("delete " + keyClass(k)) {
		c.DB.Delete(k)
	}
}
func (c *CrashDB) DeleteSync(k []byte) {
	if c.admit("delete " + keyClass(k)) {
		c.DB.DeleteSync(k)
	}
}

type crashBatch struct {
	c     *CrashDB
	inner dbm.Batch
	desc  string
}

func (c *CrashDB) NewBatch() dbm.Batch { return &crashBatch{c: c, inner: c.DB.NewBatch()} }
func (b *crashBatch) Set(k, v []byte)  { b.desc += " " + keyClass(k); b.inner.Set(k, v) }
func (b *crashBatch) Delete(k []byte)  { b.desc += " -" + keyClass(k); b.inner.Delete(k) }
func (b *crashBatch) Write() {
	if b.c.admit("batch[" + b.desc + " ]") {
		b.inner.Write()
	}
}

func keyClass(k []byte) string {
	if len(k) >= 10 && string(k[:10]) == "blockStore" {
		return "status"
	}
	if len(k) >= 2 {
		return fmt.Sprintf("%x", k[:2])
	}
	return fmt.Sprintf("%x", k)
}

// Node is a running chain over a database.
type Node struct {
	W     *World
	DB    dbm.DB
	Store *database.Store
	Disp  *event.Dispatcher
	Pool  *protocol.TxPool
	Chain *protocol.Chain
}

// NewMemDB returns the production LevelDB wrapper over in-memory storage.
func NewMemDB() dbm.DB { return &SoftDB{DB: dbm.VerifNewMemLevelDB()} }

// InitGenesis writes the harness genesis through the exported store API exactly as
// the chain's own first-start initialisation does for the built-in genesis.
func InitGenesis(store *database.Store, g *types.Block) error {
	if err := store.SaveBlock(g); err != nil {
		return err
	}
	cp := &state.Checkpoint{Height: 0, Hash: g.Hash(), Timestamp: g.Timestamp, Status: state.Justified}
	if err := store.SaveCheckpoints([]*state.Checkpoint{cp}); err != nil {
		return err
	}
	view := state.NewUtxoViewpoint()
	if err := view.ApplyBlock(types.MapBlock(g)); err != nil {
		return err
	}
	hdr := &g.BlockHeader
	return store.SaveChainStatus(hdr, []*types.BlockHeader{hdr}, view, state.NewContractViewpoint(), 0, &cp.Hash)
}

// NewNode installs the world's parameters, writes genesis if the database is empty and starts a chain.
func NewNode(w *World, db dbm.DB) (*Node, error) {
	w.P.Install()
	n := &Node{W: w, DB: db}
	if err := n.open(true); err != nil {
		return nil, err
	}
	return n, nil
}

func (n *Node) open(initGenesis bool) error {
	n.Store = database.NewStore(n.DB)
	if initGenesis && n.Store.GetStoreStatus() == nil {
		if err := InitGenesis(n.Store, CloneBlock(n.W.Blocks[0].Block)); err != nil {
			return fmt.Errorf("init genesis: %v", err)
		}
	}
	n.Disp = event.NewDispatcher()
	n.Pool = protocol.NewTxPool(n.Store, n.Disp)
	c, err := protocol.NewChain(n.Store, n.Pool, n.Disp)
	if err != nil {
		return err
	}
	n.Chain = c
	return nil
}

// Restart abandons the running chain objects and opens the same database again
// (fresh store, fresh caches, fresh finality engine), as a process restart does.
func (n *Node) Restart() error {
	n.Disp.Stop()
	return n.open(false)
}

// Stop releases what can be released (goroutines of the chain itself are idle and stay).
func (n *Node) Stop() {
	if n.Disp != nil {
		n.Disp.Stop()
	}
}

// Close is Stop for a node that will not be used again: its database (if it came from NewMemDB)
// is released once enough later nodes have been closed.  The idle goroutines of the chain cannot
// be stopped; they keep the chain object alive, not the database.
func (n *Node) Close() {
	n.Stop()
	switch d := n.DB.(type) {
	case *SoftDB:
		retire(d)
	case *CrashDB:
		if s, ok := d.DB.(*SoftDB); ok {
			retire(s)
		}
	}
}

// Deliver hands a copy of world block i to the node.
func (n *Node) Deliver(i int) (bool, error) {
	return n.Chain.ProcessBlock(CloneBlock(n.W.Blocks[i].Block))
}

// Has reports whether the node has stored block i.
func (n *Node) Has(i int) bool {
	h := n.W.Blocks[i].Block.Hash()
	_, err := n.Chain.GetHeaderByHash(&h)
	return err == nil
}

// BestIdx returns the world index of the node's best block (-1 if unknown to the world).
func (n *Node) BestIdx() int {
	h := n.Chain.BestBlockHeader().Hash()
	if i, ok := n.W.ByHash[h]; ok {
		return i
	}
	return -1
}

// Hash returns the hash of world block i.
func (w *World) Hash(i int) bc.Hash { return w.Blocks[i].Block.Hash() }
