package chainkit

import (
	"encoding/hex"
	"fmt"
	"sort"

	"golang.org/x/crypto/sha3"

	"github.com/bytom/bytom/consensus"
	"github.com/bytom/bytom/protocol/bc"
	"github.com/bytom/bytom/protocol/bc/types"
)

// Kinds of unspent outputs (same numbering as database/storage, restated here so the
// model does not depend on it).
const (
	KindNormal   = uint32(0)
	KindCoinbase = uint32(1)
	KindVote     = uint32(2)
)

// Utxo is the model's record of one unspent output.
type Utxo struct {
	ID        bc.Hash
	Kind      uint32
	Height    uint64 // height of the creating block
	Asset     bc.AssetID
	Amount    uint64
	Program   []byte
	StateData [][]byte
	Vote      []byte
	SourceID  bc.Hash
	SourcePos uint64
	Seq       int // creation sequence on the branch, for deterministic ordering
}

// CP is the model of one checkpoint (one epoch's accumulated state).
type CP struct {
	Height     uint64
	Hash       bc.Hash
	ParentHash bc.Hash // hash of the previous checkpoint block
	Timestamp  uint64
	Votes      map[string]uint64 // pubkey hex -> votes
	Rewards    map[string]uint64 // program hex -> reward accumulated in this epoch
}

// State is the obviously-correct fold of one branch from genesis up to one block.
type State struct {
	Height    uint64
	Hash      bc.Hash
	Timestamp uint64
	Utxos     map[bc.Hash]*Utxo
	Spent     []*Utxo // everything spent on this branch (for building double spends)
	Contracts map[[32]byte][]byte
	Cur       *CP // checkpoint this block belongs to (completed iff Height%E==0)
	Last      *CP // last completed checkpoint as of this block, inclusive
	seq       int
	Minted    uint64 // sum of coinbase amounts paid on this branch
	Valid     bool   // false once a block on the branch broke a ledger rule (lenient apply)
	Why       string
}

func copyU64(m map[string]uint64) map[string]uint64 {
	out := make(map[string]uint64, len(m))
	for k, v := range m {
		out[k] = v
	}
	return out
}

func (s *State) clone() *State {
	n := *s
	n.Utxos = make(map[bc.Hash]*Utxo, len(s.Utxos))
	for k, v := range s.Utxos {
		n.Utxos[k] = v
	}
	n.Spent = append([]*Utxo(nil), s.Spent...)
	n.Contracts = make(map[[32]byte][]byte, len(s.Contracts))
	for k, v := range s.Contracts {
		n.Contracts[k] = v
	}
	cur := *s.Cur
	cur.Votes = copyU64(s.Cur.Votes)
	cur.Rewards = copyU64(s.Cur.Rewards)
	n.Cur = &cur
	return &n
}

// Sorted returns the unspent outputs in creation order.
func (s *State) Sorted() []*Utxo {
	out := make([]*Utxo, 0, len(s.Utxos))
	for _, u := range s.Utxos {
		out = append(out, u)
	}
	sort.Slice(out, func(i, j int) bool { return out[i].Seq < out[j].Seq })
	return out
}

// Spendable reports whether consensus allows spending u in a block at the given height.
func (p Params) Spendable(u *Utxo, height uint64) bool {
	switch u.Kind {
	case KindCoinbase:
		return u.Height+consensus.CoinbasePendingBlockNumber <= height
	case KindVote:
		return u.Height+p.Lock(height) <= height
	}
	return true
}

// EffectiveValidators returns the ordered validator public keys (hex) that the
// epoch after checkpoint cp runs with: at most ten keys whose tally reaches the
// minimum, by votes descending then key descending; the federation if none.
func (p Params) EffectiveValidators(cp *CP) []string {
	p = p.Normalize()
	type kv struct {
		k string
		v uint64
	}
	var c []kv
	for k, v := range cp.Votes {
		if v >= p.MinVotes {
			c = append(c, kv{k, v})
		}
	}
	sort.Slice(c, func(i, j int) bool {
		if c[i].v != c[j].v {
			return c[i].v > c[j].v
		}
		return c[i].k > c[j].k
	})
	var out []string
	for i := 0; i < len(c) && i < consensus.MaxNumOfValidators; i++ {
		out = append(out, c[i].k)
	}
	if len(out) == 0 {
		for i := 0; i < p.Validators; i++ {
			out = append(out, PubHex(i))
		}
	}
	return out
}

// Proposer returns the public key scheduled for a block at timestamp ts whose last
// completed checkpoint is cp.
func (p Params) Proposer(cp *CP, ts uint64) (string, int) {
	vals := p.EffectiveValidators(cp)
	start := cp.Timestamp + IntervalMs
	order := int(((ts - start) / IntervalMs) % uint64(len(vals)))
	return vals[order], order
}

// Subsidy is the per-block validator reward given the checkpoint's vote table
// (after the block's own votes) and the block height.  Defined by the same IEEE
// float64 expression as the protocol (DESIGN 4.9).
func Subsidy(votes map[string]uint64, height uint64) uint64 {
	var total uint64
	for _, v := range votes {
		total += v
	}
	supply := height*consensus.BlockReward/2 + consensus.InitBTMSupply
	rate := float64(total) / float64(supply)
	if rate <= consensus.RewardThreshold {
		return uint64((rate + consensus.RewardThreshold) * float64(consensus.BlockReward))
	}
	return consensus.BlockReward
}

func contractHash(code []byte) [32]byte {
	return sha3.Sum256(code)
}

// registeredContract returns the contract carried by a BCRP registration program
// (OP_FAIL, push "bcrp", push 0x01, push contract) or nil.  Independent of the
// repository's parser: only the shapes chainkit itself builds are recognised, plus
// the general push forms.
func registeredContract(prog []byte) []byte {
	// 0x6a 0x04 'b' 'c' 'r' 'p' 0x01 0x01 <push contract>
	head := []byte{0x6a, 0x04, 'b', 'c', 'r', 'p', 0x01, 0x01}
	if len(prog) <= len(head) {
		return nil
	}
	for i := range head {
		if prog[i] != head[i] {
			return nil
		}
	}
	rest := prog[len(head):]
	op := rest[0]
	var n, off int
	switch {
	case op >= 1 && op <= 75:
		n, off = int(op), 1
	case op == 0x4c && len(rest) >= 2:
		n, off = int(rest[1]), 2
	case op == 0x4d && len(rest) >= 3:
		n, off = int(rest[1])|int(rest[2])<<8, 3
	case op == 0x4e && len(rest) >= 5:
		n, off = int(rest[1])|int(rest[2])<<8|int(rest[3])<<16|int(rest[4])<<24, 5
	default:
		return nil
	}
	if n == 0 || off+n != len(rest) {
		return nil
	}
	return rest[off:]
}

// Apply folds one block into the state and returns the new state.  Ledger-rule
// violations (missing / spent / immature / locked inputs) make the result invalid;
// in lenient mode the fold continues so that descendants of an invalid block still
// have a vote and reward table (the node computes those before it checks spends).
func (p Params) Apply(s *State, b *types.Block) *State {
	p = p.Normalize()
	n := s.clone()
	n.Height, n.Hash, n.Timestamp = b.Height, b.Hash(), b.Timestamp
	fail := func(format string, a ...interface{}) {
		if n.Valid {
			n.Valid = false
			n.Why = fmt.Sprintf(format, a...)
		}
	}

	if b.Height%p.Epoch == 1 || p.Epoch == 1 {
		// first block of a new epoch: new checkpoint, votes carried over, rewards fresh
		prev := s.Cur
		cur := &CP{ParentHash: prev.Hash, Votes: map[string]uint64{}, Rewards: map[string]uint64{}}
		for k, v := range prev.Votes {
			if v != 0 {
				cur.Votes[k] = v
			}
		}
		n.Cur = cur
	}

	for ti, tx := range b.Transactions {
		// spends
		for _, id := range tx.SpentOutputIDs {
			u, ok := n.Utxos[id]
			if !ok {
				fail("block %d tx %d spends missing or already spent output %s", b.Height, ti, id.String())
				continue
			}
			if !p.Spendable(u, b.Height) {
				fail("block %d tx %d spends output %s of kind %d created at %d too early", b.Height, ti, id.String(), u.Kind, u.Height)
			}
			delete(n.Utxos, id)
			n.Spent = append(n.Spent, u)
		}
		// outputs
		for oi, out := range tx.Outputs {
			if len(out.ControlProgram) > 0 && out.ControlProgram[0] == 0x6a {
				if code := registeredContract(out.ControlProgram); code != nil {
					h := contractHash(code)
					if _, ok := n.Contracts[h]; !ok {
						n.Contracts[h] = append(append([]byte{}, tx.ID.Bytes()...), code...)
					}
				}
				continue // retirement: not an unspent output
			}
			if out.Amount == 0 {
				continue
			}
			id := *tx.ResultIds[oi]
			u := &Utxo{ID: id, Height: b.Height, Asset: *out.AssetId, Amount: out.Amount, Program: out.ControlProgram, Seq: n.seq}
			n.seq++
			switch e := tx.Entries[id].(type) {
			case *bc.OriginalOutput:
				u.Kind = KindNormal
				u.StateData = e.StateData
				u.SourceID, u.SourcePos = *e.Source.Ref, e.Source.Position
			case *bc.VoteOutput:
				u.Kind = KindVote
				u.StateData = e.StateData
				u.Vote = e.Vote
				u.SourceID, u.SourcePos = *e.Source.Ref, e.Source.Position
			default:
				continue
			}
			if ti == 0 {
				u.Kind = KindCoinbase
				n.Minted += out.Amount
			}
			n.Utxos[id] = u
		}
		// votes (checkpoint table)
		for _, in := range tx.Inputs {
			if vi, ok := in.TypedInput.(*types.VetoInput); ok {
				k := hex.EncodeToString(vi.Vote)
				if n.Cur.Votes[k] > vi.Amount {
					n.Cur.Votes[k] -= vi.Amount
				} else {
					delete(n.Cur.Votes, k)
				}
			}
		}
		for _, out := range tx.Outputs {
			if vo, ok := out.TypedOutput.(*types.VoteOutput); ok {
				n.Cur.Votes[hex.EncodeToString(vo.Vote)] += out.Amount
			}
		}
	}

	// rewards: fees of every transaction plus the subsidy, to the first coinbase program
	script := hex.EncodeToString(b.Transactions[0].Outputs[0].ControlProgram)
	for _, tx := range b.Transactions {
		n.Cur.Rewards[script] += txFee(tx)
	}
	n.Cur.Rewards[script] += Subsidy(n.Cur.Votes, b.Height)

	n.Cur.Height, n.Cur.Hash, n.Cur.Timestamp = b.Height, n.Hash, b.Timestamp
	if b.Height%p.Epoch == 0 {
		done := *n.Cur
		done.Votes = copyU64(n.Cur.Votes)
		done.Rewards = copyU64(n.Cur.Rewards)
		n.Last = &done
	}
	return n
}

// txFee is BTM in minus BTM out computed from the transaction data (0 if negative),
// independent of types.TxData.Fee.
func txFee(tx *types.Tx) uint64 {
	var in, out uint64
	for _, i := range tx.Inputs {
		switch t := i.TypedInput.(type) {
		case *types.SpendInput:
			if *t.AssetId == *consensus.BTMAssetID {
				in += t.Amount
			}
		case *types.VetoInput:
			if *t.AssetId == *consensus.BTMAssetID {
				in += t.Amount
			}
		case *types.IssuanceInput:
			if t.AssetID() == *consensus.BTMAssetID {
				in += t.Amount
			}
		}
	}
	for _, o := range tx.Outputs {
		if *o.AssetId == *consensus.BTMAssetID {
			out += o.Amount
		}
	}
	if in > out {
		return in - out
	}
	return 0
}

// GenesisState is the model state after the harness genesis block.
func (p Params) GenesisState(g *types.Block) *State {
	s := &State{
		Utxos: map[bc.Hash]*Utxo{}, Contracts: map[[32]byte][]byte{}, Valid: true,
		Cur: &CP{Votes: map[string]uint64{}, Rewards: map[string]uint64{}},
	}
	s.Height, s.Hash, s.Timestamp = 0, g.Hash(), g.Timestamp
	for ti, tx := range g.Transactions {
		for oi, out := range tx.Outputs {
			if out.Amount == 0 || (len(out.ControlProgram) > 0 && out.ControlProgram[0] == 0x6a) {
				continue
			}
			id := *tx.ResultIds[oi]
			u := &Utxo{ID: id, Height: 0, Asset: *out.AssetId, Amount: out.Amount, Program: out.ControlProgram, Seq: s.seq}
			s.seq++
			if e, ok := tx.Entries[id].(*bc.OriginalOutput); ok {
				u.SourceID, u.SourcePos, u.StateData = *e.Source.Ref, e.Source.Position, e.StateData
			}
			if ti == 0 {
				u.Kind = KindCoinbase
			}
			s.Utxos[id] = u
		}
	}
	s.Cur.Height, s.Cur.Hash, s.Cur.Timestamp = 0, s.Hash, g.Timestamp
	last := *s.Cur
	last.Votes, last.Rewards = map[string]uint64{}, map[string]uint64{}
	s.Last = &last
	return s
}
