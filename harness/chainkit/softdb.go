package chainkit

import (
	"sync"

	dbm "github.com/bytom/bytom/database/leveldb"
)

// SoftDB is the node's database for one case.  Goroutines of the chain (the finality engine's
// replay loop) outlive the case and may still read the store; the production wrapper panics on a
// closed database, and leaving thousands of databases open costs ~5 MB each.  After close() this
// wrapper releases the real database and answers "not found" / ignores writes instead.
type SoftDB struct {
	dbm.DB
	mu     sync.RWMutex
	closed bool
}

func (s *SoftDB) closeNow() {
	s.mu.Lock()
	defer s.mu.Unlock()
	if !s.closed {
		s.closed = true
		s.DB.Close()
		s.DB = nil // the closed database keeps its tables; nothing reaches it any more
	}
}

func (s *SoftDB) Close() { s.closeNow() }

func (s *SoftDB) Get(k []byte) []byte {
	s.mu.RLock()
	defer s.mu.RUnlock()
	if s.closed {
		return nil
	}
	return s.DB.Get(k)
}

func (s *SoftDB) write(f func()) {
	s.mu.RLock()
	defer s.mu.RUnlock()
	if !s.closed {
		f()
	}
}

func (s *SoftDB) Set(k, v []byte)     { s.write(func() { s.DB.Set(k, v) }) }
func (s *SoftDB) SetSync(k, v []byte) { s.write(func() { s.DB.SetSync(k, v) }) }
func (s *SoftDB) Delete(k []byte)     { s.write(func() { s.DB.Delete(k) }) }
func (s *SoftDB) DeleteSync(k []byte) { s.write(func() { s.DB.DeleteSync(k) }) }

type softBatch struct {
	s     *SoftDB
	inner dbm.Batch
}

func (b *softBatch) Set(k, v []byte) {
	if b.inner != nil {
		b.inner.Set(k, v)
	}
}
func (b *softBatch) Delete(k []byte) {
	if b.inner != nil {
		b.inner.Delete(k)
	}
}
func (b *softBatch) Write() {
	if b.inner != nil {
		b.s.write(b.inner.Write)
	}
}

func (s *SoftDB) NewBatch() dbm.Batch {
	s.mu.RLock()
	defer s.mu.RUnlock()
	if s.closed {
		return &softBatch{s: s}
	}
	return &softBatch{s: s, inner: s.DB.NewBatch()}
}

type emptyIter struct{}

func (emptyIter) Next() bool       { return false }
func (emptyIter) Key() []byte      { return nil }
func (emptyIter) Value() []byte    { return nil }
func (emptyIter) Seek([]byte) bool { return false }
func (emptyIter) Release()         {}
func (emptyIter) Error() error     { return nil }

func (s *SoftDB) Iterator() dbm.Iterator {
	s.mu.RLock()
	defer s.mu.RUnlock()
	if s.closed {
		return emptyIter{}
	}
	return s.DB.Iterator()
}

func (s *SoftDB) IteratorPrefix(p []byte) dbm.Iterator {
	s.mu.RLock()
	defer s.mu.RUnlock()
	if s.closed {
		return emptyIter{}
	}
	return s.DB.IteratorPrefix(p)
}

func (s *SoftDB) IteratorPrefixWithStart(p, start []byte, rev bool) dbm.Iterator {
	s.mu.RLock()
	defer s.mu.RUnlock()
	if s.closed {
		return emptyIter{}
	}
	return s.DB.IteratorPrefixWithStart(p, start, rev)
}

// retired holds the databases of nodes whose case is over.  A database is closed only when
// retireDepth later nodes have been closed after it, long after anything asynchronous in its chain
// has settled.
var retired struct {
	mu sync.Mutex
	q  []*SoftDB
}

const retireDepth = 48

func retire(s *SoftDB) {
	retired.mu.Lock()
	retired.q = append(retired.q, s)
	var old *SoftDB
	if len(retired.q) > retireDepth {
		old = retired.q[0]
		retired.q = retired.q[1:]
	}
	retired.mu.Unlock()
	if old != nil {
		old.closeNow()
	}
}
