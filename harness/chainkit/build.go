package chainkit

import (
	"encoding/binary"
	"fmt"
	"sort"
	"strconv"

	"golang.org/x/crypto/sha3"

	"github.com/bytom/bytom/consensus"
	"github.com/bytom/bytom/protocol/bc"
	"github.com/bytom/bytom/protocol/bc/types"
	"github.com/bytom/bytom/protocol/casper"
)

// TxDesc describes one transaction abstractly; it is resolved against the model
// state of the branch it is built on (selectors are taken modulo the number of
// candidates), so every description yields a well-defined transaction or is skipped.
type TxDesc struct {
	Kind string `json:"kind"` // spend, vote, veto, register, issue, xfer, retire, pay, payvote, bad-*
	Pick []int  `json:"pick,omitempty"`
	N    int    `json:"n,omitempty"`
	Amt  int    `json:"amt,omitempty"`
	Prog string `json:"prog,omitempty"` // pay / payvote: hex control program of the first output
}

// SupDesc describes one signature slot placed in the header supLinks of a checkpoint block.
type SupDesc struct {
	Validator int    `json:"validator"` // index into the target's validator list (mod n), or a key index for bad kinds
	Source    int    `json:"source"`    // selector: the source is 1 + Source%3 checkpoints back (0 = direct parent checkpoint), clamped at genesis
	Bad       string `json:"bad,omitempty"`
}

// BlockDesc describes one block of a tree.
type BlockDesc struct {
	Parent int       `json:"parent"` // index into the world's block list (0 = genesis); taken modulo the number of blocks built so far
	Skip   int       `json:"skip,omitempty"`
	Jitter int       `json:"jitter,omitempty"` // milliseconds added to the timestamp (taken modulo the interval): block times need not be multiples of the interval
	Txs    []TxDesc  `json:"txs,omitempty"`
	Sup    []SupDesc `json:"sup,omitempty"`
	Mut    string    `json:"mut,omitempty"` // single-rule header/coinbase mutation (C13); "" = none
	MutArg int       `json:"mut_arg,omitempty"`
	// Raw are complete serialised transactions (hex, as Tx.MarshalText gives) appended after the
	// resolved ones, e.g. transactions built and signed by a wallet at run time.  They are taken
	// as they are; the model folds them like any other transaction.
	Raw []string `json:"raw,omitempty"`
	// CoinbaseProg overrides the proposer's coinbase program (hex), e.g. a wallet's coinbase program.
	CoinbaseProg string `json:"coinbase_prog,omitempty"`
}

// TreeDesc is a whole generated world.
type TreeDesc struct {
	Params Params      `json:"params"`
	Blocks []BlockDesc `json:"blocks"`
}

// BlockInfo is a built block with its model state.
type BlockInfo struct {
	Idx     int
	Parent  int
	Block   *types.Block
	State   *State // model state after this block (lenient fold); State.Valid says whether the branch is ledger-valid
	Desc    BlockDesc
	HdrBad  string   // non-empty: the block breaks a header/coinbase/transaction rule (must be refused by validation itself)
	Skipped []string // transaction descriptions that could not be resolved
	TxKinds []string
}

// HdrBadTx names the transaction-level cause of HdrBad, if any (for class labels).
func (b *BlockInfo) HdrBadTx() string {
	if b.Desc.Mut == "" && b.HdrBad != "" {
		return "tx-unbalanced"
	}
	return ""
}

// Valid reports whether the block and all its ancestors obey every consensus rule.
func (w *World) Valid(i int) bool {
	for ; i > 0; i = w.Blocks[i].Parent {
		b := w.Blocks[i]
		if b.HdrBad != "" || !b.State.Valid {
			return false
		}
	}
	return true
}

// World is a built tree.
type World struct {
	P      Params
	Blocks []*BlockInfo
	ByHash map[bc.Hash]int
}

var (
	progTrue = []byte{0x51}
	btm      = *consensus.BTMAssetID
)

// ProposerProgram is the coinbase program the harness uses for the i-th key.
func ProposerProgram(i int) []byte { return []byte{byte(0x51 + i%16), 0x75, 0x51} }

var contractPool = [][]byte{
	{0x51},
	{0x51, 0x51, 0x87},
	{0x52, 0x52, 0x9c},
	append([]byte{0x51}, make([]byte, 80)...), // forces PUSHDATA1
}

func finishTx(d *types.TxData) *types.Tx {
	d.Version = 1
	raw, err := d.MarshalText()
	if err != nil {
		panic(err)
	}
	tx := &types.Tx{}
	if err := tx.UnmarshalText(raw); err != nil {
		panic(fmt.Sprintf("chainkit: built transaction does not decode: %v", err))
	}
	return tx
}

// Genesis builds the harness genesis block: a coinbase-shaped first transaction and a
// second transaction whose outputs fund the world (outputs of the first transaction
// would be coinbase outputs and stay immature for ten blocks).
func Genesis() *types.Block {
	cb := finishTx(&types.TxData{
		Inputs:  []*types.TxInput{types.NewCoinbaseInput([]byte("verif genesis"))},
		Outputs: []*types.TxOutput{types.NewOriginalTxOutput(btm, 0, progTrue, nil)},
	})
	var outs []*types.TxOutput
	for i := 0; i < 10; i++ {
		outs = append(outs, types.NewOriginalTxOutput(btm, 10000000000000+uint64(i), progTrue, nil))
	}
	// two very large outputs so that vote totals can move the pledge rate across 0.5
	outs = append(outs, types.NewOriginalTxOutput(btm, 60000000000000000, progTrue, nil))
	outs = append(outs, types.NewOriginalTxOutput(btm, 60000000000000001, progTrue, nil))
	var total uint64
	for _, o := range outs {
		total += o.Amount
	}
	// the genesis block is never validated, only applied: an issuance-shaped input (which
	// spends nothing) funds the BTM outputs, as in the built-in genesis
	fund := finishTx(&types.TxData{
		Inputs:  []*types.TxInput{types.NewIssuanceInput([]byte("verif genesis funding"), total, progTrue, nil, nil)},
		Outputs: outs,
	})
	txs := []*types.Tx{cb, fund}
	root, err := types.TxMerkleRoot([]*bc.Tx{cb.Tx, fund.Tx})
	if err != nil {
		panic(err)
	}
	return &types.Block{
		BlockHeader: types.BlockHeader{Version: 1, Height: 0, Timestamp: GenesisTime,
			BlockCommitment: types.BlockCommitment{TransactionsMerkleRoot: root}},
		Transactions: txs,
	}
}

// NewWorld starts a world with only the genesis block.
func NewWorld(p Params) *World {
	p = p.Normalize()
	g := Genesis()
	w := &World{P: p, ByHash: map[bc.Hash]int{}}
	w.Blocks = append(w.Blocks, &BlockInfo{Idx: 0, Parent: -1, Block: g, State: p.GenesisState(g)})
	w.ByHash[g.Hash()] = 0
	return w
}

// Build builds the whole tree.
func Build(t TreeDesc) *World {
	w := NewWorld(t.Params)
	for _, bd := range t.Blocks {
		w.Add(bd)
	}
	return w
}

// AncestorAt returns the index of the ancestor of block i at the given height.
func (w *World) AncestorAt(i int, height uint64) int {
	for w.Blocks[i].Block.Height > height {
		i = w.Blocks[i].Parent
	}
	return i
}

// IsAncestor reports whether a is an ancestor of (or equal to) b.
func (w *World) IsAncestor(a, b int) bool {
	ha := w.Blocks[a].Block.Height
	if w.Blocks[b].Block.Height < ha {
		return false
	}
	return w.AncestorAt(b, ha) == a
}

// Path returns the indexes from genesis (exclusive) to block i (inclusive).
func (w *World) Path(i int) []int {
	var p []int
	for ; i > 0; i = w.Blocks[i].Parent {
		p = append([]int{i}, p...)
	}
	return p
}

func spendInput(u *Utxo) *types.TxInput {
	if u.Kind == KindVote {
		return types.NewVetoInput(nil, u.SourceID, u.Asset, u.Amount, u.SourcePos, u.Program, u.Vote, u.StateData)
	}
	return types.NewSpendInput(nil, u.SourceID, u.Asset, u.Amount, u.SourcePos, u.Program, u.StateData)
}

func pick(list []*Utxo, sel []int, k int) *Utxo {
	if len(list) == 0 {
		return nil
	}
	s := 0
	if k < len(sel) {
		s = sel[k]
	}
	if s < 0 {
		s = -s
	}
	return list[s%len(list)]
}

func filter(list []*Utxo, f func(*Utxo) bool) []*Utxo {
	var out []*Utxo
	for _, u := range list {
		if f(u) {
			out = append(out, u)
		}
	}
	return out
}

const baseFee = uint64(20000000)

// resolveTx turns a description into a transaction against state s for a block at
// height h.  ok=false means no candidate existed.  bad=true means the transaction
// deliberately breaks a rule.
func (w *World) resolveTx(s *State, h uint64, d TxDesc, salt uint64) (tx *types.Tx, ok bool) {
	p := w.P
	all := s.Sorted()
	isBTM := func(u *Utxo) bool { return u.Asset == btm }
	spendableBTM := filter(all, func(u *Utxo) bool {
		return isBTM(u) && u.Kind != KindVote && p.Spendable(u, h) && u.Amount > 4*baseFee
	})
	fee := baseFee + uint64(abs(d.Amt)%5)*1000000
	switch d.Kind {
	case "spend":
		a := pick(spendableBTM, d.Pick, 0)
		if a == nil {
			return nil, false
		}
		ins := []*Utxo{a}
		if len(d.Pick) > 1 && d.Pick[1]%2 == 1 {
			if b := pick(spendableBTM, d.Pick, 1); b != nil && b.ID != a.ID {
				ins = append(ins, b)
			}
		}
		var total uint64
		var txIns []*types.TxInput
		for _, u := range ins {
			total += u.Amount
			txIns = append(txIns, spendInput(u))
		}
		n := uint64(1 + abs(d.N)%3)
		rest := total - fee
		var outs []*types.TxOutput
		for i := uint64(0); i < n; i++ {
			amt := rest / n
			if i == n-1 {
				amt = rest - (rest/n)*(n-1)
			}
			outs = append(outs, types.NewOriginalTxOutput(btm, amt, progTrue, nil))
		}
		return finishTx(&types.TxData{Inputs: txIns, Outputs: outs}), true
	case "vote":
		cands := filter(spendableBTM, func(u *Utxo) bool { return u.Amount > 3*consensus.MinVoteOutputAmount+fee })
		a := pick(cands, d.Pick, 0)
		if a == nil {
			return nil, false
		}
		avail := a.Amount - fee
		var amt uint64
		switch abs(d.Amt) % 4 {
		case 0:
			amt = consensus.MinVoteOutputAmount
		case 1:
			amt = consensus.MinVoteOutputAmount + 1 + uint64(abs(d.N))
		case 2:
			amt = avail / 2
		default:
			amt = avail
		}
		if amt > avail {
			amt = avail
		}
		key := Key(abs(d.N) % NumKeys).XPub()
		outs := []*types.TxOutput{types.NewVoteOutput(btm, amt, progTrue, key[:], nil)}
		if avail > amt {
			outs = append(outs, types.NewOriginalTxOutput(btm, avail-amt, progTrue, nil))
		}
		return finishTx(&types.TxData{Inputs: []*types.TxInput{spendInput(a)}, Outputs: outs}), true
	case "veto", "bad-premature-veto":
		want := d.Kind == "veto"
		cands := filter(all, func(u *Utxo) bool { return u.Kind == KindVote && p.Spendable(u, h) == want && u.Amount > 2*fee })
		a := pick(cands, d.Pick, 0)
		if a == nil {
			return nil, false
		}
		outs := []*types.TxOutput{types.NewOriginalTxOutput(btm, a.Amount-fee, progTrue, nil)}
		return finishTx(&types.TxData{Inputs: []*types.TxInput{spendInput(a)}, Outputs: outs}), true
	case "bad-immature-coinbase":
		cands := filter(all, func(u *Utxo) bool { return u.Kind == KindCoinbase && !p.Spendable(u, h) && u.Amount > 2*fee })
		a := pick(cands, d.Pick, 0)
		if a == nil {
			return nil, false
		}
		outs := []*types.TxOutput{types.NewOriginalTxOutput(btm, a.Amount-fee, progTrue, nil)}
		return finishTx(&types.TxData{Inputs: []*types.TxInput{spendInput(a)}, Outputs: outs}), true
	case "bad-double-spend":
		cands := filter(s.Spent, func(u *Utxo) bool { return isBTM(u) && u.Amount > 2*fee })
		a := pick(cands, d.Pick, 0)
		if a == nil {
			return nil, false
		}
		// different outputs than the original spend, so the transaction id differs
		outs := []*types.TxOutput{types.NewOriginalTxOutput(btm, a.Amount-fee-1-salt%1000, progTrue, nil)}
		return finishTx(&types.TxData{Inputs: []*types.TxInput{spendInput(a)}, Outputs: outs}), true
	case "bad-missing":
		var src [32]byte
		binary.LittleEndian.PutUint64(src[:], salt)
		in := types.NewSpendInput(nil, bc.NewHash(src), btm, 5*baseFee, 0, progTrue, nil)
		outs := []*types.TxOutput{types.NewOriginalTxOutput(btm, 5*baseFee-fee, progTrue, nil)}
		return finishTx(&types.TxData{Inputs: []*types.TxInput{in}, Outputs: outs}), true
	case "bad-unbalanced":
		a := pick(spendableBTM, d.Pick, 0)
		if a == nil {
			return nil, false
		}
		outs := []*types.TxOutput{types.NewOriginalTxOutput(btm, a.Amount+1, progTrue, nil)}
		return finishTx(&types.TxData{Inputs: []*types.TxInput{spendInput(a)}, Outputs: outs}), true
	case "pay", "payvote":
		prog := mustHex(d.Prog)
		if len(prog) == 0 {
			return nil, false
		}
		cands := filter(spendableBTM, func(u *Utxo) bool { return u.Amount > 3*consensus.MinVoteOutputAmount+fee })
		a := pick(cands, d.Pick, 0)
		if a == nil {
			return nil, false
		}
		avail := a.Amount - fee
		amt := consensus.MinVoteOutputAmount * uint64(1+abs(d.Amt)%5)
		if amt > avail {
			amt = avail
		}
		var outs []*types.TxOutput
		if d.Kind == "payvote" {
			key := Key(abs(d.N) % NumKeys).XPub()
			outs = append(outs, types.NewVoteOutput(btm, amt, prog, key[:], nil))
		} else {
			outs = append(outs, types.NewOriginalTxOutput(btm, amt, prog, nil))
		}
		if avail > amt {
			outs = append(outs, types.NewOriginalTxOutput(btm, avail-amt, progTrue, nil))
		}
		return finishTx(&types.TxData{Inputs: []*types.TxInput{spendInput(a)}, Outputs: outs}), true
	case "register":
		cands := filter(spendableBTM, func(u *Utxo) bool { return u.Amount > 3*consensus.BCRPRequiredBTMAmount+fee })
		a := pick(cands, d.Pick, 0)
		if a == nil {
			return nil, false
		}
		code := contractPool[abs(d.N)%len(contractPool)]
		prog := registerProgram(code)
		outs := []*types.TxOutput{
			types.NewOriginalTxOutput(btm, consensus.BCRPRequiredBTMAmount, prog, nil),
			types.NewOriginalTxOutput(btm, a.Amount-fee-consensus.BCRPRequiredBTMAmount, progTrue, nil),
		}
		return finishTx(&types.TxData{Inputs: []*types.TxInput{spendInput(a)}, Outputs: outs}), true
	case "retire":
		a := pick(spendableBTM, d.Pick, 0)
		if a == nil {
			return nil, false
		}
		burn := uint64(1000 + abs(d.Amt)%1000)
		outs := []*types.TxOutput{
			types.NewOriginalTxOutput(btm, burn, []byte{0x6a, 0x01, byte(abs(d.N))}, nil),
			types.NewOriginalTxOutput(btm, a.Amount-fee-burn, progTrue, nil),
		}
		return finishTx(&types.TxData{Inputs: []*types.TxInput{spendInput(a)}, Outputs: outs}), true
	case "issue":
		a := pick(spendableBTM, d.Pick, 0)
		if a == nil {
			return nil, false
		}
		var nonce [8]byte
		binary.LittleEndian.PutUint64(nonce[:], salt)
		def := []byte{byte('A' + abs(d.N)%3)}
		amount := uint64(1000 + abs(d.Amt)%100000)
		iss := types.NewIssuanceInput(nonce[:], amount, progTrue, nil, def)
		asset := iss.AssetID()
		outs := []*types.TxOutput{
			types.NewOriginalTxOutput(asset, amount, progTrue, nil),
			types.NewOriginalTxOutput(btm, a.Amount-fee, progTrue, nil),
		}
		return finishTx(&types.TxData{Inputs: []*types.TxInput{iss, spendInput(a)}, Outputs: outs}), true
	case "xfer":
		other := filter(all, func(u *Utxo) bool { return !isBTM(u) && u.Kind == KindNormal })
		a := pick(other, d.Pick, 0)
		f := pick(spendableBTM, d.Pick, 1)
		if a == nil || f == nil {
			return nil, false
		}
		outs := []*types.TxOutput{types.NewOriginalTxOutput(btm, f.Amount-fee, progTrue, nil)}
		if a.Amount >= 2 && abs(d.N)%2 == 1 {
			outs = append(outs, types.NewOriginalTxOutput(a.Asset, a.Amount/2, progTrue, nil),
				types.NewOriginalTxOutput(a.Asset, a.Amount-a.Amount/2, progTrue, nil))
		} else {
			outs = append(outs, types.NewOriginalTxOutput(a.Asset, a.Amount, progTrue, nil))
		}
		return finishTx(&types.TxData{Inputs: []*types.TxInput{spendInput(a), spendInput(f)}, Outputs: outs}), true
	}
	return nil, false
}

func registerProgram(code []byte) []byte {
	prog := []byte{0x6a, 0x04, 'b', 'c', 'r', 'p', 0x01, 0x01}
	switch {
	case len(code) <= 75:
		prog = append(prog, byte(len(code)))
	case len(code) < 256:
		prog = append(prog, 0x4c, byte(len(code)))
	default:
		prog = append(prog, 0x4d, byte(len(code)), byte(len(code)>>8))
	}
	return append(prog, code...)
}

func abs(x int) int {
	if x < 0 {
		return -x
	}
	return x
}

// coinbase builds the coinbase transaction for a block at height h proposed by key
// index pk, paying the given reward table when h is the first block of an epoch.
func (w *World) coinbase(idx int, h uint64, pk int, rewards map[string]uint64, mut string, mutArg int, progOverride []byte) *types.Tx {
	// the world index makes otherwise identical sibling blocks distinct
	arbitrary := append([]byte{0x00}, []byte(strconv.FormatUint(h, 10)+"/"+strconv.Itoa(idx))...)
	script := ProposerProgram(pk)
	if len(progOverride) > 0 {
		script = progOverride
	}
	outs := []*types.TxOutput{types.NewOriginalTxOutput(btm, 0, script, nil)}
	if h%w.P.Epoch == 1 && h != 1 {
		var progs []string
		for k := range rewards {
			progs = append(progs, k)
		}
		sort.Strings(progs)
		for _, k := range progs {
			raw := mustHex(k)
			if string(raw) == string(script) {
				outs[0].Amount = rewards[k]
				continue
			}
			outs = append(outs, types.NewOriginalTxOutput(btm, rewards[k], raw, nil))
		}
	}
	switch mut {
	case "cb-amount-plus1": // pay one unit too much (on reward blocks to the first paid output, else to output 0)
		i := 0
		if outs[0].Amount == 0 && len(outs) > 1 {
			i = 1
		}
		outs[i].Amount++
	case "cb-proposer-plus": // the proposer's own output (position 0) pays more than the table says, whatever the table holds for it
		outs[0].Amount += 1 + uint64(abs(mutArg)%1000)
	case "cb-amount-minus1":
		for _, o := range outs {
			if o.Amount > 0 {
				o.Amount--
				return w.finishCoinbase(arbitrary, outs)
			}
		}
		outs[0].Amount = 1 // nothing to reduce: pay something off-epoch instead
	case "cb-extra-recipient":
		outs = append(outs, types.NewOriginalTxOutput(btm, 1+uint64(abs(mutArg)%1000), []byte{0x51, 0x51, 0x75}, nil))
	case "cb-missing-recipient":
		if len(outs) > 1 {
			outs = outs[:len(outs)-1]
		} else if outs[0].Amount > 0 {
			outs[0].Amount = 0
		} else {
			outs[0].Amount = 7 // no reward to drop: pay something instead
		}
	case "cb-zero-standin": // one paid recipient is replaced by a zero-amount output to a program that earned nothing (same number of programs)
		var paid []int
		for i, o := range outs {
			if o.Amount > 0 {
				paid = append(paid, i)
			}
		}
		standin := types.NewOriginalTxOutput(btm, 0, []byte{0x51, 0x51, 0x75, byte(abs(mutArg) % 251)}, nil)
		if len(paid) == 0 {
			outs = append(outs, standin) // nothing is paid here: the extra output alone is wrong
		} else if t := paid[abs(mutArg)%len(paid)]; t == 0 {
			outs[0].Amount = 0
			outs = append(outs, standin)
		} else {
			outs[t] = standin
		}
	case "cb-vote-output":
		key := Key(0).XPub()
		outs = append(outs, types.NewVoteOutput(btm, consensus.MinVoteOutputAmount, progTrue, key[:], nil))
	}
	return w.finishCoinbase(arbitrary, outs)
}

func (w *World) finishCoinbase(arbitrary []byte, outs []*types.TxOutput) *types.Tx {
	return finishTx(&types.TxData{Inputs: []*types.TxInput{types.NewCoinbaseInput(arbitrary)}, Outputs: outs})
}

func mustHex(s string) []byte {
	out := make([]byte, len(s)/2)
	for i := 0; i < len(out); i++ {
		v, err := strconv.ParseUint(s[2*i:2*i+2], 16, 8)
		if err != nil {
			panic(err)
		}
		out[i] = byte(v)
	}
	return out
}

// VoteMessage returns the 32-byte message a validator signs for the link source -> target.
func VoteMessage(source, target bc.Hash) []byte {
	h := sha3.New256()
	h.Write(source.Bytes())
	h.Write(target.Bytes())
	return h.Sum(nil)
}

// Vote builds a verification message by key index for the link between two blocks of the world.
func (w *World) Vote(key int, source, target int) *casper.ValidCasperSignMsg {
	sh, th := w.Blocks[source].Block.Hash(), w.Blocks[target].Block.Hash()
	k := Key(key)
	return &casper.ValidCasperSignMsg{SourceHash: sh, TargetHash: th, Signature: k.Sign(VoteMessage(sh, th)), PubKey: k.XPub().String()}
}

// CheckpointBack returns the index of the checkpoint block `back` epochs before checkpoint block i on its branch (clamped at genesis).
func (w *World) CheckpointBack(i int, back int) int {
	h := w.Blocks[i].Block.Height
	e := w.P.Epoch
	if back < 1 {
		back = 1
	}
	if uint64(back)*e > h {
		return 0
	}
	return w.AncestorAt(i, h-uint64(back)*e)
}

// ValidatorsFor returns the validator list (hex keys, in slot order) entitled to vote for the checkpoint at block i.
func (w *World) ValidatorsFor(i int) []string {
	par := w.CheckpointBack(i, 1)
	return w.P.EffectiveValidators(w.Blocks[par].State.Last)
}

// Add builds one more block and returns its index.
func (w *World) Add(bd BlockDesc) int {
	p := w.P
	idx := len(w.Blocks)
	parent := abs(bd.Parent) % idx
	par := w.Blocks[parent]
	ps := par.State
	h := par.Block.Height + 1
	ts := par.Block.Timestamp + IntervalMs*uint64(1+abs(bd.Skip)%4) + uint64(abs(bd.Jitter))%IntervalMs
	info := &BlockInfo{Idx: idx, Parent: parent, Desc: bd}

	// proposer from the model
	pub, _ := p.Proposer(ps.Last, ts)
	pk := KeyIndex(pub)
	signer := pk

	// transactions, resolved one after another against a scratch state
	scratch := ps.clone()
	scratch.Height = h
	var txs []*types.Tx
	txs = append(txs, nil)
	for ti, td := range bd.Txs {
		salt := uint64(idx)<<16 | uint64(ti)
		tx, ok := w.resolveTx(scratch, h, td, salt)
		if !ok {
			info.Skipped = append(info.Skipped, td.Kind)
			continue
		}
		if td.Kind == "bad-unbalanced" {
			info.HdrBad = "transaction invalid: unbalanced"
		}
		info.TxKinds = append(info.TxKinds, td.Kind)
		txs = append(txs, tx)
		// apply to the scratch state so later transactions of this block can chain / avoid double spends
		for _, id := range tx.SpentOutputIDs {
			if u, ok := scratch.Utxos[id]; ok {
				delete(scratch.Utxos, id)
				scratch.Spent = append(scratch.Spent, u)
			}
		}
		for oi, out := range tx.Outputs {
			if out.Amount == 0 || (len(out.ControlProgram) > 0 && out.ControlProgram[0] == 0x6a) {
				continue
			}
			id := *tx.ResultIds[oi]
			u := &Utxo{ID: id, Height: h, Asset: *out.AssetId, Amount: out.Amount, Program: out.ControlProgram, Seq: scratch.seq}
			scratch.seq++
			switch e := tx.Entries[id].(type) {
			case *bc.OriginalOutput:
				u.SourceID, u.SourcePos, u.StateData = *e.Source.Ref, e.Source.Position, e.StateData
			case *bc.VoteOutput:
				u.Kind, u.Vote = KindVote, e.Vote
				u.SourceID, u.SourcePos, u.StateData = *e.Source.Ref, e.Source.Position, e.StateData
			}
			scratch.Utxos[id] = u
		}
	}
	if bd.Mut == "tx-dup-inblock" && len(txs) > 1 {
		// a second spend of an input already spent in this block (different outputs)
		first := txs[1]
		if len(first.Inputs) > 0 {
			if si, ok := first.Inputs[0].TypedInput.(*types.SpendInput); ok && si.Amount > 3*baseFee {
				in := types.NewSpendInput(nil, si.SourceID, *si.AssetId, si.Amount, si.SourcePosition, si.ControlProgram, si.StateData)
				dup := finishTx(&types.TxData{Inputs: []*types.TxInput{in}, Outputs: []*types.TxOutput{types.NewOriginalTxOutput(*si.AssetId, si.Amount-baseFee-7, progTrue, nil)}})
				txs = append(txs, dup)
				info.TxKinds = append(info.TxKinds, "bad-inblock-double")
			}
		}
	}

	for _, raw := range bd.Raw {
		tx := &types.Tx{}
		if err := tx.UnmarshalText([]byte(raw)); err != nil {
			panic(fmt.Sprintf("chainkit: raw transaction does not decode: %v", err))
		}
		txs = append(txs, tx)
		info.TxKinds = append(info.TxKinds, "raw")
	}

	cbMut := ""
	if len(bd.Mut) > 3 && bd.Mut[:3] == "cb-" {
		cbMut = bd.Mut
		info.HdrBad = "coinbase: " + bd.Mut
	}
	txs[0] = w.coinbase(idx, h, pk, ps.Last.Rewards, cbMut, bd.MutArg, mustHex(bd.CoinbaseProg))

	var bcTxs []*bc.Tx
	for _, tx := range txs {
		bcTxs = append(bcTxs, tx.Tx)
	}
	root, err := types.TxMerkleRoot(bcTxs)
	if err != nil {
		panic(err)
	}
	blk := &types.Block{
		BlockHeader: types.BlockHeader{Version: 1, Height: h, PreviousBlockHash: par.Block.Hash(), Timestamp: ts,
			BlockCommitment: types.BlockCommitment{TransactionsMerkleRoot: root}},
		Transactions: txs,
	}
	switch bd.Mut {
	case "height-plus1":
		blk.Height++
		info.HdrBad = "height"
	case "height-minus1":
		if blk.Height > 1 {
			blk.Height--
			info.HdrBad = "height"
		}
	case "version":
		blk.Version = 2
		info.HdrBad = "version"
	case "timestamp-early":
		blk.Timestamp = par.Block.Timestamp + IntervalMs - 1 - uint64(abs(bd.MutArg))%IntervalMs
		info.HdrBad = "timestamp below parent+interval"
		pub, _ = p.Proposer(ps.Last, maxU64(blk.Timestamp, ps.Last.Timestamp+IntervalMs))
		signer = KeyIndex(pub)
	case "timestamp-future":
		if p.MaxOffsetMs != 0 {
			blk.Timestamp = par.Block.Timestamp + FarFutureMs + IntervalMs*uint64(abs(bd.MutArg)%7)
			info.HdrBad = "timestamp beyond the allowed lead over the clock"
			pub, _ = p.Proposer(ps.Last, blk.Timestamp)
			signer = KeyIndex(pub)
		}
	case "timestamp-equal-parent":
		blk.Timestamp = par.Block.Timestamp
		info.HdrBad = "timestamp below parent+interval"
	case "merkle":
		blk.TransactionsMerkleRoot.V0 ^= 1 << uint(abs(bd.MutArg)%64)
		info.HdrBad = "merkle root"
	case "wrong-proposer":
		vals := p.EffectiveValidators(ps.Last)
		if len(vals) > 1 {
			_, ord := p.Proposer(ps.Last, ts)
			signer = KeyIndex(vals[(ord+1+abs(bd.MutArg)%(len(vals)-1))%len(vals)])
			info.HdrBad = "signed by a validator that is not scheduled for the slot"
		} else {
			signer = -1
			info.HdrBad = "signed by a non-validator"
		}
	case "outsider-signature":
		signer = -1
		info.HdrBad = "signed by a non-validator"
	}
	hash := blk.Hash()
	var sig []byte
	if signer >= 0 {
		sig = Key(signer).Sign(hash.Bytes())
	} else {
		sig = OutsiderKey().Sign(hash.Bytes())
	}
	switch bd.Mut {
	case "bad-signature":
		sig[abs(bd.MutArg)%len(sig)] ^= 0x01
		info.HdrBad = "signature corrupted"
	case "no-signature":
		sig = nil
		info.HdrBad = "no signature"
	}
	blk.BlockWitness.Set(sig)
	info.Block = blk

	// model state (lenient fold); heights are taken from the header actually built
	if info.HdrBad == "" || blk.Height == h {
		info.State = p.Apply(ps, blk)
	} else {
		info.State = p.Apply(ps, blk)
	}
	if !ps.Valid && info.State.Valid {
		info.State.Valid, info.State.Why = false, ps.Why
	}

	// verification signatures carried in the header (only meaningful on checkpoint blocks)
	if h%p.Epoch == 0 && len(bd.Sup) > 0 {
		w.Blocks = append(w.Blocks, info) // so that helpers can see the block
		vals := w.ValidatorsFor(idx)
		for _, sd := range bd.Sup {
			srcIdx := w.CheckpointBack(idx, 1+abs(sd.Source)%3)
			src := w.Blocks[srcIdx].Block
			sh := src.Hash()
			slot := abs(sd.Validator) % len(vals)
			key := KeyIndex(vals[slot])
			msg := VoteMessage(sh, hash)
			var s []byte
			switch sd.Bad {
			case "":
				s = Key(key).Sign(msg)
			case "garbage":
				s = make([]byte, 64)
				for i := range s {
					s[i] = byte(i*7 + sd.Validator)
				}
			case "wrong-slot":
				s = Key(key).Sign(msg)
				slot = (slot + 1) % consensus.MaxNumOfValidators
			case "non-validator":
				s = OutsiderKey().Sign(msg)
			case "other-link":
				s = Key(key).Sign(VoteMessage(hash, sh))
			case "unused-slot":
				s = Key(key).Sign(msg)
				slot = len(vals) + abs(sd.Validator)%(consensus.MaxNumOfValidators-len(vals)+1)
				if slot >= consensus.MaxNumOfValidators {
					slot = consensus.MaxNumOfValidators - 1
				}
			}
			srcHeight := src.Height
			switch sd.Bad {
			case "unknown-source": // a link from a checkpoint nobody has, properly signed by the validator
				sh = bc.NewHash([32]byte{0xee, byte(sd.Validator), byte(idx), 0x01})
				s = Key(key).Sign(VoteMessage(sh, hash))
			case "wrong-source-height": // the right source hash under another height, properly signed
				s = Key(key).Sign(msg)
				srcHeight += uint64(1 + abs(sd.Validator)%3)
			}
			blk.SupLinks.AddSupLink(srcHeight, sh, s, slot)
		}
		w.Blocks = w.Blocks[:idx]
	}

	w.Blocks = append(w.Blocks, info)
	w.ByHash[hash] = idx
	return idx
}

func maxU64(a, b uint64) uint64 {
	if a > b {
		return a
	}
	return b
}

// CloneBlock returns a deep copy of a built block (the node mutates blocks it is given:
// it appends its own verification signature to the header).
func CloneBlock(b *types.Block) *types.Block {
	raw, err := b.MarshalText()
	if err != nil {
		panic(err)
	}
	out := &types.Block{}
	if err := out.UnmarshalText(raw); err != nil {
		panic(err)
	}
	return out
}
