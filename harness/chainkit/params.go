// Package chainkit builds valid (and deliberately invalid) signed Bytom blocks on any
// known parent from a plain data description, together with an independent model of
// what the ledger, the validator schedule and the reward table must be on every branch.
//
// Everything is a deterministic function of the description: keys come from fixed
// seeds, timestamps from slot numbers, no wall clock and no RNG.
package chainkit

import (
	"crypto/sha256"
	"fmt"
	"math"

	"github.com/bytom/bytom/config"
	"github.com/bytom/bytom/consensus"
	"github.com/bytom/bytom/crypto/ed25519/chainkd"
)

// Params are the consensus parameters a generated world runs under.
type Params struct {
	Epoch          uint64 `json:"epoch"`      // blocks per epoch (3..5)
	Validators     int    `json:"validators"` // number of federation keys (1..10)
	VoteLock       uint64 `json:"vote_lock"`  // vote lock in blocks for heights < VoteLockSwitch
	VoteLock2      uint64 `json:"vote_lock2"` // lock for heights >= VoteLockSwitch (0 = single range)
	VoteLockSwitch uint64 `json:"vote_lock_switch"`
	MinVotes       uint64 `json:"min_votes"`               // MinValidatorVoteNum
	NodeKey        int    `json:"node_key"`                // index of the key the node signs with; -1 = a key that is never a validator
	MaxOffsetMs    uint64 `json:"max_offset_ms,omitempty"` // allowed lead of a block timestamp over the wall clock; 0 = unbounded (2^50 ms)
}

const (
	// IntervalMs is the block time interval of generated worlds.
	IntervalMs = uint64(1000)
	// GenesisTime is the genesis timestamp (ms).
	GenesisTime = uint64(1600000000000)
	// NumKeys is the number of harness-owned keys (validators are a prefix; the rest can become validators by votes).
	NumKeys = 16
)

var installed *Params

var keys []chainkd.XPrv
var outsiderKey chainkd.XPrv

func init() {
	for i := 0; i < NumKeys; i++ {
		seed := sha256.Sum256([]byte(fmt.Sprintf("verif-validator-key-%d", i)))
		keys = append(keys, chainkd.RootXPrv(seed[:]))
	}
	seed := sha256.Sum256([]byte("verif-outsider-key"))
	outsiderKey = chainkd.RootXPrv(seed[:])
}

// Key returns the i-th harness key.
func Key(i int) chainkd.XPrv { return keys[i] }

// PubHex returns the hex xpub of the i-th key (the form the checkpoint vote tables use).
func PubHex(i int) string { return keys[i].XPub().String() }

// OutsiderKey is a key that never is a validator.
func OutsiderKey() chainkd.XPrv { return outsiderKey }

// KeyIndex returns the index of the key with the given hex xpub, or -1.
func KeyIndex(pubHex string) int {
	for i := range keys {
		if keys[i].XPub().String() == pubHex {
			return i
		}
	}
	return -1
}

// Normalize fills defaults and clamps.
func (p Params) Normalize() Params {
	if p.Epoch < 2 {
		p.Epoch = 4
	}
	if p.Validators < 1 {
		p.Validators = 4
	}
	if p.Validators > consensus.MaxNumOfValidators {
		p.Validators = consensus.MaxNumOfValidators
	}
	if p.VoteLock == 0 {
		p.VoteLock = 2
	}
	if p.MinVotes == 0 {
		p.MinVotes = consensus.MinVoteOutputAmount
	}
	if p.NodeKey >= NumKeys {
		p.NodeKey = p.NodeKey % NumKeys
	}
	return p
}

// Install sets the process-wide consensus parameters and node key.  The chain code
// reads them from globals, so one process runs one parameter set at a time.
func (p Params) Install() {
	p = p.Normalize()
	// nodes of earlier cases keep idle goroutines that may still read the globals: do not write
	// when nothing changes (checks built with the race detector use one parameter set per process)
	if installed != nil && *installed == p {
		return
	}
	pc := p
	installed = &pc
	var fed []chainkd.XPub
	for i := 0; i < p.Validators; i++ {
		fed = append(fed, keys[i].XPub())
	}
	locks := []consensus.VotePendingBlockNum{{BeginBlock: 0, EndBlock: math.MaxUint64, Num: p.VoteLock}}
	if p.VoteLock2 != 0 && p.VoteLockSwitch != 0 {
		locks = []consensus.VotePendingBlockNum{
			{BeginBlock: 0, EndBlock: p.VoteLockSwitch, Num: p.VoteLock},
			{BeginBlock: p.VoteLockSwitch, EndBlock: math.MaxUint64, Num: p.VoteLock2},
		}
	}
	consensus.ActiveNetParams = consensus.Params{
		Name:            "main",
		Bech32HRPSegwit: "bn",
		CasperConfig: consensus.CasperConfig{
			BlockTimeInterval:    IntervalMs,
			MaxTimeOffsetMs:      p.maxOffset(),
			BlocksOfEpoch:        p.Epoch,
			MinValidatorVoteNum:  p.MinVotes,
			VotePendingBlockNums: locks,
			FederationXpubs:      fed,
		},
	}
	if config.CommonConfig == nil {
		config.CommonConfig = config.DefaultConfig()
	}
	k := outsiderKey
	if p.NodeKey >= 0 {
		k = keys[p.NodeKey]
	}
	kk := k
	pub := kk.XPub()
	config.CommonConfig.XPrv = &kk
	config.CommonConfig.XPub = &pub
}

// Lock returns the vote lock (in blocks) that applies to a spend at the given height.
func (p Params) Lock(height uint64) uint64 {
	p = p.Normalize()
	if p.VoteLock2 != 0 && p.VoteLockSwitch != 0 && height >= p.VoteLockSwitch {
		return p.VoteLock2
	}
	return p.VoteLock
}

func (p Params) maxOffset() uint64 {
	if p.MaxOffsetMs != 0 {
		return p.MaxOffsetMs
	}
	return uint64(1) << 50
}

// FarFutureMs is added to a parent's timestamp by the "timestamp-future" mutation: generated
// worlds live in 2020, this lands in the 2060s, beyond any bounded MaxOffsetMs.
const FarFutureMs = uint64(40*365*24*3600) * 1000
