package chainkit

import (
	"pgregory.net/rapid"
)

// GenOpt tunes the tree generator.
type GenOpt struct {
	MinBlocks, MaxBlocks int
	Epochs               []uint64 // choices for the epoch length
	Validators           []int    // choices for the federation size
	Txs                  bool     // blocks carry transactions
	BadTxs               bool     // allow ledger-invalid transactions (double spend, premature veto, ...)
	Sup                  bool     // checkpoint blocks may carry verification signatures in the header
	BadSup               bool     // ... including forged ones
	Mut                  bool     // allow one header/coinbase mutant block
	NodeKeyChoices       []int    // choices for the node's own key (-1 = outsider)
	TwoLocks             bool     // allow a second vote-lock range
	Linear               bool     // no forks
}

var goodKinds = []string{"spend", "spend", "vote", "vote", "veto", "veto", "register", "issue", "xfer", "retire"}
var badKinds = []string{"bad-premature-veto", "bad-immature-coinbase", "bad-double-spend", "bad-missing"}

// HeaderMutations are the single-rule block mutations chainkit can build.
var HeaderMutations = []string{"height-plus1", "height-minus1", "version", "timestamp-early", "timestamp-equal-parent", "timestamp-future", "merkle",
	"wrong-proposer", "outsider-signature", "bad-signature", "no-signature",
	"cb-amount-plus1", "cb-proposer-plus", "cb-amount-minus1", "cb-extra-recipient", "cb-missing-recipient", "cb-zero-standin", "cb-vote-output", "tx-unbalanced"}

var badSupKinds = []string{"garbage", "wrong-slot", "non-validator", "other-link", "unused-slot", "unknown-source", "wrong-source-height"}

func genTx(t *rapid.T, opt GenOpt, allowBad bool) TxDesc {
	kinds := goodKinds
	if allowBad && rapid.IntRange(0, 3).Draw(t, "badtx") == 0 {
		kinds = badKinds
	}
	return TxDesc{
		Kind: rapid.SampledFrom(kinds).Draw(t, "kind"),
		Pick: []int{rapid.IntRange(0, 40).Draw(t, "pick0"), rapid.IntRange(0, 40).Draw(t, "pick1")},
		N:    rapid.IntRange(0, 15).Draw(t, "n"),
		Amt:  rapid.IntRange(0, 7).Draw(t, "amt"),
	}
}

// GenParams draws consensus parameters.
func GenParams(t *rapid.T, opt GenOpt) Params {
	p := Params{Epoch: 4, Validators: 4, NodeKey: -1}
	if len(opt.Epochs) > 0 {
		p.Epoch = rapid.SampledFrom(opt.Epochs).Draw(t, "epoch")
	}
	if len(opt.Validators) > 0 {
		p.Validators = rapid.SampledFrom(opt.Validators).Draw(t, "validators")
	}
	p.VoteLock = uint64(rapid.IntRange(2, 3).Draw(t, "votelock"))
	if opt.TwoLocks && rapid.Bool().Draw(t, "twolocks") {
		p.VoteLock2 = uint64(rapid.IntRange(1, 4).Draw(t, "votelock2"))
		p.VoteLockSwitch = uint64(rapid.IntRange(3, 9).Draw(t, "lockswitch"))
	}
	if len(opt.NodeKeyChoices) > 0 {
		p.NodeKey = rapid.SampledFrom(opt.NodeKeyChoices).Draw(t, "nodekey")
	}
	return p
}

// GenTree draws a block tree description.
func GenTree(t *rapid.T, opt GenOpt) TreeDesc {
	td := TreeDesc{Params: GenParams(t, opt)}
	n := rapid.IntRange(opt.MinBlocks, opt.MaxBlocks).Draw(t, "nblocks")
	mutAt := -1
	if opt.Mut {
		mutAt = rapid.IntRange(0, n-1).Draw(t, "mutAt")
	}
	bushy := !opt.Linear && rapid.IntRange(0, 3).Draw(t, "bushy") == 0
	for i := 0; i < n; i++ {
		// block i+1 of the world; parents are chosen relative to the previous block so that
		// shrinking moves towards a linear chain
		back := 0
		if bushy {
			// many siblings: parents among the last few blocks
			back = rapid.IntRange(0, 4).Draw(t, "bushback")
		} else if !opt.Linear {
			switch rapid.IntRange(0, 9).Draw(t, "fork") {
			case 0, 1:
				back = rapid.IntRange(1, 3).Draw(t, "back")
			case 2:
				back = rapid.IntRange(0, i).Draw(t, "backfar")
			}
		}
		parent := i - back
		if parent < 0 {
			parent = 0
		}
		bd := BlockDesc{Parent: parent}
		if rapid.IntRange(0, 4).Draw(t, "skipq") == 0 {
			bd.Skip = rapid.IntRange(1, 3).Draw(t, "skip")
		}
		if rapid.IntRange(0, 3).Draw(t, "jitq") == 0 {
			bd.Jitter = rapid.SampledFrom([]int{1, 250, 500, 501, 999}).Draw(t, "jitter")
		}
		if opt.Txs {
			ntx := rapid.IntRange(0, 3).Draw(t, "ntx")
			for k := 0; k < ntx; k++ {
				bd.Txs = append(bd.Txs, genTx(t, opt, opt.BadTxs))
			}
		}
		if opt.Sup && rapid.IntRange(0, 1).Draw(t, "supq") == 0 {
			ns := rapid.IntRange(1, 5).Draw(t, "nsup")
			for k := 0; k < ns; k++ {
				sd := SupDesc{Validator: rapid.IntRange(0, 9).Draw(t, "supv"), Source: 0}
				if rapid.IntRange(0, 4).Draw(t, "supsrcq") == 0 {
					sd.Source = rapid.IntRange(1, 2).Draw(t, "supsrc")
				}
				if opt.BadSup && rapid.IntRange(0, 3).Draw(t, "supbadq") == 0 {
					sd.Bad = rapid.SampledFrom(badSupKinds).Draw(t, "supbad")
				}
				bd.Sup = append(bd.Sup, sd)
			}
		}
		if i == mutAt {
			bd.Mut = rapid.SampledFrom(HeaderMutations).Draw(t, "mut")
			bd.MutArg = rapid.IntRange(0, 200).Draw(t, "mutarg")
			if bd.Mut == "tx-unbalanced" {
				bd.Mut = ""
				bd.Txs = append([]TxDesc{{Kind: "bad-unbalanced", Pick: []int{rapid.IntRange(0, 20).Draw(t, "ubpick")}}}, bd.Txs...)
			}
		}
		td.Blocks = append(td.Blocks, bd)
	}
	return td
}

// GenOrder draws a delivery order for blocks 1..n: a permutation, expressed as
// selector indexes into the list of not-yet-delivered blocks (so it stays valid under shrinking).
func GenOrder(t *rapid.T, n int, shuffled bool) []int {
	out := make([]int, n)
	if !shuffled {
		return out // all zeros = in index order
	}
	switch rapid.IntRange(0, 3).Draw(t, "omode") {
	case 0: // mostly in order, sometimes far away
		for i := range out {
			if rapid.IntRange(0, 2).Draw(t, "oq") == 0 {
				out[i] = rapid.IntRange(0, n).Draw(t, "o")
			}
		}
	case 1: // mostly reversed: children before their parents
		for i := range out {
			out[i] = n - 1 - i
			if rapid.IntRange(0, 3).Draw(t, "oq") == 0 {
				out[i] = rapid.IntRange(0, n).Draw(t, "o")
			}
		}
	case 2: // a late block first, then the rest reversed in chunks
		k := rapid.IntRange(1, 4).Draw(t, "chunk")
		for i := range out {
			out[i] = k
		}
	default: // uniform
		for i := range out {
			out[i] = rapid.IntRange(0, n).Draw(t, "o")
		}
	}
	return out
}

// ApplyOrder turns selector indexes into a permutation of 1..n.
func ApplyOrder(sel []int, n int) []int {
	rest := make([]int, n)
	for i := range rest {
		rest[i] = i + 1
	}
	var out []int
	for k := 0; len(rest) > 0; k++ {
		s := 0
		if k < len(sel) {
			s = abs(sel[k]) % len(rest)
		}
		out = append(out, rest[s])
		rest = append(rest[:s], rest[s+1:]...)
	}
	return out
}
