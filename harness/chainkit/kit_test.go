package chainkit

import (
	"testing"
)

func TestLinear(t *testing.T) {
	td := TreeDesc{Params: Params{Epoch: 4, Validators: 4, NodeKey: -1}}
	for i := 0; i < 14; i++ {
		bd := BlockDesc{Parent: i, Skip: i % 3}
		switch i % 5 {
		case 0:
			bd.Txs = []TxDesc{{Kind: "spend", Pick: []int{i, 1}, N: 2}}
		case 1:
			bd.Txs = []TxDesc{{Kind: "vote", Pick: []int{i}, N: i, Amt: 1}}
		case 2:
			bd.Txs = []TxDesc{{Kind: "issue", Pick: []int{i}, N: i}, {Kind: "register", Pick: []int{i + 1}, N: i}}
		case 3:
			bd.Txs = []TxDesc{{Kind: "veto", Pick: []int{0}}, {Kind: "xfer", Pick: []int{0, 1}, N: 1}}
		case 4:
			bd.Txs = []TxDesc{{Kind: "retire", Pick: []int{i}}, {Kind: "spend", Pick: []int{i + 3}}}
		}
		td.Blocks = append(td.Blocks, bd)
	}
	w := Build(td)
	n, err := NewNode(w, NewMemDB())
	if err != nil {
		t.Fatal(err)
	}
	for i := 1; i < len(w.Blocks); i++ {
		orphan, err := n.Deliver(i)
		if err != nil || orphan {
			t.Fatalf("block %d (h=%d kinds=%v skipped=%v): orphan=%v err=%v", i, w.Blocks[i].Block.Height, w.Blocks[i].TxKinds, w.Blocks[i].Skipped, orphan, err)
		}
		if n.BestIdx() != i {
			t.Fatalf("best %d want %d", n.BestIdx(), i)
		}
		t.Logf("block %d h=%d kinds=%v skipped=%v utxos=%d", i, w.Blocks[i].Block.Height, w.Blocks[i].TxKinds, w.Blocks[i].Skipped, len(w.Blocks[i].State.Utxos))
	}
}
