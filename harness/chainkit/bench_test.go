package chainkit

import (
	"testing"
	"time"
)

func TestBenchNode(t *testing.T) {
	td := TreeDesc{Params: Params{Epoch: 4, Validators: 4, NodeKey: -1}}
	for i := 0; i < 10; i++ {
		td.Blocks = append(td.Blocks, BlockDesc{Parent: i, Txs: []TxDesc{{Kind: "spend", Pick: []int{i}}}})
	}
	t0 := time.Now()
	var w *World
	for k := 0; k < 20; k++ {
		w = Build(td)
	}
	t.Logf("build world of 10 blocks: %v", time.Since(t0)/20)
	t0 = time.Now()
	for k := 0; k < 50; k++ {
		n, _ := NewNode(w, NewMemDB())
		n.Stop()
	}
	t.Logf("new node: %v", time.Since(t0)/50)
	n, _ := NewNode(w, NewMemDB())
	t0 = time.Now()
	for i := 1; i <= 10; i++ {
		n.Deliver(i)
	}
	t.Logf("deliver 10: %v", time.Since(t0))
}
