package storecheck

import (
	"encoding/hex"
	"encoding/json"
	"fmt"
	"io"
	"os"
	"sort"
	"strings"
	"testing"

	log "github.com/sirupsen/logrus"
	"pgregory.net/rapid"

	"github.com/bytom/bytom/database"
	dbm "github.com/bytom/bytom/database/leveldb"
	"github.com/bytom/bytom/database/storage"
	"github.com/bytom/bytom/protocol/bc"
	"github.com/bytom/bytom/protocol/bc/types"
	"github.com/bytom/bytom/protocol/state"

	"verifharness/pbt"
)

// C21: the caches of database.Store are transparent.
//
// Oracle: after every op of a generated history, a getter called on the
// long-lived store (which has seen all the writes and reads so far) returns the
// same content as the same getter on a brand-new database.NewStore over the
// same DB (nothing cached), and calling it a second time returns the same
// again.  Content is compared on the serialised / exported fields (block
// header and transactions through MarshalText, checkpoints field by field incl.
// the in-memory SupLinks, errors by their text), nil == empty.
//
// Mutating an object a getter returned is not part of the claim and is not done.
//
// Two sub-checks share the executor:
//   "" (main)   the writers are used as the repository uses them: a hash is first
//               written by SaveBlock, exactly once (protocol/block.go:203 behind
//               BlockExist; genesis), and written again, with other witness /
//               suplinks, only through SaveBlockHeader, which is only called for
//               a stored block (casper/auth_verification.go:96).
//   "resave"    any interleaving: SaveBlock may be repeated for a stored hash
//               (same or another witness/suplink variant) and may follow a
//               SaveBlockHeader of that hash.

type c21Block struct {
	Height uint64 `json:"h"`    // 0..2: several blocks share a height
	Salt   uint8  `json:"salt"` // distinguishes blocks of one height
	NTx    int    `json:"ntx"`  // 0..2 transactions
}

type c21Cp struct {
	B      int   `json:"b"`
	Status uint8 `json:"status"` // state.CheckpointStatus 0..3
	Votes  int   `json:"votes"`  // size of the Votes / Rewards maps 0..2
	// Live: the saved object is one the caller keeps using, as the finality engine's tree nodes are:
	// bit 0: it carries links and a parent pointer (fields that are not part of the record);
	// bit 1: the caller changes it after the save (status, votes, timestamp) without saving again.
	Live int `json:"live,omitempty"`
}

type c21Utxo struct {
	ID     int    `json:"id"`   // index into the pool of output ids
	Type   uint32 `json:"type"` // 0 normal 1 coinbase 2 vote
	Height uint64 `json:"h"`
	Spent  bool   `json:"spent"`
}

type c21Contract struct {
	ID     int  `json:"id"` // 0..2
	Val    int  `json:"val"`
	Detach bool `json:"detach"`
}

type c21Op struct {
	Op        string        `json:"op"`
	B         int           `json:"b,omitempty"`     // block index (mod number of blocks)
	Known     bool          `json:"known,omitempty"` // getters, savecheckpoints: B picks among the objects written so far (mod their number) if there are any
	Var       int           `json:"var,omitempty"`   // witness/suplink variant 0..3 written by saveblock/saveheader
	H         uint64        `json:"h,omitempty"`     // height for the by-height getters
	Main      []int         `json:"main,omitempty"`  // savechainstatus: main chain headers (block indexes)
	Fin       int           `json:"fin,omitempty"`   // savechainstatus: finalized block index
	Utxos     []c21Utxo     `json:"utxos,omitempty"`
	Contracts []c21Contract `json:"contracts,omitempty"`
	Cps       []c21Cp       `json:"cps,omitempty"` // savecheckpoints
}

type c21Case struct {
	Blocks []c21Block `json:"blocks"`
	Ops    []c21Op    `json:"ops"`
}

func c21GenOp(t *rapid.T) c21Op {
	var op c21Op
	if k := uni(t, 100, "kind"); k < 40 {
		// weights: saveblock 10, saveheader 10, savechainstatus 8, savecheckpoints 12
		switch {
		case k < 10:
			op.Op = "saveblock"
		case k < 20:
			op.Op = "saveheader"
		case k < 28:
			op.Op = "savechainstatus"
		default:
			op.Op = "savecheckpoints"
		}
	} else {
		// the cached getters are drawn more often than the pass-through ones
		weighted := []string{"getheader", "getheader", "getblock", "getblock", "gettxs", "exist", "hashes", "hashes", "mainhash", "mainhash",
			"getcheckpoint", "getcheckpoint", "getcheckpoint", "checkpointsbyheight", "checkpointsbyheight", "checkpointsfrom", "checkpointsfrom",
			"status", "getutxo", "txsutxo", "getcontract"}
		op.Op = weighted[uni(t, len(weighted), "getter")]
	}
	op.B = uni(t, 6, "b")
	op.Known = uni(t, 5, "known") != 1
	switch op.Op {
	case "saveblock", "saveheader":
		op.Var = rapid.IntRange(0, 3).Draw(t, "var")
	case "hashes", "mainhash", "checkpointsbyheight":
		op.H = uint64(rapid.IntRange(0, 3).Draw(t, "h"))
	case "savechainstatus":
		op.Main = rapid.SliceOfN(rapid.Custom(func(t *rapid.T) int { return uni(t, 6, "mb") }), 0, 4).Draw(t, "main")
		op.Fin = uni(t, 6, "fin")
		op.Utxos = rapid.SliceOfN(rapid.Custom(func(t *rapid.T) c21Utxo {
			return c21Utxo{ID: uni(t, 8, "uid"), Type: uint32(uni(t, 3, "utype")), Height: uint64(uni(t, 4, "uh")), Spent: uni(t, 3, "uspent") == 1}
		}), 0, 3).Draw(t, "utxos")
		op.Contracts = rapid.SliceOfN(rapid.Custom(func(t *rapid.T) c21Contract {
			return c21Contract{ID: uni(t, 3, "cid"), Val: uni(t, 3, "cval"), Detach: uni(t, 3, "cdet") == 1}
		}), 0, 2).Draw(t, "contracts")
	case "savecheckpoints":
		op.Cps = rapid.SliceOfN(rapid.Custom(func(t *rapid.T) c21Cp {
			cp := c21Cp{B: uni(t, 6, "cb"), Status: uint8(rapid.IntRange(0, 3).Draw(t, "cstatus")), Votes: rapid.IntRange(0, 2).Draw(t, "cvotes")}
			if rapid.IntRange(0, 2).Draw(t, "cliveq") == 0 {
				cp.Live = rapid.IntRange(1, 3).Draw(t, "clive")
			}
			return cp
		}), 1, 3).Draw(t, "cps")
	case "getutxo", "getcontract":
		op.B = rapid.IntRange(0, 7).Draw(t, "id")
	}
	return op
}

func c21GenWith(resave bool) func(t *rapid.T) c21Case {
	return func(t *rapid.T) c21Case {
		var c c21Case
		n := rapid.IntRange(4, 6).Draw(t, "nblocks")
		for i := 0; i < n; i++ {
			c.Blocks = append(c.Blocks, c21Block{Height: uint64(uni(t, 3, "bh")), Salt: uint8(i), NTx: rapid.IntRange(0, 2).Draw(t, "ntx")})
		}
		for i := 0; i < 4; i++ { // see c20Gen for why chunks
			c.Ops = append(c.Ops, rapid.SliceOfN(rapid.Custom(c21GenOp), 0, 12).Draw(t, "ops")...)
		}
		if !resave {
			// the callers' discipline: the first write of a hash is SaveBlock, every
			// later write of that hash is the header-only SaveBlockHeader
			saved := map[int]bool{}
			for i := range c.Ops {
				if c.Ops[i].Op == "saveblock" || c.Ops[i].Op == "saveheader" {
					b := c.Ops[i].B % n
					if saved[b] {
						c.Ops[i].Op = "saveheader"
					} else {
						c.Ops[i].Op = "saveblock"
					}
					saved[b] = true
				}
			}
		}
		return c
	}
}

// ---------------------------------------------------------------------------
// building the objects of a case

func c21SupLinks(v int) types.SupLinks {
	var links types.SupLinks
	for j := 0; j < v; j++ {
		l := &types.SupLink{SourceHeight: uint64(j + 1), SourceHash: bc.NewHash([32]byte{byte(v), byte(j), 0x5a})}
		l.Signatures[(v+j)%len(l.Signatures)] = []byte{byte(v), byte(j), 0xaa}
		links = append(links, l)
	}
	return links
}

func c21Witness(v int) types.BlockWitness {
	if v == 0 {
		return nil
	}
	return types.BlockWitness(strings.Repeat(string([]byte{byte(0x10 + v)}), 8*v))
}

func c21BuildBlock(i int, b c21Block) *types.Block {
	blk := &types.Block{BlockHeader: types.BlockHeader{
		Version:           1,
		Height:            b.Height,
		PreviousBlockHash: bc.NewHash([32]byte{0x70, byte(b.Height)}),
		Timestamp:         1600000000000 + uint64(b.Salt)*1000 + uint64(i),
		BlockCommitment:   types.BlockCommitment{TransactionsMerkleRoot: bc.NewHash([32]byte{0x33, byte(i), b.Salt})},
	}}
	prog := []byte{0x51}
	for j := 0; j < b.NTx && j < 2; j++ {
		var in *types.TxInput
		if j == 0 {
			in = types.NewCoinbaseInput([]byte{byte(i), b.Salt})
		} else {
			in = types.NewSpendInput(nil, bc.NewHash([32]byte{0x44, byte(i)}), bc.AssetID{V0: 1}, 100, 0, prog, nil)
		}
		blk.Transactions = append(blk.Transactions, types.NewTx(types.TxData{
			Version: 1,
			Inputs:  []*types.TxInput{in},
			Outputs: []*types.TxOutput{types.NewOriginalTxOutput(bc.AssetID{V0: 1}, uint64(i+1), prog, nil)},
		}))
	}
	return blk
}

func c21Variant(blk *types.Block, v int) *types.Block {
	cp := *blk
	cp.BlockWitness = c21Witness(v)
	cp.SupLinks = c21SupLinks(v)
	return &cp
}

// ---------------------------------------------------------------------------
// canonical text of the getter results

func c21Err(err error) string { return "error: " + err.Error() }

func c21HeaderStr(h *types.BlockHeader) string {
	if h == nil {
		return "<nil header>"
	}
	b, err := h.MarshalText()
	if err != nil {
		return "unserialisable header: " + err.Error()
	}
	return fmt.Sprintf("header(hash=%s witness=%x suplinks=%d raw=%s)", hashStr(h.Hash()), []byte(h.BlockWitness), len(h.SupLinks), b)
}

func hashStr(h bc.Hash) string { return h.String()[:8] }

func c21TxsStr(txs []*types.Tx) string {
	var parts []string
	for _, tx := range txs {
		if tx == nil {
			parts = append(parts, "<nil tx>")
			continue
		}
		b, err := tx.MarshalText()
		if err != nil {
			parts = append(parts, "unserialisable tx: "+err.Error())
			continue
		}
		parts = append(parts, tx.ID.String()+":"+string(b))
	}
	return fmt.Sprintf("txs%d[%s]", len(txs), strings.Join(parts, " "))
}

func c21SupLinksStr(links []*types.SupLink) string {
	var parts []string
	for _, l := range links {
		if l == nil {
			parts = append(parts, "<nil>")
			continue
		}
		s := fmt.Sprintf("%d/%s/", l.SourceHeight, hashStr(l.SourceHash))
		for _, sig := range l.Signatures {
			s += hex.EncodeToString(sig) + ","
		}
		parts = append(parts, s)
	}
	return fmt.Sprintf("suplinks%d[%s]", len(links), strings.Join(parts, " "))
}

func c21MapStr(m map[string]uint64) string {
	var keys []string
	for k := range m {
		keys = append(keys, k)
	}
	sort.Strings(keys)
	var parts []string
	for _, k := range keys {
		parts = append(parts, fmt.Sprintf("%s=%d", k, m[k]))
	}
	return "{" + strings.Join(parts, ",") + "}"
}

func c21CheckpointStr(c *state.Checkpoint) string {
	if c == nil {
		return "<nil checkpoint>"
	}
	return fmt.Sprintf("checkpoint(h=%d hash=%s parent=%s ts=%d status=%d rewards=%s votes=%s parentptr=%v %s)",
		c.Height, hashStr(c.Hash), hashStr(c.ParentHash), c.Timestamp, c.Status, c21MapStr(c.Rewards), c21MapStr(c.Votes), c.Parent != nil, c21SupLinksStr(c.SupLinks))
}

func c21CheckpointsStr(cs []*state.Checkpoint) string {
	var parts []string
	for _, c := range cs {
		parts = append(parts, c21CheckpointStr(c))
	}
	return fmt.Sprintf("checkpoints%d[%s]", len(cs), strings.Join(parts, " "))
}

// ---------------------------------------------------------------------------

type c21World struct {
	blocks   []*types.Block
	hashes   []bc.Hash
	utxoPool []bc.Hash
}

// c21Read performs one getter op on a store and returns the canonical text.
func c21Read(s *database.Store, w *c21World, op c21Op) string {
	b := op.B % len(w.blocks)
	hash := w.hashes[b]
	switch op.Op {
	case "getheader":
		h, err := s.GetBlockHeader(&hash)
		if err != nil {
			return c21Err(err)
		}
		return c21HeaderStr(h)
	case "getblock":
		blk, err := s.GetBlock(&hash)
		if err != nil {
			return c21Err(err)
		}
		return "block(" + c21HeaderStr(&blk.BlockHeader) + " " + c21TxsStr(blk.Transactions) + ")"
	case "gettxs":
		txs, err := s.GetBlockTransactions(&hash)
		if err != nil {
			return c21Err(err)
		}
		return c21TxsStr(txs)
	case "exist":
		return fmt.Sprintf("exist=%v", s.BlockExist(&hash))
	case "hashes":
		hs, err := s.GetBlockHashesByHeight(op.H)
		if err != nil {
			return c21Err(err)
		}
		var parts []string
		for _, h := range hs {
			if h == nil {
				parts = append(parts, "<nil>")
			} else {
				parts = append(parts, hashStr(*h))
			}
		}
		return fmt.Sprintf("hashes%d[%s]", len(hs), strings.Join(parts, " "))
	case "mainhash":
		h, err := s.GetMainChainHash(op.H)
		if err != nil {
			return c21Err(err)
		}
		if h == nil {
			return "<nil hash>"
		}
		return "mainhash=" + hashStr(*h)
	case "getcheckpoint":
		c, err := s.GetCheckpoint(&hash)
		if err != nil {
			return c21Err(err)
		}
		return c21CheckpointStr(c)
	case "checkpointsbyheight":
		cs, err := s.GetCheckpointsByHeight(op.H)
		if err != nil {
			return c21Err(err)
		}
		return c21CheckpointsStr(cs)
	case "checkpointsfrom":
		cs, err := s.CheckpointsFromNode(w.blocks[b].Height, &hash)
		if err != nil {
			return c21Err(err)
		}
		return c21CheckpointsStr(cs)
	case "status":
		st := s.GetStoreStatus()
		raw, _ := json.Marshal(st)
		return "status=" + string(raw)
	case "getutxo":
		id := w.utxoPool[op.B%len(w.utxoPool)]
		u, err := s.GetUtxo(&id)
		if err != nil {
			return c21Err(err)
		}
		return fmt.Sprintf("utxo(type=%d height=%d spent=%v)", u.Type, u.BlockHeight, u.Spent)
	case "txsutxo":
		view := state.NewUtxoViewpoint()
		var txs []*bc.Tx
		for _, tx := range w.blocks[b].Transactions {
			txs = append(txs, tx.Tx)
		}
		if err := s.GetTransactionsUtxo(view, txs); err != nil {
			return c21Err(err)
		}
		var parts []string
		for id, u := range view.Entries {
			parts = append(parts, fmt.Sprintf("%s:(type=%d height=%d spent=%v)", hashStr(id), u.Type, u.BlockHeight, u.Spent))
		}
		sort.Strings(parts)
		return "view[" + strings.Join(parts, " ") + "]"
	case "getcontract":
		code, err := s.GetContract(c21ContractID(op.B % 3))
		if err != nil {
			return c21Err(err)
		}
		return fmt.Sprintf("contract=%x", code)
	}
	panic("HARNESS: unknown getter " + op.Op)
}

func c21ContractID(i int) [32]byte { return [32]byte{0xc0, byte(i)} }

func c21ContractVal(id, val int) []byte {
	// txid (32 bytes) + code
	return append(bc.NewHash([32]byte{0xee, byte(id), byte(val)}).Bytes(), byte(0x51), byte(val))
}

func init() { log.SetOutput(io.Discard) }

func c21Exec(c c21Case, x *pbt.Ctx) error {
	if len(c.Blocks) == 0 || len(c.Ops) == 0 {
		return nil
	}
	dir, err := os.MkdirTemp("", "c21-")
	if err != nil {
		panic("HARNESS: " + err.Error())
	}
	defer os.RemoveAll(dir)
	db, err := dbm.NewGoLevelDB("c21", dir)
	if err != nil {
		panic("HARNESS: " + err.Error())
	}
	defer db.Close()

	w := &c21World{}
	for i, b := range c.Blocks {
		blk := c21BuildBlock(i, b)
		w.blocks = append(w.blocks, blk)
		w.hashes = append(w.hashes, blk.Hash())
		for _, tx := range blk.Transactions {
			w.utxoPool = append(w.utxoPool, tx.SpentOutputIDs...)
		}
	}
	for i := 0; len(w.utxoPool) < 4; i++ {
		w.utxoPool = append(w.utxoPool, bc.NewHash([32]byte{0x99, byte(i)}))
	}
	for i := range w.hashes {
		for j := 0; j < i; j++ {
			if w.hashes[i] == w.hashes[j] {
				return nil // not a case: two descriptors gave the same block
			}
		}
	}

	store := database.NewStore(db)

	// bookkeeping for the non-trivial rule: read, then write, then read of one cache key
	phase := map[string]int{}
	read := func(keys ...string) {
		for _, k := range keys {
			switch phase[k] {
			case 0:
				phase[k] = 1
			case 2:
				phase[k] = 3
				x.NonTrivial = true
			}
		}
	}
	wrote := func(keys ...string) {
		for _, k := range keys {
			if phase[k] == 1 {
				phase[k] = 2
			}
		}
	}
	storedVar := map[int]int{}    // block index -> variant currently in the DB
	cpSaved := map[int]bool{}     // block index -> a checkpoint is stored
	everRead := map[string]bool{} // getters that ever succeeded
	var executed []c21Op          // the ops so far with indexes resolved
	trace := func(i int) string { // for the message
		var parts []string
		for _, o := range executed {
			raw, _ := json.Marshal(o)
			parts = append(parts, string(raw))
		}
		return strings.Join(parts, "\n    ")
	}

	var savedOrder, cpOrder, utxoOrder, contractOrder []int // objects written so far, in order of first write
	var mainHeights []uint64
	mainAt := map[uint64]int{} // height -> block index currently in the main chain index
	addOnce := func(list *[]int, v int) {
		for _, e := range *list {
			if e == v {
				return
			}
		}
		*list = append(*list, v)
	}
	pick := func(list []int, i int) (int, bool) {
		if len(list) == 0 {
			return 0, false
		}
		return list[i%len(list)], true
	}
	isWriter := map[string]bool{"saveblock": true, "saveheader": true, "savechainstatus": true, "savecheckpoints": true}

	for i, op := range c.Ops {
		if op.Known && !isWriter[op.Op] { // resolve the op against what exists
			switch op.Op {
			case "getcheckpoint", "checkpointsfrom", "checkpointsbyheight":
				if v, ok := pick(cpOrder, op.B); ok {
					op.B = v
				} else if v, ok := pick(savedOrder, op.B); ok {
					op.B = v
				}
				op.H = w.blocks[op.B%len(w.blocks)].Height
			case "getheader", "getblock", "gettxs", "exist", "txsutxo", "hashes":
				if v, ok := pick(savedOrder, op.B); ok {
					op.B = v
				}
				op.H = w.blocks[op.B%len(w.blocks)].Height
			case "mainhash":
				if len(mainHeights) > 0 {
					op.H = mainHeights[op.B%len(mainHeights)]
				}
			case "getutxo":
				if v, ok := pick(utxoOrder, op.B); ok {
					op.B = v
				}
			case "getcontract":
				if v, ok := pick(contractOrder, op.B); ok {
					op.B = v
				}
			}
			op.Known = false
		}
		if op.Known && op.Op == "savecheckpoints" {
			cps := append([]c21Cp{}, op.Cps...)
			for j := range cps {
				if v, ok := pick(savedOrder, cps[j].B); ok {
					cps[j].B = v
				}
			}
			op.Cps, op.Known = cps, false
		}
		executed = append(executed, op)
		b := op.B % len(w.blocks)
		hb, hh := fmt.Sprintf("hdr:%d", b), fmt.Sprintf("hashes:%d", w.blocks[b].Height)
		switch op.Op {
		case "saveblock":
			x.Class("op:saveblock")
			if v, ok := storedVar[b]; ok {
				x.Class("saveblock:hash-already-stored")
				if v != op.Var {
					x.Class("saveblock:other-variant")
				}
			}
			if err := store.SaveBlock(c21Variant(w.blocks[b], op.Var)); err != nil {
				return fmt.Errorf("op %d SaveBlock: unexpected error %v", i, err)
			}
			read(hh)
			wrote(hb, fmt.Sprintf("txs:%d", b), hh)
			storedVar[b] = op.Var
			addOnce(&savedOrder, b)
		case "saveheader":
			x.Class("op:saveheader")
			if v, ok := storedVar[b]; ok && v != op.Var {
				x.Class("saveheader:other-variant-of-stored-hash")
			}
			hdr := c21Variant(w.blocks[b], op.Var).BlockHeader
			if err := store.SaveBlockHeader(&hdr); err != nil {
				return fmt.Errorf("op %d SaveBlockHeader: unexpected error %v", i, err)
			}
			wrote(hb)
			storedVar[b] = op.Var
			addOnce(&savedOrder, b)
		case "savechainstatus":
			x.Class("op:savechainstatus")
			var main []*types.BlockHeader
			for _, m := range op.Main {
				m %= len(w.blocks)
				hdr := w.blocks[m].BlockHeader
				main = append(main, &hdr)
				wrote(fmt.Sprintf("main:%d", hdr.Height))
				if cur, ok := mainAt[hdr.Height]; ok && cur != m {
					x.Class("main:other-block-at-written-height")
				}
				mainAt[hdr.Height] = m
				mainHeights = append(mainHeights, hdr.Height)
			}
			view := state.NewUtxoViewpoint()
			for _, u := range op.Utxos {
				view.Entries[w.utxoPool[u.ID%len(w.utxoPool)]] = storage.NewUtxoEntry(u.Type, u.Height, u.Spent)
				addOnce(&utxoOrder, u.ID%len(w.utxoPool))
			}
			cv := state.NewContractViewpoint()
			for _, ct := range op.Contracts {
				addOnce(&contractOrder, ct.ID%3)
				if ct.Detach {
					cv.DetachEntries[c21ContractID(ct.ID%3)] = c21ContractVal(ct.ID%3, ct.Val)
				} else {
					cv.AttachEntries[c21ContractID(ct.ID%3)] = c21ContractVal(ct.ID%3, ct.Val)
				}
			}
			fin := op.Fin % len(w.blocks)
			finHash := w.hashes[fin]
			best := w.blocks[b].BlockHeader
			// the index entries about to be rewritten are read first (so that they sit in the cache, as
			// they do in a node that answers sync requests) and again afterwards
			var heights []uint64
			for h := uint64(0); h <= 3; h++ {
				heights = append(heights, h)
				c21Read(store, w, c21Op{Op: "mainhash", H: h})
			}
			if err := store.SaveChainStatus(&best, main, view, cv, w.blocks[fin].Height, &finHash); err != nil {
				return fmt.Errorf("op %d SaveChainStatus: unexpected error %v", i, err)
			}
			for _, h := range heights {
				rop := c21Op{Op: "mainhash", H: h}
				if got, fresh := c21Read(store, w, rop), c21Read(database.NewStore(db), w, rop); got != fresh {
					return fmt.Errorf("op %d SaveChainStatus with %d main-chain headers: afterwards GetMainChainHash(%d) on the long-lived store and on a fresh store over the same DB disagree\n  long-lived: %s\n  fresh:      %s\n  history:\n    %s",
						i, len(main), h, got, fresh, trace(i))
				}
			}
		case "savecheckpoints":
			x.Class("op:savecheckpoints")
			var cps []*state.Checkpoint
			for _, cp := range op.Cps {
				cb := cp.B % len(w.blocks)
				ck := &state.Checkpoint{
					Height:     w.blocks[cb].Height,
					Hash:       w.hashes[cb],
					ParentHash: w.blocks[cb].PreviousBlockHash,
					Timestamp:  w.blocks[cb].Timestamp,
					Status:     state.CheckpointStatus(cp.Status % 4),
					Rewards:    map[string]uint64{},
					Votes:      map[string]uint64{},
				}
				for k := 0; k < cp.Votes; k++ {
					ck.Votes[fmt.Sprintf("pubkey%d", k)] = uint64(100 * (k + 1) * (int(cp.Status) + 1))
					ck.Rewards[fmt.Sprintf("51%02x", k)] = uint64(k + 1 + int(cp.Status))
				}
				cps = append(cps, ck)
				wrote(fmt.Sprintf("cp:%d", cb))
				cpSaved[cb] = true
				addOnce(&cpOrder, cb)
			}
			for k, cp := range op.Cps {
				if cp.Live&1 != 0 {
					cps[k].SupLinks = c21SupLinks(1 + k)
					cps[k].Parent = &state.Checkpoint{Height: 7}
				}
			}
			if err := store.SaveCheckpoints(cps); err != nil {
				return fmt.Errorf("op %d SaveCheckpoints: unexpected error %v", i, err)
			}
			for k, cp := range op.Cps {
				if cp.Live&2 != 0 {
					cps[k].Status = state.CheckpointStatus((int(cps[k].Status) + 1) % 4)
					cps[k].Votes["late"] = 1
					cps[k].Timestamp++
				}
				if cp.Live != 0 {
					x.Class("savecheckpoints:object-kept-in-use-by-the-caller")
					rop := c21Op{Op: "getcheckpoint", B: cp.B}
					if got, fresh := c21Read(store, w, rop), c21Read(database.NewStore(db), w, rop); got != fresh {
						return fmt.Errorf("op %d SaveCheckpoints of an object the caller keeps using (live=%d): afterwards GetCheckpoint on the long-lived store and on a fresh store over the same DB disagree\n  long-lived: %s\n  fresh:      %s\n  history:\n    %s",
							i, cp.Live, got, fresh, trace(i))
					}
				}
			}
		default: // a getter
			x.Class("op:" + op.Op)
			first := c21Read(store, w, op)
			second := c21Read(store, w, op)
			fresh := c21Read(database.NewStore(db), w, op)
			if strings.HasPrefix(fresh, "error: ") {
				x.Class(op.Op + ":error")
			} else {
				x.Class(op.Op + ":ok")
				everRead[op.Op] = true
			}
			switch op.Op {
			case "getheader", "exist":
				read(hb)
			case "getblock":
				read(hb, fmt.Sprintf("txs:%d", b))
			case "gettxs":
				read(fmt.Sprintf("txs:%d", b))
			case "hashes":
				read(fmt.Sprintf("hashes:%d", op.H))
			case "mainhash":
				read(fmt.Sprintf("main:%d", op.H))
			case "getcheckpoint":
				read(hb, fmt.Sprintf("cp:%d", b))
			case "checkpointsbyheight":
				for j := range w.blocks {
					if cpSaved[j] && w.blocks[j].Height == op.H {
						read(fmt.Sprintf("hdr:%d", j))
					}
				}
			case "checkpointsfrom":
				for j := range w.blocks {
					if cpSaved[j] && w.blocks[j].Height > w.blocks[b].Height {
						read(fmt.Sprintf("hdr:%d", j))
					}
				}
			}
			if first != fresh {
				return fmt.Errorf("op %d %s: the long-lived store and a fresh store over the same DB disagree\n  long-lived: %s\n  fresh:      %s\n  history:\n    %s",
					i, op.Op, first, fresh, trace(i))
			}
			if second != first {
				return fmt.Errorf("op %d %s: reading twice gives different results\n  1st read: %s\n  2nd read: %s\n  fresh:    %s\n  history:\n    %s",
					i, op.Op, first, second, fresh, trace(i))
			}
		}
	}
	if x.NonTrivial {
		x.Class("read-write-read-on-one-key")
	}
	return nil
}

func TestC21(t *testing.T) {
	rule := "4..6 block descriptors (height 0..2, so heights are shared; 0..2 txs), 0..48 ops: SaveBlock / SaveBlockHeader with witness+suplink variant 0..3 of the same hash, SaveChainStatus (0..4 main headers, utxo and contract entries), SaveCheckpoints (1..3), and all 13 getters; goleveldb in a temp dir per case; every getter op: long-lived store twice == fresh NewStore(db) once, on serialised content and error text; non-trivial = some cache key is read, then written, then read again; distinct by the case"
	pbt.Run(t, "C21", rule+"; per hash: SaveBlock first and once, later writes by SaveBlockHeader",
		pbt.Options{Checks: pbt.Per(1500, 110000), MinClass: map[string]int{
			"getcheckpoint:ok": 100, "main:other-block-at-written-height": 50, "checkpointsfrom:ok": 50, "mainhash:ok": 50, "getblock:ok": 100,
			"saveheader:other-variant-of-stored-hash": 100, "read-write-read-on-one-key": 300,
		}}, c21GenWith(false), c21Exec)
	pbt.Run(t, "C21", rule+"; SaveBlock / SaveBlockHeader in any order and number per hash",
		pbt.Options{Sub: "resave", Checks: pbt.Per(500, 40000), MinClass: map[string]int{"saveblock:other-variant": 50}}, c21GenWith(true), c21Exec)
}
