package storecheck

import (
	"fmt"
	"os"
	"runtime"
	"sync"
	"sync/atomic"
	"testing"

	"pgregory.net/rapid"

	dbm "github.com/bytom/bytom/database/leveldb"

	"verifharness/pbt"
)

// C20, sub-check "batch-visibility": "a node configured with either backend behaves the same" also
// while one goroutine writes and others read, which is how a node uses its database.  A writer moves
// a set of records between two key groups under one prefix, one batch per move (delete every key of
// one group, set every key of the other); readers open prefix iterators and look at the keys only.
// On both backends every iteration must see all keys of exactly one group: a batch is visible as a
// whole or not at all.  The same scenario runs on LevelDB and on the in-memory backend; the
// interleaving is the scheduler's.

type c20ConcCase struct {
	Records int   `json:"records"` // 2..64 per group
	Moves   int   `json:"moves"`   // 50..400
	Readers int   `json:"readers"` // 1..3
	Yield   []int `json:"yield"`
}

func c20ConcGen(t *rapid.T) c20ConcCase {
	return c20ConcCase{Records: rapid.IntRange(2, 64).Draw(t, "records"), Moves: rapid.IntRange(50, 400).Draw(t, "moves"), Readers: rapid.IntRange(1, 3).Draw(t, "readers"),
		Yield: rapid.SliceOfN(rapid.IntRange(0, 3), 1, 4).Draw(t, "yield")}
}

func c20ConcExec(c c20ConcCase, x *pbt.Ctx) error {
	if c.Records < 2 || c.Records > 256 || c.Moves < 1 || c.Moves > 2000 || c.Readers < 1 || c.Readers > 8 || len(c.Yield) == 0 {
		return nil
	}
	dir, err := os.MkdirTemp("", "c20conc")
	if err != nil {
		return nil
	}
	defer os.RemoveAll(dir)
	ldb, err := dbm.NewGoLevelDB("c20conc", dir)
	if err != nil {
		return fmt.Errorf("HARNESS: %v", err)
	}
	defer ldb.Close()
	backends := []struct {
		name string
		db   dbm.DB
	}{{"leveldb", ldb}, {"memdb", dbm.NewMemDB()}}
	key := func(group byte, i int) []byte { return []byte(fmt.Sprintf("u/%c/%04d", group, i)) }
	var totalIters uint64
	for _, be := range backends {
		db := be.db
		for i := 0; i < c.Records; i++ {
			db.Set(key('a', i), []byte{byte(i)})
		}
		db.Set([]byte("t/outside"), []byte{1}) // a neighbour outside the prefix
		var done atomic.Bool
		var wg sync.WaitGroup
		var mu sync.Mutex
		var failure error
		var iters atomic.Uint64
		for r := 0; r < c.Readers; r++ {
			wg.Add(1)
			go func(r int) {
				defer wg.Done()
				defer func() {
					if p := recover(); p != nil {
						mu.Lock()
						if failure == nil {
							failure = fmt.Errorf("%s: reader %d panicked: %v", be.name, r, p)
						}
						mu.Unlock()
					}
				}()
				for !done.Load() {
					it := db.IteratorPrefix([]byte("u/"))
					na, nb := 0, 0
					for it.Next() {
						k := it.Key()
						if len(k) > 2 && k[2] == 'a' {
							na++
						} else {
							nb++
						}
					}
					it.Release()
					iters.Add(1)
					if !((na == c.Records && nb == 0) || (na == 0 && nb == c.Records)) {
						mu.Lock()
						if failure == nil {
							failure = fmt.Errorf("%s: an iteration over the prefix saw %d keys of group a and %d of group b; every batch moves all %d records from one group to the other, so a reader must see %d keys of one group", be.name, na, nb, c.Records, c.Records)
						}
						mu.Unlock()
						return
					}
				}
			}(r)
		}
		from, to := byte('a'), byte('b')
		for m := 0; m < c.Moves; m++ {
			mu.Lock()
			failed := failure != nil
			mu.Unlock()
			if failed {
				break
			}
			b := db.NewBatch()
			for i := 0; i < c.Records; i++ {
				b.Delete(key(from, i))
				b.Set(key(to, i), []byte{byte(i), byte(m)})
			}
			b.Write()
			from, to = to, from
			for k := 0; k < c.Yield[m%len(c.Yield)]; k++ {
				runtime.Gosched()
			}
		}
		done.Store(true)
		wg.Wait()
		if failure != nil {
			return failure
		}
		totalIters += iters.Load()
	}
	x.Class("batch-visibility/readers-%d", c.Readers)
	x.Count("batch_visibility_iterations", int(totalIters))
	x.NonTrivial = totalIters > uint64(c.Moves)
	return nil
}

func TestC20Concurrent(t *testing.T) {
	pbt.Run(t, "C20", "on each backend: a writer moves 2-64 records between two key groups under one prefix, one batch per move (50-400 moves, generated yield pattern), while 1-3 readers iterate over the prefix and count the keys of each group; oracle: every iteration sees all records in exactly one group, on LevelDB and on the in-memory backend alike; scheduler-chosen interleaving; non-trivial = more iterations than moves; distinct = case JSON",
		pbt.Options{Sub: "batch-visibility", Journal: true, Checks: pbt.Per(30, 600)}, c20ConcGen, c20ConcExec)
}
