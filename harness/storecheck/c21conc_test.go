package storecheck

import (
	"fmt"
	"runtime"
	"sync"
	"sync/atomic"
	"testing"

	"pgregory.net/rapid"

	"github.com/bytom/bytom/database"
	dbm "github.com/bytom/bytom/database/leveldb"
	"github.com/bytom/bytom/protocol/bc"
	"github.com/bytom/bytom/protocol/bc/types"
	"github.com/bytom/bytom/protocol/state"

	"verifharness/pbt"
)

// C21, sub-check "concurrent": one writer and several readers use one long-lived store at the
// same time, as the node does (the finality engine saves checkpoints and rewrites headers while
// validation, fork choice and RPC read them).
//
// Every record carries a version number the writer increases (a checkpoint's Timestamp, the
// number of supLinks of a header, the salt of the main-chain block at a height).  Oracle:
//
//	(a) freshness: a read that starts after the write of version v has returned must not return a
//	    version below v (what a fresh read of the database would give at any moment of the read
//	    is at least v), and never a version the writer has not started to write;
//	(b) after all goroutines have finished, the long-lived store and a fresh store over the same
//	    database agree on every record (nothing stale stayed in a cache).
//
// The interleaving is the Go scheduler's; the case fixes the amount of work and the yield pattern.
// A failure is reported with the record, the versions and the phase; it need not reproduce on
// replay (DESIGN 7).

type c21ConcCase struct {
	Cps      int   `json:"cps"`      // 1..4 checkpoints
	Versions int   `json:"versions"` // writes per record
	Readers  int   `json:"readers"`  // 1..4
	Pair     bool  `json:"pair"`     // SaveCheckpoints gets two records per call
	Yield    []int `json:"yield"`    // writer yields after these many operations (cyclic)
	Headers  bool  `json:"headers"`  // also rewrite and read the block headers
}

func c21ConcGen(t *rapid.T) c21ConcCase {
	return c21ConcCase{
		Cps:      rapid.IntRange(1, 4).Draw(t, "cps"),
		Versions: rapid.IntRange(50, 400).Draw(t, "versions"),
		Readers:  rapid.IntRange(1, 4).Draw(t, "readers"),
		Pair:     rapid.Bool().Draw(t, "pair"),
		Yield:    rapid.SliceOfN(rapid.IntRange(0, 3), 1, 4).Draw(t, "yield"),
		Headers:  rapid.Bool().Draw(t, "headers"),
	}
}

func c21ConcExec(c c21ConcCase, x *pbt.Ctx) error {
	if c.Cps < 1 || c.Cps > 8 || c.Versions < 1 || c.Versions > 5000 || c.Readers < 1 || c.Readers > 8 || len(c.Yield) == 0 {
		return nil
	}
	db := dbm.NewMemDB()
	store := database.NewStore(db)
	// blocks: one per checkpoint, plus two competing blocks per height for the index
	var blocks []*types.Block
	for i := 0; i < c.Cps; i++ {
		blk := c21BuildBlock(i, c21Block{Height: uint64(i + 1), Salt: uint8(i)})
		if err := store.SaveBlock(blk); err != nil {
			return fmt.Errorf("HARNESS: %v", err)
		}
		blocks = append(blocks, blk)
	}
	hashes := make([]bc.Hash, c.Cps)
	for i, b := range blocks {
		hashes[i] = b.Hash()
	}
	cpOf := func(i int, v uint64) *state.Checkpoint {
		return &state.Checkpoint{Height: blocks[i].Height, Hash: hashes[i], ParentHash: blocks[i].PreviousBlockHash, Timestamp: v, Status: state.CheckpointStatus(v % 4),
			Votes: map[string]uint64{"k": v}, Rewards: map[string]uint64{}}
	}
	for i := range blocks {
		if err := store.SaveCheckpoints([]*state.Checkpoint{cpOf(i, 0)}); err != nil {
			return fmt.Errorf("HARNESS: %v", err)
		}
	}
	// published[i]: highest version whose write has returned; started[i]: highest version whose write has begun
	pubCp := make([]atomic.Uint64, c.Cps)
	startCp := make([]atomic.Uint64, c.Cps)
	pubHdr := make([]atomic.Uint64, c.Cps)
	startHdr := make([]atomic.Uint64, c.Cps)

	var failMu sync.Mutex
	var failure error
	fail := func(err error) {
		failMu.Lock()
		if failure == nil {
			failure = err
		}
		failMu.Unlock()
	}
	failed := func() bool { failMu.Lock(); defer failMu.Unlock(); return failure != nil }

	var done atomic.Bool
	var wg sync.WaitGroup
	var reads atomic.Uint64
	for r := 0; r < c.Readers; r++ {
		wg.Add(1)
		go func(r int) {
			defer wg.Done()
			defer func() {
				if p := recover(); p != nil {
					fail(fmt.Errorf("reader %d panicked: %v", r, p))
				}
			}()
			for k := 0; !done.Load() && !failed(); k++ {
				i := (k + r) % c.Cps
				if c.Headers && k%3 == 2 {
					lo := pubHdr[i].Load()
					hdr, err := store.GetBlockHeader(&hashes[i])
					hi := startHdr[i].Load()
					if err != nil {
						fail(fmt.Errorf("reader %d: GetBlockHeader of a stored block fails: %v", r, err))
						return
					}
					got := uint64(len(hdr.SupLinks))
					if got < lo || got > hi {
						fail(fmt.Errorf("reader %d: GetBlockHeader(block %d) returned the header with %d supLinks; the rewrite to %d supLinks had returned before the read began (versions begun so far: %d)", r, i, got, lo, hi))
						return
					}
				} else {
					lo := pubCp[i].Load()
					cp, err := store.GetCheckpoint(&hashes[i])
					hi := startCp[i].Load()
					if err != nil {
						fail(fmt.Errorf("reader %d: GetCheckpoint of a stored checkpoint fails: %v", r, err))
						return
					}
					if cp.Timestamp < lo || cp.Timestamp > hi {
						fail(fmt.Errorf("reader %d: GetCheckpoint(checkpoint %d) returned version %d (status %d); version %d had been saved before the read began (versions begun so far: %d)", r, i, cp.Timestamp, cp.Status, lo, hi))
						return
					}
					if cp.Status != state.CheckpointStatus(cp.Timestamp%4) || cp.Votes["k"] != cp.Timestamp {
						fail(fmt.Errorf("reader %d: GetCheckpoint(checkpoint %d) returned a record mixing versions: timestamp %d status %d votes %v", r, i, cp.Timestamp, cp.Status, cp.Votes))
						return
					}
				}
				reads.Add(1)
			}
		}(r)
	}
	// the writer
	ops := 0
	yield := func() {
		ops++
		for k := 0; k < c.Yield[ops%len(c.Yield)]; k++ {
			runtime.Gosched()
		}
	}
	for v := uint64(1); v <= uint64(c.Versions) && !failed(); v++ {
		for i := 0; i < c.Cps; i++ {
			batch := []*state.Checkpoint{cpOf(i, v)}
			startCp[i].Store(v)
			j := (i + 1) % c.Cps
			if c.Pair && j != i {
				// the second record of the call is rewritten with the version it already has
				batch = append([]*state.Checkpoint{cpOf(i, v)}, cpOf(j, pubCp[j].Load()))
			}
			if err := store.SaveCheckpoints(batch); err != nil {
				fail(fmt.Errorf("HARNESS: SaveCheckpoints: %v", err))
			}
			pubCp[i].Store(v)
			yield()
			if c.Headers && v <= 12 {
				hdr := blocks[i].BlockHeader
				hdr.SupLinks = c21SupLinks(int(v))
				startHdr[i].Store(v)
				if err := store.SaveBlockHeader(&hdr); err != nil {
					fail(fmt.Errorf("HARNESS: SaveBlockHeader: %v", err))
				}
				pubHdr[i].Store(v)
				yield()
			}
		}
	}
	done.Store(true)
	wg.Wait()
	if failure != nil {
		return failure
	}
	// (b) quiescent comparison with a fresh store
	fresh := database.NewStore(db)
	for i := range blocks {
		a, errA := store.GetCheckpoint(&hashes[i])
		b, errB := fresh.GetCheckpoint(&hashes[i])
		if (errA == nil) != (errB == nil) || (errA == nil && c21CheckpointStr(a) != c21CheckpointStr(b)) {
			return fmt.Errorf("after all writers and readers have finished, GetCheckpoint(checkpoint %d) on the long-lived store gives %s (%v), a fresh store over the same database gives %s (%v)", i, c21CheckpointStr(a), errA, c21CheckpointStr(b), errB)
		}
		ha, errA := store.GetBlockHeader(&hashes[i])
		hb, errB := fresh.GetBlockHeader(&hashes[i])
		if (errA == nil) != (errB == nil) || (errA == nil && c21HeaderStr(ha) != c21HeaderStr(hb)) {
			return fmt.Errorf("after all writers and readers have finished, GetBlockHeader(block %d) on the long-lived store differs from a fresh store over the same database", i)
		}
	}
	x.Class("concurrent/readers-%d", c.Readers)
	if c.Pair {
		x.Class("concurrent/two-records-per-save")
	}
	if c.Headers {
		x.Class("concurrent/headers-rewritten")
	}
	x.Count("concurrent_reads", int(reads.Load()))
	x.NonTrivial = reads.Load() > uint64(c.Versions)
	return nil
}

func TestC21Concurrent(t *testing.T) {
	pbt.Run(t, "C21", "one writer (50-400 versions of 1-4 checkpoint records through SaveCheckpoints, one or two records per call; optionally 12 rewrites of each block header through SaveBlockHeader) and 1-4 readers on one long-lived store at the same time, scheduler-chosen interleaving with generated yield pattern; oracle: a read that begins after the write of version v returned never returns a version below v nor a record mixing versions, and after all goroutines have finished the long-lived store agrees with a fresh store on every record; non-trivial = the readers completed more reads than there were versions; distinct = case JSON",
		pbt.Options{Sub: "concurrent", Journal: true, Checks: pbt.Per(60, 6000)}, c21ConcGen, c21ConcExec)
}
