package storecheck

import (
	"fmt"
	"runtime"
	"sync"
	"sync/atomic"
	"testing"

	"pgregory.net/rapid"

	"github.com/bytom/bytom/database"
	dbm "github.com/bytom/bytom/database/leveldb"
	"github.com/bytom/bytom/protocol/bc"
	"github.com/bytom/bytom/protocol/bc/types"
	"github.com/bytom/bytom/protocol/state"

	"verifharness/pbt"
)

// C21, sub-check "concurrent-index": the two look-ups by height (all block hashes of a height,
// read and extended by SaveBlock; the main-chain hash of a height, read by header/block requests
// and InMainChain and rewritten by SaveChainStatus) are used on one long-lived store at the same
// time, as a node does that stores side-chain blocks while it answers sync requests.
//
// One writer: per round and height it saves a new side block at that height and then switches the
// main-chain entry of the height between two fixed blocks A and B.  Readers ask for the main-chain
// hash, the header by height and the hash list of the heights.  Oracle (versions through atomic
// counters, as in the "concurrent" sub-check):
//
//	GetMainChainHash(h) returns A or B, and exactly the one of the last switch when no switch
//	    overlaps the read;
//	GetBlockHashesByHeight(h) contains A, B and every side block whose SaveBlock had returned
//	    before the read began, and nothing the writer has not begun to save;
//	no call panics or fails; afterwards the long-lived store agrees with a fresh one.

type c21IdxCase struct {
	Heights int   `json:"heights"` // 1..3
	Rounds  int   `json:"rounds"`  // 30..250
	Readers int   `json:"readers"` // 1..4
	Yield   []int `json:"yield"`
}

func c21IdxGen(t *rapid.T) c21IdxCase {
	return c21IdxCase{
		Heights: rapid.IntRange(1, 3).Draw(t, "heights"),
		Rounds:  rapid.IntRange(30, 250).Draw(t, "rounds"),
		Readers: rapid.IntRange(1, 4).Draw(t, "readers"),
		Yield:   rapid.SliceOfN(rapid.IntRange(0, 3), 1, 4).Draw(t, "yield"),
	}
}

func c21IdxExec(c c21IdxCase, x *pbt.Ctx) error {
	if c.Heights < 1 || c.Heights > 4 || c.Rounds < 1 || c.Rounds > 250 || c.Readers < 1 || c.Readers > 8 || len(c.Yield) == 0 {
		return nil
	}
	db := dbm.NewMemDB()
	store := database.NewStore(db)
	type fixed struct {
		blk  [2]*types.Block
		hash [2]bc.Hash
	}
	fx := make([]fixed, c.Heights+1)
	for h := 1; h <= c.Heights; h++ {
		for k := 0; k < 2; k++ {
			blk := c21BuildBlock(h, c21Block{Height: uint64(h), Salt: uint8(k), NTx: 1})
			if err := store.SaveBlock(blk); err != nil {
				return fmt.Errorf("HARNESS: %v", err)
			}
			fx[h].blk[k], fx[h].hash[k] = blk, blk.Hash()
		}
	}
	setMain := func(h, k int) error {
		hdr := fx[h].blk[k].BlockHeader
		best := fx[c.Heights].blk[0].BlockHeader
		fin := fx[1].hash[0]
		return store.SaveChainStatus(&best, []*types.BlockHeader{&hdr}, state.NewUtxoViewpoint(), state.NewContractViewpoint(), 0, &fin)
	}
	for h := 1; h <= c.Heights; h++ {
		if err := setMain(h, 0); err != nil {
			return fmt.Errorf("HARNESS: %v", err)
		}
	}
	// side blocks: sideHash[h][v] is fixed before the run; begun/done count how many of them SaveBlock has begun / finished
	side := make([][]*types.Block, c.Heights+1)
	sideIdx := make([]map[bc.Hash]int, c.Heights+1)
	for h := 1; h <= c.Heights; h++ {
		sideIdx[h] = map[bc.Hash]int{}
		for v := 1; v <= c.Rounds; v++ {
			blk := c21BuildBlock(10+v, c21Block{Height: uint64(h), Salt: uint8(2 + v%250), NTx: 1})
			side[h] = append(side[h], blk)
			sideIdx[h][blk.Hash()] = v
		}
	}
	begunSide := make([]atomic.Int64, c.Heights+1)
	doneSide := make([]atomic.Int64, c.Heights+1)
	begunMain := make([]atomic.Int64, c.Heights+1) // number of switches begun: main is blk[v%2] after switch v
	doneMain := make([]atomic.Int64, c.Heights+1)

	var failMu sync.Mutex
	var failure error
	fail := func(err error) {
		failMu.Lock()
		if failure == nil {
			failure = err
		}
		failMu.Unlock()
	}
	failed := func() bool { failMu.Lock(); defer failMu.Unlock(); return failure != nil }

	var done atomic.Bool
	var wg sync.WaitGroup
	var reads atomic.Uint64
	for r := 0; r < c.Readers; r++ {
		wg.Add(1)
		go func(r int) {
			defer wg.Done()
			defer func() {
				if p := recover(); p != nil {
					fail(fmt.Errorf("reader %d panicked: %v", r, p))
				}
			}()
			for k := 0; !done.Load() && !failed(); k++ {
				h := 1 + (k+r)%c.Heights
				switch k % 3 {
				case 0, 1:
					lo := doneMain[h].Load()
					var got bc.Hash
					if k%3 == 0 {
						p, err := store.GetMainChainHash(uint64(h))
						if err != nil || p == nil {
							fail(fmt.Errorf("reader %d: GetMainChainHash(%d) fails: %v", r, h, err))
							return
						}
						got = *p
					} else {
						p, err := store.GetMainChainHash(uint64(h))
						if err != nil || p == nil {
							fail(fmt.Errorf("reader %d: GetMainChainHash(%d) fails: %v", r, h, err))
							return
						}
						hdr, err := store.GetBlockHeader(p)
						if err != nil {
							fail(fmt.Errorf("reader %d: GetBlockHeader of the main-chain block at height %d fails: %v", r, h, err))
							return
						}
						got = hdr.Hash()
					}
					hi := begunMain[h].Load()
					if got != fx[h].hash[0] && got != fx[h].hash[1] {
						fail(fmt.Errorf("reader %d: the main-chain hash of height %d is %s, which is neither of the two blocks the main chain was ever switched to", r, h, got.String()))
						return
					}
					if lo == hi && got != fx[h].hash[lo%2] {
						fail(fmt.Errorf("reader %d: the main-chain hash of height %d is that of block %d; switch %d (to block %d) had returned before the read began and no other switch had begun when it ended", r, h, 1-lo%2, lo, lo%2))
						return
					}
				case 2:
					lo := doneSide[h].Load()
					hashes, err := store.GetBlockHashesByHeight(uint64(h))
					hi := begunSide[h].Load()
					if err != nil {
						fail(fmt.Errorf("reader %d: GetBlockHashesByHeight(%d) fails: %v", r, h, err))
						return
					}
					have := map[bc.Hash]bool{}
					for _, p := range hashes {
						if p == nil {
							fail(fmt.Errorf("reader %d: GetBlockHashesByHeight(%d) contains a nil entry", r, h))
							return
						}
						have[*p] = true
						if v, ok := sideIdx[h][*p]; ok {
							if int64(v) > hi {
								fail(fmt.Errorf("reader %d: GetBlockHashesByHeight(%d) lists side block %d, whose SaveBlock has not begun (begun so far: %d)", r, h, v, hi))
								return
							}
						} else if *p != fx[h].hash[0] && *p != fx[h].hash[1] {
							fail(fmt.Errorf("reader %d: GetBlockHashesByHeight(%d) lists %s, which is no block of that height", r, h, p.String()))
							return
						}
					}
					if !have[fx[h].hash[0]] || !have[fx[h].hash[1]] {
						fail(fmt.Errorf("reader %d: GetBlockHashesByHeight(%d) does not list the two blocks stored before the run (%d entries)", r, h, len(hashes)))
						return
					}
					for v := int64(1); v <= lo; v++ {
						if !have[side[h][v-1].Hash()] {
							fail(fmt.Errorf("reader %d: GetBlockHashesByHeight(%d) does not list side block %d although its SaveBlock had returned before the read began (%d saved by then, %d entries returned)", r, h, v, lo, len(hashes)))
							return
						}
					}
				}
				reads.Add(1)
			}
		}(r)
	}
	ops := 0
	yield := func() {
		ops++
		for k := 0; k < c.Yield[ops%len(c.Yield)]; k++ {
			runtime.Gosched()
		}
	}
	func() {
		defer func() {
			if p := recover(); p != nil {
				fail(fmt.Errorf("the writer panicked: %v", p))
			}
		}()
		for v := 1; v <= c.Rounds && !failed(); v++ {
			for h := 1; h <= c.Heights; h++ {
				begunSide[h].Store(int64(v))
				if err := store.SaveBlock(side[h][v-1]); err != nil {
					fail(fmt.Errorf("SaveBlock of side block %d at height %d fails while the height is being read: %v", v, h, err))
					return
				}
				doneSide[h].Store(int64(v))
				yield()
				begunMain[h].Store(int64(v))
				if err := setMain(h, v%2); err != nil {
					fail(fmt.Errorf("SaveChainStatus (switch %d of height %d) fails: %v", v, h, err))
					return
				}
				doneMain[h].Store(int64(v))
				yield()
			}
		}
	}()
	done.Store(true)
	wg.Wait()
	if failure != nil {
		return failure
	}
	fresh := database.NewStore(db)
	for h := 1; h <= c.Heights; h++ {
		a, errA := store.GetMainChainHash(uint64(h))
		b, errB := fresh.GetMainChainHash(uint64(h))
		if errA != nil || errB != nil || *a != *b {
			return fmt.Errorf("after all goroutines have finished, GetMainChainHash(%d): long-lived store %v (%v), fresh store %v (%v)", h, a, errA, b, errB)
		}
		la, errA := store.GetBlockHashesByHeight(uint64(h))
		lb, errB := fresh.GetBlockHashesByHeight(uint64(h))
		if errA != nil || errB != nil || len(la) != len(lb) || len(la) != 2+c.Rounds {
			return fmt.Errorf("after all goroutines have finished, GetBlockHashesByHeight(%d): long-lived store %d entries (%v), fresh store %d entries (%v), %d blocks were saved", h, len(la), errA, len(lb), errB, 2+c.Rounds)
		}
		for i := range la {
			if *la[i] != *lb[i] {
				return fmt.Errorf("after all goroutines have finished, GetBlockHashesByHeight(%d) differs between the long-lived store and a fresh one at entry %d", h, i)
			}
		}
	}
	x.Class("concurrent-index/readers-%d", c.Readers)
	x.Count("concurrent_index_reads", int(reads.Load()))
	x.NonTrivial = reads.Load() > uint64(c.Rounds)
	return nil
}

func TestC21ConcurrentIndex(t *testing.T) {
	pbt.Run(t, "C21", "one writer (30-250 rounds over 1-3 heights: SaveBlock of a new side block at the height, then SaveChainStatus switching the main-chain entry of the height between two fixed blocks) and 1-4 readers (GetMainChainHash, header of the main-chain block, GetBlockHashesByHeight) on one long-lived store at the same time, scheduler-chosen interleaving with generated yield pattern; oracle: the main-chain hash is one of the two blocks and exactly the last one switched to when no switch overlaps the read; the hash list contains every block whose SaveBlock had returned and nothing not begun; no call fails or panics; afterwards the long-lived store agrees with a fresh one; non-trivial = more reads than rounds; distinct = case JSON",
		pbt.Options{Sub: "concurrent-index", Journal: true, Checks: pbt.Per(40, 4000)}, c21IdxGen, c21IdxExec)
}
