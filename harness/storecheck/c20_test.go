package storecheck

import (
	"bytes"
	"encoding/hex"
	"fmt"
	"os"
	"sort"
	"strings"
	"testing"

	dbm "github.com/bytom/bytom/database/leveldb"
	"pgregory.net/rapid"

	"verifharness/pbt"
)

// C20: the in-memory and the LevelDB backend return identical results for any
// sequence of gets, sets, deletes, batch writes and prefix / start-bounded
// forward iterations.
//
// Oracle: differential MemDB vs GoLevelDB, with a sorted-map model as the
// referee that tells which of the two is off.  The iteration protocols are the
// ones the repository uses:
//
//	Iterator(), IteratorPrefix(p):         for it.Next() { it.Key(); it.Value() }        (wallet, account, asset, store_checkpoint.go:51)
//	IteratorPrefixWithStart(p, s, false):  it.Value() right after construction, then
//	                                       for it.Next() { it.Value() }                    (store_checkpoint.go:59 CheckpointsFromNode;
//	                                                                                        db_test.go also reads it.Key() after construction)
//
// Get is compared on the bytes (nil == empty, DESIGN 4.1) and on what callers
// use as found / not-found (`== nil`, e.g. database/store_geter.go).
//
// Not asserted (outside the statement, which says "forward"): isReverse=true.
// No caller in the repository passes true.  The op is still executed and its
// agreement is recorded in the histogram (rev:agree / rev:differ).
// Domain decisions: keys are non-empty (no caller uses an empty key), values
// are non-nil byte strings of 0..8 bytes (every caller stores marshalled data).

type c20KV struct {
	Del bool   `json:"del,omitempty"`
	K   string `json:"k"`           // hex
	V   string `json:"v,omitempty"` // hex
}

type c20Op struct {
	Op    string  `json:"op"`              // set setsync del delsync batch get iter iterp iterps iterps_rev
	K     string  `json:"k,omitempty"`     // hex key (set/del/get)
	V     string  `json:"v,omitempty"`     // hex value (set)
	Batch []c20KV `json:"batch,omitempty"` // batch
	P     string  `json:"p,omitempty"`     // hex prefix (iterp/iterps)
	PNil  bool    `json:"pnil,omitempty"`  // pass a nil prefix
	S     string  `json:"s,omitempty"`     // hex start (iterps)
	SNil  bool    `json:"snil,omitempty"`  // pass a nil start
}

type c20Case struct {
	Ops []c20Op `json:"ops"`
}

var c20Alphabet = []byte{'a', 'b', 0xff}

// uni draws an (almost) uniform index in [0,n).  rapid's own integer draws are
// heavily biased towards small values and the bounds, which starves most of a
// weighted choice; a fixed multiplicative scramble of one rapid draw removes
// the bias and stays a pure function of the draw (0 still maps to 0, so
// shrinking still ends on the first alternative).
func uni(t *rapid.T, n int, label string) int {
	r := rapid.Uint32().Draw(t, label)
	return int((uint64(r*2654435761) >> 7) % uint64(n))
}

func c20GenBytes(t *rapid.T, min, max int, label string) []byte {
	n := min + uni(t, max-min+1, label+"len")
	b := make([]byte, n)
	for i := range b {
		b[i] = c20Alphabet[uni(t, len(c20Alphabet), label)]
	}
	return b
}

func c20GenValue(t *rapid.T) string {
	if uni(t, 4, "vempty") == 0 {
		return ""
	}
	return hex.EncodeToString(rapid.SliceOfN(rapid.Byte(), 1, 8).Draw(t, "v"))
}

func c20GenOp(t *rapid.T) c20Op {
	kinds := []struct {
		name string
		w    int
	}{{"set", 30}, {"del", 10}, {"batch", 12}, {"rebatch", 6}, {"get", 12}, {"iter", 5}, {"iterp", 10}, {"iterps", 18}, {"iterps_rev", 3}, {"setsync", 1}, {"delsync", 1}}
	total := 0
	for _, k := range kinds {
		total += k.w
	}
	r := uni(t, total, "kind")
	name := ""
	for _, k := range kinds {
		if r < k.w {
			name = k.name
			break
		}
		r -= k.w
	}
	op := c20Op{Op: name}
	switch name {
	case "set", "setsync":
		op.K = hex.EncodeToString(c20GenBytes(t, 1, 3, "k"))
		op.V = c20GenValue(t)
	case "del", "delsync", "get":
		op.K = hex.EncodeToString(c20GenBytes(t, 1, 3, "k"))
	case "batch", "rebatch":
		op.Batch = rapid.SliceOfN(rapid.Custom(func(t *rapid.T) c20KV {
			kv := c20KV{K: hex.EncodeToString(c20GenBytes(t, 1, 3, "k"))}
			if uni(t, 3, "bdel") == 1 {
				kv.Del = true
			} else {
				kv.V = c20GenValue(t)
			}
			return kv
		}), 0, 6).Draw(t, "batch")
	case "iterp", "iterps", "iterps_rev":
		var p []byte
		switch pk := uni(t, 10, "pkind"); {
		case pk == 9:
			op.PNil = true
		case pk == 8:
			op.P = "" // empty, non-nil
		default:
			p = c20GenBytes(t, 1, 2, "p")
			op.P = hex.EncodeToString(p)
		}
		if name != "iterp" {
			switch sk := uni(t, 10, "skind"); {
			case sk == 9:
				op.SNil = true
			case sk <= 4: // at / inside the prefix
				s := append(append([]byte{}, p...), c20GenBytes(t, 0, 2, "ssuf")...)
				op.S = hex.EncodeToString(s)
			default: // anywhere: before, inside, beyond
				op.S = hex.EncodeToString(c20GenBytes(t, 0, 4, "s"))
			}
		}
	}
	return op
}

func c20Gen(t *rapid.T) c20Case {
	// four chunks: rapid's slices average ~5 elements whatever the maximum is;
	// concatenating keeps element-deletion shrinking and gives ~20 ops per case
	var ops []c20Op
	for i := 0; i < 4; i++ {
		ops = append(ops, rapid.SliceOfN(rapid.Custom(c20GenOp), 0, 12).Draw(t, "ops")...)
	}
	return c20Case{Ops: ops}
}

// ---------------------------------------------------------------------------

type c20Item struct{ k, v []byte }

// c20Seen is what a caller following the protocol observes from one iteration.
type c20Seen struct {
	readPos bool
	posKey  []byte // Key() right after construction (iterps only)
	posVal  []byte // Value() right after construction (iterps only)
	items   []c20Item
}

func (s c20Seen) String() string {
	var b strings.Builder
	if s.readPos {
		fmt.Fprintf(&b, "at-construction(key=%q value=%x) ", s.posKey, s.posVal)
	}
	b.WriteString("next*=[")
	for i, it := range s.items {
		if i > 0 {
			b.WriteString(" ")
		}
		fmt.Fprintf(&b, "%q:%x", it.k, it.v)
	}
	b.WriteString("]")
	return b.String()
}

func c20SeenEqual(a, b c20Seen) bool {
	if a.readPos != b.readPos || !bytes.Equal(a.posKey, b.posKey) || !bytes.Equal(a.posVal, b.posVal) || len(a.items) != len(b.items) {
		return false
	}
	for i := range a.items {
		if !bytes.Equal(a.items[i].k, b.items[i].k) || !bytes.Equal(a.items[i].v, b.items[i].v) {
			return false
		}
	}
	return true
}

const c20MaxSteps = 500

func c20Consume(it dbm.Iterator, readPos bool) (c20Seen, error) {
	defer it.Release()
	seen := c20Seen{readPos: readPos}
	if readPos {
		seen.posKey = it.Key()
		seen.posVal = it.Value()
	}
	for it.Next() {
		seen.items = append(seen.items, c20Item{it.Key(), it.Value()})
		if len(seen.items) > c20MaxSteps {
			return seen, fmt.Errorf("iteration did not end after %d steps", c20MaxSteps)
		}
	}
	if err := it.Error(); err != nil {
		return seen, fmt.Errorf("iterator error: %v", err)
	}
	return seen, nil
}

type c20Model map[string][]byte

func (m c20Model) sorted(prefix []byte) []string {
	var keys []string
	for k := range m {
		if strings.HasPrefix(k, string(prefix)) {
			keys = append(keys, k)
		}
	}
	sort.Strings(keys)
	return keys
}

func (m c20Model) iterPrefix(prefix []byte) c20Seen {
	var seen c20Seen
	for _, k := range m.sorted(prefix) {
		seen.items = append(seen.items, c20Item{[]byte(k), m[k]})
	}
	return seen
}

// iterPrefixWithStart models the documented behaviour (db_test.go TestDBIterator*):
// the keys carrying the prefix, in order; with a nil start the iterator is
// before the first one, otherwise it is positioned ON the first key >= start
// (readable at once), and Next moves on from there.
func (m c20Model) iterPrefixWithStart(prefix, start []byte, startNil bool) c20Seen {
	keys := m.sorted(prefix)
	seen := c20Seen{readPos: true}
	pos := -1
	if !startNil {
		pos = sort.SearchStrings(keys, string(start))
		if pos < len(keys) {
			seen.posKey = []byte(keys[pos])
			seen.posVal = m[keys[pos]]
		}
	}
	for i := pos + 1; i < len(keys); i++ {
		seen.items = append(seen.items, c20Item{[]byte(keys[i]), m[keys[i]]})
	}
	return seen
}

func c20Unhex(s string) []byte {
	b, err := hex.DecodeString(s)
	if err != nil {
		panic("HARNESS: bad hex in case: " + s)
	}
	if b == nil {
		b = []byte{}
	}
	return b
}

func c20Dup(b []byte) []byte {
	if b == nil {
		return nil
	}
	return append([]byte{}, b...)
}

func c20Exec(c c20Case, x *pbt.Ctx) error {
	dir, err := os.MkdirTemp("", "c20-")
	if err != nil {
		panic("HARNESS: " + err.Error())
	}
	defer os.RemoveAll(dir)
	ldb, err := dbm.NewGoLevelDB("c20", dir)
	if err != nil {
		panic("HARNESS: " + err.Error())
	}
	defer ldb.Close()
	mem := dbm.NewMemDB()
	model := c20Model{}
	backends := []struct {
		name string
		db   dbm.DB
	}{{"memdb", mem}, {"goleveldb", ldb}}
	var lastBatches []dbm.Batch // the batch objects written last, one per backend
	var lastOps []c20KV         // everything queued on them so far

	// judge compares what the two backends showed with each other and with the model.
	judge := func(i int, what string, got [2]c20Seen, errs [2]error, want c20Seen) error {
		for b, e := range errs {
			if e != nil {
				return fmt.Errorf("op %d %s: %s: %v (saw %s)", i, what, backends[b].name, e, got[b])
			}
		}
		okMem, okLdb := c20SeenEqual(got[0], want), c20SeenEqual(got[1], want)
		if okMem && okLdb {
			return nil
		}
		verdict := "backends DIFFER"
		if c20SeenEqual(got[0], got[1]) {
			verdict = "backends agree with each other but not with the sorted-map model"
		}
		return fmt.Errorf("op %d %s: %s\n  memdb     %s\n  goleveldb %s\n  model     %s\n  keys in db: %q",
			i, what, verdict, got[0], got[1], want, model.sorted(nil))
	}
	checkGet := func(i int, key []byte) error {
		want, found := model[string(key)]
		var res [2][]byte
		for b, be := range backends {
			res[b] = be.db.Get(c20Dup(key))
		}
		for b := range backends {
			if (res[b] != nil) != found || !bytes.Equal(res[b], want) {
				return fmt.Errorf("op %d Get(%q): memdb=%s goleveldb=%s model=%s", i, key,
					c20GetStr(res[0]), c20GetStr(res[1]), c20GetStr(c20ModelGet(want, found)))
			}
		}
		return nil
	}
	checkAll := func(i int, what string) error {
		var got [2]c20Seen
		var errs [2]error
		for b, be := range backends {
			got[b], errs[b] = c20Consume(be.db.Iterator(), false)
		}
		return judge(i, what, got, errs, model.iterPrefix(nil))
	}

	for i, op := range c.Ops {
		x.Class("op:" + op.Op)
		switch op.Op {
		case "set", "setsync":
			k, v := c20Unhex(op.K), c20Unhex(op.V)
			if len(k) == 0 {
				return nil // not a case: keys are non-empty
			}
			if len(v) == 0 {
				x.Class("empty-value")
			}
			for _, be := range backends {
				if op.Op == "set" {
					be.db.Set(c20Dup(k), c20Dup(v))
				} else {
					be.db.SetSync(c20Dup(k), c20Dup(v))
				}
			}
			model[string(k)] = v
			if err := checkGet(i, k); err != nil {
				return err
			}
			if err := checkAll(i, "full iteration after "+op.Op); err != nil {
				return err
			}
		case "del", "delsync":
			k := c20Unhex(op.K)
			if len(k) == 0 {
				return nil
			}
			if _, ok := model[string(k)]; ok {
				x.Class("delete-existing")
			}
			for _, be := range backends {
				if op.Op == "del" {
					be.db.Delete(c20Dup(k))
				} else {
					be.db.DeleteSync(c20Dup(k))
				}
			}
			delete(model, string(k))
			if err := checkGet(i, k); err != nil {
				return err
			}
			if err := checkAll(i, "full iteration after "+op.Op); err != nil {
				return err
			}
		case "batch", "rebatch":
			for _, kv := range op.Batch {
				if len(c20Unhex(kv.K)) == 0 {
					return nil
				}
			}
			// "rebatch": the batch object written last gets more operations queued and is written
			// again; a batch keeps what was queued on it, so the whole list is applied once more
			again := op.Op == "rebatch" && lastBatches != nil
			if !again {
				lastBatches, lastOps = nil, nil
				for _, be := range backends {
					lastBatches = append(lastBatches, be.db.NewBatch())
				}
			} else {
				x.Class("batch-written-again")
			}
			lastOps = append(lastOps, op.Batch...)
			for _, batch := range lastBatches {
				for _, kv := range op.Batch {
					if kv.Del {
						batch.Delete(c20Unhex(kv.K))
					} else {
						batch.Set(c20Unhex(kv.K), c20Unhex(kv.V))
					}
				}
				batch.Write()
			}
			for _, kv := range lastOps {
				if kv.Del {
					if _, ok := model[string(c20Unhex(kv.K))]; ok {
						x.Class("batch-delete-existing")
					}
					delete(model, string(c20Unhex(kv.K)))
				} else {
					model[string(c20Unhex(kv.K))] = c20Unhex(kv.V)
				}
			}
			for _, kv := range op.Batch {
				if err := checkGet(i, c20Unhex(kv.K)); err != nil {
					return err
				}
			}
			if err := checkAll(i, "full iteration after batch"); err != nil {
				return err
			}
		case "get":
			k := c20Unhex(op.K)
			if len(k) == 0 {
				return nil
			}
			if _, ok := model[string(k)]; ok {
				x.Class("get-found")
			} else {
				x.Class("get-missing")
			}
			if err := checkGet(i, k); err != nil {
				return err
			}
		case "iter":
			if err := checkAll(i, "Iterator()"); err != nil {
				return err
			}
		case "iterp":
			var p []byte
			if !op.PNil {
				p = c20Unhex(op.P)
			}
			var got [2]c20Seen
			var errs [2]error
			for b, be := range backends {
				got[b], errs[b] = c20Consume(be.db.IteratorPrefix(c20Dup(p)), false)
			}
			if err := judge(i, fmt.Sprintf("IteratorPrefix(%q)", p), got, errs, model.iterPrefix(p)); err != nil {
				return err
			}
		case "iterps", "iterps_rev":
			var p, s []byte
			if !op.PNil {
				p = c20Unhex(op.P)
			}
			if !op.SNil {
				s = c20Unhex(op.S)
			}
			rev := op.Op == "iterps_rev"
			var got [2]c20Seen
			var errs [2]error
			for b, be := range backends {
				got[b], errs[b] = c20Consume(be.db.IteratorPrefixWithStart(c20Dup(p), c20Dup(s), rev), true)
			}
			if rev { // outside the statement ("forward"); no caller passes true.  Recorded only.
				if errs[0] == nil && errs[1] == nil && c20SeenEqual(got[0], got[1]) {
					x.Class("rev:agree")
				} else {
					x.Class("rev:differ")
				}
				continue
			}
			// classification of the start relative to the prefix
			switch {
			case op.SNil:
				x.Class("start:nil")
			case bytes.Equal(s, p):
				x.Class("start:at-prefix")
			case bytes.HasPrefix(s, p):
				x.Class("start:inside-prefix")
			case bytes.Compare(s, p) < 0:
				x.Class("start:before-prefix")
			default:
				x.Class("start:beyond-prefix")
			}
			if _, ok := model[string(s)]; ok && !op.SNil {
				x.Class("start:is-a-key")
			}
			with, beyond := 0, 0
			for k := range model {
				if strings.HasPrefix(k, string(p)) {
					with++
				} else if k > string(p) {
					beyond++
				}
			}
			if with > 0 && beyond > 0 {
				x.NonTrivial = true
				x.Class("iterps:keys-with-and-beyond-prefix")
			}
			what := fmt.Sprintf("IteratorPrefixWithStart(prefix=%q, start=%q nil=%v, false)", p, s, op.SNil)
			if err := judge(i, what, got, errs, model.iterPrefixWithStart(p, s, op.SNil)); err != nil {
				return err
			}
		default:
			panic("HARNESS: unknown op " + op.Op)
		}
	}
	return nil
}

func c20ModelGet(v []byte, found bool) []byte {
	if !found {
		return nil
	}
	if v == nil {
		return []byte{}
	}
	return v
}

func c20GetStr(b []byte) string {
	if b == nil {
		return "nil(not found)"
	}
	return fmt.Sprintf("found:%x", b)
}

func TestC20(t *testing.T) {
	pbt.Run(t, "C20",
		"0..48 ops (set/setsync/del/delsync/batch of 0..6 set+del/get/Iterator/IteratorPrefix/IteratorPrefixWithStart forward; reverse executed but not judged) over keys of 1..3 bytes from {a,b,0xff}, values 0..8 bytes incl. empty non-nil, prefix nil or 0..2 bytes, start nil / prefix+0..2 bytes / any 0..4 bytes; fresh MemDB and fresh GoLevelDB (temp dir) per case; after every op both are compared with each other and a sorted-map model on Get (bytes and nil-ness) and on the full iteration, iteration ops on the exact caller protocol; non-trivial = a start-bounded prefix iteration while keys with the prefix and keys beyond the prefix are both present; distinct by the op list",
		pbt.Options{Checks: pbt.Per(2000, 200000)}, c20Gen, c20Exec)
}
