// Package ledgergen describes Bytom transactions, block headers and blocks as
// plain JSON-serialisable data, generates such descriptions with rapid, turns
// them into real values through the repository's own constructors, encodes
// them independently into the wire format (with field offsets, for byte-level
// mutation), and applies single named field mutations to them.
//
// A description is the replay format of the checks that use this package: it
// round-trips through encoding/json (nil and empty byte strings stay distinct).
//
// Nothing here depends on *testing.T; draws take a *rapid.T.
package ledgergen

import (
	"bytes"
	"encoding/hex"
	"encoding/json"
	"fmt"
)

// HexBytes is a byte string that is written to JSON as a hex string.  A nil
// slice is written as null and an empty non-nil slice as "", so both survive a
// JSON round trip.
type HexBytes []byte

// MarshalJSON implements json.Marshaler.
func (h HexBytes) MarshalJSON() ([]byte, error) {
	if h == nil {
		return []byte("null"), nil
	}
	return json.Marshal(hex.EncodeToString(h))
}

// UnmarshalJSON implements json.Unmarshaler.
func (h *HexBytes) UnmarshalJSON(b []byte) error {
	if bytes.Equal(b, []byte("null")) {
		*h = nil
		return nil
	}
	var s string
	if err := json.Unmarshal(b, &s); err != nil {
		return err
	}
	d, err := hex.DecodeString(s)
	if err != nil {
		return err
	}
	if d == nil {
		d = []byte{}
	}
	*h = d
	return nil
}

// Raw converts a list of HexBytes to [][]byte keeping nil-ness of the list and
// of every element.
func Raw(l []HexBytes) [][]byte {
	if l == nil {
		return nil
	}
	out := make([][]byte, len(l))
	for i, e := range l {
		out[i] = []byte(e)
	}
	return out
}

// Input kinds and output kinds.
const (
	Coinbase = "coinbase"
	Issuance = "issuance"
	Spend    = "spend"
	Veto     = "veto"

	Original = "original"
	Vote     = "vote"

	// OpFail is the opcode that makes an output a retirement when it is the
	// first byte of the control program.
	OpFail = 0x6a
)

// InputDesc describes one transaction input.  Only the fields that belong to
// the Kind are meaningful; the others must be left zero.
//
//	coinbase: Arbitrary
//	issuance: Nonce, Amount, Program (issuance program), AssetDef, Arguments
//	spend:    SourceID, SourcePos, AssetID, Amount, Program (control program), StateData, Arguments
//	veto:     as spend, plus VoteKey
//
// AssetVersion (0 means 1), CommitmentSuffix, WitnessSuffix and SpendSuffix
// cannot be produced by the constructors; Build sets the exported struct
// fields after construction.  They are zero unless Opts.Exotic was used.
type InputDesc struct {
	Kind      string     `json:"kind"`
	SourceID  HexBytes   `json:"source_id"`  // 32 bytes
	SourcePos uint64     `json:"source_pos"` //
	AssetID   HexBytes   `json:"asset_id"`   // 32 bytes
	Amount    uint64     `json:"amount"`
	Program   HexBytes   `json:"program"`
	StateData []HexBytes `json:"state_data"`
	VoteKey   HexBytes   `json:"vote_key"`
	Nonce     HexBytes   `json:"nonce"`
	AssetDef  HexBytes   `json:"asset_def"`
	Arbitrary HexBytes   `json:"arbitrary"`
	Arguments []HexBytes `json:"arguments"` // witness

	AssetVersion     uint64   `json:"asset_version,omitempty"`
	CommitmentSuffix HexBytes `json:"commitment_suffix,omitempty"`
	WitnessSuffix    HexBytes `json:"witness_suffix,omitempty"`
	SpendSuffix      HexBytes `json:"spend_suffix,omitempty"` // SpendCommitmentSuffix / VetoCommitmentSuffix
}

// OutputDesc describes one transaction output.  Kind is "original" or "vote";
// an output of either kind whose Program starts with OP_FAIL (0x6a) is a
// retirement.  VoteKey is meaningful for Kind "vote" only.
type OutputDesc struct {
	Kind      string     `json:"kind"`
	AssetID   HexBytes   `json:"asset_id"` // 32 bytes
	Amount    uint64     `json:"amount"`
	Program   HexBytes   `json:"program"`
	StateData []HexBytes `json:"state_data"`
	VoteKey   HexBytes   `json:"vote_key"`

	AssetVersion     uint64   `json:"asset_version,omitempty"` // 0 means 1
	CommitmentSuffix HexBytes `json:"commitment_suffix,omitempty"`
}

// IsRetirement reports whether the output is mapped to a retirement entry.
func (o OutputDesc) IsRetirement() bool { return len(o.Program) > 0 && o.Program[0] == OpFail }

// TxDesc describes a transaction.
type TxDesc struct {
	Version   uint64       `json:"version"`
	TimeRange uint64       `json:"time_range"`
	Inputs    []InputDesc  `json:"inputs"`
	Outputs   []OutputDesc `json:"outputs"`
}

// SupLinkDesc describes one supLink.  Signatures holds at most 10 slots; slot i
// goes to SupLink.Signatures[i], missing slots stay nil.
type SupLinkDesc struct {
	SourceHeight uint64     `json:"source_height"`
	SourceHash   HexBytes   `json:"source_hash"` // 32 bytes
	Signatures   []HexBytes `json:"signatures"`
}

// HeaderDesc describes a block header.
type HeaderDesc struct {
	Version    uint64        `json:"version"`
	Height     uint64        `json:"height"`
	PrevHash   HexBytes      `json:"prev_hash"` // 32 bytes
	Timestamp  uint64        `json:"timestamp"`
	MerkleRoot HexBytes      `json:"merkle_root"` // 32 bytes
	Witness    HexBytes      `json:"witness"`     // block signature
	SupLinks   []SupLinkDesc `json:"sup_links"`
}

// BlockDesc describes a block.  With AutoRoot the header's merkle root is
// replaced by types.TxMerkleRoot of the built transactions.
type BlockDesc struct {
	Header   HeaderDesc `json:"header"`
	Txs      []TxDesc   `json:"txs"`
	AutoRoot bool       `json:"auto_root"`
}

// ---- canonical forms and equality (nil == empty, DESIGN 4.1) -------------------------

func cb(b *bytes.Buffer, name string, v []byte) { fmt.Fprintf(b, "%s=%x;", name, v) }
func cl(b *bytes.Buffer, name string, l []HexBytes) {
	fmt.Fprintf(b, "%s=[", name)
	for _, e := range l {
		fmt.Fprintf(b, "%x,", []byte(e))
	}
	b.WriteString("];")
}

func av(v uint64) uint64 {
	if v == 0 {
		return 1
	}
	return v
}

// CanonInput is a canonical string of the fields of the input that belong to
// its kind.  With witness=false the witness-only fields (arguments, witness
// suffix) are left out, so equal strings mean equal consensus content.
func CanonInput(in InputDesc, witness bool) string {
	var b bytes.Buffer
	fmt.Fprintf(&b, "%s;av=%d;", in.Kind, av(in.AssetVersion))
	switch in.Kind {
	case Coinbase:
		cb(&b, "arb", in.Arbitrary)
	case Issuance:
		cb(&b, "nonce", in.Nonce)
		fmt.Fprintf(&b, "amt=%d;", in.Amount)
		cb(&b, "prog", in.Program)
		cb(&b, "def", in.AssetDef)
	case Spend, Veto:
		cb(&b, "src", in.SourceID)
		fmt.Fprintf(&b, "pos=%d;", in.SourcePos)
		cb(&b, "asset", in.AssetID)
		fmt.Fprintf(&b, "amt=%d;", in.Amount)
		cb(&b, "prog", in.Program)
		cl(&b, "state", in.StateData)
		cb(&b, "ssfx", in.SpendSuffix)
		if in.Kind == Veto {
			cb(&b, "vote", in.VoteKey)
		}
	}
	cb(&b, "csfx", in.CommitmentSuffix)
	if witness {
		if in.Kind != Coinbase {
			cl(&b, "args", in.Arguments)
		}
		cb(&b, "wsfx", in.WitnessSuffix)
	}
	return b.String()
}

// CanonOutput is the canonical string of an output.
func CanonOutput(o OutputDesc) string {
	var b bytes.Buffer
	fmt.Fprintf(&b, "%s;av=%d;", o.Kind, av(o.AssetVersion))
	cb(&b, "asset", o.AssetID)
	fmt.Fprintf(&b, "amt=%d;", o.Amount)
	cb(&b, "prog", o.Program)
	cl(&b, "state", o.StateData)
	if o.Kind == Vote {
		cb(&b, "vote", o.VoteKey)
	}
	cb(&b, "csfx", o.CommitmentSuffix)
	return b.String()
}

// CanonTx is the canonical string of a transaction description; see CanonInput
// for the meaning of witness.
func CanonTx(d TxDesc, witness bool) string {
	var b bytes.Buffer
	fmt.Fprintf(&b, "v=%d;tr=%d;in[", d.Version, d.TimeRange)
	for _, in := range d.Inputs {
		b.WriteString(CanonInput(in, witness))
		b.WriteString("|")
	}
	b.WriteString("]out[")
	for _, o := range d.Outputs {
		b.WriteString(CanonOutput(o))
		b.WriteString("|")
	}
	b.WriteString("]")
	return b.String()
}

// CanonHeader is the canonical string of a header description.  With
// witness=false the block witness and the supLinks are left out.
func CanonHeader(h HeaderDesc, witness bool) string {
	var b bytes.Buffer
	fmt.Fprintf(&b, "v=%d;h=%d;", h.Version, h.Height)
	cb(&b, "prev", pad32(h.PrevHash))
	fmt.Fprintf(&b, "ts=%d;", h.Timestamp)
	cb(&b, "root", pad32(h.MerkleRoot))
	if witness {
		cb(&b, "wit", h.Witness)
		for _, s := range h.SupLinks {
			fmt.Fprintf(&b, "sl(%d;", s.SourceHeight)
			cb(&b, "h", pad32(s.SourceHash))
			for i := 0; i < MaxSigSlots; i++ {
				var sig []byte
				if i < len(s.Signatures) {
					sig = s.Signatures[i]
				}
				cb(&b, "s", sig)
			}
			b.WriteString(")")
		}
	}
	return b.String()
}

// MaxSigSlots is consensus.MaxNumOfValidators, the fixed number of signature
// slots of a supLink.
const MaxSigSlots = 10

func pad32(b []byte) []byte {
	var a [32]byte
	copy(a[:], b)
	return a[:]
}

// CloneTx returns a deep copy of the description.
func CloneTx(d TxDesc) TxDesc {
	var out TxDesc
	raw, _ := json.Marshal(d)
	_ = json.Unmarshal(raw, &out)
	return out
}

// CloneHeader returns a deep copy of the description.
func CloneHeader(d HeaderDesc) HeaderDesc {
	var out HeaderDesc
	raw, _ := json.Marshal(d)
	_ = json.Unmarshal(raw, &out)
	return out
}

// CloneBlock returns a deep copy of the description.
func CloneBlock(d BlockDesc) BlockDesc {
	var out BlockDesc
	raw, _ := json.Marshal(d)
	_ = json.Unmarshal(raw, &out)
	return out
}
