package ledgergen

import (
	"encoding/binary"
	"encoding/hex"
)

// Mark names a field inside an encoding: Bytes[Off:Off+Len].
//
// What is one of: "serflags", "varint" (a 63-bit integer field), "count" (a
// list length), "length" (a byte-string or extensible-string length prefix),
// "assetver", "intype", "outtype", "hash", "bytes".  For a "length" mark Span is
// the number of bytes the prefix announces: it covers Bytes[Off+Len:Off+Len+Span].
type Mark struct {
	Off  int    `json:"off"`
	Len  int    `json:"len"`
	What string `json:"what"`
	Span int    `json:"span,omitempty"`
}

// Encoded is a wire encoding together with the positions of its fields.
type Encoded struct {
	Bytes []byte
	Marks []Mark
}

// Hex returns the hex text form, which is what MarshalText produces and
// UnmarshalText consumes.
func (e Encoded) Hex() []byte {
	out := make([]byte, hex.EncodedLen(len(e.Bytes)))
	hex.Encode(out, e.Bytes)
	return out
}

type enc struct {
	buf   []byte
	marks []Mark
}

func (e *enc) raw(what string, b []byte) {
	if len(b) > 0 || what != "bytes" {
		e.marks = append(e.marks, Mark{Off: len(e.buf), Len: len(b), What: what})
	}
	e.buf = append(e.buf, b...)
}

func (e *enc) uvarint(what string, v uint64) {
	var tmp [binary.MaxVarintLen64]byte
	n := binary.PutUvarint(tmp[:], v)
	e.raw(what, tmp[:n])
}

func (e *enc) varstr(b []byte) {
	e.uvarint("length", uint64(len(b)))
	e.marks[len(e.marks)-1].Span = len(b)
	e.raw("bytes", b)
}

func (e *enc) varstrList(l []HexBytes) {
	e.uvarint("count", uint64(len(l)))
	for _, s := range l {
		e.varstr(s)
	}
}

// ext writes an extensible string: length prefix, the content produced by f,
// then the suffix.
func (e *enc) ext(suffix []byte, f func(*enc)) {
	sub := &enc{}
	if f != nil {
		f(sub)
	}
	sub.raw("bytes", suffix)
	e.uvarint("length", uint64(len(sub.buf)))
	e.marks[len(e.marks)-1].Span = len(sub.buf)
	base := len(e.buf)
	for _, m := range sub.marks {
		m.Off += base
		e.marks = append(e.marks, m)
	}
	e.buf = append(e.buf, sub.buf...)
}

func (e *enc) input(d InputDesc) {
	ver := av(d.AssetVersion)
	e.uvarint("assetver", ver)
	spendCommitment := func(s *enc) {
		s.ext(d.SpendSuffix, func(c *enc) {
			c.raw("hash", pad32(d.SourceID))
			c.raw("hash", pad32(d.AssetID))
			c.uvarint("varint", d.Amount)
			c.uvarint("varint", d.SourcePos)
			c.uvarint("varint", 1) // vm version
			c.varstr(d.Program)
			c.varstrList(d.StateData)
		})
	}
	e.ext(d.CommitmentSuffix, func(c *enc) {
		if ver != 1 {
			return
		}
		switch d.Kind {
		case Issuance:
			c.raw("intype", []byte{0})
			c.varstr(d.Nonce)
			id := BuildInput(InputDesc{Kind: Issuance, Program: d.Program, AssetDef: d.AssetDef}).AssetID()
			c.raw("hash", id.Bytes())
			c.uvarint("varint", d.Amount)
		case Spend:
			c.raw("intype", []byte{1})
			spendCommitment(c)
		case Coinbase:
			c.raw("intype", []byte{2})
			c.varstr(d.Arbitrary)
		case Veto:
			c.raw("intype", []byte{3})
			spendCommitment(c)
			c.varstr(d.VoteKey)
		default:
			panic("ledgergen: unknown input kind " + d.Kind)
		}
	})
	e.ext(d.WitnessSuffix, func(c *enc) {
		if ver != 1 {
			return
		}
		switch d.Kind {
		case Issuance:
			c.varstr(d.AssetDef)
			c.uvarint("varint", 1) // vm version
			c.varstr(d.Program)
			c.varstrList(d.Arguments)
		case Spend, Veto:
			c.varstrList(d.Arguments)
		}
	})
}

func (e *enc) output(d OutputDesc) {
	ver := av(d.AssetVersion)
	e.uvarint("assetver", ver)
	switch d.Kind {
	case Original:
		e.raw("outtype", []byte{0})
	case Vote:
		e.raw("outtype", []byte{1})
	default:
		panic("ledgergen: unknown output kind " + d.Kind)
	}
	e.ext(d.CommitmentSuffix, func(c *enc) {
		if d.Kind == Vote {
			c.varstr(d.VoteKey)
		}
		if ver != 1 {
			return
		}
		c.raw("hash", pad32(d.AssetID))
		c.uvarint("varint", d.Amount)
		c.uvarint("varint", 1) // vm version
		c.varstr(d.Program)
		c.varstrList(d.StateData)
	})
	e.varstr(nil) // empty output witness
}

func (e *enc) tx(d TxDesc) {
	e.raw("serflags", []byte{7})
	e.uvarint("varint", d.Version)
	e.uvarint("varint", d.TimeRange)
	e.uvarint("count", uint64(len(d.Inputs)))
	for _, in := range d.Inputs {
		e.input(in)
	}
	e.uvarint("count", uint64(len(d.Outputs)))
	for _, o := range d.Outputs {
		e.output(o)
	}
}

func (e *enc) header(d HeaderDesc, serflags byte) {
	e.raw("serflags", []byte{serflags})
	if serflags == 2 { // SerBlockTransactions: no header fields
		return
	}
	e.uvarint("varint", d.Version)
	e.uvarint("varint", d.Height)
	e.raw("hash", pad32(d.PrevHash))
	e.uvarint("varint", d.Timestamp)
	e.ext(nil, func(c *enc) { c.raw("hash", pad32(d.MerkleRoot)) })
	e.ext(nil, func(c *enc) { c.varstr(d.Witness) })
	e.ext(nil, func(c *enc) {
		c.uvarint("count", uint64(len(d.SupLinks)))
		for _, s := range d.SupLinks {
			c.uvarint("varint", s.SourceHeight)
			c.raw("hash", pad32(s.SourceHash))
			for i := 0; i < MaxSigSlots; i++ {
				var sig []byte
				if i < len(s.Signatures) {
					sig = s.Signatures[i]
				}
				c.varstr(sig)
			}
		}
	})
}

// Replace returns the encoding with the bytes of mark number i replaced by repl.
// With fixup every enclosing "length" prefix is rewritten so that the nesting
// stays consistent (the hostile value is then reached by the decoder instead of
// being cut off by an outer length check).  The marks of the result are dropped.
func (e Encoded) Replace(i int, repl []byte, fixup bool) []byte {
	m := e.Marks[i]
	type edit struct {
		off, length int
		with        []byte
	}
	edits := []edit{{m.Off, m.Len, repl}}
	if fixup {
		delta := len(repl) - m.Len
		// enclosing prefixes, innermost first (marks are in offset order, so walk backwards)
		for j := len(e.Marks) - 1; j >= 0; j-- {
			l := e.Marks[j]
			if j == i || l.What != "length" || !(l.Off+l.Len <= m.Off && m.Off+m.Len <= l.Off+l.Len+l.Span) {
				continue
			}
			var tmp [binary.MaxVarintLen64]byte
			n := binary.PutUvarint(tmp[:], uint64(l.Span+delta))
			edits = append(edits, edit{l.Off, l.Len, append([]byte(nil), tmp[:n]...)})
			delta += n - l.Len
		}
	}
	// apply from the highest offset down so that earlier offsets stay valid
	out := append([]byte(nil), e.Bytes...)
	for k := 0; k < len(edits); k++ {
		for j := k + 1; j < len(edits); j++ {
			if edits[j].off > edits[k].off {
				edits[k], edits[j] = edits[j], edits[k]
			}
		}
		ed := edits[k]
		out = append(out[:ed.off], append(append([]byte(nil), ed.with...), out[ed.off+ed.length:]...)...)
	}
	return out
}

// EncodeTx encodes the transaction into the wire format, independently of the
// repository's writers (integers above 2^63-1 are written as full 64-bit
// varints, which the repository's reader rejects).
func EncodeTx(d TxDesc) Encoded {
	e := &enc{}
	e.tx(d)
	return Encoded{e.buf, e.marks}
}

// Serialisation flags of blocks and headers.
const (
	SerHeader       = 1
	SerTransactions = 2
	SerFull         = 3
)

// EncodeHeader encodes a block header with the given serialisation flag byte.
func EncodeHeader(d HeaderDesc, serflags byte) Encoded {
	e := &enc{}
	e.header(d, serflags)
	return Encoded{e.buf, e.marks}
}

// EncodeBlock encodes a block with the given serialisation flag byte (1 header
// only, 2 transactions only, 3 both).  With AutoRoot the merkle root is taken
// from BuildBlock.
func EncodeBlock(d BlockDesc, serflags byte) Encoded {
	h := d.Header
	if d.AutoRoot {
		r := BuildBlock(d).TransactionsMerkleRoot
		h.MerkleRoot = r.Bytes()
	}
	e := &enc{}
	e.header(h, serflags)
	if serflags != SerHeader {
		e.uvarint("count", uint64(len(d.Txs)))
		for _, t := range d.Txs {
			e.tx(t)
		}
	}
	return Encoded{e.buf, e.marks}
}
