package ledgergen

import (
	"fmt"

	"github.com/bytom/bytom/protocol/bc"
	"github.com/bytom/bytom/protocol/bc/types"
)

// Hash32 converts (zero-padded / truncated to 32 bytes) bytes to a bc.Hash.
func Hash32(b []byte) bc.Hash {
	var a [32]byte
	copy(a[:], b)
	return bc.NewHash(a)
}

// Asset32 converts (zero-padded / truncated to 32 bytes) bytes to a bc.AssetID.
func Asset32(b []byte) bc.AssetID {
	var a [32]byte
	copy(a[:], b)
	return bc.NewAssetID(a)
}

// BuildInput builds the input through types.NewCoinbaseInput / NewIssuanceInput /
// NewSpendInput / NewVetoInput.  Fresh values are built on every call (the
// issuance asset-id cache of one build never leaks into another).  It panics on
// an unknown Kind.
func BuildInput(d InputDesc) *types.TxInput {
	var in *types.TxInput
	switch d.Kind {
	case Coinbase:
		in = types.NewCoinbaseInput(d.Arbitrary)
	case Issuance:
		in = types.NewIssuanceInput(d.Nonce, d.Amount, d.Program, Raw(d.Arguments), d.AssetDef)
	case Spend:
		in = types.NewSpendInput(Raw(d.Arguments), Hash32(d.SourceID), Asset32(d.AssetID), d.Amount, d.SourcePos, d.Program, Raw(d.StateData))
		if len(d.SpendSuffix) > 0 {
			in.TypedInput.(*types.SpendInput).SpendCommitmentSuffix = d.SpendSuffix
		}
	case Veto:
		in = types.NewVetoInput(Raw(d.Arguments), Hash32(d.SourceID), Asset32(d.AssetID), d.Amount, d.SourcePos, d.Program, d.VoteKey, Raw(d.StateData))
		if len(d.SpendSuffix) > 0 {
			in.TypedInput.(*types.VetoInput).VetoCommitmentSuffix = d.SpendSuffix
		}
	default:
		panic(fmt.Sprintf("ledgergen: unknown input kind %q", d.Kind))
	}
	if d.AssetVersion != 0 {
		in.AssetVersion = d.AssetVersion
	}
	if len(d.CommitmentSuffix) > 0 {
		in.CommitmentSuffix = d.CommitmentSuffix
	}
	if len(d.WitnessSuffix) > 0 {
		in.WitnessSuffix = d.WitnessSuffix
	}
	return in
}

// BuildOutput builds the output through types.NewOriginalTxOutput / NewVoteOutput.
func BuildOutput(d OutputDesc) *types.TxOutput {
	var o *types.TxOutput
	switch d.Kind {
	case Original:
		o = types.NewOriginalTxOutput(Asset32(d.AssetID), d.Amount, d.Program, Raw(d.StateData))
	case Vote:
		o = types.NewVoteOutput(Asset32(d.AssetID), d.Amount, d.Program, d.VoteKey, Raw(d.StateData))
	default:
		panic(fmt.Sprintf("ledgergen: unknown output kind %q", d.Kind))
	}
	if d.AssetVersion != 0 {
		o.AssetVersion = d.AssetVersion
	}
	if len(d.CommitmentSuffix) > 0 {
		o.CommitmentSuffix = d.CommitmentSuffix
	}
	return o
}

// BuildTxData builds the TxData (SerializedSize is left 0, as constructors do).
func BuildTxData(d TxDesc) types.TxData {
	td := types.TxData{Version: d.Version, TimeRange: d.TimeRange}
	for _, in := range d.Inputs {
		td.Inputs = append(td.Inputs, BuildInput(in))
	}
	for _, o := range d.Outputs {
		td.Outputs = append(td.Outputs, BuildOutput(o))
	}
	return td
}

// BuildTx is types.NewTx(BuildTxData(d)): the transaction with its entries and ID.
func BuildTx(d TxDesc) *types.Tx { return types.NewTx(BuildTxData(d)) }

// BuildSupLink builds one supLink.
func BuildSupLink(d SupLinkDesc) *types.SupLink {
	s := &types.SupLink{SourceHeight: d.SourceHeight, SourceHash: Hash32(d.SourceHash)}
	for i, sig := range d.Signatures {
		if i < len(s.Signatures) {
			s.Signatures[i] = sig
		}
	}
	return s
}

// BuildHeader builds the block header (a struct literal: the repository has no
// constructor for it).
func BuildHeader(d HeaderDesc) types.BlockHeader {
	h := types.BlockHeader{
		Version:           d.Version,
		Height:            d.Height,
		PreviousBlockHash: Hash32(d.PrevHash),
		Timestamp:         d.Timestamp,
		BlockWitness:      types.BlockWitness(d.Witness),
		BlockCommitment:   types.BlockCommitment{TransactionsMerkleRoot: Hash32(d.MerkleRoot)},
	}
	if d.SupLinks != nil {
		h.SupLinks = types.SupLinks{}
		for _, s := range d.SupLinks {
			h.SupLinks = append(h.SupLinks, BuildSupLink(s))
		}
	}
	return h
}

// BuildBlock builds the block; see BlockDesc.AutoRoot.
func BuildBlock(d BlockDesc) *types.Block {
	b := &types.Block{BlockHeader: BuildHeader(d.Header)}
	for _, t := range d.Txs {
		b.Transactions = append(b.Transactions, BuildTx(t))
	}
	if d.AutoRoot {
		b.TransactionsMerkleRoot = MerkleRoot(b.Transactions)
	}
	return b
}

// MerkleRoot is types.TxMerkleRoot over the IDs of the transactions.
func MerkleRoot(txs []*types.Tx) bc.Hash {
	bcTxs := make([]*bc.Tx, len(txs))
	for i, t := range txs {
		bcTxs[i] = t.Tx
	}
	root, err := types.TxMerkleRoot(bcTxs)
	if err != nil {
		panic(err)
	}
	return root
}
