package ledgergen

import (
	"bytes"
	"fmt"
	"strings"

	"pgregory.net/rapid"
)

// Mutation kinds.
const (
	Consensus = "consensus" // the mutated field is consensus content: identity must change
	Witness   = "witness"   // the mutated field is witness data only: identity must not change
)

// Mutation is one named single-field mutation, as data (it is part of the
// replay format).  Which of the value fields is used depends on Name:
//
//	transaction (ApplyTx):
//	  version, time-range                                   U64
//	  in.source-pos, in.amount                              I, U64
//	  in.source-id, in.asset, in.program, in.vote-key,
//	  in.nonce, in.asset-def, in.arbitrary                  I, Bytes
//	  in.state-data                                         I, List
//	  in.arguments                        (witness)         I, List
//	  out.amount                                            I, U64
//	  out.asset, out.program, out.vote-key                  I, Bytes
//	  out.state-data                                        I, List
//	  swap-inputs, swap-outputs                             I, J
//	  insert-input                                          I, Input
//	  insert-output                                         I, Output
//	  remove-input, remove-output                           I
//	header (ApplyHeader):
//	  hdr.version, hdr.height, hdr.timestamp                U64
//	  hdr.prev, hdr.merkle-root                             Bytes
//	  hdr.witness                         (witness)         Bytes
//	  hdr.suplink.insert                  (witness)         I, SupLink
//	  hdr.suplink.remove                  (witness)         I
//	  hdr.suplink.source-height           (witness)         I, U64
//	  hdr.suplink.source-hash             (witness)         I, Bytes
//	  hdr.suplink.signature               (witness)         I, J (slot), Bytes
type Mutation struct {
	Name    string       `json:"name"`
	I       int          `json:"i"`
	J       int          `json:"j"`
	U64     uint64       `json:"u64"`
	Bytes   HexBytes     `json:"bytes"`
	List    []HexBytes   `json:"list"`
	Input   *InputDesc   `json:"input,omitempty"`
	Output  *OutputDesc  `json:"output,omitempty"`
	SupLink *SupLinkDesc `json:"sup_link,omitempty"`
}

// Kind is Consensus or Witness, by the mutation's name.
func (m Mutation) Kind() string {
	switch {
	case m.Name == "in.arguments", m.Name == "hdr.witness", strings.HasPrefix(m.Name, "hdr.suplink."):
		return Witness
	}
	return Consensus
}

// inputFields lists the mutable fields of each input kind.
var inputFields = map[string][]string{
	Coinbase: {"in.arbitrary"},
	Issuance: {"in.nonce", "in.amount", "in.program", "in.asset-def", "in.arguments"},
	Spend:    {"in.source-id", "in.source-pos", "in.asset", "in.amount", "in.program", "in.state-data", "in.arguments"},
	Veto:     {"in.source-id", "in.source-pos", "in.asset", "in.amount", "in.program", "in.state-data", "in.vote-key", "in.arguments"},
}

var outputFields = map[string][]string{
	Original: {"out.asset", "out.amount", "out.program", "out.state-data"},
	Vote:     {"out.asset", "out.amount", "out.program", "out.state-data", "out.vote-key"},
}

// TxMutationNames lists every transaction mutation name.
var TxMutationNames = []string{
	"version", "time-range",
	"in.source-id", "in.source-pos", "in.asset", "in.amount", "in.program", "in.state-data", "in.vote-key",
	"in.nonce", "in.asset-def", "in.arbitrary", "in.arguments",
	"out.asset", "out.amount", "out.program", "out.state-data", "out.vote-key",
	"swap-inputs", "swap-outputs", "insert-input", "remove-input", "insert-output", "remove-output",
}

// HeaderMutationNames lists every header mutation name.
var HeaderMutationNames = []string{
	"hdr.version", "hdr.height", "hdr.prev", "hdr.timestamp", "hdr.merkle-root", "hdr.witness",
	"hdr.suplink.insert", "hdr.suplink.remove", "hdr.suplink.source-height", "hdr.suplink.source-hash", "hdr.suplink.signature",
}

func has(l []string, s string) bool {
	for _, e := range l {
		if e == s {
			return true
		}
	}
	return false
}

// ---- drawing new values that differ from the old one (nil == empty) ------------------

func mutU64(t *rapid.T, old uint64, int63 bool) uint64 {
	var v uint64
	switch rapid.IntRange(0, 3).Draw(t, "new-int-kind") {
	case 0:
		v = old + 1
	case 1:
		v = old - 1
	default:
		v = GenAmount(t, "new-int", int63)
	}
	if int63 && v > 1<<63-1 {
		v = 1<<63 - 1
	}
	if v == old {
		v = old ^ 1
	}
	return v
}

func mutBytes(t *rapid.T, old HexBytes, max int) HexBytes {
	cp := append(HexBytes{}, old...)
	switch k := rapid.IntRange(0, 4).Draw(t, "new-bytes-kind"); {
	case k <= 1 && len(cp) > 0: // flip one bit
		i := rapid.IntRange(0, len(cp)-1).Draw(t, "flip-at")
		cp[i] ^= 1 << uint(rapid.IntRange(0, 7).Draw(t, "flip-bit"))
		return cp
	case k == 2 && len(cp) > 0: // drop the last byte
		return cp[:len(cp)-1]
	case k == 3: // append a byte
		return append(cp, rapid.Byte().Draw(t, "append-byte"))
	}
	v := GenBytes(t, "new-bytes", max)
	if bytes.Equal(v, old) {
		v = append(append(HexBytes{}, old...), 0)
	}
	return v
}

func mutHash(t *rapid.T, old HexBytes, asset bool) HexBytes {
	cp := HexBytes(pad32(old))
	if rapid.Bool().Draw(t, "hash-flip") {
		i := rapid.IntRange(0, 31).Draw(t, "flip-at")
		cp[i] ^= 1 << uint(rapid.IntRange(0, 7).Draw(t, "flip-bit"))
		return cp
	}
	var v HexBytes
	if asset {
		v = GenAssetID(t, "new-asset")
	} else {
		v = GenHash(t, "new-hash")
	}
	if bytes.Equal(pad32(v), pad32(old)) {
		cp[31] ^= 1
		return cp
	}
	return v
}

func listEq(a, b []HexBytes) bool {
	if len(a) != len(b) {
		return false
	}
	for i := range a {
		if !bytes.Equal(a[i], b[i]) {
			return false
		}
	}
	return true
}

func mutList(t *rapid.T, old []HexBytes) []HexBytes {
	cp := make([]HexBytes, len(old))
	for i, e := range old {
		cp[i] = append(HexBytes(nil), e...)
	}
	switch k := rapid.IntRange(0, 4).Draw(t, "new-list-kind"); {
	case k <= 1 && len(cp) > 0: // change one element
		i := rapid.IntRange(0, len(cp)-1).Draw(t, "elem-at")
		cp[i] = mutBytes(t, cp[i], 80)
		return cp
	case k == 2 && len(cp) > 0: // remove one element
		i := rapid.IntRange(0, len(cp)-1).Draw(t, "remove-at")
		return append(cp[:i], cp[i+1:]...)
	case k == 3: // insert one element
		i := rapid.IntRange(0, len(cp)).Draw(t, "insert-at")
		e := GenBytes(t, "new-elem", 80)
		cp = append(cp, nil)
		copy(cp[i+1:], cp[i:])
		cp[i] = e
		return cp
	}
	v := GenByteList(t, "new-list", 4, 80)
	if listEq(v, old) {
		v = append(cp, HexBytes{0})
	}
	return v
}

// GenTxMutation draws one mutation applicable to d: first the name (uniformly
// among the names that have a site in d), then the site, then a new value that
// differs from the old one.  ok is false when d offers no site at all (never
// the case: version and insertion always apply).  int63 limits new integers to
// 2^63-1; o is used for inserted inputs/outputs.
func GenTxMutation(t *rapid.T, d TxDesc, o Opts) (Mutation, bool) {
	inSites := map[string][]int{}
	for i, in := range d.Inputs {
		for _, f := range inputFields[in.Kind] {
			inSites[f] = append(inSites[f], i)
		}
	}
	outSites := map[string][]int{}
	for i, out := range d.Outputs {
		for _, f := range outputFields[out.Kind] {
			outSites[f] = append(outSites[f], i)
		}
	}
	type pair struct{ i, j int }
	var inPairs, outPairs []pair
	for i := range d.Inputs {
		for j := i + 1; j < len(d.Inputs); j++ {
			if CanonInput(d.Inputs[i], false) != CanonInput(d.Inputs[j], false) {
				inPairs = append(inPairs, pair{i, j})
			}
		}
	}
	for i := range d.Outputs {
		for j := i + 1; j < len(d.Outputs); j++ {
			if CanonOutput(d.Outputs[i]) != CanonOutput(d.Outputs[j]) {
				outPairs = append(outPairs, pair{i, j})
			}
		}
	}
	var names []string
	for _, n := range TxMutationNames {
		switch {
		case n == "version", n == "time-range", n == "insert-input", n == "insert-output":
		case n == "remove-input":
			if len(d.Inputs) == 0 {
				continue
			}
		case n == "remove-output":
			if len(d.Outputs) == 0 {
				continue
			}
		case n == "swap-inputs":
			if len(inPairs) == 0 {
				continue
			}
		case n == "swap-outputs":
			if len(outPairs) == 0 {
				continue
			}
		case strings.HasPrefix(n, "in."):
			if len(inSites[n]) == 0 {
				continue
			}
		case strings.HasPrefix(n, "out."):
			if len(outSites[n]) == 0 {
				continue
			}
		}
		names = append(names, n)
	}
	if len(names) == 0 {
		return Mutation{}, false
	}
	m := Mutation{Name: rapid.SampledFrom(names).Draw(t, "mutation")}
	pick := func(sites []int) int { return sites[rapid.IntRange(0, len(sites)-1).Draw(t, "site")] }
	switch n := m.Name; n {
	case "version":
		m.U64 = mutU64(t, d.Version, o.Int63)
	case "time-range":
		m.U64 = mutU64(t, d.TimeRange, o.Int63)
	case "swap-inputs":
		p := inPairs[rapid.IntRange(0, len(inPairs)-1).Draw(t, "pair")]
		m.I, m.J = p.i, p.j
	case "swap-outputs":
		p := outPairs[rapid.IntRange(0, len(outPairs)-1).Draw(t, "pair")]
		m.I, m.J = p.i, p.j
	case "insert-input":
		m.I = rapid.IntRange(0, len(d.Inputs)).Draw(t, "insert-at")
		in := GenInput(t, o)
		m.Input = &in
	case "insert-output":
		m.I = rapid.IntRange(0, len(d.Outputs)).Draw(t, "insert-at")
		out := GenOutput(t, o)
		m.Output = &out
	case "remove-input":
		m.I = rapid.IntRange(0, len(d.Inputs)-1).Draw(t, "remove-at")
	case "remove-output":
		m.I = rapid.IntRange(0, len(d.Outputs)-1).Draw(t, "remove-at")
	default:
		if strings.HasPrefix(n, "in.") {
			m.I = pick(inSites[n])
			in := d.Inputs[m.I]
			switch n {
			case "in.source-pos":
				m.U64 = mutU64(t, in.SourcePos, o.Int63)
			case "in.amount":
				m.U64 = mutU64(t, in.Amount, o.Int63)
			case "in.source-id":
				m.Bytes = mutHash(t, in.SourceID, false)
			case "in.asset":
				m.Bytes = mutHash(t, in.AssetID, true)
			case "in.program":
				m.Bytes = mutBytes(t, in.Program, 80)
			case "in.vote-key":
				m.Bytes = mutBytes(t, in.VoteKey, 80)
			case "in.nonce":
				m.Bytes = mutBytes(t, in.Nonce, 80)
			case "in.asset-def":
				m.Bytes = mutBytes(t, in.AssetDef, 80)
			case "in.arbitrary":
				m.Bytes = mutBytes(t, in.Arbitrary, 80)
			case "in.state-data":
				m.List = mutList(t, in.StateData)
			case "in.arguments":
				m.List = mutList(t, in.Arguments)
			}
		} else {
			m.I = pick(outSites[n])
			out := d.Outputs[m.I]
			switch n {
			case "out.amount":
				m.U64 = mutU64(t, out.Amount, o.Int63)
			case "out.asset":
				m.Bytes = mutHash(t, out.AssetID, true)
			case "out.program":
				m.Bytes = mutBytes(t, out.Program, 80)
			case "out.vote-key":
				m.Bytes = mutBytes(t, out.VoteKey, 80)
			case "out.state-data":
				m.List = mutList(t, out.StateData)
			}
		}
	}
	return m, true
}

// ApplyTx applies the mutation to a copy of d.  changed reports whether the
// result differs from d as a value (nil == empty); a mutation that sets a field
// to its old value, or swaps two elements with equal consensus content, is not
// a change.  An error means the mutation does not fit d (bad index or name).
func ApplyTx(d TxDesc, m Mutation) (out TxDesc, changed bool, err error) {
	out = CloneTx(d)
	inIdx := func() (*InputDesc, error) {
		if m.I < 0 || m.I >= len(out.Inputs) {
			return nil, fmt.Errorf("mutation %s: no input %d", m.Name, m.I)
		}
		in := &out.Inputs[m.I]
		if !has(inputFields[in.Kind], m.Name) {
			return nil, fmt.Errorf("mutation %s does not apply to a %s input", m.Name, in.Kind)
		}
		return in, nil
	}
	outIdx := func() (*OutputDesc, error) {
		if m.I < 0 || m.I >= len(out.Outputs) {
			return nil, fmt.Errorf("mutation %s: no output %d", m.Name, m.I)
		}
		o := &out.Outputs[m.I]
		if !has(outputFields[o.Kind], m.Name) {
			return nil, fmt.Errorf("mutation %s does not apply to a %s output", m.Name, o.Kind)
		}
		return o, nil
	}
	switch n := m.Name; {
	case n == "version":
		out.Version = m.U64
	case n == "time-range":
		out.TimeRange = m.U64
	case n == "swap-inputs":
		if m.I < 0 || m.J < 0 || m.I >= len(out.Inputs) || m.J >= len(out.Inputs) {
			return out, false, fmt.Errorf("swap-inputs: bad indexes %d,%d", m.I, m.J)
		}
		out.Inputs[m.I], out.Inputs[m.J] = out.Inputs[m.J], out.Inputs[m.I]
		return out, CanonTx(d, false) != CanonTx(out, false), nil
	case n == "swap-outputs":
		if m.I < 0 || m.J < 0 || m.I >= len(out.Outputs) || m.J >= len(out.Outputs) {
			return out, false, fmt.Errorf("swap-outputs: bad indexes %d,%d", m.I, m.J)
		}
		out.Outputs[m.I], out.Outputs[m.J] = out.Outputs[m.J], out.Outputs[m.I]
	case n == "insert-input":
		if m.Input == nil || m.I < 0 || m.I > len(out.Inputs) {
			return out, false, fmt.Errorf("insert-input: bad position %d or no input", m.I)
		}
		out.Inputs = append(out.Inputs, InputDesc{})
		copy(out.Inputs[m.I+1:], out.Inputs[m.I:])
		out.Inputs[m.I] = *m.Input
	case n == "insert-output":
		if m.Output == nil || m.I < 0 || m.I > len(out.Outputs) {
			return out, false, fmt.Errorf("insert-output: bad position %d or no output", m.I)
		}
		out.Outputs = append(out.Outputs, OutputDesc{})
		copy(out.Outputs[m.I+1:], out.Outputs[m.I:])
		out.Outputs[m.I] = *m.Output
	case n == "remove-input":
		if m.I < 0 || m.I >= len(out.Inputs) {
			return out, false, fmt.Errorf("remove-input: no input %d", m.I)
		}
		out.Inputs = append(out.Inputs[:m.I], out.Inputs[m.I+1:]...)
	case n == "remove-output":
		if m.I < 0 || m.I >= len(out.Outputs) {
			return out, false, fmt.Errorf("remove-output: no output %d", m.I)
		}
		out.Outputs = append(out.Outputs[:m.I], out.Outputs[m.I+1:]...)
	case strings.HasPrefix(n, "in."):
		in, e := inIdx()
		if e != nil {
			return out, false, e
		}
		switch n {
		case "in.source-pos":
			in.SourcePos = m.U64
		case "in.amount":
			in.Amount = m.U64
		case "in.source-id":
			in.SourceID = HexBytes(pad32(m.Bytes))
		case "in.asset":
			in.AssetID = HexBytes(pad32(m.Bytes))
		case "in.program":
			in.Program = m.Bytes
		case "in.vote-key":
			in.VoteKey = m.Bytes
		case "in.nonce":
			in.Nonce = m.Bytes
		case "in.asset-def":
			in.AssetDef = m.Bytes
		case "in.arbitrary":
			in.Arbitrary = m.Bytes
		case "in.state-data":
			in.StateData = m.List
		case "in.arguments":
			in.Arguments = m.List
		}
	case strings.HasPrefix(n, "out."):
		o, e := outIdx()
		if e != nil {
			return out, false, e
		}
		switch n {
		case "out.amount":
			o.Amount = m.U64
		case "out.asset":
			o.AssetID = HexBytes(pad32(m.Bytes))
		case "out.program":
			o.Program = m.Bytes
		case "out.vote-key":
			o.VoteKey = m.Bytes
		case "out.state-data":
			o.StateData = m.List
		}
	default:
		return out, false, fmt.Errorf("unknown transaction mutation %q", n)
	}
	return out, CanonTx(d, true) != CanonTx(out, true), nil
}

// MutateTx draws one mutation for d and applies it: the mutated description,
// the mutation (with its Kind) and whether the value really changed.
func MutateTx(t *rapid.T, d TxDesc, o Opts) (TxDesc, Mutation, bool) {
	m, ok := GenTxMutation(t, d, o)
	if !ok {
		return d, m, false
	}
	out, changed, err := ApplyTx(d, m)
	if err != nil {
		panic(err) // a drawn mutation always fits
	}
	return out, m, changed
}

// GenHeaderMutation draws one mutation applicable to h.
func GenHeaderMutation(t *rapid.T, h HeaderDesc, o Opts) Mutation {
	var names []string
	for _, n := range HeaderMutationNames {
		if strings.HasPrefix(n, "hdr.suplink.") && n != "hdr.suplink.insert" && len(h.SupLinks) == 0 {
			continue
		}
		names = append(names, n)
	}
	m := Mutation{Name: rapid.SampledFrom(names).Draw(t, "mutation")}
	link := func() SupLinkDesc {
		m.I = rapid.IntRange(0, len(h.SupLinks)-1).Draw(t, "link")
		return h.SupLinks[m.I]
	}
	switch m.Name {
	case "hdr.version":
		m.U64 = mutU64(t, h.Version, o.Int63)
	case "hdr.height":
		m.U64 = mutU64(t, h.Height, o.Int63)
	case "hdr.timestamp":
		m.U64 = mutU64(t, h.Timestamp, o.Int63)
	case "hdr.prev":
		m.Bytes = mutHash(t, h.PrevHash, false)
	case "hdr.merkle-root":
		m.Bytes = mutHash(t, h.MerkleRoot, false)
	case "hdr.witness":
		m.Bytes = mutBytes(t, h.Witness, 80)
	case "hdr.suplink.insert":
		m.I = rapid.IntRange(0, len(h.SupLinks)).Draw(t, "insert-at")
		s := GenSupLink(t, o)
		m.SupLink = &s
	case "hdr.suplink.remove":
		link()
	case "hdr.suplink.source-height":
		m.U64 = mutU64(t, link().SourceHeight, o.Int63)
	case "hdr.suplink.source-hash":
		m.Bytes = mutHash(t, link().SourceHash, false)
	case "hdr.suplink.signature":
		s := link()
		m.J = rapid.IntRange(0, MaxSigSlots-1).Draw(t, "slot")
		var old HexBytes
		if m.J < len(s.Signatures) {
			old = s.Signatures[m.J]
		}
		m.Bytes = mutBytes(t, old, 80)
	}
	return m
}

// ApplyHeader applies a header mutation to a copy of h; see ApplyTx.
func ApplyHeader(h HeaderDesc, m Mutation) (out HeaderDesc, changed bool, err error) {
	out = CloneHeader(h)
	link := func() (*SupLinkDesc, error) {
		if m.I < 0 || m.I >= len(out.SupLinks) {
			return nil, fmt.Errorf("mutation %s: no supLink %d", m.Name, m.I)
		}
		return &out.SupLinks[m.I], nil
	}
	switch m.Name {
	case "hdr.version":
		out.Version = m.U64
	case "hdr.height":
		out.Height = m.U64
	case "hdr.timestamp":
		out.Timestamp = m.U64
	case "hdr.prev":
		out.PrevHash = HexBytes(pad32(m.Bytes))
	case "hdr.merkle-root":
		out.MerkleRoot = HexBytes(pad32(m.Bytes))
	case "hdr.witness":
		out.Witness = m.Bytes
	case "hdr.suplink.insert":
		if m.SupLink == nil || m.I < 0 || m.I > len(out.SupLinks) {
			return out, false, fmt.Errorf("hdr.suplink.insert: bad position %d or no link", m.I)
		}
		out.SupLinks = append(out.SupLinks, SupLinkDesc{})
		copy(out.SupLinks[m.I+1:], out.SupLinks[m.I:])
		out.SupLinks[m.I] = *m.SupLink
	case "hdr.suplink.remove":
		if _, e := link(); e != nil {
			return out, false, e
		}
		out.SupLinks = append(out.SupLinks[:m.I], out.SupLinks[m.I+1:]...)
	case "hdr.suplink.source-height":
		s, e := link()
		if e != nil {
			return out, false, e
		}
		s.SourceHeight = m.U64
	case "hdr.suplink.source-hash":
		s, e := link()
		if e != nil {
			return out, false, e
		}
		s.SourceHash = HexBytes(pad32(m.Bytes))
	case "hdr.suplink.signature":
		s, e := link()
		if e != nil {
			return out, false, e
		}
		if m.J < 0 || m.J >= MaxSigSlots {
			return out, false, fmt.Errorf("hdr.suplink.signature: bad slot %d", m.J)
		}
		for len(s.Signatures) <= m.J {
			s.Signatures = append(s.Signatures, nil)
		}
		s.Signatures[m.J] = m.Bytes
	default:
		return out, false, fmt.Errorf("unknown header mutation %q", m.Name)
	}
	return out, CanonHeader(h, true) != CanonHeader(out, true) || len(h.SupLinks) != len(out.SupLinks), nil
}

// MutateHeader draws one mutation for h and applies it.
func MutateHeader(t *rapid.T, h HeaderDesc, o Opts) (HeaderDesc, Mutation, bool) {
	m := GenHeaderMutation(t, h, o)
	out, changed, err := ApplyHeader(h, m)
	if err != nil {
		panic(err)
	}
	return out, m, changed
}
