package ledgergen

import (
	"math"

	"github.com/bytom/bytom/consensus"
	"pgregory.net/rapid"
)

// Opts tunes the generators.  The zero value means: 0..12 inputs, 0..12
// outputs, full 64-bit integers, nothing the constructors cannot build.
type Opts struct {
	MinInputs, MaxInputs   int // MaxInputs 0 means 12
	MinOutputs, MaxOutputs int // MaxOutputs 0 means 12
	// Int63 limits every integer field to 2^63-1, the largest value the wire
	// format carries (the encoders refuse larger ones with ErrRange).
	Int63 bool
	// Exotic also produces what only a decoder (or direct struct access)
	// can produce: commitment/witness/spend suffixes and asset versions != 1.
	Exotic bool
	// NoRetire never lets an output program start with OP_FAIL.
	NoRetire bool
}

func (o Opts) maxIn() int {
	if o.MaxInputs == 0 {
		return 12
	}
	return o.MaxInputs
}

func (o Opts) maxOut() int {
	if o.MaxOutputs == 0 {
		return 12
	}
	return o.MaxOutputs
}

// AssetPool is the small pool asset ids are drawn from, so that assets collide:
// BTM, three fixed ids and the all-zero id.
var AssetPool = func() []HexBytes {
	pool := []HexBytes{HexBytes(consensus.BTMAssetID.Bytes())}
	for _, b := range []byte{0x01, 0xa5, 0x7f} {
		id := make([]byte, 32)
		for i := range id {
			id[i] = b
		}
		pool = append(pool, id)
	}
	pool = append(pool, make([]byte, 32))
	return pool
}()

// GenAssetID draws an asset id from AssetPool.
func GenAssetID(t *rapid.T, label string) HexBytes {
	p := AssetPool[rapid.IntRange(0, len(AssetPool)-1).Draw(t, label)]
	return append(HexBytes{}, p...)
}

// GenHash draws 32 bytes: mostly from a pool of four fixed values (so that
// source ids collide), otherwise uniform.
func GenHash(t *rapid.T, label string) HexBytes {
	k := rapid.IntRange(0, 5).Draw(t, label)
	h := make([]byte, 32)
	switch {
	case k == 0:
	case k < 4:
		for i := range h {
			h[i] = byte(0x10*k + i)
		}
	default:
		copy(h, rapid.SliceOfN(rapid.Byte(), 32, 32).Draw(t, label+"/bytes"))
	}
	return h
}

var boundaries = []uint64{0, 1, 1<<31 - 1, 1 << 31, 1<<31 + 1, 1 << 32, 1 << 62, 1<<63 - 1, 1 << 63, math.MaxUint64}

// GenAmount draws from the boundary-heavy distribution {0, 1, 2^31-1, 2^31,
// 2^31+1, 2^32, 2^62, 2^63-1, 2^63, 2^64-1, small, uniform}; with int63 the
// result is clamped to 2^63-1.
func GenAmount(t *rapid.T, label string, int63 bool) uint64 {
	k := rapid.IntRange(0, len(boundaries)+5).Draw(t, label)
	var v uint64
	switch {
	case k < len(boundaries):
		v = boundaries[k]
	case k < len(boundaries)+3:
		v = uint64(rapid.IntRange(2, 1000).Draw(t, label+"/small"))
	default:
		v = rapid.Uint64().Draw(t, label+"/uniform")
	}
	if int63 && v > math.MaxInt64 {
		v = math.MaxInt64
	}
	return v
}

// GenBytes draws a byte string of 0..max bytes; nil and empty both occur.
func GenBytes(t *rapid.T, label string, max int) HexBytes {
	switch rapid.IntRange(0, 7).Draw(t, label) {
	case 0:
		return nil
	case 1:
		return HexBytes{}
	case 2:
		return HexBytes{rapid.Byte().Draw(t, label+"/b")}
	case 3, 4:
		n := 8
		if max < n {
			n = max
		}
		return HexBytes(rapid.SliceOfN(rapid.Byte(), 1, n).Draw(t, label+"/short"))
	default:
		return HexBytes(rapid.SliceOfN(rapid.Byte(), 0, max).Draw(t, label+"/long"))
	}
}

// GenByteList draws a list of 0..maxN byte strings; a nil list and an empty
// list both occur.
func GenByteList(t *rapid.T, label string, maxN, maxLen int) []HexBytes {
	n := rapid.IntRange(-1, maxN).Draw(t, label+"/n")
	if n < 0 {
		return nil
	}
	out := make([]HexBytes, n)
	for i := range out {
		out[i] = GenBytes(t, label, maxLen)
	}
	return out
}

// GenProgram draws a control / issuance program: OP_TRUE, a P2WPKH-shaped
// program, arbitrary bytes (0..80, nil and empty included) or, when retire is
// allowed, a program starting with OP_FAIL.
func GenProgram(t *rapid.T, label string, retire bool) HexBytes {
	k := rapid.IntRange(0, 6).Draw(t, label)
	switch {
	case k == 0:
		return HexBytes{0x51}
	case k == 1:
		p := append(HexBytes{0x00, 0x14}, rapid.SliceOfN(rapid.Byte(), 20, 20).Draw(t, label+"/pkh")...)
		return p
	case k <= 3 && retire:
		return append(HexBytes{OpFail}, GenBytes(t, label+"/tail", 40)...)
	default:
		p := GenBytes(t, label+"/raw", 80)
		if !retire && len(p) > 0 && p[0] == OpFail {
			p[0] = 0x51
		}
		return p
	}
}

// GenVoteKey draws a vote key: 64 bytes mostly, sometimes short, empty or nil.
func GenVoteKey(t *rapid.T, label string) HexBytes {
	if rapid.IntRange(0, 3).Draw(t, label) > 0 {
		return HexBytes(rapid.SliceOfN(rapid.Byte(), 64, 64).Draw(t, label+"/xpub"))
	}
	return GenBytes(t, label+"/odd", 80)
}

func genAssetVersion(t *rapid.T, label string, o Opts) uint64 {
	if !o.Exotic || rapid.IntRange(0, 7).Draw(t, label) > 0 {
		return 0
	}
	return rapid.SampledFrom([]uint64{2, 3, 127, 128, 1<<63 - 1}).Draw(t, label+"/v")
}

func genSuffix(t *rapid.T, label string, o Opts) HexBytes {
	if !o.Exotic || rapid.IntRange(0, 4).Draw(t, label) > 0 {
		return nil
	}
	return HexBytes(rapid.SliceOfN(rapid.Byte(), 1, 12).Draw(t, label+"/bytes"))
}

// GenInputOfKind draws an input of the given kind.
func GenInputOfKind(t *rapid.T, kind string, o Opts) InputDesc {
	d := InputDesc{Kind: kind}
	switch kind {
	case Coinbase:
		d.Arbitrary = GenBytes(t, "arbitrary", 80)
	case Issuance:
		d.Nonce = GenBytes(t, "nonce", 80)
		d.Amount = GenAmount(t, "amount", o.Int63)
		d.Program = GenProgram(t, "issuance-program", false)
		d.AssetDef = GenBytes(t, "asset-def", 80)
		d.Arguments = GenByteList(t, "arguments", 4, 80)
	case Spend, Veto:
		d.SourceID = GenHash(t, "source-id")
		d.SourcePos = GenAmount(t, "source-pos", o.Int63)
		d.AssetID = GenAssetID(t, "asset")
		d.Amount = GenAmount(t, "amount", o.Int63)
		d.Program = GenProgram(t, "control-program", false)
		d.StateData = GenByteList(t, "state-data", 4, 80)
		d.Arguments = GenByteList(t, "arguments", 4, 80)
		d.SpendSuffix = genSuffix(t, "spend-suffix", o)
		if kind == Veto {
			d.VoteKey = GenVoteKey(t, "vote-key")
		}
	default:
		panic("ledgergen: unknown input kind " + kind)
	}
	d.AssetVersion = genAssetVersion(t, "in-asset-version", o)
	d.CommitmentSuffix = genSuffix(t, "commitment-suffix", o)
	d.WitnessSuffix = genSuffix(t, "witness-suffix", o)
	return d
}

// GenInput draws an input of any of the four kinds (coinbase less often).
func GenInput(t *rapid.T, o Opts) InputDesc {
	kind := rapid.SampledFrom([]string{Spend, Spend, Spend, Issuance, Issuance, Veto, Veto, Coinbase}).Draw(t, "input-kind")
	return GenInputOfKind(t, kind, o)
}

// GenOutput draws an output: original or vote; about a quarter are retirements
// unless o.NoRetire.
func GenOutput(t *rapid.T, o Opts) OutputDesc {
	d := OutputDesc{Kind: rapid.SampledFrom([]string{Original, Original, Vote}).Draw(t, "output-kind")}
	d.AssetID = GenAssetID(t, "asset")
	d.Amount = GenAmount(t, "amount", o.Int63)
	d.Program = GenProgram(t, "control-program", !o.NoRetire)
	d.StateData = GenByteList(t, "state-data", 4, 80)
	if d.Kind == Vote {
		d.VoteKey = GenVoteKey(t, "vote-key")
	}
	d.AssetVersion = genAssetVersion(t, "out-asset-version", o)
	d.CommitmentSuffix = genSuffix(t, "commitment-suffix", o)
	return d
}

// GenTx draws a transaction description.
func GenTx(t *rapid.T, o Opts) TxDesc {
	d := TxDesc{Version: 1}
	if rapid.IntRange(0, 3).Draw(t, "version-kind") == 0 {
		d.Version = GenAmount(t, "version", o.Int63)
	}
	if rapid.Bool().Draw(t, "has-time-range") {
		d.TimeRange = GenAmount(t, "time-range", o.Int63)
	}
	nIn := rapid.IntRange(o.MinInputs, o.maxIn()).Draw(t, "n-inputs")
	nOut := rapid.IntRange(o.MinOutputs, o.maxOut()).Draw(t, "n-outputs")
	d.Inputs = make([]InputDesc, nIn)
	for i := range d.Inputs {
		d.Inputs[i] = GenInput(t, o)
	}
	d.Outputs = make([]OutputDesc, nOut)
	for i := range d.Outputs {
		d.Outputs[i] = GenOutput(t, o)
	}
	return d
}

// GenSupLink draws one supLink with 0..10 signature slots (each nil, empty or
// a 64-byte signature, sometimes another length).
func GenSupLink(t *rapid.T, o Opts) SupLinkDesc {
	s := SupLinkDesc{SourceHeight: GenAmount(t, "source-height", o.Int63), SourceHash: GenHash(t, "source-hash")}
	n := rapid.IntRange(-1, MaxSigSlots).Draw(t, "n-sig-slots")
	if n < 0 {
		return s
	}
	s.Signatures = make([]HexBytes, n)
	for i := range s.Signatures {
		switch rapid.IntRange(0, 5).Draw(t, "sig-kind") {
		case 0:
			s.Signatures[i] = nil
		case 1:
			s.Signatures[i] = HexBytes{}
		case 2:
			s.Signatures[i] = GenBytes(t, "sig-odd", 80)
		default:
			s.Signatures[i] = HexBytes(rapid.SliceOfN(rapid.Byte(), 64, 64).Draw(t, "sig"))
		}
	}
	return s
}

// GenHeader draws a block header with a block witness (nil, empty, 64 bytes or
// odd) and 0..4 supLinks (nil list and empty list both occur).
func GenHeader(t *rapid.T, o Opts) HeaderDesc {
	h := HeaderDesc{
		Version:    1,
		Height:     GenAmount(t, "height", o.Int63),
		PrevHash:   GenHash(t, "prev-hash"),
		Timestamp:  GenAmount(t, "timestamp", o.Int63),
		MerkleRoot: GenHash(t, "merkle-root"),
	}
	if rapid.IntRange(0, 3).Draw(t, "header-version-kind") == 0 {
		h.Version = GenAmount(t, "header-version", o.Int63)
	}
	if rapid.Bool().Draw(t, "witness-64") {
		h.Witness = HexBytes(rapid.SliceOfN(rapid.Byte(), 64, 64).Draw(t, "block-witness"))
	} else {
		h.Witness = GenBytes(t, "block-witness-odd", 80)
	}
	n := rapid.IntRange(-1, 4).Draw(t, "n-sup-links")
	if n >= 0 {
		h.SupLinks = make([]SupLinkDesc, n)
		for i := range h.SupLinks {
			h.SupLinks[i] = GenSupLink(t, o)
		}
	}
	return h
}

// GenBlock draws a block with 0..6 transactions (o bounds each transaction;
// MaxInputs/MaxOutputs 0 means 4 here to keep blocks small).
func GenBlock(t *rapid.T, o Opts) BlockDesc {
	if o.MaxInputs == 0 {
		o.MaxInputs = 4
	}
	if o.MaxOutputs == 0 {
		o.MaxOutputs = 4
	}
	b := BlockDesc{Header: GenHeader(t, o), AutoRoot: rapid.Bool().Draw(t, "auto-root")}
	n := rapid.IntRange(0, 6).Draw(t, "n-txs")
	b.Txs = make([]TxDesc, n)
	for i := range b.Txs {
		b.Txs[i] = GenTx(t, o)
	}
	return b
}
