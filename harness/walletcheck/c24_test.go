package walletcheck

import (
	"fmt"
	"strings"
	"testing"

	"pgregory.net/rapid"

	"github.com/bytom/bytom/account"
	"github.com/bytom/bytom/protocol/bc"
	"github.com/bytom/bytom/protocol/bc/types"

	ck "verifharness/chainkit"
	"verifharness/pbt"
)

// C24: after any sequence of block attaches and detaches driven by chain reorganisations the
// wallet's unspent outputs equal those of a wallet that scanned the current main chain from
// genesis (identity, asset, amount, program, owning account, vote key).
//
// The executor is shared with C25 (which judges maturity instead of equality with a rescan).

type wCase struct {
	Params ck.Params  `json:"params"`
	Accts  []acctDesc `json:"accts"`
	Blocks []wBlock   `json:"blocks"`
	Order  []int      `json:"order,omitempty"`  // delivery order selectors (chainkit.ApplyOrder); empty = in index order
	Lazy   []int      `json:"lazy,omitempty"`   // delivery positions after which the wallet updater does not get to run
	Rescan []int      `json:"rescan,omitempty"` // delivery positions after which a rescan is requested (before the updater runs, if it runs)
	// LagFrom/LagLen: a stretch of deliveries during which the wallet updater does not run at all;
	// Partial: positions (and step counts 1-6) after which it takes only that many actions, so that it
	// can be in the middle of following one reorganisation when the next one happens
	LagFrom int      `json:"lag_from,omitempty"`
	LagLen  int      `json:"lag_len,omitempty"`
	Partial [][2]int `json:"partial,omitempty"`
}

var wKinds = []string{"pay", "pay", "payvote", "payvote", "payvote", "wspend", "wspend", "wveto", "wveto", "wveto", "wvote", "issuepay", "wxfer", "wmerge", "wmerge"}

func genWTx(t *rapid.T, kinds []string) wTx {
	return wTx{
		Kind: rapid.SampledFrom(kinds).Draw(t, "kind"),
		Pick: rapid.IntRange(0, 30).Draw(t, "pick"),
		To:   rapid.IntRange(0, 11).Draw(t, "to"),
		Amt:  rapid.IntRange(0, 7).Draw(t, "amt"),
		N:    rapid.IntRange(0, 15).Draw(t, "n"),
	}
}

func genAccts(t *rapid.T) []acctDesc {
	n := rapid.IntRange(1, 3).Draw(t, "naccts")
	var out []acctDesc
	for i := 0; i < n; i++ {
		out = append(out, acctDesc{Multi: rapid.IntRange(0, 2).Draw(t, "multi") == 0, Key: rapid.IntRange(0, 15).Draw(t, "key")})
	}
	return out
}

func genWParams(t *rapid.T, epochs []uint64) ck.Params {
	p := ck.Params{Epoch: rapid.SampledFrom(epochs).Draw(t, "epoch"), Validators: rapid.SampledFrom([]int{1, 3}).Draw(t, "validators"), NodeKey: -1,
		// votes of the generated worlds never reach this: the federation stays the validator set
		MinVotes: 1000000000000000}
	p.VoteLock = uint64(rapid.IntRange(2, 3).Draw(t, "votelock"))
	if rapid.Bool().Draw(t, "twolocks") {
		p.VoteLock2 = uint64(rapid.IntRange(1, 5).Draw(t, "votelock2"))
		p.VoteLockSwitch = uint64(rapid.IntRange(3, 12).Draw(t, "lockswitch"))
	}
	return p
}

// genWCase draws a history: an optional linear prefix in which the wallet collects coinbase
// rewards (so that some mature later), then runs of blocks; each run starts `back` blocks
// behind the previous block, so a run longer than its `back` reorganises the chain.  The
// checkpoint blocks of some runs carry verification signatures: a justified checkpoint on a
// shorter branch makes the node switch from a longer chain to a shorter one.
func genWCase(prefixMin, prefixMax, runsMin, runsMax int, epochs []uint64, farBack int) func(t *rapid.T) wCase {
	return func(t *rapid.T) wCase {
		c := wCase{Params: genWParams(t, epochs), Accts: genAccts(t)}
		prefix := rapid.IntRange(prefixMin, prefixMax).Draw(t, "prefix")
		for i := 0; i < prefix; i++ {
			b := wBlock{CB: rapid.IntRange(0, 3).Draw(t, "pcb")}
			if i >= 13 {
				// from height 14 on the first reward outputs are mature: spend them (a later switch to a shorter chain un-spends them)
				if rapid.IntRange(0, 2).Draw(t, "ptxq2") != 0 {
					b.Txs = append(b.Txs, genWTx(t, []string{"wspend", "wspend", "wmerge", "wmerge", "wveto", "pay", "payvote", "wvote"}))
				}
			} else if rapid.IntRange(0, 2).Draw(t, "ptxq") == 0 {
				b.Txs = append(b.Txs, genWTx(t, []string{"pay", "payvote", "wvote", "wspend", "wveto"}))
			}
			c.Blocks = append(c.Blocks, b)
		}
		runs := rapid.IntRange(runsMin, runsMax).Draw(t, "runs")
		for r := 0; r < runs && len(c.Blocks) < 60; r++ {
			back, supQ := 0, 0
			if r > 0 || prefix > 0 {
				switch q := rapid.IntRange(0, 3).Draw(t, "backq"); {
				case q == 0 || (q == 1 && farBack > 14):
					// far back, with signatures: a candidate for a long-to-short switch
					back = rapid.IntRange(3, farBack).Draw(t, "backfar")
					supQ = rapid.IntRange(1, 2).Draw(t, "supqfar")
				default:
					back = rapid.IntRange(0, 4).Draw(t, "back")
					supQ = rapid.SampledFrom([]int{0, 0, 0, 1, 2}).Draw(t, "supq")
				}
			}
			length := rapid.IntRange(1, 6).Draw(t, "runlen")
			for i := 0; i < length; i++ {
				b := wBlock{}
				if i == 0 {
					b.Back = back
				}
				if rapid.IntRange(0, 5).Draw(t, "skipq") == 0 {
					b.Skip = rapid.IntRange(1, 3).Draw(t, "skip")
				}
				if rapid.IntRange(0, 2).Draw(t, "cbq") == 0 {
					b.CB = rapid.IntRange(1, 6).Draw(t, "cb")
				}
				ntx := rapid.IntRange(0, 3).Draw(t, "ntx")
				for k := 0; k < ntx; k++ {
					b.Txs = append(b.Txs, genWTx(t, wKinds))
				}
				if supQ == 2 || (supQ == 1 && rapid.Bool().Draw(t, "sup")) {
					src := rapid.SampledFrom([]int{0, 0, 0, 1, 2}).Draw(t, "supsrc")
					for v := 0; v < c.Params.Validators; v++ {
						b.Sup = append(b.Sup, ck.SupDesc{Validator: v, Source: src})
					}
				}
				c.Blocks = append(c.Blocks, b)
			}
		}
		if rapid.IntRange(0, 5).Draw(t, "shuffle") == 0 {
			c.Order = ck.GenOrder(t, len(c.Blocks), true)
		}
		nl := rapid.IntRange(0, 3).Draw(t, "nlazy")
		if rapid.IntRange(0, 2).Draw(t, "lazyq") != 0 {
			nl = 0
		}
		for i := 0; i < nl; i++ {
			c.Lazy = append(c.Lazy, rapid.IntRange(0, len(c.Blocks)-1).Draw(t, "lazy"))
		}
		if rapid.IntRange(0, 2).Draw(t, "lagq") == 0 {
			c.LagFrom = rapid.IntRange(0, len(c.Blocks)-1).Draw(t, "lagfrom")
			c.LagLen = rapid.IntRange(2, 10).Draw(t, "laglen")
		}
		for i := rapid.IntRange(0, 3).Draw(t, "npartial"); i > 0; i-- {
			at := rapid.IntRange(0, len(c.Blocks)-1).Draw(t, "partialat")
			if c.LagLen > 0 && rapid.Bool().Draw(t, "partialinlag") {
				at = c.LagFrom + rapid.IntRange(0, c.LagLen).Draw(t, "partialoff")
			}
			c.Partial = append(c.Partial, [2]int{at, rapid.IntRange(1, 6).Draw(t, "partialsteps")})
		}
		// a rescan request (rescan API, alias update, account deletion) at some point, preferably while the wallet lags
		if rapid.IntRange(0, 3).Draw(t, "rescanq") == 0 {
			for i := rapid.IntRange(1, 2).Draw(t, "nrescan"); i > 0; i-- {
				at := rapid.IntRange(0, len(c.Blocks)-1).Draw(t, "rescan")
				if len(c.Lazy) > 0 && rapid.Bool().Draw(t, "rescanlazy") {
					at = c.Lazy[rapid.IntRange(0, len(c.Lazy)-1).Draw(t, "rescanat")] + rapid.IntRange(0, 1).Draw(t, "rescanoff")
				}
				c.Rescan = append(c.Rescan, at)
			}
		}
		return c
	}
}

type judgeMode int

const (
	judgeRescan judgeMode = iota
	judgeMaturity
)

func walletExec(mode judgeMode) func(c wCase, x *pbt.Ctx) error {
	return func(c wCase, x *pbt.Ctx) error {
		if len(c.Accts) == 0 || len(c.Blocks) == 0 {
			return nil
		}
		e, err := newEnv(c.Params, c.Accts, 2)
		if e != nil {
			defer e.close()
		}
		if err != nil {
			return err
		}
		w := e.w
		// the whole tree is built first: transactions of a block are resolved against the model state of its parent
		kindCount := map[string]int{}
		for bi, b := range c.Blocks {
			parent := bi - abs(b.Back)
			if parent < 0 {
				parent = 0
			}
			_, kinds, err := e.addBlock(parent, b)
			if err != nil {
				return err
			}
			for _, k := range kinds {
				kindCount[k]++
			}
		}
		nb := len(w.Blocks) - 1
		order := ck.ApplyOrder(c.Order, nb)
		lazy := map[int]bool{}
		for _, l := range c.Lazy {
			lazy[abs(l)%nb] = true
		}

		for k := 0; k < c.LagLen && k < 12; k++ {
			lazy[(abs(c.LagFrom)+k)%nb] = true
		}
		partial := map[int]int{}
		for _, pp := range c.Partial {
			if pp[1] > 0 {
				partial[abs(pp[0])%nb] = pp[1]
				delete(lazy, abs(pp[0])%nb)
			}
		}
		rescan := map[int]bool{}
		for _, r := range c.Rescan {
			rescan[abs(r)%nb] = true
		}
		rescans, partials := 0, 0

		var hist []string // what the wallet did, for the failure message
		restored := map[bc.Hash]int{}
		accepted := map[int]bool{0: true}
		reorgs, lagged, shrank, refused := 0, 0, 0, 0
		prevHeight := uint64(0)
		var detVote, detVeto, detSpend, detCB bool
		judgedRestored := map[string]bool{}
		usable := map[string]bool{}

		for k, i := range order {
			orphan, derr := e.n.Deliver(i)
			if derr != nil {
				// a block that does not descend from the last finalized checkpoint is refused by design (DESIGN 4.7)
				offFinal := false
				if fh, ferr := e.n.Chain.LastFinalizedHeader(); ferr == nil {
					if fi, ok := w.ByHash[fh.Hash()]; ok && !w.IsAncestor(fi, i) {
						offFinal = true
					}
				}
				if accepted[w.Blocks[i].Parent] && !offFinal {
					return fmt.Errorf("HARNESS-SUSPECT: node refuses block %s that the model holds valid: %v", e.describeBlock(i), derr)
				}
				refused++
			} else if !orphan {
				// the block and every orphan that waited for it are now stored
				accepted[i] = true
				for again := true; again; {
					again = false
					for j := 1; j <= nb; j++ {
						if !accepted[j] && accepted[w.Blocks[j].Parent] && e.n.Has(j) {
							accepted[j], again = true, true
						}
					}
				}
			}
			if h := e.n.Chain.BestBlockHeight(); h < prevHeight {
				shrank++
				prevHeight = h
			} else {
				prevHeight = h
			}
			last := k == len(order)-1
			if rescan[k] {
				e.wal.VerifRescan()
				rescans++
				hist = append(hist, fmt.Sprintf("rescan requested after delivery of #%d", i))
			}
			if lazy[k] && !last {
				lagged++
				hist = append(hist, fmt.Sprintf("deliver #%d (wallet does not run)", i))
				continue
			}
			maxSteps := -1
			if s, ok := partial[k]; ok && !last {
				maxSteps = s
			}
			l, err := e.steps(e.wal, maxSteps)
			if err != nil {
				return fmt.Errorf("after delivery of block #%d: %v\nhistory: %s", i, err, strings.Join(hist, " | "))
			}
			ev := fmt.Sprintf("deliver #%d", i)
			if len(l.detached) > 0 {
				reorgs++
				var ds []string
				for _, d := range l.detached {
					ds = append(ds, e.describeBlock(d))
					vo, ve, sp, cb := e.touchesWallet(d)
					detVote, detVeto, detSpend, detCB = detVote || vo, detVeto || ve, detSpend || sp, detCB || cb
					for _, tx := range w.Blocks[d].Block.Transactions {
						for _, in := range tx.Inputs {
							if in.InputType() != types.SpendInputType && in.InputType() != types.VetoInputType {
								continue
							}
							if _, ok := e.byPrg[string(in.ControlProgram())]; ok {
								id, _ := in.SpentOutputID()
								restored[id] = d
							}
						}
					}
				}
				ev += " => wallet detaches " + strings.Join(ds, ", ")
			}
			if len(l.attached) > 0 {
				var as []string
				for _, a := range l.attached {
					as = append(as, e.describeBlock(a))
				}
				ev += " => wallet attaches " + strings.Join(as, ", ")
			}
			if maxSteps >= 0 {
				// the updater was interrupted: nothing is judged until it has caught up
				partials++
				hist = append(hist, ev+fmt.Sprintf(" (updater stopped after %d actions)", maxSteps))
				continue
			}
			hist = append(hist, ev)

			best := e.n.BestIdx()
			if best < 0 {
				return fmt.Errorf("HARNESS: best block is not a block of the world")
			}
			st := e.wal.GetWalletStatusInfo()
			if st.BestHash != w.Hash(best) || st.WorkHash != w.Hash(best) {
				return fmt.Errorf("wallet updater is quiescent at height %d (%s) but the chain's best block is #%d at height %d\nhistory: %s",
					st.BestHeight, st.BestHash.String(), best, w.Blocks[best].Block.Height, strings.Join(hist, " | "))
			}

			switch mode {
			case judgeRescan:
				if err := e.compareWithRescan(); err != nil {
					return fmt.Errorf("wallet UTXO views differ from a rescan of the main chain ending at block #%d (height %d):\n  %v\nhistory: %s",
						best, w.Blocks[best].Block.Height, err, strings.Join(hist, "\n  | "))
				}
			case judgeMaturity:
				cur := e.n.Chain.BestBlockHeight()
				model := w.Blocks[best].State
				for _, prefix := range []string{account.UTXOPreFix, account.SUTXOPrefix} {
					recs, err := rawRecords(e.wal.DB, prefix)
					if err != nil {
						return err
					}
					for _, u := range recs {
						if u.ValidHeight > cur {
							continue // the wallet itself calls it immature (account/utxo_keeper.go findUtxos, ReserveParticular)
						}
						mu, ok := model.Utxos[u.OutputID]
						if !ok {
							// not an unspent output of the main chain at all: that is C24's subject, not a maturity question
							x.Class("record-not-on-main-chain(C24)")
							continue
						}
						kind := [...]string{"normal", "coinbase", "vote"}[mu.Kind]
						_, wasRestored := restored[u.OutputID]
						usable[kind] = true
						if wasRestored {
							judgedRestored[kind] = true
						}
						// consensus (protocol/state/utxo_view.go applySpendUtxo) for a block at height H:
						//   coinbase: created + 10 <= H ;  vote: created + VotePendingBlockNums(H) <= H
						// the earliest block a transaction built now can be in has H = cur+1
						if !w.P.Spendable(mu, cur+1) {
							why := fmt.Sprintf("created at height %d, coinbase maturity 10", mu.Height)
							if mu.Kind == ck.KindVote {
								why = fmt.Sprintf("created at height %d, vote lock at height %d is %d blocks (lock at its creation height: %d)", mu.Height, cur+1, w.P.Lock(cur+1), w.P.Lock(mu.Height))
							}
							origin := "never detached"
							if wasRestored {
								origin = fmt.Sprintf("restored when the wallet detached block #%d that spent it", restored[u.OutputID])
							}
							return fmt.Errorf("at height %d the wallet holds %s output %s (account %s) with ValidHeight %d <= %d, i.e. usable, but consensus refuses to spend it in a block at height %d: %s; %s\nhistory: %s",
								cur, kind, u.OutputID.String(), e.alias[u.AccountID], u.ValidHeight, cur, cur+1, why, origin, strings.Join(hist, "\n  | "))
						}
					}
				}
			}
		}

		for k, n := range kindCount {
			if n > 0 {
				x.Class("tx:" + k)
			}
		}
		x.Class("reorgs-%d", min(reorgs, 3))
		if lagged > 0 {
			x.Class("wallet-lagged")
		}
		if rescans > 0 {
			x.Class("rescan-requested")
		}
		if partials > 0 {
			x.Class("updater-interrupted")
		}
		if c.LagLen > 0 {
			x.Class("lag-window")
		}
		if shrank > 0 {
			x.Class("chain-got-shorter")
		}
		if refused > 0 {
			x.Class("block-off-the-finalized-checkpoint-refused")
		}
		if len(c.Order) > 0 {
			x.Class("shuffled-delivery")
		}
		multi := false
		for _, a := range c.Accts {
			multi = multi || a.Multi
		}
		if multi {
			x.Class("multisig-account")
		}
		if c.Params.VoteLock2 != 0 && c.Params.VoteLockSwitch != 0 {
			x.Class("two-vote-lock-ranges")
		}
		switch mode {
		case judgeRescan:
			if detVote {
				x.Class("detached-wallet-vote-output")
			}
			if detVeto {
				x.Class("detached-veto-of-wallet-output")
			}
			if detSpend {
				x.Class("detached-spend-of-wallet-output")
			}
			if detCB {
				x.Class("detached-wallet-coinbase-output")
			}
			x.NonTrivial = detVote || detVeto || detSpend
		case judgeMaturity:
			for k := range usable {
				x.Class("judged-usable-" + k)
			}
			for k := range judgedRestored {
				x.Class("judged-usable-restored-" + k)
			}
			x.NonTrivial = judgedRestored["coinbase"] || judgedRestored["vote"]
		}
		return nil
	}
}

func TestC24(t *testing.T) {
	pbt.Run(t, "C24", "block trees of up to 60 blocks built as runs that start 0-4 blocks behind the previous block (a longer run reorganises), 1-3 wallet accounts (single key / 2-of-3) with 3 programs each; blocks pay wallet programs (normal, vote, issued asset, coinbase rewards) and carry wallet-signed spends, vetoes, votes and asset transfers of wallet outputs resolved against the model state of the parent; blocks are delivered in order or shuffled, the wallet updater (VerifStep) runs to quiescence after each delivery except at 'lazy' positions; after each quiescence every GetAccountUtxos view (all/each account x smart-contract flag x vote flag) and the raw ACU:/SCU: records equal those of a fresh wallet database with the same accounts that followed only the current main chain, on output id, asset, amount, program, account, vote key; non-trivial = the wallet detached a block containing a wallet vote output or a veto/spend of a wallet output; distinct = case JSON",
		pbt.Options{Checks: pbt.Per(400, 24000), MinClass: map[string]int{"detached-wallet-vote-output": 20, "detached-veto-of-wallet-output": 10, "detached-spend-of-wallet-output": 10, "chain-got-shorter": 10}}, genWCase(0, 6, 2, 7, []uint64{3, 4}, 14), walletExec(judgeRescan))
}
