package walletcheck

import (
	"testing"

	"pgregory.net/rapid"

	ck "verifharness/chainkit"
	"verifharness/pbt"
)

// C24, sub-check "two-reorgs-behind": a three-branch tree and a wallet that falls behind across two
// reorganisations.  A common prefix pays the wallet; branch A spends a wallet output; the longer
// branch B, forking below the spender, spends a wallet output as well (the same selector, so
// usually the same output); the still longer branch C, forking at the same place, does not.  The
// wallet follows the chain up to the tip of A, does not run while B arrives, takes a few single
// steps (detach A's blocks, perhaps attach some of B's) and stops again, C arrives, and at the end
// the wallet catches up.  Oracle as in the main sub-check: the wallet equals a fresh wallet that
// followed only the final main chain.

func genWTwoReorgs(t *rapid.T) wCase {
	c := wCase{Params: ck.Params{Epoch: rapid.SampledFrom([]uint64{4, 6}).Draw(t, "epoch"), Validators: 1, NodeKey: -1, MinVotes: 1000000000000000, VoteLock: 2}, Accts: genAccts(t)}
	pre := rapid.IntRange(1, 3).Draw(t, "pre")
	for i := 0; i < pre; i++ {
		b := wBlock{Txs: []wTx{genWTx(t, []string{"pay", "pay", "payvote"})}}
		if rapid.Bool().Draw(t, "pre2") {
			b.Txs = append(b.Txs, genWTx(t, []string{"pay", "payvote", "issuepay"}))
		}
		c.Blocks = append(c.Blocks, b)
	}
	spend := genWTx(t, []string{"wspend", "wspend", "wveto", "wxfer", "wmerge"})
	la := rapid.IntRange(1, 2).Draw(t, "la")
	lb := la + rapid.IntRange(1, 2).Draw(t, "lb")
	lc := lb + rapid.IntRange(1, 2).Draw(t, "lc")
	run := func(n, back int, first []wTx) {
		for i := 0; i < n; i++ {
			b := wBlock{}
			if i == 0 {
				b.Back, b.Txs = back, first
			} else if rapid.IntRange(0, 2).Draw(t, "extra") == 0 {
				b.Txs = []wTx{genWTx(t, []string{"pay", "wspend", "payvote"})}
			}
			c.Blocks = append(c.Blocks, b)
		}
	}
	run(la, 0, []wTx{spend})
	spendB := spend
	if rapid.IntRange(0, 3).Draw(t, "otherspend") == 0 {
		spendB = genWTx(t, []string{"wspend", "wveto", "wxfer"})
	}
	run(lb, la, []wTx{spendB})
	var firstC []wTx
	if rapid.IntRange(0, 2).Draw(t, "cpay") == 0 {
		firstC = []wTx{genWTx(t, []string{"pay", "payvote"})}
	}
	run(lc, la+lb, firstC) // Back counts block indexes: behind all of B and all of A
	// deliveries in index order; the wallet does not run from the first block of B on, except for
	// one or two short bursts of single steps once B is the main chain
	firstB := pre + la
	for k := firstB; k < len(c.Blocks)-1; k++ {
		c.Lazy = append(c.Lazy, k)
	}
	bMain := firstB + la // delivery of the block that makes B longer than A
	c.Partial = append(c.Partial, [2]int{bMain + rapid.IntRange(0, lb-la-1).Draw(t, "p1at"), rapid.IntRange(1, la+2).Draw(t, "p1steps")})
	if rapid.IntRange(0, 2).Draw(t, "p2q") == 0 {
		c.Partial = append(c.Partial, [2]int{firstB + lb + rapid.IntRange(0, lc-1).Draw(t, "p2at"), rapid.IntRange(1, 4).Draw(t, "p2steps")})
	}
	return c
}

func TestC24TwoReorgs(t *testing.T) {
	pbt.Run(t, "C24", "three-branch trees: a prefix of 1-3 blocks paying the wallet, branch A (1-2 blocks) spending a wallet output, a longer branch B forking below it that spends a wallet output chosen by the same selector, a still longer branch C forking at the same place without that spend; the wallet follows up to the tip of A, does not run while B and C arrive except for one or two bursts of 1-4 single steps once B is the main chain, and catches up at the end; oracle of the main sub-check (the wallet equals a fresh wallet that followed only the final main chain); non-trivial as in the main sub-check; distinct = case JSON",
		pbt.Options{Sub: "two-reorgs-behind", Checks: pbt.Per(150, 9000)}, genWTwoReorgs, walletExec(judgeRescan))
}
