package walletcheck

import (
	"testing"

	"pgregory.net/rapid"

	ck "verifharness/chainkit"
	"verifharness/pbt"
)

// C25, sub-check "relock": a vote-lock schedule whose later range is longer than the first (as on
// the main network: 14 400 blocks, then 302 400).  A wallet vote output is created early, becomes
// usable under the short lock and is vetoed on branch A before the schedule changes; the chain then
// reorganises to a longer branch B that forks below the veto and runs across the change.  The
// wallet restores the output when it detaches the veto block; from then on whatever it reports as
// usable must be spendable under the lock in force at the next height, which around the change is
// the long one.

func genWRelock(t *rapid.T) wCase {
	lock1 := uint64(rapid.IntRange(1, 3).Draw(t, "lock1"))
	sw := uint64(rapid.IntRange(5, 9).Draw(t, "switch"))
	c := wCase{Params: ck.Params{Epoch: rapid.SampledFrom([]uint64{3, 4, 30}).Draw(t, "epoch"), Validators: 1, NodeKey: -1, MinVotes: 1000000000000000,
		VoteLock: lock1, VoteLock2: uint64(rapid.IntRange(4, 14).Draw(t, "lock2")), VoteLockSwitch: sw}, Accts: genAccts(t)}
	// the vote output is created in block 1 or 2
	pre := rapid.IntRange(1, 2).Draw(t, "pre")
	for i := 0; i < pre; i++ {
		b := wBlock{}
		if i == pre-1 {
			b.Txs = []wTx{genWTx(t, []string{"payvote"})}
			if rapid.Bool().Draw(t, "two") {
				b.Txs = append(b.Txs, genWTx(t, []string{"payvote", "pay"}))
			}
		}
		c.Blocks = append(c.Blocks, b)
	}
	// wait until it is usable under the first lock, veto it below the switch height
	vetoAt := pre + int(lock1) + rapid.IntRange(0, 2).Draw(t, "wait") // height of the veto block
	if uint64(vetoAt) >= sw {
		vetoAt = int(sw) - 1
	}
	for len(c.Blocks) < vetoAt-1 {
		c.Blocks = append(c.Blocks, wBlock{})
	}
	forkBelow := len(c.Blocks)
	veto := genWTx(t, []string{"wveto", "wveto", "wvote"})
	veto.Pick = 0
	la := rapid.IntRange(1, 2).Draw(t, "la")
	for i := 0; i < la; i++ {
		b := wBlock{}
		if i == 0 {
			b.Txs = []wTx{veto}
		}
		c.Blocks = append(c.Blocks, b)
	}
	// branch B: forks below the veto block, longer than A, and runs across the switch height
	lb := la + rapid.IntRange(1, 3).Draw(t, "lb") + int(sw) - forkBelow
	if lb > 14 {
		lb = 14
	}
	for i := 0; i < lb && len(c.Blocks) < 40; i++ {
		b := wBlock{}
		if i == 0 {
			b.Back = la
		}
		if rapid.IntRange(0, 3).Draw(t, "btx") == 0 {
			b.Txs = []wTx{genWTx(t, []string{"pay", "wspend"})}
		}
		c.Blocks = append(c.Blocks, b)
	}
	if rapid.IntRange(0, 2).Draw(t, "lazyq") == 0 {
		c.Lazy = []int{forkBelow + la + rapid.IntRange(0, 2).Draw(t, "lazy")}
	}
	return c
}

func TestC25Relock(t *testing.T) {
	pbt.Run(t, "C25", "vote-lock schedules whose second range (4-14 blocks from height 5-9 on) is longer than the first (1-3 blocks); a wallet vote output created in block 1-2, vetoed on branch A below the height where the schedule changes, then a longer branch B forking below the veto and running across the change; judgement of the main sub-check after every quiescence of the wallet updater; non-trivial as in the main sub-check; distinct = case JSON",
		pbt.Options{Sub: "relock", Checks: pbt.Per(200, 9000), MinClass: map[string]int{"judged-usable-restored-vote": 5}}, genWRelock, walletExec(judgeMaturity))
}
