package walletcheck

import (
	"testing"

	"verifharness/pbt"
)

// C25: every wallet UTXO the wallet reports as usable at the current height h (ValidHeight <= h,
// the test account/utxo_keeper.go applies in findUtxos and ReserveParticular) can be spent by
// consensus in a block at height h+1:
//
//	coinbase: created + 10 <= h+1        vote: created + VotePendingBlockNums(h+1) <= h+1
//
// (protocol/state/utxo_view.go applySpendUtxo with block.Height = h+1; chainkit Params.Spendable is
// the same rule restated).  Also for outputs that a reorganisation restored by detaching the
// block that spent them.  Shares the executor of C24 (c24_test.go), with the maturity judgement.
func TestC25(t *testing.T) {
	pbt.Run(t, "C25", "histories as in C24 with epoch length 3, a linear prefix of 12-22 blocks in which wallet programs collect coinbase rewards (so that reward outputs mature and get spent later), vote locks 2-3 with an optional second lock range (1-5 blocks from height 3-12 on), then runs of blocks that reorganise; after each quiescence of the wallet updater every stored UTXO record with ValidHeight <= current height that is an unspent output of the main chain must satisfy the consensus spending rule for a block at height current+1 (coinbase: created+10 <= h+1; vote: created+lock(h+1) <= h+1); non-trivial = a judged usable coinbase or vote output had been restored by the wallet detaching the block that spent it; distinct = case JSON",
		pbt.Options{Checks: pbt.Per(500, 24000), MinClass: map[string]int{"judged-usable-restored-coinbase": 10, "judged-usable-restored-vote": 10, "chain-got-shorter": 10}}, genWCase(12, 22, 2, 6, []uint64{3}, 24), walletExec(judgeMaturity))
}
