package walletcheck

import (
	"sync"

	dbm "github.com/bytom/bytom/database/leveldb"
)

// softDB is the node's database for one case.  Goroutines of the chain (the finality engine's
// replay loop) outlive the case and may still read the store; the production wrapper panics on a
// closed database, and leaving thousands of databases open costs ~5 MB each.  After close() this
// wrapper releases the real database and answers "not found" / ignores writes instead.
type softDB struct {
	dbm.DB
	mu     sync.RWMutex
	closed bool
}

func (s *softDB) close() {
	s.mu.Lock()
	defer s.mu.Unlock()
	if !s.closed {
		s.closed = true
		s.DB.Close()
	}
}

func (s *softDB) Close() { s.close() }

func (s *softDB) Get(k []byte) []byte {
	s.mu.RLock()
	defer s.mu.RUnlock()
	if s.closed {
		return nil
	}
	return s.DB.Get(k)
}

func (s *softDB) write(f func()) {
	s.mu.RLock()
	defer s.mu.RUnlock()
	if !s.closed {
		f()
	}
}

func (s *softDB) Set(k, v []byte)     { s.write(func() { s.DB.Set(k, v) }) }
func (s *softDB) SetSync(k, v []byte) { s.write(func() { s.DB.SetSync(k, v) }) }
func (s *softDB) Delete(k []byte)     { s.write(func() { s.DB.Delete(k) }) }
func (s *softDB) DeleteSync(k []byte) { s.write(func() { s.DB.DeleteSync(k) }) }

type softBatch struct {
	s     *softDB
	inner dbm.Batch
}

func (b *softBatch) Set(k, v []byte) {
	if b.inner != nil {
		b.inner.Set(k, v)
	}
}
func (b *softBatch) Delete(k []byte) {
	if b.inner != nil {
		b.inner.Delete(k)
	}
}
func (b *softBatch) Write() {
	if b.inner != nil {
		b.s.write(b.inner.Write)
	}
}

func (s *softDB) NewBatch() dbm.Batch {
	s.mu.RLock()
	defer s.mu.RUnlock()
	if s.closed {
		return &softBatch{s: s}
	}
	return &softBatch{s: s, inner: s.DB.NewBatch()}
}

type emptyIter struct{}

func (emptyIter) Next() bool       { return false }
func (emptyIter) Key() []byte      { return nil }
func (emptyIter) Value() []byte    { return nil }
func (emptyIter) Seek([]byte) bool { return false }
func (emptyIter) Release()         {}
func (emptyIter) Error() error     { return nil }

func (s *softDB) Iterator() dbm.Iterator {
	s.mu.RLock()
	defer s.mu.RUnlock()
	if s.closed {
		return emptyIter{}
	}
	return s.DB.Iterator()
}

func (s *softDB) IteratorPrefix(p []byte) dbm.Iterator {
	s.mu.RLock()
	defer s.mu.RUnlock()
	if s.closed {
		return emptyIter{}
	}
	return s.DB.IteratorPrefix(p)
}

func (s *softDB) IteratorPrefixWithStart(p, start []byte, rev bool) dbm.Iterator {
	s.mu.RLock()
	defer s.mu.RUnlock()
	if s.closed {
		return emptyIter{}
	}
	return s.DB.IteratorPrefixWithStart(p, start, rev)
}
