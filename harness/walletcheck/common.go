// Package walletcheck holds the wallet checks C24, C25 and C27: a real wallet.Wallet (built
// without its background goroutines and stepped explicitly) follows a real protocol.Chain
// that is fed generated block trees built by chainkit.
package walletcheck

import (
	"context"
	"encoding/binary"
	"encoding/hex"
	"encoding/json"
	"errors"
	"fmt"
	"io"
	"sort"
	"strings"
	"time"

	log "github.com/sirupsen/logrus"

	"github.com/bytom/bytom/account"
	"github.com/bytom/bytom/asset"
	"github.com/bytom/bytom/blockchain/signers"
	"github.com/bytom/bytom/blockchain/txbuilder"
	"github.com/bytom/bytom/consensus"
	"github.com/bytom/bytom/contract"
	"github.com/bytom/bytom/crypto/ed25519/chainkd"
	dbm "github.com/bytom/bytom/database/leveldb"
	bterrors "github.com/bytom/bytom/errors"
	"github.com/bytom/bytom/protocol/bc"
	"github.com/bytom/bytom/protocol/bc/types"
	"github.com/bytom/bytom/wallet"

	ck "verifharness/chainkit"
)

func init() {
	log.SetOutput(io.Discard)
	log.SetLevel(log.PanicLevel)
}

var (
	btm      = *consensus.BTMAssetID
	progTrue = []byte{0x51}
	// a fixed instant: the builder only uses it as the expiry of UTXO reservations, which nothing expires here
	farFuture = time.Unix(4102444800, 0)
)

const (
	harnessFee = uint64(20000000) // fee of transactions spending harness-owned OP_TRUE outputs
	walletFee  = uint64(10000000) // fee of transactions spending wallet outputs (gas: 50 000 units)
	unit       = consensus.MinVoteOutputAmount
)

// acctDesc describes one wallet account: one key, or three keys with quorum two.
type acctDesc struct {
	Multi bool `json:"multi"`
	Key   int  `json:"key"` // index of the (first) chainkit key; a multi-signature account uses Key, Key+1, Key+2
}

func (a acctDesc) keyIdx() []int {
	k := a.Key
	if k < 0 {
		k = -k
	}
	if !a.Multi {
		return []int{k % ck.NumKeys}
	}
	return []int{k % ck.NumKeys, (k + 1) % ck.NumKeys, (k + 2) % ck.NumKeys}
}

// env is one node with one wallet.
type env struct {
	w       *ck.World
	n       *ck.Node
	db      dbm.DB
	mgr     *account.Manager
	wal     *wallet.Wallet
	descs   []acctDesc
	accts   []*account.Account
	progs   []*account.CtrlProgram // every control program of the wallet, in creation order
	owner   []int                  // account index of each program
	byPrg   map[string]int
	alias   map[string]string // account id -> alias
	seed    [][2][]byte       // content of the wallet database after account set-up, before the wallet saw any block
	dbs     []dbm.DB
	scratch dbm.DB
}

func (e *env) close() {
	e.n.Stop()
	for _, d := range e.dbs {
		d.Close()
	}
}

func (e *env) newDB() dbm.DB {
	d := ck.NewMemDB()
	e.dbs = append(e.dbs, d)
	return d
}

// newEnv starts a node on the genesis of a fresh world and creates the wallet accounts with
// `addrs` receiving programs and one change program each.
func newEnv(p ck.Params, descs []acctDesc, addrs int) (*env, error) {
	e := &env{w: ck.NewWorld(p), descs: descs, byPrg: map[string]int{}, alias: map[string]string{}}
	ndb := &softDB{DB: ck.NewMemDB()}
	e.dbs = append(e.dbs, ndb)
	n, err := ck.NewNode(e.w, ndb)
	if err != nil {
		return nil, fmt.Errorf("HARNESS: cannot start node: %v", err)
	}
	e.n = n
	e.db = e.newDB()
	e.mgr = account.VerifNewManager(e.db, n.Chain)
	for i, d := range descs {
		var xpubs []chainkd.XPub
		for _, k := range d.keyIdx() {
			xpubs = append(xpubs, ck.Key(k).XPub())
		}
		quorum := 1
		if d.Multi {
			quorum = 2
		}
		a, err := e.mgr.Create(xpubs, quorum, fmt.Sprintf("acct%d", i), signers.BIP0044)
		if err != nil {
			return nil, fmt.Errorf("HARNESS: cannot create account %d: %v", i, err)
		}
		e.accts = append(e.accts, a)
		e.alias[a.ID] = a.Alias
		for k := 0; k <= addrs; k++ {
			cp, err := e.mgr.CreateAddress(a.ID, k == addrs)
			if err != nil {
				return nil, fmt.Errorf("HARNESS: cannot create address: %v", err)
			}
			e.byPrg[string(cp.ControlProgram)] = len(e.progs)
			e.progs = append(e.progs, cp)
			e.owner = append(e.owner, i)
		}
	}
	it := e.db.Iterator()
	for it.Next() {
		e.seed = append(e.seed, [2][]byte{append([]byte{}, it.Key()...), append([]byte{}, it.Value()...)})
	}
	it.Release()
	e.wal, err = e.openWallet(e.db, e.mgr)
	return e, err
}

func (e *env) openWallet(db dbm.DB, mgr *account.Manager) (*wallet.Wallet, error) {
	w, err := wallet.VerifNewWallet(db, mgr, asset.NewRegistry(db, e.n.Chain), contract.NewRegistry(db), nil, e.n.Chain, e.n.Disp, false)
	if err != nil {
		return nil, fmt.Errorf("HARNESS: cannot open wallet: %v", err)
	}
	return w, nil
}

// rescan opens a wallet over a fresh database holding the same accounts and lets it follow
// the current main chain from genesis.
func (e *env) rescan() (*wallet.Wallet, error) {
	// one scratch database per case, emptied before every rescan (opening a database allocates its 4 MiB write buffer)
	if e.scratch == nil {
		e.scratch = e.newDB()
	}
	db := e.scratch
	b := db.NewBatch()
	it := db.Iterator()
	for it.Next() {
		b.Delete(append([]byte{}, it.Key()...))
	}
	it.Release()
	b.Write()
	b = db.NewBatch()
	for _, kv := range e.seed {
		b.Set(kv[0], kv[1])
	}
	b.Write()
	w, err := e.openWallet(db, account.VerifNewManager(db, e.n.Chain))
	if err != nil {
		return nil, err
	}
	for i := 0; ; i++ {
		r, err := w.VerifStep()
		if err != nil {
			return nil, fmt.Errorf("HARNESS: rescan: %v", err)
		}
		if r.Detached {
			return nil, fmt.Errorf("HARNESS: rescan wallet detached a block")
		}
		if !r.Attached {
			return w, nil
		}
		if i > 10000 {
			return nil, fmt.Errorf("HARNESS: rescan does not terminate")
		}
	}
}

// ---------------------------------------------------------------------------------------------
// signing: what the HSM does (derive the child key along the path, sign), with chainkit keys

func signFn(holders []int) txbuilder.SignFunc {
	return func(_ context.Context, xpub chainkd.XPub, path [][]byte, data [32]byte, _ string) ([]byte, error) {
		for _, k := range holders {
			prv := ck.Key(k)
			if prv.XPub() != xpub {
				continue
			}
			if len(path) > 0 {
				prv = prv.Derive(path)
			}
			return prv.Sign(data[:]), nil
		}
		return nil, errors.New("key not held")
	}
}

// signAll signs a template with the keys of the given accounts, one key holder per Sign call
// (Sign adds at most one signature per witness and call), skipping `skip` key holders of
// multi-signature accounts first so that different key subsets get used.
func (e *env) signAll(tpl *txbuilder.Template, skip int) error {
	var holders []int
	seen := map[int]bool{}
	for _, d := range e.descs {
		ks := d.keyIdx()
		if d.Multi {
			s := skip % len(ks)
			ks = append(append([]int{}, ks[s:]...), ks[:s]...)
		}
		for _, k := range ks {
			if !seen[k] {
				seen[k] = true
				holders = append(holders, k)
			}
		}
	}
	for _, k := range holders {
		if txbuilder.SignProgress(tpl) {
			break
		}
		if err := txbuilder.Sign(context.Background(), tpl, "", signFn([]int{k})); err != nil {
			return err
		}
	}
	if !txbuilder.SignProgress(tpl) {
		return fmt.Errorf("signatures incomplete after every key holder signed")
	}
	return nil
}

func rawHex(tx *types.Tx) (string, error) {
	b, err := tx.MarshalText()
	return string(b), err
}

// ---------------------------------------------------------------------------------------------
// transactions of generated blocks.  Everything is resolved here against the model state of
// the parent block and handed to chainkit as raw transactions, so that harness transactions
// only ever spend harness-owned (OP_TRUE) outputs and wallet transactions are signed.

type wTx struct {
	Kind string `json:"kind"` // pay paysmall payvote issuepay wspend wveto wvote wxfer wmerge
	Pick int    `json:"pick"`
	To   int    `json:"to"`
	Amt  int    `json:"amt"`
	N    int    `json:"n"`
}

type wBlock struct {
	Back int   `json:"back"` // parent = the block Back positions before the previous one in the block list (0 = extend the previous block); positions, not ancestors
	Skip int   `json:"skip,omitempty"`
	CB   int   `json:"cb,omitempty"` // 0: proposer's own coinbase program; k>0: wallet program k-1
	Txs  []wTx `json:"txs,omitempty"`
	// verification signatures carried in the header; only meaningful when the block turns out to be
	// a checkpoint block.  A justified checkpoint on a shorter branch makes the chain switch to it.
	Sup []ck.SupDesc `json:"sup,omitempty"`
}

type view struct {
	utxos []*ck.Utxo
	h     uint64
}

func abs(x int) int {
	if x < 0 {
		return -x
	}
	return x
}

func (v *view) apply(tx *types.Tx) {
	spent := map[bc.Hash]bool{}
	for _, id := range tx.SpentOutputIDs {
		spent[id] = true
	}
	var keep []*ck.Utxo
	for _, u := range v.utxos {
		if !spent[u.ID] {
			keep = append(keep, u)
		}
	}
	v.utxos = keep
	for oi, out := range tx.Outputs {
		if out.Amount == 0 || (len(out.ControlProgram) > 0 && out.ControlProgram[0] == 0x6a) {
			continue
		}
		id := *tx.ResultIds[oi]
		u := &ck.Utxo{ID: id, Height: v.h, Asset: *out.AssetId, Amount: out.Amount, Program: out.ControlProgram}
		switch en := tx.Entries[id].(type) {
		case *bc.OriginalOutput:
			u.SourceID, u.SourcePos, u.StateData = *en.Source.Ref, en.Source.Position, en.StateData
		case *bc.VoteOutput:
			u.Kind, u.Vote = ck.KindVote, en.Vote
			u.SourceID, u.SourcePos, u.StateData = *en.Source.Ref, en.Source.Position, en.StateData
		}
		v.utxos = append(v.utxos, u)
	}
}

func (v *view) filter(f func(*ck.Utxo) bool) []*ck.Utxo {
	var out []*ck.Utxo
	for _, u := range v.utxos {
		if f(u) {
			out = append(out, u)
		}
	}
	return out
}

func pickU(l []*ck.Utxo, sel int) *ck.Utxo {
	if len(l) == 0 {
		return nil
	}
	return l[abs(sel)%len(l)]
}

func finish(d *types.TxData) *types.Tx {
	d.Version = 1
	raw, err := d.MarshalText()
	if err != nil {
		panic(err)
	}
	tx := &types.Tx{}
	if err := tx.UnmarshalText(raw); err != nil {
		panic(err)
	}
	return tx
}

func harnessInput(u *ck.Utxo) *types.TxInput {
	return types.NewSpendInput(nil, u.SourceID, u.Asset, u.Amount, u.SourcePos, u.Program, u.StateData)
}

func (e *env) prog(sel int) []byte { return e.progs[abs(sel)%len(e.progs)].ControlProgram }

func (e *env) owned(u *ck.Utxo) bool { _, ok := e.byPrg[string(u.Program)]; return ok }

// walletUTXO is the wallet's own record shape for a model output (what AttachBlock would store).
func (e *env) walletUTXO(u *ck.Utxo) *account.UTXO {
	cp := e.progs[e.byPrg[string(u.Program)]]
	return &account.UTXO{OutputID: u.ID, SourceID: u.SourceID, AssetID: u.Asset, Amount: u.Amount, SourcePos: u.SourcePos,
		ControlProgram: u.Program, Vote: u.Vote, AccountID: cp.AccountID, Address: cp.Address, ControlProgramIndex: cp.KeyIndex, Change: cp.Change}
}

// walletTx builds and signs a transaction spending wallet outputs, with the wallet's own
// input construction (account.UtxoToInputs), template builder and signing code.
func (e *env) walletTx(ins []*ck.Utxo, outs []*types.TxOutput, skip int) (*types.Tx, error) {
	b := txbuilder.NewBuilder(farFuture)
	for _, u := range ins {
		acct := e.accts[e.owner[e.byPrg[string(u.Program)]]]
		in, si, err := account.UtxoToInputs(acct.Signer, e.walletUTXO(u))
		if err != nil {
			return nil, err
		}
		if err := b.AddInput(in, si); err != nil {
			return nil, err
		}
	}
	for _, o := range outs {
		if err := b.AddOutput(o); err != nil {
			return nil, err
		}
	}
	tpl, _, err := b.Build()
	if err != nil {
		return nil, err
	}
	if err := e.signAll(tpl, skip); err != nil {
		return nil, err
	}
	return tpl.Transaction, nil
}

var assetDefs = [][]byte{[]byte(`{"name":"A"}`), []byte(`{"name":"B"}`)}

// resolve turns one transaction description into a transaction for a block at height v.h.
func (e *env) resolve(v *view, d wTx, salt uint64) (*types.Tx, error) {
	p := e.w.P
	h := v.h
	harnessBTM := v.filter(func(u *ck.Utxo) bool {
		return u.Asset == btm && u.Kind != ck.KindVote && string(u.Program) == string(progTrue) && p.Spendable(u, h) && u.Amount > 20*unit
	})
	walletBTM := v.filter(func(u *ck.Utxo) bool {
		return u.Asset == btm && u.Kind != ck.KindVote && e.owned(u) && p.Spendable(u, h) && u.Amount >= 3*walletFee
	})
	switch d.Kind {
	case "pay", "payvote", "paysmall":
		a := pickU(harnessBTM, d.Pick)
		if a == nil {
			return nil, nil
		}
		amt := unit*uint64(1+abs(d.Amt)%4) + uint64(abs(d.N)%7)*1000
		if d.Kind == "paysmall" {
			amt = 5000000*uint64(1+abs(d.Amt)%40) + uint64(abs(d.N))
		}
		var out *types.TxOutput
		if d.Kind == "payvote" {
			key := ck.Key(abs(d.N) % ck.NumKeys).XPub()
			out = types.NewVoteOutput(btm, amt, e.prog(d.To), key[:], nil)
		} else {
			out = types.NewOriginalTxOutput(btm, amt, e.prog(d.To), nil)
		}
		return finish(&types.TxData{Inputs: []*types.TxInput{harnessInput(a)},
			Outputs: []*types.TxOutput{out, types.NewOriginalTxOutput(btm, a.Amount-harnessFee-amt, progTrue, nil)}}), nil
	case "issuepay":
		a := pickU(harnessBTM, d.Pick)
		if a == nil {
			return nil, nil
		}
		var nonce [8]byte
		binary.LittleEndian.PutUint64(nonce[:], salt)
		amount := uint64(1000 + abs(d.Amt)%5*700 + abs(d.N)%7)
		iss := types.NewIssuanceInput(nonce[:], amount, progTrue, nil, assetDefs[abs(d.N)%len(assetDefs)])
		return finish(&types.TxData{Inputs: []*types.TxInput{iss, harnessInput(a)},
			Outputs: []*types.TxOutput{types.NewOriginalTxOutput(iss.AssetID(), amount, e.prog(d.To), nil),
				types.NewOriginalTxOutput(btm, a.Amount-harnessFee, progTrue, nil)}}), nil
	case "wspend":
		a := pickU(walletBTM, d.Pick)
		if a == nil {
			return nil, nil
		}
		rest := a.Amount - walletFee
		var outs []*types.TxOutput
		switch abs(d.N) % 4 {
		case 0:
			outs = []*types.TxOutput{types.NewOriginalTxOutput(btm, rest, e.prog(d.To), nil)}
		case 1:
			outs = []*types.TxOutput{types.NewOriginalTxOutput(btm, rest, progTrue, nil)}
		case 2:
			outs = []*types.TxOutput{types.NewOriginalTxOutput(btm, rest/2, e.prog(d.To), nil), types.NewOriginalTxOutput(btm, rest-rest/2, progTrue, nil)}
		default:
			outs = []*types.TxOutput{types.NewOriginalTxOutput(btm, rest/2, e.prog(d.To), nil), types.NewOriginalTxOutput(btm, rest-rest/2, e.prog(d.To+1), nil)}
		}
		return e.walletTx([]*ck.Utxo{a}, outs, d.Amt)
	case "wvote":
		a := pickU(v.filter(func(u *ck.Utxo) bool {
			return u.Asset == btm && u.Kind != ck.KindVote && e.owned(u) && p.Spendable(u, h) && u.Amount >= unit+walletFee
		}), d.Pick)
		if a == nil {
			return nil, nil
		}
		key := ck.Key(abs(d.N) % ck.NumKeys).XPub()
		return e.walletTx([]*ck.Utxo{a}, []*types.TxOutput{types.NewVoteOutput(btm, a.Amount-walletFee, e.prog(d.To), key[:], nil)}, d.Amt)
	case "wveto":
		a := pickU(v.filter(func(u *ck.Utxo) bool {
			return u.Kind == ck.KindVote && e.owned(u) && p.Spendable(u, h) && u.Amount >= 3*walletFee
		}), d.Pick)
		if a == nil {
			return nil, nil
		}
		to := e.prog(d.To)
		if abs(d.N)%3 == 2 {
			to = progTrue
		}
		return e.walletTx([]*ck.Utxo{a}, []*types.TxOutput{types.NewOriginalTxOutput(btm, a.Amount-walletFee, to, nil)}, d.Amt)
	case "wmerge":
		// several wallet inputs of mixed kinds (normal, matured reward, unlocked vote) in one
		// transaction, in an order the selectors choose
		pool := v.filter(func(u *ck.Utxo) bool {
			return u.Asset == btm && e.owned(u) && p.Spendable(u, h) && u.Amount >= 3*walletFee
		})
		if len(pool) < 2 {
			return nil, nil
		}
		k := 2 + abs(d.Amt)%2
		var ins []*ck.Utxo
		seen := map[bc.Hash]bool{}
		var total uint64
		for i := 0; i < k; i++ {
			u := pool[(abs(d.Pick)+i*(1+abs(d.N)))%len(pool)]
			if seen[u.ID] {
				continue
			}
			seen[u.ID] = true
			ins = append(ins, u)
			total += u.Amount
		}
		if len(ins) < 2 {
			return nil, nil
		}
		to := e.prog(d.To)
		if abs(d.N)%4 == 3 {
			to = progTrue
		}
		return e.walletTx(ins, []*types.TxOutput{types.NewOriginalTxOutput(btm, total-walletFee, to, nil)}, d.Amt)
	case "wxfer":
		a := pickU(v.filter(func(u *ck.Utxo) bool { return u.Asset != btm && u.Kind == ck.KindNormal && e.owned(u) }), d.Pick)
		g := pickU(walletBTM, d.Pick/3)
		if a == nil || g == nil {
			return nil, nil
		}
		to := e.prog(d.To)
		if abs(d.N)%3 == 2 {
			to = progTrue
		}
		return e.walletTx([]*ck.Utxo{a, g}, []*types.TxOutput{types.NewOriginalTxOutput(a.Asset, a.Amount, to, nil),
			types.NewOriginalTxOutput(btm, g.Amount-walletFee, e.prog(d.To+2), nil)}, d.Amt)
	}
	return nil, fmt.Errorf("HARNESS: unknown transaction kind %q", d.Kind)
}

// addBlock resolves one block description on top of world block `parent` and adds it to the world.
func (e *env) addBlock(parent int, b wBlock) (int, []string, error) {
	par := e.w.Blocks[parent]
	v := &view{utxos: par.State.Sorted(), h: par.Block.Height + 1}
	bd := ck.BlockDesc{Parent: parent, Skip: b.Skip, Sup: b.Sup}
	if b.CB > 0 {
		bd.CoinbaseProg = hex.EncodeToString(e.prog(b.CB - 1))
	}
	var kinds []string
	for ti, d := range b.Txs {
		tx, err := e.resolve(v, d, uint64(len(e.w.Blocks))<<16|uint64(ti))
		if err != nil {
			return 0, nil, fmt.Errorf("HARNESS: building a %s transaction at height %d: %v", d.Kind, v.h, err)
		}
		if tx == nil {
			continue
		}
		raw, err := rawHex(tx)
		if err != nil {
			return 0, nil, fmt.Errorf("HARNESS: %v", err)
		}
		bd.Raw = append(bd.Raw, raw)
		kinds = append(kinds, d.Kind)
		v.apply(tx)
	}
	idx := e.w.Add(bd)
	info := e.w.Blocks[idx]
	if info.HdrBad != "" || (par.State.Valid && !info.State.Valid) {
		return 0, nil, fmt.Errorf("HARNESS: built block #%d is not valid by the model: %s %s", idx, info.HdrBad, info.State.Why)
	}
	return idx, kinds, nil
}

// ---------------------------------------------------------------------------------------------
// stepping and observation

type stepLog struct {
	detached []int // world indexes, in the order the wallet detached them
	attached []int
}

// quiesce steps the wallet until the updater would wait for a new block.
func (e *env) quiesce(w *wallet.Wallet) (stepLog, error) { return e.steps(w, -1) }

// steps lets the updater take at most max actions (max < 0: until it would wait).
func (e *env) steps(w *wallet.Wallet, max int) (stepLog, error) {
	var l stepLog
	for i := 0; ; i++ {
		if max >= 0 && i >= max {
			return l, nil
		}
		r, err := w.VerifStep()
		if err != nil {
			return l, err
		}
		idx, ok := e.w.ByHash[bc.NewHash(r.Hash)]
		switch {
		case r.Detached:
			if !ok {
				return l, fmt.Errorf("HARNESS: wallet detached a block unknown to the world")
			}
			l.detached = append(l.detached, idx)
		case r.Attached:
			if !ok {
				return l, fmt.Errorf("HARNESS: wallet attached a block unknown to the world")
			}
			l.attached = append(l.attached, idx)
		default:
			return l, nil
		}
		if i > 10000 {
			return l, fmt.Errorf("wallet updater does not reach quiescence after 10000 steps")
		}
	}
}

// urow is the part of a wallet UTXO record the property speaks about.
type urow struct {
	ID      string
	Asset   string
	Amount  uint64
	Program string
	Account string // alias
	Vote    string
}

func (e *env) row(u *account.UTXO) urow {
	al, ok := e.alias[u.AccountID]
	if !ok {
		al = "?" + u.AccountID
	}
	return urow{ID: u.OutputID.String(), Asset: u.AssetID.String(), Amount: u.Amount, Program: hex.EncodeToString(u.ControlProgram), Account: al, Vote: hex.EncodeToString(u.Vote)}
}

func (r urow) String() string {
	kind := "normal"
	if r.Vote != "" {
		kind = "vote for " + r.Vote[:8] + ".."
	}
	asset := r.Asset[:8] + ".."
	if r.Asset == btm.String() {
		asset = "BTM"
	}
	return fmt.Sprintf("%s.. %s %d %s account=%s program=%s", r.ID[:12], kind, r.Amount, asset, r.Account, r.Program)
}

// rawRecords decodes every record stored under one of the two UTXO prefixes.
func rawRecords(db dbm.DB, prefix string) (map[string]*account.UTXO, error) {
	out := map[string]*account.UTXO{}
	it := db.IteratorPrefix([]byte(prefix))
	defer it.Release()
	for it.Next() {
		u := &account.UTXO{}
		if err := json.Unmarshal(it.Value(), u); err != nil {
			return nil, fmt.Errorf("undecodable UTXO record under key %q: %v", it.Key(), err)
		}
		out[string(it.Key())] = u
	}
	return out, nil
}

func diffRows(what string, got, want map[string]urow) []string {
	var msgs []string
	for k, w := range want {
		g, ok := got[k]
		if !ok {
			msgs = append(msgs, fmt.Sprintf("%s: missing %s (the rescan has it)", what, w))
		} else if g != w {
			msgs = append(msgs, fmt.Sprintf("%s: wallet has %s, the rescan has %s", what, g, w))
		}
	}
	for k, g := range got {
		if _, ok := want[k]; !ok {
			msgs = append(msgs, fmt.Sprintf("%s: extra %s (the rescan does not have it)", what, g))
		}
	}
	sort.Strings(msgs)
	return msgs
}

// compareWithRescan compares every view of the wallet's unspent outputs with the same view of
// a wallet that only ever saw the current main chain.
func (e *env) compareWithRescan() error {
	fresh, err := e.rescan()
	if err != nil {
		return err
	}
	var msgs []string
	for _, prefix := range []string{account.UTXOPreFix, account.SUTXOPrefix} {
		g, err := rawRecords(e.wal.DB, prefix)
		if err != nil {
			return err
		}
		w, err := rawRecords(fresh.DB, prefix)
		if err != nil {
			return fmt.Errorf("HARNESS: rescan: %v", err)
		}
		gr, wr := map[string]urow{}, map[string]urow{}
		for k, u := range g {
			gr[k] = e.row(u)
		}
		for k, u := range w {
			wr[k] = e.row(u)
		}
		msgs = append(msgs, diffRows("records under "+prefix, gr, wr)...)
	}
	// the same scan done by the ledger model: the unspent outputs of the main chain that are locked by a wallet program
	if best := e.n.BestIdx(); best >= 0 {
		g, err := rawRecords(e.wal.DB, account.UTXOPreFix)
		if err != nil {
			return err
		}
		gr, wr := map[string]urow{}, map[string]urow{}
		for k, u := range g {
			gr[k] = e.row(u)
		}
		for id, u := range e.w.Blocks[best].State.Utxos {
			pi, ok := e.byPrg[string(u.Program)]
			if !ok {
				continue
			}
			wr[string(account.StandardUTXOKey(id))] = urow{ID: id.String(), Asset: u.Asset.String(), Amount: u.Amount, Program: hex.EncodeToString(u.Program),
				Account: e.accts[e.owner[pi]].Alias, Vote: hex.EncodeToString(u.Vote)}
		}
		for _, m := range diffRows("records under "+account.UTXOPreFix+" against the ledger model of the main chain", gr, wr) {
			msgs = append(msgs, strings.ReplaceAll(m, "the rescan", "the model"))
		}
	}
	ids := []string{""}
	for _, a := range e.accts {
		ids = append(ids, a.ID)
	}
	for _, id := range ids {
		for _, sc := range []bool{false, true} {
			for _, vote := range []bool{false, true} {
				gr, wr := map[string]urow{}, map[string]urow{}
				gl, wl := e.wal.GetAccountUtxos(id, "", false, sc, vote), fresh.GetAccountUtxos(id, "", false, sc, vote)
				for _, u := range gl {
					gr[u.OutputID.String()] = e.row(u)
				}
				for _, u := range wl {
					wr[u.OutputID.String()] = e.row(u)
				}
				if len(gr) != len(gl) || len(wr) != len(wl) {
					msgs = append(msgs, fmt.Sprintf("GetAccountUtxos lists an output twice (%d entries, %d distinct; rescan %d, %d)", len(gl), len(gr), len(wl), len(wr)))
				}
				name := e.alias[id]
				if id == "" {
					name = "all"
				}
				msgs = append(msgs, diffRows(fmt.Sprintf("GetAccountUtxos(account=%s, smartContract=%v, vote=%v)", name, sc, vote), gr, wr)...)
			}
		}
	}
	if len(msgs) == 0 {
		return nil
	}
	// the same difference shows in several views: report the first few distinct lines
	if len(msgs) > 6 {
		msgs = append(msgs[:6], fmt.Sprintf("... and %d more lines", len(msgs)-6))
	}
	return errors.New(strings.Join(msgs, "\n  "))
}

// describeBlock renders the wallet-relevant content of world block i.
func (e *env) describeBlock(i int) string {
	b := e.w.Blocks[i]
	var parts []string
	for ti, tx := range b.Block.Transactions {
		for _, in := range tx.Inputs {
			if in.InputType() == types.CoinbaseInputType || in.InputType() == types.IssuanceInputType {
				continue
			}
			if _, ok := e.byPrg[string(in.ControlProgram())]; ok {
				id, _ := in.SpentOutputID()
				k := "spends"
				if in.InputType() == types.VetoInputType {
					k = "vetoes"
				}
				parts = append(parts, fmt.Sprintf("tx%d %s wallet output %s..", ti, k, id.String()[:12]))
			}
		}
		for oi, o := range tx.Outputs {
			if _, ok := e.byPrg[string(o.ControlProgram)]; ok && o.Amount > 0 {
				k := "output"
				if o.OutputType() == types.VoteOutputType {
					k = "vote output"
				}
				if ti == 0 {
					k = "coinbase output"
				}
				parts = append(parts, fmt.Sprintf("tx%d creates wallet %s %s.. (%d)", ti, k, tx.ResultIds[oi].String()[:12], o.Amount))
			}
		}
	}
	return fmt.Sprintf("#%d(h=%d parent=#%d: %s)", i, b.Block.Height, b.Parent, strings.Join(parts, "; "))
}

// touchesWallet classifies what a block does to wallet outputs.
func (e *env) touchesWallet(i int) (voteOut, veto, spend, cbOut bool) {
	for ti, tx := range e.w.Blocks[i].Block.Transactions {
		for _, in := range tx.Inputs {
			if in.InputType() != types.SpendInputType && in.InputType() != types.VetoInputType {
				continue
			}
			if _, ok := e.byPrg[string(in.ControlProgram())]; ok {
				if in.InputType() == types.VetoInputType {
					veto = true
				} else {
					spend = true
				}
			}
		}
		for _, o := range tx.Outputs {
			if _, ok := e.byPrg[string(o.ControlProgram)]; ok && o.Amount > 0 {
				if o.OutputType() == types.VoteOutputType {
					voteOut = true
				}
				if ti == 0 {
					cbOut = true
				}
			}
		}
	}
	return
}

// errorsData renders the per-action errors a failed Build carries.
func errorsData(err error) string {
	acts, ok := bterrors.Data(err)["actions"].([]error)
	if !ok {
		return ""
	}
	var parts []string
	for _, a := range acts {
		parts = append(parts, a.Error())
	}
	return strings.Join(parts, "; ")
}
