package walletcheck

import (
	"context"
	"encoding/json"
	"fmt"
	"strings"
	"testing"

	"pgregory.net/rapid"

	"github.com/bytom/bytom/account"
	"github.com/bytom/bytom/blockchain/txbuilder"
	"github.com/bytom/bytom/protocol/bc"
	"github.com/bytom/bytom/protocol/bc/types"
	"github.com/bytom/bytom/protocol/validation"

	ck "verifharness/chainkit"
	"verifharness/pbt"
)

// C27, sub-check "chain": the second funding path of account/builder.go, the one
// POST /build-chain-transactions uses for BTM spends (api.buildTxs -> account.SpendAccountChain ->
// reserveBtmUtxoChain + buildBtmTxChain).  Many small outputs are merged through a chain of merge
// transactions (at most five inputs each, each leaving 0.06 BTM as fee); the last merged output
// funds the payment transaction.  The whole chain has to obey the property: every transaction
// passes consensus validation, every recipient gets exactly its amount, everything else returns
// to the spending account, and fees are inputs minus outputs.

const (
	c27cAddrs    = 3               // receiving programs per account (plus one change program)
	c27cMergeFee = uint64(6000000) // restated, not read from txbuilder.ChainTxMergeGas
	c27cMaxIn    = 5               // restated, not read from txbuilder.ChainTxUtxoNum
	c27cPer      = c27cAddrs + 1   // programs per account, in creation order: receiving 0..2, change
)

type c27cCase struct {
	Accts    []acctDesc `json:"accts"`
	Fund     []wBlock   `json:"fund"`    // linear chain of funding blocks
	Spender  int        `json:"spender"` // index of the spending account
	Frac     int        `json:"frac"`    // per mille of what the account can spend at most (after the worst-case merge fees)
	Margin   int        `json:"margin"`  // fee of the payment transaction: 0.2 BTM + Margin * 0.05 BTM
	Recips   []c27Recip `json:"recips"`  // share the spent amount minus the margin (Asset is unused: everything is BTM)
	SignSkip int        `json:"sign_skip"`
}

func c27cGen(t *rapid.T) c27cCase {
	c := c27cCase{}
	na := rapid.IntRange(1, 2).Draw(t, "naccts")
	for i := 0; i < na; i++ {
		c.Accts = append(c.Accts, acctDesc{Multi: rapid.Bool().Draw(t, "multi"), Key: rapid.IntRange(0, 15).Draw(t, "key")})
	}
	c.Spender = rapid.IntRange(0, na-1).Draw(t, "spender")
	nb := rapid.IntRange(1, 4).Draw(t, "nfund")
	c.Fund = make([]wBlock, nb)
	// how many small outputs the spending account gets: few (no or one merge), some (two or three merges), many
	span := rapid.SampledFrom([][2]int{{2, 5}, {2, 5}, {6, 13}, {6, 13}, {14, 30}}).Draw(t, "span")
	n := rapid.IntRange(span[0], span[1]).Draw(t, "nutxo")
	for k := 0; k < n; k++ {
		bi := rapid.IntRange(0, nb-1).Draw(t, "block")
		c.Fund[bi].Txs = append(c.Fund[bi].Txs, wTx{
			Kind: rapid.SampledFrom([]string{"paysmall", "paysmall", "paysmall", "paysmall", "pay"}).Draw(t, "kind"),
			Pick: rapid.IntRange(0, 30).Draw(t, "pick"),
			To:   c.Spender*c27cPer + rapid.IntRange(0, c27cPer-1).Draw(t, "addr"), // receiving programs and the change program
			Amt:  rapid.IntRange(1, 39).Draw(t, "amt"),                             // paysmall: 0.1 .. 2 BTM, well above the merge fee
			N:    rapid.IntRange(0, 15).Draw(t, "n"),
		})
	}
	// what must not be selected: vote outputs, other assets, outputs of the other account, immature rewards
	nd := rapid.IntRange(0, 6).Draw(t, "nother")
	for k := 0; k < nd; k++ {
		bi := rapid.IntRange(0, nb-1).Draw(t, "block")
		d := wTx{
			Kind: rapid.SampledFrom([]string{"payvote", "payvote", "issuepay", "issuepay", "pay", "paysmall"}).Draw(t, "okind"),
			Pick: rapid.IntRange(0, 30).Draw(t, "pick"),
			To:   rapid.IntRange(0, na*c27cPer-1).Draw(t, "oto"),
			Amt:  rapid.IntRange(1, 39).Draw(t, "amt"),
			N:    rapid.IntRange(0, 15).Draw(t, "n"),
		}
		if d.Kind == "payvote" || d.Kind == "issuepay" {
			if rapid.IntRange(0, 3).Draw(t, "tospender") > 0 {
				d.To = c.Spender*c27cPer + d.To%c27cPer
			}
		}
		c.Fund[bi].Txs = append(c.Fund[bi].Txs, d)
	}
	for bi := range c.Fund {
		if rapid.IntRange(0, 2).Draw(t, "cbq") == 0 {
			c.Fund[bi].CB = 1 + c.Spender*c27cPer + rapid.IntRange(0, c27cPer-1).Draw(t, "cb")
		}
	}
	c.Frac = rapid.OneOf(rapid.IntRange(0, 1000), rapid.IntRange(0, 120), rapid.IntRange(850, 1000), rapid.IntRange(997, 1000)).Draw(t, "frac") // 1000: everything the account has, to the last unit
	c.Margin = rapid.IntRange(0, 6).Draw(t, "margin")
	c.SignSkip = rapid.IntRange(0, 2).Draw(t, "signskip")
	nr := rapid.IntRange(1, 3).Draw(t, "nrecips")
	for i := 0; i < nr; i++ {
		c.Recips = append(c.Recips, c27Recip{Kind: rapid.SampledFrom([]string{"address", "address", "program", "retire"}).Draw(t, "rkind"),
			Share: rapid.IntRange(1, 20).Draw(t, "share"), To: rapid.IntRange(0, 23).Draw(t, "to")})
	}
	return c
}

// c27cMaxMergeFees is what merging n outputs into one costs at most: every merge transaction
// takes up to five outputs and leaves one, so ceil((n-1)/4) transactions are enough.
func c27cMaxMergeFees(n int) uint64 {
	if n <= 1 {
		return 0
	}
	return uint64((n-1+c27cMaxIn-2)/(c27cMaxIn-1)) * c27cMergeFee
}

// chainOut is an output of a merge transaction, known to the oracle by its id.
type chainOut struct {
	amount  uint64
	program []byte
	by      int // which merge transaction created it
	usedBy  int // which transaction of the chain consumed it (-1: none yet)
}

func c27cExec(c c27cCase, x *pbt.Ctx) error {
	if len(c.Accts) == 0 || len(c.Fund) == 0 || len(c.Recips) == 0 {
		return nil
	}
	if len(c.Accts) > 2 {
		c.Accts = c.Accts[:2]
	}
	e, err := newEnv(c27Params, c.Accts, c27cAddrs)
	if e != nil {
		defer e.close()
	}
	if err != nil {
		return err
	}
	w := e.w
	deliver := func(idx int) error {
		if _, err := e.n.Deliver(idx); err != nil || e.n.BestIdx() != idx {
			return fmt.Errorf("node does not connect block %s: %v (best #%d)", e.describeBlock(idx), err, e.n.BestIdx())
		}
		if _, err := e.quiesce(e.wal); err != nil {
			return err
		}
		return nil
	}
	for bi, b := range c.Fund {
		b.Back, b.Sup = 0, nil
		idx, _, err := e.addBlock(bi, b)
		if err != nil {
			return err
		}
		if err := deliver(idx); err != nil {
			return fmt.Errorf("HARNESS-SUSPECT: funding: %v", err)
		}
	}

	ai := abs(c.Spender) % len(e.accts)
	acct := e.accts[ai]
	cur := e.n.Chain.BestBlockHeight()
	best := e.n.BestIdx()
	ownedBy := func(prog []byte) (int, bool) { // account index owning a program
		pi, ok := e.byPrg[string(prog)]
		if !ok {
			return 0, false
		}
		return e.owner[pi], true
	}

	// what the account can spend, by the ledger model of the main chain (not by the wallet): unspent
	// plain BTM outputs locked by one of its programs; rewards are immature for ten blocks, votes are not money to spend
	spendable := map[bc.Hash]*ck.Utxo{}
	var total uint64
	var listing []string
	holdsVote, holdsImmature, holdsOther := false, false, false
	for _, u := range w.Blocks[best].State.Sorted() {
		if o, ok := ownedBy(u.Program); !ok || o != ai {
			continue
		}
		switch {
		case u.Asset != btm:
			holdsOther = true
		case u.Kind == ck.KindVote:
			holdsVote = true
		case !w.P.Spendable(u, cur+1):
			holdsImmature = true
		case u.Kind == ck.KindNormal:
			spendable[u.ID] = u
			total += u.Amount
			cp := e.progs[e.byPrg[string(u.Program)]]
			listing = append(listing, fmt.Sprintf("%d@%d%s", u.Amount, cp.KeyIndex, map[bool]string{true: "c", false: ""}[cp.Change]))
		}
	}
	margin := uint64(20000000 + 5000000*(abs(c.Margin)%7))
	maxFees := c27cMaxMergeFees(len(spendable))
	if len(spendable) == 0 || total < maxFees+margin+1 {
		x.Class("chain:skipped-cannot-fund")
		return nil
	}
	// the amount asked for: within what is left after the most merging could cost, so the wallet can fund it
	room := total - maxFees - margin - 1
	amount := margin + 1 + room*uint64(abs(c.Frac)%1001)/1000 // Frac 1000: every output is needed and nothing is left as change

	// the request, as the client would send it to POST /build-chain-transactions
	actions := []map[string]interface{}{{"type": "spend_account", "account_id": acct.ID, "asset_id": btm.String(), "amount": amount}}
	var recips []recipient
	{
		send := amount - margin
		var shares uint64
		for _, r := range c.Recips {
			shares += uint64(1 + abs(r.Share)%20)
		}
		rest := send
		for i, r := range c.Recips {
			amt := send / shares * uint64(1+abs(r.Share)%20)
			if i == len(c.Recips)-1 {
				amt = rest
			}
			if amt == 0 {
				continue
			}
			rest -= amt
			rc, err := e.resolveRecipient(r, btm, amt)
			if err != nil {
				return err
			}
			recips = append(recips, rc)
			actions = append(actions, rc.action)
		}
	}
	describe := func() string {
		var parts []string
		for _, a := range actions {
			b, _ := json.Marshal(a)
			s := string(b)
			for id, al := range e.alias {
				s = strings.ReplaceAll(s, id, al)
			}
			parts = append(parts, s)
		}
		kind := "single-key"
		if c.Accts[ai].Multi {
			kind = "2-of-3"
		}
		return fmt.Sprintf("height %d; spender %s (%s); spendable BTM outputs (amount@address index, c = change program): %s = %d; actions: %s",
			cur, acct.Alias, kind, strings.Join(listing, " "), total, strings.Join(parts, " "))
	}

	// build, as api.buildTxs does
	var acts []txbuilder.Action
	for _, a := range actions {
		act, err := e.decodeAction(a)
		if err != nil {
			return fmt.Errorf("action does not decode: %v\n%s", err, describe())
		}
		acts = append(acts, act)
	}
	acts = account.MergeSpendAction(acts)
	builder := txbuilder.NewBuilder(farFuture)
	var tpls []*txbuilder.Template
	for _, act := range acts {
		var err error
		if act.ActionType() == "spend_account" {
			tpls, err = account.SpendAccountChain(context.Background(), builder, act)
		} else {
			err = act.Build(context.Background(), builder)
		}
		if err != nil {
			builder.Rollback()
			return fmt.Errorf("building the %s action fails although the account holds %d spendable BTM in %d outputs and asks for %d (merging costs at most %d): %v\n%s",
				act.ActionType(), total, len(spendable), amount, maxFees, err, describe())
		}
	}
	payTpl, _, err := builder.Build()
	if err != nil {
		builder.Rollback()
		return fmt.Errorf("building the payment transaction fails: %v\n%s", err, describe())
	}
	nMerge := len(tpls)
	tpls = append(tpls, payTpl)

	// sign every template, serialise, decode (what the client sends to POST /submit-transactions)
	var txs []*types.Tx
	var raws []string
	for ti, tpl := range tpls {
		if err := e.signAll(tpl, c.SignSkip+ti); err != nil {
			return fmt.Errorf("Sign, transaction %d of %d: %v\n%s", ti, len(tpls), err, describe())
		}
		raw, err := rawHex(tpl.Transaction)
		if err != nil {
			return fmt.Errorf("transaction %d of %d does not serialise: %v\n%s", ti, len(tpls), err, describe())
		}
		tx := &types.Tx{}
		if err := tx.UnmarshalText([]byte(raw)); err != nil {
			return fmt.Errorf("transaction %d of %d does not decode: %v\n%s", ti, len(tpls), err, describe())
		}
		txs = append(txs, tx)
		raws = append(raws, raw)
	}
	progName := func(prog []byte) string {
		if pi, ok := e.byPrg[string(prog)]; ok {
			cp := e.progs[pi]
			s := fmt.Sprintf("%s@%d", e.accts[e.owner[pi]].Alias, cp.KeyIndex)
			if cp.Change {
				s += "c"
			}
			return s
		}
		return fmt.Sprintf("%x", prog)
	}
	txDesc := func() string {
		var lines []string
		for ti, tx := range txs {
			var ins, outs []string
			for ii, in := range tx.Inputs {
				ins = append(ins, fmt.Sprintf("%s %d %s (%s..)", assetName(in.AssetID()), in.Amount(), progName(in.ControlProgram()), tx.SpentOutputIDs[ii].String()[:8]))
			}
			for oi, o := range tx.Outputs {
				outs = append(outs, fmt.Sprintf("%s %d %s (%s..)", assetName(*o.AssetId), o.Amount, progName(o.ControlProgram), tx.ResultIds[oi].String()[:8]))
			}
			name := fmt.Sprintf("merge %d", ti)
			if ti == nMerge {
				name = "payment"
			}
			lines = append(lines, fmt.Sprintf("%s: inputs: %s -> outputs: %s", name, strings.Join(ins, " | "), strings.Join(outs, " | ")))
		}
		return describe() + "\n" + strings.Join(lines, "\n")
	}

	// consensus validation of every transaction in the context of the next block
	bestHdr := w.Blocks[best].Block.BlockHeader
	next := &types.Block{BlockHeader: types.BlockHeader{Version: 1, Height: cur + 1, PreviousBlockHash: bestHdr.Hash(), Timestamp: bestHdr.Timestamp + ck.IntervalMs}}
	var gasBTM []uint64
	for ti, tx := range txs {
		gas, err := validation.ValidateTx(tx.Tx, types.MapBlock(next), e.n.Chain.ProgramConverter)
		if err != nil {
			return fmt.Errorf("validation.ValidateTx refuses built and signed transaction %d of %d: %v\n%s", ti, len(txs), err, txDesc())
		}
		gasBTM = append(gasBTM, gas.BTMValue)
	}

	// ------------------------------------------------------------------------------------------
	// the account of the chain, from the ledger model and the decoded transactions only
	consumed := map[bc.Hash]int{} // outputs of the ledger consumed so far -> by which transaction
	chainOuts := map[bc.Hash]*chainOut{}
	var consumedSum uint64
	severalAddrs, fromChange, deep := false, false, false
	checkInputs := func(ti int, tx *types.Tx) (uint64, map[string]bool, error) {
		var sum uint64
		addrs := map[string]bool{}
		for ii, in := range tx.Inputs {
			if in.InputType() != types.SpendInputType || in.AssetID() != btm {
				return 0, nil, fmt.Errorf("transaction %d, input %d is not a plain spend of BTM", ti, ii)
			}
			id := tx.SpentOutputIDs[ii]
			if by, dup := consumed[id]; dup {
				return 0, nil, fmt.Errorf("transaction %d, input %d spends output %s.., which transaction %d of the chain already spends", ti, ii, id.String()[:8], by)
			}
			if co, ok := chainOuts[id]; ok {
				if co.usedBy >= 0 {
					return 0, nil, fmt.Errorf("transaction %d, input %d spends the output of merge transaction %d, which transaction %d already spends", ti, ii, co.by, co.usedBy)
				}
				if in.Amount() != co.amount || string(in.ControlProgram()) != string(co.program) {
					return 0, nil, fmt.Errorf("transaction %d, input %d claims %d BTM at %s for the output of merge transaction %d, which holds %d BTM at %s",
						ti, ii, in.Amount(), progName(in.ControlProgram()), co.by, co.amount, progName(co.program))
				}
				co.usedBy = ti
				deep = deep || ti < nMerge
			} else {
				u, ok := spendable[id]
				if !ok {
					what := "is not an unspent output of the main chain"
					if mu, ok := w.Blocks[best].State.Utxos[id]; ok {
						what = fmt.Sprintf("is not a mature plain BTM output of the spending account (asset %s, kind %d, created at height %d, program %s)", assetName(mu.Asset), mu.Kind, mu.Height, progName(mu.Program))
					}
					return 0, nil, fmt.Errorf("transaction %d, input %d spends output %s.., which %s", ti, ii, id.String()[:8], what)
				}
				if in.Amount() != u.Amount || string(in.ControlProgram()) != string(u.Program) {
					return 0, nil, fmt.Errorf("transaction %d, input %d claims %d BTM at %s for an output holding %d BTM at %s", ti, ii, in.Amount(), progName(in.ControlProgram()), u.Amount, progName(u.Program))
				}
				consumed[id] = ti
				consumedSum += u.Amount
				if e.progs[e.byPrg[string(u.Program)]].Change {
					fromChange = true
				}
			}
			addrs[string(in.ControlProgram())] = true
			sum += in.Amount()
		}
		return sum, addrs, nil
	}
	for ti := 0; ti < nMerge; ti++ {
		tx := txs[ti]
		if len(tx.Inputs) < 2 || len(tx.Inputs) > c27cMaxIn {
			return fmt.Errorf("merge transaction %d has %d inputs (2 to %d expected)\n%s", ti, len(tx.Inputs), c27cMaxIn, txDesc())
		}
		sum, addrs, err := checkInputs(ti, tx)
		if err != nil {
			return fmt.Errorf("%v\n%s", err, txDesc())
		}
		if len(tx.Outputs) != 1 {
			return fmt.Errorf("merge transaction %d has %d outputs, one expected\n%s", ti, len(tx.Outputs), txDesc())
		}
		o := tx.Outputs[0]
		if o.OutputType() != types.OriginalOutputType || *o.AssetId != btm {
			return fmt.Errorf("merge transaction %d: the output is not a plain BTM output\n%s", ti, txDesc())
		}
		if oa, ok := ownedBy(o.ControlProgram); !ok || oa != ai {
			return fmt.Errorf("merge transaction %d pays program %s, which is not a program of the spending account %s\n%s", ti, progName(o.ControlProgram), acct.Alias, txDesc())
		}
		if sum < c27cMergeFee || o.Amount != sum-c27cMergeFee {
			return fmt.Errorf("merge transaction %d: inputs %d, output %d; the output must be the inputs minus the merge fee %d\n%s", ti, sum, o.Amount, c27cMergeFee, txDesc())
		}
		fee := sum - o.Amount
		if tx.Fee() != fee || tpls[ti].Fee != fee || gasBTM[ti] != fee {
			return fmt.Errorf("merge transaction %d: inputs - outputs = %d but Tx.Fee() = %d, template fee = %d, validation counted %d\n%s", ti, fee, tx.Fee(), tpls[ti].Fee, gasBTM[ti], txDesc())
		}
		chainOuts[*tx.ResultIds[0]] = &chainOut{amount: o.Amount, program: o.ControlProgram, by: ti, usedBy: -1}
		if len(addrs) >= 2 {
			severalAddrs = true
		}
	}
	// the payment
	pay := txs[nMerge]
	inSum, _, err := checkInputs(nMerge, pay)
	if err != nil {
		return fmt.Errorf("%v\n%s", err, txDesc())
	}
	for _, co := range chainOuts {
		if co.usedBy < 0 {
			return fmt.Errorf("the output of merge transaction %d (%d BTM) is spent by no later transaction of the chain\n%s", co.by, co.amount, txDesc())
		}
	}
	used := make([]bool, len(pay.Outputs))
	for _, rc := range recips {
		found := false
		for oi, o := range pay.Outputs {
			if !used[oi] && *o.AssetId == rc.asset && o.Amount == rc.amount && string(o.ControlProgram) == string(rc.program) && o.OutputType() == types.OriginalOutputType {
				used[oi], found = true, true
				break
			}
		}
		if !found {
			return fmt.Errorf("no output of the payment pays recipient %v %d BTM to program %x\n%s", rc.action["type"], rc.amount, rc.program, txDesc())
		}
		x.Class("chain:recipient:" + rc.kind)
	}
	var outSum, changeSum, backToSpender uint64
	changes := 0
	for oi, o := range pay.Outputs {
		if *o.AssetId != btm {
			return fmt.Errorf("payment output %d is not BTM\n%s", oi, txDesc())
		}
		outSum += o.Amount
		oa, own := ownedBy(o.ControlProgram)
		if used[oi] {
			if own && oa == ai {
				backToSpender += o.Amount
			}
			continue
		}
		if !own || oa != ai || o.OutputType() != types.OriginalOutputType {
			return fmt.Errorf("payment output %d (%d BTM to %s) is neither a requested recipient nor change to a program of the spending account %s\n%s", oi, o.Amount, progName(o.ControlProgram), acct.Alias, txDesc())
		}
		changeSum += o.Amount
		changes++
	}
	if inSum < changeSum || inSum-changeSum != amount {
		return fmt.Errorf("account %s was asked to spend %d BTM but the payment's inputs are %d and its change is %d\n%s", acct.Alias, amount, inSum, changeSum, txDesc())
	}
	fee := inSum - outSum
	if inSum < outSum || pay.Fee() != fee || payTpl.Fee != fee || gasBTM[nMerge] != fee || fee != margin {
		return fmt.Errorf("payment fee: inputs %d - outputs %d BTM = %d; Tx.Fee() = %d, template fee %d, validation counted %d, requested spend minus recipients = %d\n%s",
			inSum, outSum, fee, pay.Fee(), payTpl.Fee, gasBTM[nMerge], margin, txDesc())
	}
	if left := consumedSum - changeSum; consumedSum < changeSum || left != amount+uint64(nMerge)*c27cMergeFee {
		return fmt.Errorf("the chain consumes %d BTM of the account and returns %d as change: %d leave the account, but the requested amount %d plus %d merge fees is %d\n%s",
			consumedSum, changeSum, left, amount, nMerge, amount+uint64(nMerge)*c27cMergeFee, txDesc())
	}

	// what POST /submit-transactions does: one after the other, in order
	for ti, tx := range txs {
		if err := txbuilder.FinalizeTx(context.Background(), e.n.Chain, tx); err != nil {
			return fmt.Errorf("FinalizeTx (submit) refuses transaction %d of %d: %v\n%s", ti, len(txs), err, txDesc())
		}
	}

	// one block with the whole chain in order is accepted; the wallet then lists the change and none of the consumed outputs
	var before uint64
	for _, u := range e.wal.GetAccountUtxos(acct.ID, "", false, false, false) {
		if u.Vote == nil && u.AssetID == btm {
			before += u.Amount
		}
	}
	idx := w.Add(ck.BlockDesc{Parent: best, Raw: raws})
	if !w.Blocks[idx].State.Valid || w.Blocks[idx].HdrBad != "" {
		return fmt.Errorf("the ledger model refuses the block containing the chain: %s %s\n%s", w.Blocks[idx].State.Why, w.Blocks[idx].HdrBad, txDesc())
	}
	if err := deliver(idx); err != nil {
		return fmt.Errorf("the block containing the %d transactions of the chain is not accepted: %v\n%s", len(txs), err, txDesc())
	}
	have := map[bc.Hash]*account.UTXO{}
	var after uint64
	for _, u := range e.wal.GetAccountUtxos("", "", false, false, false) {
		have[u.OutputID] = u
		if u.AccountID == acct.ID && u.Vote == nil && u.AssetID == btm {
			after += u.Amount
		}
	}
	for id := range consumed {
		if _, ok := have[id]; ok {
			return fmt.Errorf("after the block the wallet still lists spent output %s\n%s", id.String(), txDesc())
		}
	}
	for id, co := range chainOuts {
		if _, ok := have[id]; ok {
			return fmt.Errorf("after the block the wallet lists the output of merge transaction %d, which transaction %d spends in the same block\n%s", co.by, co.usedBy, txDesc())
		}
	}
	for oi, o := range pay.Outputs {
		if oa, ok := ownedBy(o.ControlProgram); ok {
			u, ok := have[*pay.ResultIds[oi]]
			if !ok || u.AccountID != e.accts[oa].ID || u.Amount != o.Amount || u.AssetID != *o.AssetId {
				return fmt.Errorf("after the block the wallet does not list payment output %d (%d BTM to %s) correctly: %+v\n%s", oi, o.Amount, progName(o.ControlProgram), u, txDesc())
			}
		}
	}
	// rewards of a completed epoch are paid by the coinbase transaction of the new block, possibly to a wallet program
	var rewards uint64
	for _, o := range w.Blocks[idx].Block.Transactions[0].Outputs {
		if oa, ok := ownedBy(o.ControlProgram); ok && oa == ai && *o.AssetId == btm {
			rewards += o.Amount
		}
	}
	if want := before - amount - uint64(nMerge)*c27cMergeFee + backToSpender + rewards; after != want {
		return fmt.Errorf("the wallet listed %d BTM for account %s before the block and lists %d after it; spending %d with %d merge fees, %d paid back to own addresses and %d of block rewards must leave %d\n%s",
			before, acct.Alias, after, amount, nMerge, backToSpender, rewards, want, txDesc())
	}

	switch {
	case nMerge == 0:
		x.Class("chain:merges-0")
	case nMerge == 1:
		x.Class("chain:merges-1")
	default:
		x.Class("chain:merges-2+")
	}
	if nMerge >= 4 {
		x.Class("chain:merges-4+")
	}
	if deep {
		x.Class("chain:merge-of-merged-output")
	}
	if c.Accts[ai].Multi {
		x.Class("chain:multisig")
		if nMerge > 0 {
			x.Class("chain:multisig-merge")
		}
	}
	if severalAddrs {
		x.Class("chain:merge-inputs-from-several-addresses")
	}
	if fromChange {
		x.Class("chain:input-from-change-program")
	}
	if changes > 0 {
		x.Class("chain:change-present")
	} else {
		x.Class("chain:no-change")
	}
	if holdsVote {
		x.Class("chain:account-holds-vote-output")
	}
	if holdsImmature {
		x.Class("chain:account-holds-immature-output")
	}
	if holdsOther {
		x.Class("chain:account-holds-other-asset")
	}
	x.Class("chain:spendable-outputs-%s", bucket(len(spendable)))
	x.NonTrivial = nMerge >= 1 && severalAddrs
	return nil
}

func TestC27Chain(t *testing.T) {
	pbt.Run(t, "C27", "the funding path of POST /build-chain-transactions: 1-2 wallet accounts (single key / 2-of-3, three receiving programs and one change program each); the spending account is funded over 1-4 blocks with 2-30 small BTM payments (0.1-2 BTM, some 1-4 BTM) spread over its four programs, plus vote outputs, two harness-issued assets, immature coinbase rewards and payments to the other account, none of which may be selected; ONE spend_account action on BTM (per-mille of the spendable total minus the worst-case merge fees) plus 1-3 control_address / control_program / retire recipients sharing the amount minus a 0.2-0.5 BTM margin; built as api.buildTxs does (JSON decoders, MergeSpendAction, NewBuilder, account.SpendAccountChain for the spend, Build for the others, builder.Build), every template signed once per key holder (rotating 2 of 3), serialised and decoded, validation.ValidateTx for each in the context of the next block, FinalizeTx in order, then all transactions in order in one block that the node must connect and the wallet index; oracle from the ledger model and the decoded transactions only: every merge transaction has 2-5 inputs, all inputs of the chain are distinct mature plain BTM outputs of the spending account or outputs of earlier merge transactions (each spent exactly once, amount and program as recorded), one output to a program of the spending account worth inputs - 0.06 BTM; the payment pays every recipient exactly (program computed independently), every other output is change to the spending account, inputs - change = requested amount, Fee() = template fee = validator's BTM value = inputs - outputs = margin; consumed - change = amount + merge fees; afterwards the wallet lists no consumed or intermediate output, lists the change, and the account's BTM total moved by exactly amount + merge fees; non-trivial = at least one merge transaction whose inputs come from two or more addresses of the account; distinct = case JSON",
		pbt.Options{Sub: "chain", Journal: true, Checks: pbt.Per(150, 12000), MinClass: map[string]int{
			"chain:merges-0": 3, "chain:merges-1": 10, "chain:merges-2+": 10, "chain:multisig-merge": 10,
			"chain:merge-inputs-from-several-addresses": 20, "chain:change-present": 20, "chain:merge-of-merged-output": 10,
		}}, c27cGen, c27cExec)
}
