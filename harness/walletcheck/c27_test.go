package walletcheck

import (
	"context"
	"crypto/sha256"
	"encoding/hex"
	"encoding/json"
	"fmt"
	"sort"
	"strings"
	"testing"

	"pgregory.net/rapid"

	"github.com/bytom/bytom/account"
	"github.com/bytom/bytom/blockchain/txbuilder"
	"github.com/bytom/bytom/common"
	"github.com/bytom/bytom/consensus"
	"github.com/bytom/bytom/protocol/bc"
	"github.com/bytom/bytom/protocol/bc/types"
	"github.com/bytom/bytom/protocol/validation"

	ck "verifharness/chainkit"
	"verifharness/pbt"
)

// C27: for any set of spend, receive and retire actions the wallet can fund, the built and
// signed transaction passes consensus validation, each requested recipient receives exactly its
// amount, change returns to the spending account, and the fee equals inputs minus outputs.

type c27Spend struct {
	Acct  int `json:"acct"`
	Asset int `json:"asset"` // selector among the assets the account can spend; 0 prefers BTM
	Frac  int `json:"frac"`  // per mille of what the account can still spend of that asset
}

type c27Recip struct {
	Kind  string `json:"kind"`  // address, program, retire
	Asset int    `json:"asset"` // selector among the assets spent in this transaction
	Share int    `json:"share"` // weight when the spent total of the asset is divided
	To    int    `json:"to"`    // which address / program / retirement comment
}

type c27Round struct {
	Spends   []c27Spend `json:"spends"`
	Recips   []c27Recip `json:"recips"`
	Margin   int        `json:"margin"` // fee left in BTM: 0.2 BTM + Margin * 0.05 BTM
	SignSkip int        `json:"sign_skip"`
	// Refuse: before the request of this round, a request the wallet must refuse is sent (the client
	// made a mistake and corrects it): 2 = the same actions plus a spend of an asset the account has
	// none of, at the end; 3 = the same with that spend in second place; 4 = the same actions plus
	// a recipient without an amount.  Whatever the refused request reserved must be free again.
	Refuse int `json:"refuse,omitempty"`
}

type c27Case struct {
	Accts  []acctDesc `json:"accts"`
	Fund   []wBlock   `json:"fund"` // linear chain of funding blocks
	Rounds []c27Round `json:"rounds"`
}

var c27Params = ck.Params{Epoch: 3, Validators: 1, VoteLock: 2, NodeKey: -1, MinVotes: 1000000000000000}

func c27Gen(t *rapid.T) c27Case {
	c := c27Case{Accts: genAccts(t)}
	nf := rapid.IntRange(1, 5).Draw(t, "nfund")
	for i := 0; i < nf; i++ {
		b := wBlock{}
		if rapid.IntRange(0, 3).Draw(t, "cbq") == 0 {
			b.CB = rapid.IntRange(1, 6).Draw(t, "cb") // immature reward outputs in the account: must not be selected
		}
		ntx := rapid.IntRange(1, 5).Draw(t, "ntx")
		for k := 0; k < ntx; k++ {
			b.Txs = append(b.Txs, genWTx(t, []string{"pay", "pay", "paysmall", "paysmall", "paysmall", "issuepay", "issuepay", "payvote"}))
		}
		c.Fund = append(c.Fund, b)
	}
	nr := rapid.IntRange(1, 2).Draw(t, "nrounds")
	for r := 0; r < nr; r++ {
		rd := c27Round{Margin: rapid.IntRange(0, 6).Draw(t, "margin"), SignSkip: rapid.IntRange(0, 2).Draw(t, "signskip")}
		if v := rapid.IntRange(0, 5).Draw(t, "refuse"); v >= 2 && v <= 4 {
			rd.Refuse = v
		}
		ns := rapid.IntRange(1, 4).Draw(t, "nspends")
		for i := 0; i < ns; i++ {
			rd.Spends = append(rd.Spends, c27Spend{Acct: rapid.IntRange(0, 2).Draw(t, "acct"), Asset: rapid.IntRange(0, 2).Draw(t, "asset"), Frac: rapid.IntRange(1, 1000).Draw(t, "frac")})
		}
		nrc := rapid.IntRange(1, 5).Draw(t, "nrecips")
		for i := 0; i < nrc; i++ {
			rd.Recips = append(rd.Recips, c27Recip{Kind: rapid.SampledFrom([]string{"address", "address", "program", "retire"}).Draw(t, "rkind"),
				Asset: rapid.IntRange(0, 2).Draw(t, "rasset"), Share: rapid.IntRange(1, 20).Draw(t, "share"), To: rapid.IntRange(0, 11).Draw(t, "to")})
		}
		c.Rounds = append(c.Rounds, rd)
	}
	return c
}

// recipient is a resolved recipient action: the JSON the API would receive and the output it must produce.
type recipient struct {
	action  map[string]interface{}
	asset   bc.AssetID
	amount  uint64
	program []byte
	kind    string
}

func pushData(b []byte) []byte {
	if len(b) > 75 {
		panic("HARNESS: long push")
	}
	return append([]byte{byte(len(b))}, b...)
}

// resolveRecipient turns a recipient description into the action and the expected program,
// computed here from the standard program shapes (P2WPKH: 00 14 <20>, P2WSH: 00 20 <32>,
// retirement: 6a [push comment]), not with the code under test.
func (e *env) resolveRecipient(r c27Recip, asset bc.AssetID, amount uint64) (recipient, error) {
	out := recipient{asset: asset, amount: amount, kind: r.Kind}
	to := abs(r.To)
	seed := sha256.Sum256([]byte(fmt.Sprintf("verif-recipient-%d", to)))
	switch r.Kind {
	case "address":
		var addr string
		switch to % 3 {
		case 0: // an address of the wallet itself (possibly of the spending account)
			cp := e.progs[to/3%len(e.progs)]
			addr, out.program = cp.Address, cp.ControlProgram
			out.kind = "address-own"
		case 1:
			a, err := common.NewAddressWitnessPubKeyHash(seed[:20], &consensus.ActiveNetParams)
			if err != nil {
				return out, err
			}
			addr, out.program = a.EncodeAddress(), append([]byte{0x00, 0x14}, seed[:20]...)
		default:
			a, err := common.NewAddressWitnessScriptHash(seed[:], &consensus.ActiveNetParams)
			if err != nil {
				return out, err
			}
			addr, out.program = a.EncodeAddress(), append([]byte{0x00, 0x20}, seed[:]...)
		}
		out.action = map[string]interface{}{"type": "control_address", "address": addr, "asset_id": asset.String(), "amount": amount}
	case "program":
		switch to % 3 {
		case 0:
			out.program = []byte{0x51}
		case 1:
			out.program = append([]byte{0x00, 0x20}, seed[:]...)
		default:
			out.program = e.progs[to/3%len(e.progs)].ControlProgram
			out.kind = "program-own"
		}
		out.action = map[string]interface{}{"type": "control_program", "control_program": hex.EncodeToString(out.program), "asset_id": asset.String(), "amount": amount}
	case "retire":
		comment := seed[:to%9]
		out.program = []byte{0x6a}
		if len(comment) > 0 {
			out.program = append(out.program, pushData(comment)...)
		}
		out.action = map[string]interface{}{"type": "retire", "arbitrary": hex.EncodeToString(comment), "asset_id": asset.String(), "amount": amount}
	default:
		return out, fmt.Errorf("HARNESS: unknown recipient kind %q", r.Kind)
	}
	return out, nil
}

func (e *env) decodeAction(a map[string]interface{}) (txbuilder.Action, error) {
	raw, err := json.Marshal(a)
	if err != nil {
		return nil, err
	}
	switch a["type"] {
	case "spend_account":
		return e.mgr.DecodeSpendAction(raw)
	case "control_address":
		return txbuilder.DecodeControlAddressAction(raw)
	case "control_program":
		return txbuilder.DecodeControlProgramAction(raw)
	case "retire":
		return txbuilder.DecodeRetireAction(raw)
	}
	return nil, fmt.Errorf("HARNESS: unknown action type %v", a["type"])
}

type acctAsset struct {
	acct  int
	asset bc.AssetID
}

func assetName(a bc.AssetID) string {
	if a == btm {
		return "BTM"
	}
	return a.String()[:8] + ".."
}

func c27Exec(c c27Case, x *pbt.Ctx) error {
	if len(c.Accts) == 0 || len(c.Fund) == 0 {
		return nil
	}
	e, err := newEnv(c27Params, c.Accts, 2)
	if e != nil {
		defer e.close()
	}
	if err != nil {
		return err
	}
	w := e.w
	deliver := func(idx int) error {
		if _, err := e.n.Deliver(idx); err != nil || e.n.BestIdx() != idx {
			return fmt.Errorf("node does not connect block %s: %v (best #%d)", e.describeBlock(idx), err, e.n.BestIdx())
		}
		if _, err := e.quiesce(e.wal); err != nil {
			return err
		}
		return nil
	}
	for bi, b := range c.Fund {
		b.Back, b.Sup = 0, nil
		idx, _, err := e.addBlock(bi, b)
		if err != nil {
			return err
		}
		if err := deliver(idx); err != nil {
			return fmt.Errorf("HARNESS-SUSPECT: funding: %v", err)
		}
	}

	anyMulti, anyTwoAssets, built := false, false, 0
	for ri, rd := range c.Rounds {
		cur := e.n.Chain.BestBlockHeight()
		best := e.n.BestIdx()
		// what each account can spend now: unspent, not a vote, mature by the wallet's own test, and not
		// reserved by an earlier round (reservations live until they expire; their outputs are spent anyway)
		avail := map[acctAsset]uint64{}
		var assetsOf [][]bc.AssetID
		for ai, a := range e.accts {
			seen := map[bc.AssetID]bool{}
			var list []bc.AssetID
			for _, u := range e.wal.GetAccountUtxos(a.ID, "", false, false, false) {
				if u.Vote != nil || u.ValidHeight > cur {
					continue
				}
				avail[acctAsset{ai, u.AssetID}] += u.Amount
				if !seen[u.AssetID] {
					seen[u.AssetID] = true
					list = append(list, u.AssetID)
				}
			}
			sort.Slice(list, func(i, j int) bool {
				if (list[i] == btm) != (list[j] == btm) {
					return list[i] == btm
				}
				return list[i].String() < list[j].String()
			})
			assetsOf = append(assetsOf, list)
		}

		margin := uint64(20000000 + 5000000*(abs(rd.Margin)%7))
		// spend actions, as the client would send them (several actions on one account and asset are allowed; the API merges them)
		var actions []map[string]interface{}
		spent := map[acctAsset]uint64{}  // requested per account and asset
		total := map[bc.AssetID]uint64{} // requested per asset
		var assetOrder []bc.AssetID
		left := map[acctAsset]uint64{}
		for k, v := range avail {
			left[k] = v
		}
		for _, s := range rd.Spends {
			ai := abs(s.Acct) % len(e.accts)
			if len(assetsOf[ai]) == 0 {
				continue
			}
			as := assetsOf[ai][abs(s.Asset)%len(assetsOf[ai])]
			key := acctAsset{ai, as}
			amt := left[key] * uint64(1+abs(s.Frac)%1000) / 1000
			if amt == 0 {
				continue
			}
			left[key] -= amt
			spent[key] += amt
			if total[as] == 0 {
				assetOrder = append(assetOrder, as)
			}
			total[as] += amt
			actions = append(actions, map[string]interface{}{"type": "spend_account", "account_id": e.accts[ai].ID, "asset_id": as.String(), "amount": amt})
		}
		// the fee must come from somewhere: make sure BTM is spent and covers the margin plus one unit to send
		if total[btm] < margin+1 {
			need := margin + 1 - total[btm]
			found := false
			for ai := range e.accts {
				key := acctAsset{ai, btm}
				if left[key] >= need {
					left[key] -= need
					spent[key] += need
					if total[btm] == 0 {
						assetOrder = append(assetOrder, btm)
					}
					total[btm] += need
					actions = append(actions, map[string]interface{}{"type": "spend_account", "account_id": e.accts[ai].ID, "asset_id": btm.String(), "amount": need})
					found = true
					break
				}
			}
			if !found {
				x.Class("round-skipped-no-btm-for-fee")
				continue
			}
		}
		// recipients: the spent total of each asset (BTM: minus the margin) divided by the shares of the recipients that chose it
		send := map[bc.AssetID]uint64{}
		for _, as := range assetOrder {
			send[as] = total[as]
		}
		send[btm] -= margin
		byAsset := map[bc.AssetID][]c27Recip{}
		for _, r := range rd.Recips {
			as := assetOrder[abs(r.Asset)%len(assetOrder)]
			byAsset[as] = append(byAsset[as], r)
		}
		var recips []recipient
		for ai, as := range assetOrder {
			rs := byAsset[as]
			if len(rs) == 0 {
				// every spent asset needs a destination: a default recipient
				rs = []c27Recip{{Kind: "address", Share: 1, To: 1 + 3*ai}}
			}
			var shares uint64
			for _, r := range rs {
				shares += uint64(1 + abs(r.Share)%20)
			}
			rest := send[as]
			for i, r := range rs {
				amt := send[as] / shares * uint64(1+abs(r.Share)%20)
				if i == len(rs)-1 {
					amt = rest
				}
				if amt == 0 {
					continue
				}
				rest -= amt
				rc, err := e.resolveRecipient(r, as, amt)
				if err != nil {
					return err
				}
				recips = append(recips, rc)
				actions = append(actions, rc.action)
			}
		}

		describe := func() string {
			var parts []string
			for _, a := range actions {
				b, _ := json.Marshal(a)
				s := string(b)
				for id, al := range e.alias {
					s = strings.ReplaceAll(s, id, al)
				}
				parts = append(parts, s)
			}
			var av []string
			for k, v := range avail {
				av = append(av, fmt.Sprintf("%s/%s=%d", e.accts[k.acct].Alias, assetName(k.asset), v))
			}
			sort.Strings(av)
			return fmt.Sprintf("round %d at height %d; spendable: %s; actions: %s", ri, cur, strings.Join(av, " "), strings.Join(parts, " "))
		}

		// a request with a mistake first: it must be refused, and must leave nothing behind
		if rd.Refuse >= 2 && rd.Refuse <= 4 && len(actions) > 0 {
			nobody := sha256.Sum256([]byte("verif-asset-nobody-has"))
			var wrong map[string]interface{}
			if rd.Refuse == 4 {
				wrong = map[string]interface{}{"type": "control_program", "control_program": "51", "asset_id": btm.String(), "amount": 0}
			} else {
				wrong = map[string]interface{}{"type": "spend_account", "account_id": actions[0]["account_id"], "asset_id": hex.EncodeToString(nobody[:]), "amount": 1}
			}
			bad := append([]map[string]interface{}{}, actions...)
			if rd.Refuse == 3 {
				bad = append(bad[:1:1], append([]map[string]interface{}{wrong}, bad[1:]...)...)
			} else {
				bad = append(bad, wrong)
			}
			var badActs []txbuilder.Action
			for _, a := range bad {
				act, err := e.decodeAction(a)
				if err != nil {
					return fmt.Errorf("HARNESS: action of the refused request does not decode: %v", err)
				}
				badActs = append(badActs, act)
			}
			if _, err := txbuilder.Build(context.Background(), nil, account.MergeSpendAction(badActs), farFuture, 0); err == nil {
				return fmt.Errorf("HARNESS-SUSPECT: a request with a wrong action (%v) was built\n%s", wrong, describe())
			}
			x.Class("refused-request-before-the-round")
		}

		// build, as POST /build-transaction does
		var acts []txbuilder.Action
		for _, a := range actions {
			act, err := e.decodeAction(a)
			if err != nil {
				return fmt.Errorf("action does not decode: %v\n%s", err, describe())
			}
			acts = append(acts, act)
		}
		acts = account.MergeSpendAction(acts)
		tpl, err := txbuilder.Build(context.Background(), nil, acts, farFuture, 0)
		if err != nil {
			refusedNote := ""
			if rd.Refuse >= 2 && rd.Refuse <= 4 {
				refusedNote = fmt.Sprintf(" (a request with the same actions and one wrong action, variant %d, was refused just before)", rd.Refuse)
			}
			return fmt.Errorf("Build fails although every spend is within what the account can spend%s: %v\n%s", refusedNote, describeBuildErr(err), describe())
		}
		if err := e.signAll(tpl, rd.SignSkip); err != nil {
			return fmt.Errorf("Sign: %v\n%s", err, describe())
		}
		// submit: the client sends the raw transaction; the server decodes it
		raw, err := rawHex(tpl.Transaction)
		if err != nil {
			return fmt.Errorf("built transaction does not serialise: %v\n%s", err, describe())
		}
		tx := &types.Tx{}
		if err := tx.UnmarshalText([]byte(raw)); err != nil {
			return fmt.Errorf("built transaction does not decode: %v\n%s", err, describe())
		}
		built++
		txDesc := func() string {
			var ins, outs []string
			for _, in := range tx.Inputs {
				ins = append(ins, fmt.Sprintf("%s %d %x", assetName(in.AssetID()), in.Amount(), in.ControlProgram()))
			}
			for _, o := range tx.Outputs {
				outs = append(outs, fmt.Sprintf("%s %d %x", assetName(*o.AssetId), o.Amount, o.ControlProgram))
			}
			return fmt.Sprintf("%s\ninputs: %s\noutputs: %s", describe(), strings.Join(ins, " | "), strings.Join(outs, " | "))
		}

		// consensus validation in the context of the next block
		bestHdr := w.Blocks[best].Block.BlockHeader
		next := &types.Block{BlockHeader: types.BlockHeader{Version: 1, Height: cur + 1, PreviousBlockHash: bestHdr.Hash(), Timestamp: bestHdr.Timestamp + ck.IntervalMs}}
		gas, err := validation.ValidateTx(tx.Tx, types.MapBlock(next), e.n.Chain.ProgramConverter)
		if err != nil {
			return fmt.Errorf("validation.ValidateTx refuses the built and signed transaction: %v\n%s", err, txDesc())
		}

		// outputs: every recipient has an output of its own; the rest is change of a spending account
		used := make([]bool, len(tx.Outputs))
		for _, rc := range recips {
			found := false
			for oi, o := range tx.Outputs {
				if !used[oi] && *o.AssetId == rc.asset && o.Amount == rc.amount && string(o.ControlProgram) == string(rc.program) && o.OutputType() == types.OriginalOutputType {
					used[oi], found = true, true
					break
				}
			}
			if !found {
				return fmt.Errorf("no output pays recipient %v %d %s to program %x\n%s", rc.action["type"], rc.amount, assetName(rc.asset), rc.program, txDesc())
			}
			x.Class("recipient:" + rc.kind)
		}
		inSum, changeSum := map[acctAsset]uint64{}, map[acctAsset]uint64{}
		var inBTM, outBTM uint64
		for _, in := range tx.Inputs {
			pi, ok := e.byPrg[string(in.ControlProgram())]
			if !ok || in.InputType() != types.SpendInputType {
				return fmt.Errorf("input %s %d with program %x is not a plain spend of a wallet output\n%s", assetName(in.AssetID()), in.Amount(), in.ControlProgram(), txDesc())
			}
			key := acctAsset{e.owner[pi], in.AssetID()}
			if spent[key] == 0 {
				return fmt.Errorf("input spends %s of account %s, which no action asked to spend\n%s", assetName(in.AssetID()), e.accts[key.acct].Alias, txDesc())
			}
			inSum[key] += in.Amount()
			if in.AssetID() == btm {
				inBTM += in.Amount()
			}
		}
		for oi, o := range tx.Outputs {
			if *o.AssetId == btm {
				outBTM += o.Amount
			}
			if used[oi] {
				continue
			}
			pi, ok := e.byPrg[string(o.ControlProgram)]
			if !ok || o.OutputType() != types.OriginalOutputType {
				return fmt.Errorf("output %d (%s %d to %x) is neither a requested recipient nor change to a wallet program\n%s", oi, assetName(*o.AssetId), o.Amount, o.ControlProgram, txDesc())
			}
			key := acctAsset{e.owner[pi], *o.AssetId}
			if spent[key] == 0 {
				return fmt.Errorf("output %d (%s %d) pays account %s, which is not spending that asset: change went to the wrong account\n%s", oi, assetName(*o.AssetId), o.Amount, e.accts[key.acct].Alias, txDesc())
			}
			changeSum[key] += o.Amount
		}
		for key, want := range spent {
			if inSum[key] < changeSum[key] || inSum[key]-changeSum[key] != want {
				return fmt.Errorf("account %s was asked to spend %d %s but its inputs are %d and its change is %d\n%s", e.accts[key.acct].Alias, want, assetName(key.asset), inSum[key], changeSum[key], txDesc())
			}
		}
		fee := inBTM - outBTM
		if inBTM < outBTM || tx.Fee() != fee || tpl.Fee != fee || gas.BTMValue != fee || fee != margin {
			return fmt.Errorf("fee: inputs %d - outputs %d BTM = %d; Tx.Fee() = %d, template fee %d, validation counted %d, requested spends minus recipients = %d\n%s", inBTM, outBTM, fee, tx.Fee(), tpl.Fee, gas.BTMValue, margin, txDesc())
		}

		// what POST /submit-transaction does
		if err := txbuilder.FinalizeTx(context.Background(), e.n.Chain, tx); err != nil {
			return fmt.Errorf("FinalizeTx (submit) refuses the transaction: %v\n%s", err, txDesc())
		}

		// a block containing it is accepted, and the wallet then sees the change and no longer the inputs
		idx := w.Add(ck.BlockDesc{Parent: best, Raw: []string{raw}})
		if !w.Blocks[idx].State.Valid {
			return fmt.Errorf("the ledger model refuses the block containing the transaction: %s\n%s", w.Blocks[idx].State.Why, txDesc())
		}
		if err := deliver(idx); err != nil {
			return fmt.Errorf("the block containing the built transaction is not accepted: %v\n%s", err, txDesc())
		}
		have := map[bc.Hash]*account.UTXO{}
		for _, u := range e.wal.GetAccountUtxos("", "", false, false, false) {
			have[u.OutputID] = u
		}
		for _, id := range tx.SpentOutputIDs {
			if _, ok := have[id]; ok {
				return fmt.Errorf("after the block the wallet still lists spent output %s\n%s", id.String(), txDesc())
			}
		}
		for oi, o := range tx.Outputs {
			if pi, ok := e.byPrg[string(o.ControlProgram)]; ok {
				u, ok := have[*tx.ResultIds[oi]]
				if !ok || u.AccountID != e.accts[e.owner[pi]].ID || u.Amount != o.Amount || u.AssetID != *o.AssetId {
					return fmt.Errorf("after the block the wallet does not list output %d (%s %d to account %s) correctly: %+v\n%s", oi, assetName(*o.AssetId), o.Amount, e.accts[e.owner[pi]].Alias, u, txDesc())
				}
			}
		}

		multi := false
		for key := range spent {
			if c.Accts[key.acct].Multi {
				multi = true
			}
		}
		anyMulti = anyMulti || multi
		anyTwoAssets = anyTwoAssets || len(assetOrder) >= 2
		x.Class("spend-actions-%d", len(spent))
		x.Class("inputs-%s", bucket(len(tx.Inputs)))
		if len(actions) > len(spent)+len(recips) {
			x.Class("merged-spend-actions")
		}
		if multi {
			x.Class("multisig-spender")
		}
		if len(assetOrder) >= 2 {
			x.Class("assets>=2")
		}
		changes := 0
		for oi := range tx.Outputs {
			if !used[oi] {
				changes++
			}
		}
		x.Class("change-outputs-%d", min(changes, 3))
		if ri > 0 {
			x.Class("second-round-from-change")
		}
	}
	hasVote, hasImmature := false, false
	for _, u := range e.wal.GetAccountUtxos("", "", false, false, false) {
		if u.Vote != nil {
			hasVote = true
		}
		if u.ValidHeight > e.n.Chain.BestBlockHeight() {
			hasImmature = true
		}
	}
	if hasVote {
		x.Class("account-holds-vote-output")
	}
	if hasImmature {
		x.Class("account-holds-immature-output")
	}
	if built == 0 {
		x.Class("no-transaction-built")
	}
	x.NonTrivial = built > 0 && (anyMulti || anyTwoAssets)
	return nil
}

func bucket(n int) string {
	switch {
	case n <= 1:
		return "1"
	case n <= 3:
		return "2-3"
	case n <= 6:
		return "4-6"
	}
	return ">=7"
}

func describeBuildErr(err error) string {
	s := err.Error()
	if data := errorsData(err); data != "" {
		s += " [" + data + "]"
	}
	return s
}

func TestC27(t *testing.T) {
	pbt.Run(t, "C27", "1-3 wallet accounts (single key / 2-of-3, 3 programs each) funded by 1-5 blocks of payments to their programs (1-4 BTM, 0.05-2 BTM, two harness-issued assets, vote outputs and immature coinbase rewards that must not be selected); 1-2 rounds, each: 1-4 spend_account actions (account, asset, per-mille of what the wallet lists as spendable; same account+asset may repeat and is merged as the API does) plus control_address (own/P2WPKH/P2WSH), control_program (OP_TRUE, P2WSH, own) and retire recipients sharing the spent totals, leaving 0.2-0.5 BTM as fee; actions go through the JSON decoders, MergeSpendAction, txbuilder.Build, Sign once per key holder (2 of 3 keys, rotating subset), serialise/decode, validation.ValidateTx in the context of the next block, FinalizeTx, and a block containing the transaction must be connected and indexed by the wallet; oracle: every recipient has its own output (asset, amount, program computed independently), every other output is change to a program of an account spending that asset with inputs - change = requested amount per account and asset, inputs only from asked accounts, Fee() = template fee = validation's BTM value = inputs - outputs = requested margin; non-trivial = a transaction was built that spends from a 2-of-3 account or moves >= 2 assets; distinct = case JSON",
		pbt.Options{Checks: pbt.Per(1000, 36000), MinClass: map[string]int{"multisig-spender": 20, "assets>=2": 20, "recipient:retire": 10}}, c27Gen, c27Exec)
}
