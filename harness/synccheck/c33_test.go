package synccheck

import (
	"errors"
	"fmt"
	"math"
	"sort"
	"testing"

	"github.com/bytom/bytom/netsync/chainmgr"
	"github.com/bytom/bytom/protocol/bc"
	"github.com/bytom/bytom/protocol/bc/types"
	"pgregory.net/rapid"

	"verifharness/pbt"
)

// C33: header and block sync responses are well-formed.
//
// Code under test: blockKeeper.locateHeaders / locateBlocks (netsync/chainmgr/block_keeper.go),
// called exactly as handleGetHeadersMsg / handleGetBlocksMsg (handle.go) call them.
//
// Oracle (statement + DESIGN 4.5), applied when the call returns without error:
//   - at most max items (max = the value handed to locateHeaders; the protocol constant for blocks)
//   - every item is the main-chain header/block of its height
//   - heights strictly increase
//   - the first item is the highest main-chain locator entry, or genesis when the locator has no
//     main-chain entry (asserted exactly for locators whose main-chain entries are in descending
//     height; for other locators only "is one of the main-chain locator entries, or genesis when none")
//   - when the stop hash is on the main chain, the last item is not above it
//   - no panic (pbt recovers panics into failures)
// An error, or an empty response, is always accepted: the statement does not promise completeness.

// ---------------------------------------------------------------------------------------------
// case

type c33Side struct {
	Fork int `json:"fork"` // parent is the main-chain block at height Fork mod MainLen
	Len  int `json:"len"`  // number of side blocks (>= 1)
}

// c33Ref names a hash relative to the generated chain.
type c33Ref struct {
	Kind string `json:"kind"` // "main" | "side" | "unknown" | "zero"
	A    int    `json:"a"`    // main: height mod MainLen; side: branch index mod #branches; unknown: salt
	B    int    `json:"b"`    // side: position in the branch mod its length
}

type c33Case struct {
	Fn           string    `json:"fn"`       // "headers" | "blocks"
	MainLen      int       `json:"main_len"` // main chain = heights 0..MainLen-1
	Sides        []c33Side `json:"sides"`
	Locator      []c33Ref  `json:"locator"`
	Stop         c33Ref    `json:"stop"`
	Skip         uint64    `json:"skip"`          // headers only (locateBlocks always uses 0)
	Max          uint64    `json:"max"`           // headers only (locateBlocks uses the protocol constant)
	TimeoutAfter int       `json:"timeout_after"` // blocks only: isTimeout() is true from this call on; < 0 = never
}

// ---------------------------------------------------------------------------------------------
// chain: a faithful small implementation of chainmgr.Chain (same contracts as protocol.Chain:
// GetHeaderByHash knows every stored block, GetHeaderByHeight only the main chain,
// InMainChain(h) <=> h is stored and the main-chain hash at its height is h).

type c33Chain struct {
	main   []*types.Block
	byHash map[bc.Hash]*types.Block
	sides  [][]*types.Block
}

var errC33NotFound = errors.New("c33 chain: not found")

func (c *c33Chain) BestBlockHeader() *types.BlockHeader { return &c.main[len(c.main)-1].BlockHeader }
func (c *c33Chain) LastJustifiedHeader() (*types.BlockHeader, error) {
	return &c.main[0].BlockHeader, nil
}
func (c *c33Chain) BestBlockHeight() uint64 { return uint64(len(c.main) - 1) }
func (c *c33Chain) GetBlockByHash(h *bc.Hash) (*types.Block, error) {
	if h == nil {
		return nil, errC33NotFound
	}
	if b, ok := c.byHash[*h]; ok {
		return b, nil
	}
	return nil, errC33NotFound
}
func (c *c33Chain) GetBlockByHeight(height uint64) (*types.Block, error) {
	if height >= uint64(len(c.main)) {
		return nil, errC33NotFound
	}
	return c.main[height], nil
}
func (c *c33Chain) GetHeaderByHash(h *bc.Hash) (*types.BlockHeader, error) {
	b, err := c.GetBlockByHash(h)
	if err != nil {
		return nil, err
	}
	return &b.BlockHeader, nil
}
func (c *c33Chain) GetHeaderByHeight(height uint64) (*types.BlockHeader, error) {
	b, err := c.GetBlockByHeight(height)
	if err != nil {
		return nil, err
	}
	return &b.BlockHeader, nil
}
func (c *c33Chain) InMainChain(h bc.Hash) bool {
	b, ok := c.byHash[h]
	if !ok || b.Height >= uint64(len(c.main)) {
		return false
	}
	return c.main[b.Height].Hash() == h
}
func (c *c33Chain) ProcessBlock(*types.Block) (bool, error) { return false, errors.New("not used") }
func (c *c33Chain) ValidateTx(*types.Tx) (bool, error)      { return false, errors.New("not used") }

var _ chainmgr.Chain = (*c33Chain)(nil)

func c33Build(mainLen int, sides []c33Side) *c33Chain {
	c := &c33Chain{byHash: map[bc.Hash]*types.Block{}}
	var prev bc.Hash
	for h := 0; h < mainLen; h++ {
		b := &types.Block{BlockHeader: types.BlockHeader{Version: 1, Height: uint64(h), PreviousBlockHash: prev, Timestamp: uint64(1000 + h)}}
		prev = b.Hash()
		c.main = append(c.main, b)
		c.byHash[prev] = b
	}
	for k, s := range sides {
		if s.Len < 1 {
			continue
		}
		fork := c33Mod(s.Fork, mainLen)
		p := c.main[fork].Hash()
		var br []*types.Block
		for j := 0; j < s.Len; j++ {
			b := &types.Block{BlockHeader: types.BlockHeader{Version: 1, Height: uint64(fork + 1 + j), PreviousBlockHash: p, Timestamp: uint64(1000000*(k+1) + j)}}
			p = b.Hash()
			br = append(br, b)
			c.byHash[p] = b
		}
		c.sides = append(c.sides, br)
	}
	return c
}

func c33Mod(a, n int) int {
	a %= n
	if a < 0 {
		a += n
	}
	return a
}

// resolve turns a reference into a hash; kind is what the hash really is in this chain.
func (c *c33Chain) resolve(r c33Ref) (h bc.Hash, kind string, height uint64) {
	switch r.Kind {
	case "main":
		b := c.main[c33Mod(r.A, len(c.main))]
		return b.Hash(), "main", b.Height
	case "side":
		if len(c.sides) > 0 {
			br := c.sides[c33Mod(r.A, len(c.sides))]
			b := br[c33Mod(r.B, len(br))]
			return b.Hash(), "side", b.Height
		}
		return bc.Hash{V0: 0x5ca1ab1e, V1: uint64(r.A) + 1, V2: uint64(r.B), V3: 7}, "unknown", 0
	case "zero":
		return bc.Hash{}, "zero", 0
	default:
		return bc.Hash{V0: 0xdeadbeef, V1: uint64(r.A) + 1, V2: 1, V3: 1}, "unknown", 0
	}
}

// ---------------------------------------------------------------------------------------------
// generator

func c33GenRef(t *rapid.T, label string, mainLen, nSides int, wMain, wSide, wUnknown, wZero int) c33Ref {
	n := rapid.IntRange(0, wMain+wSide+wUnknown+wZero-1).Draw(t, label+"kind")
	switch {
	case n < wMain:
		// heights biased to the ends
		var h int
		switch rapid.IntRange(0, 5).Draw(t, label+"where") {
		case 0:
			h = rapid.IntRange(0, 2).Draw(t, label+"low")
		case 1, 2:
			h = mainLen - 1 - rapid.IntRange(0, 2).Draw(t, label+"high")
		default:
			h = rapid.IntRange(0, mainLen-1).Draw(t, label+"h")
		}
		return c33Ref{Kind: "main", A: c33Mod(h, mainLen)}
	case n < wMain+wSide && nSides > 0:
		return c33Ref{Kind: "side", A: rapid.IntRange(0, nSides-1).Draw(t, label+"br"), B: rapid.IntRange(0, 7).Draw(t, label+"pos")}
	case n < wMain+wSide+wUnknown:
		return c33Ref{Kind: "unknown", A: rapid.IntRange(0, 5).Draw(t, label+"salt")}
	default:
		return c33Ref{Kind: "zero"}
	}
}

func c33Gen(t *rapid.T) c33Case {
	c := c33Case{Fn: "headers", TimeoutAfter: -1}
	// (draws are arranged so that the smallest draw gives the simplest case: rapid shrinks towards it)
	if rapid.IntRange(0, 9).Draw(t, "fn") >= 7 {
		c.Fn = "blocks"
	}
	longFrom := 85
	if c.Fn == "blocks" {
		longFrom = 50 // only a chain longer than the 64-block maximum can reach it
	}
	if rapid.IntRange(0, 99).Draw(t, "long") >= longFrom {
		c.MainLen = rapid.IntRange(61, 130).Draw(t, "mainLenLong") // longer than the 64-block protocol maximum
	} else {
		c.MainLen = rapid.IntRange(5, 60).Draw(t, "mainLen")
	}
	nSides := rapid.IntRange(0, 3).Draw(t, "nSides")
	for i := 0; i < nSides; i++ {
		c.Sides = append(c.Sides, c33Side{
			Fork: rapid.IntRange(0, c.MainLen-1).Draw(t, "fork"), // fork at the tip: side block above the best height
			Len:  rapid.IntRange(1, 6).Draw(t, "sideLen"),
		})
	}

	// locator
	switch shape := rapid.IntRange(0, 9).Draw(t, "locShape"); {
	case shape >= 4 && shape < 7:
		// what a real peer sends: its tip, dense then exponentially thinning, down to genesis;
		// a peer on a fork sends its side-chain blocks first.
		tip := c.MainLen - 1 - rapid.IntRange(0, c.MainLen-1).Draw(t, "tipBack")
		if nSides > 0 && rapid.Bool().Draw(t, "peerOnFork") {
			br := rapid.IntRange(0, nSides-1).Draw(t, "peerBranch")
			for j := c.Sides[br].Len - 1; j >= 0; j-- {
				c.Locator = append(c.Locator, c33Ref{Kind: "side", A: br, B: j})
			}
			tip = c.Sides[br].Fork
		} else if rapid.IntRange(0, 3).Draw(t, "peerAhead") == 0 {
			// a peer ahead of us: its newest hashes are unknown here
			for j := rapid.IntRange(1, 3).Draw(t, "ahead"); j > 0; j-- {
				c.Locator = append(c.Locator, c33Ref{Kind: "unknown", A: j})
			}
		}
		step := 1
		for h := tip; h > 0; h -= step {
			c.Locator = append(c.Locator, c33Ref{Kind: "main", A: h})
			if len(c.Locator) >= 6 {
				step *= 2
			}
		}
		if rapid.IntRange(0, 4).Draw(t, "withGenesis") > 0 {
			c.Locator = append(c.Locator, c33Ref{Kind: "main", A: 0})
		}
	default:
		n := rapid.IntRange(0, 10).Draw(t, "locLen")
		var mains, others []c33Ref
		for i := 0; i < n; i++ {
			r := c33GenRef(t, "loc", c.MainLen, nSides, 5, 3, 2, 0)
			if r.Kind == "main" {
				mains = append(mains, r)
			} else {
				others = append(others, r)
			}
		}
		if shape < 4 {
			// descending main-chain entries with side/unknown hashes interspersed
			sort.SliceStable(mains, func(i, j int) bool { return mains[i].A > mains[j].A })
			c.Locator = mains
			for _, o := range others {
				pos := rapid.IntRange(0, len(c.Locator)).Draw(t, "at")
				c.Locator = append(c.Locator[:pos], append([]c33Ref{o}, c.Locator[pos:]...)...)
			}
		} else {
			all := append(mains, others...)
			if len(all) > 0 {
				all = rapid.Permutation(all).Draw(t, "shuffle")
			}
			c.Locator = all
		}
	}

	// stop hash
	c.Stop = c33GenRef(t, "stop", c.MainLen, nSides, 12, 3, 3, 2)
	if c.Stop.Kind == "main" && rapid.Bool().Draw(t, "stopAboveStart") {
		// at or above the expected start, so that the response is not empty
		start := 0
		for _, r := range c.Locator {
			if r.Kind == "main" {
				start = r.A
				break
			}
		}
		c.Stop.A = start + rapid.IntRange(0, c.MainLen-1-start).Draw(t, "stopDelta")
	}

	if c.Fn == "blocks" {
		if rapid.IntRange(0, 9).Draw(t, "timeout") < 4 {
			c.TimeoutAfter = rapid.IntRange(0, 70).Draw(t, "timeoutAfter")
		}
		return c
	}

	// skip
	small := uint64(rapid.IntRange(0, 5).Draw(t, "skipSmall"))
	switch rapid.IntRange(0, 9).Draw(t, "skipKind") {
	case 0, 1, 2:
		c.Skip = small
	case 3, 4:
		c.Skip = uint64(rapid.IntRange(0, c.MainLen+2).Draw(t, "skipNear")) // around bestHeight-start, stop-start
	case 5:
		c.Skip = 1<<32 - 2 + small
	case 6:
		c.Skip = 1<<63 - 2 + small
	case 7:
		c.Skip = math.MaxUint64 - small // 2^64-1, 2^64-2, ...
	case 8:
		c.Skip = math.MaxUint64 - uint64(rapid.IntRange(0, c.MainLen+2).Draw(t, "skipWrap")) // skip+1 = -k
	default:
		c.Skip = rapid.Uint64().Draw(t, "skipAny")
	}

	// max
	switch rapid.IntRange(0, 5).Draw(t, "maxKind") {
	case 5:
		c.Max = chainmgr.VerifMaxNumOfHeadersPerMsg() // what handleGetHeadersMsg passes
	case 4:
		c.Max = uint64(rapid.IntRange(1, 70).Draw(t, "maxAny"))
	default:
		c.Max = rapid.SampledFrom([]uint64{1, 2, 3, 5, 64, 1000}).Draw(t, "max")
	}
	return c
}

// ---------------------------------------------------------------------------------------------
// executor

func c33SkipClass(s uint64, mainLen int) string {
	switch {
	case s <= 5:
		return "skip:0..5"
	case s <= uint64(mainLen)+2:
		return "skip:near-chain-length"
	case s < 1<<32-2:
		return "skip:other<2^32"
	case s >= math.MaxUint64-uint64(mainLen)-2:
		return "skip:wraps(2^64-k)"
	case s >= 1<<63-2:
		return "skip:>=2^63"
	default:
		return "skip:>=2^32"
	}
}

func c33Exec(c c33Case, x *pbt.Ctx) error {
	if c.MainLen < 1 || c.MainLen > 5000 || len(c.Sides) > 64 || len(c.Locator) > 4096 {
		return nil // not a case
	}
	if c.Fn != "headers" && c.Fn != "blocks" {
		return nil
	}
	if c.Fn == "headers" && c.Max == 0 {
		return nil // a maximum of zero items is not a protocol value
	}
	for _, s := range c.Sides {
		if s.Len > 64 {
			return nil
		}
	}
	chain := c33Build(c.MainLen, c.Sides)

	// the request, and the model's view of it
	var locator []*bc.Hash
	var mainEntries []uint64 // heights of the locator entries that are on the main chain, in locator order
	hasSide := false
	for _, r := range c.Locator {
		h, kind, height := chain.resolve(r)
		hh := h
		locator = append(locator, &hh)
		switch kind {
		case "main":
			mainEntries = append(mainEntries, height)
		case "side":
			hasSide = true
		}
	}
	descending := true
	for i := 1; i < len(mainEntries); i++ {
		if mainEntries[i] > mainEntries[i-1] {
			descending = false
		}
	}
	stopHash, stopKind, stopHeight := chain.resolve(c.Stop)

	// classes
	x.Class("fn:" + c.Fn)
	switch {
	case len(c.Locator) == 0:
		x.Class("locator:empty")
	case len(mainEntries) == 0:
		x.Class("locator:no-main-entry")
	case descending:
		x.Class("locator:descending")
	default:
		x.Class("locator:not-descending")
	}
	if hasSide {
		x.Class("locator:has-side")
	}
	if len(mainEntries) > 0 && len(mainEntries) < len(c.Locator) {
		x.Class("locator:mixed")
	}
	x.Class("stop:" + stopKind)
	if c.MainLen > 64 {
		x.Class("chain>64")
	}

	// run
	var items []*types.BlockHeader
	var err error
	max := c.Max
	skip := c.Skip
	if c.Fn == "headers" {
		x.Class(c33SkipClass(skip, c.MainLen))
		x.Class("max:%d", func() uint64 {
			if max > 5 && max != 64 && max != 1000 {
				return 99 // "other"
			}
			return max
		}())
		x.NonTrivial = skip >= 1<<32 || hasSide
		items, err = chainmgr.VerifLocateHeaders(chain, locator, &stopHash, skip, max)
	} else {
		max = chainmgr.VerifMaxNumOfBlocksPerMsg()
		skip = 0
		x.NonTrivial = hasSide
		calls := 0
		isTimeout := func() bool {
			calls++
			return c.TimeoutAfter >= 0 && calls > c.TimeoutAfter
		}
		if c.TimeoutAfter >= 0 {
			x.Class("blocks:with-timeout")
		}
		var blocks []*types.Block
		blocks, err = chainmgr.VerifLocateBlocks(chain, locator, &stopHash, isTimeout)
		for i, b := range blocks {
			if b == nil {
				if err == nil {
					return fmt.Errorf("blocks response item %d is nil", i)
				}
				continue
			}
			items = append(items, &b.BlockHeader)
		}
	}
	if err != nil {
		x.Class("result:error")
		return nil // refusing to answer is always acceptable
	}
	if len(items) == 0 {
		x.Class("result:empty")
		return nil
	}
	x.Class("result:items")

	desc := func() string {
		hs := make([]uint64, 0, 12)
		for i, it := range items {
			if i == 10 {
				break
			}
			if it != nil {
				hs = append(hs, it.Height)
			}
		}
		return fmt.Sprintf("%s: main chain 0..%d, locator main-chain entries at heights %v (of %d entries), stop %s@%d, skip %d, max %d -> %d items, heights %v...",
			c.Fn, c.MainLen-1, mainEntries, len(c.Locator), stopKind, stopHeight, skip, max, len(items), hs)
	}

	// 1. size
	if uint64(len(items)) > max {
		return fmt.Errorf("response has %d items, maximum is %d\n%s", len(items), max, desc())
	}
	if uint64(len(items)) == max {
		x.Class("result:hit-max")
		if c.Fn == "blocks" {
			x.Class("blocks:hit-max")
		}
	}
	if c.Fn == "headers" && skip >= 1<<32 && len(items) > 1 {
		x.Class("skip>=2^32:>1-item")
	}
	// 2. every item on the main chain, 3. strictly increasing
	for i, it := range items {
		if it == nil {
			return fmt.Errorf("item %d is nil\n%s", i, desc())
		}
		h := it.Hash()
		if it.Height >= uint64(c.MainLen) || chain.main[it.Height].Hash() != h || !chain.InMainChain(h) {
			return fmt.Errorf("item %d (height %d, hash %s) is not on the main chain\n%s", i, it.Height, h.String(), desc())
		}
		if i > 0 && it.Height <= items[i-1].Height {
			return fmt.Errorf("heights do not strictly increase: item %d has height %d, item %d has height %d\n%s", i-1, items[i-1].Height, i, it.Height, desc())
		}
	}
	// 4. start
	first := items[0].Height
	switch {
	case len(mainEntries) == 0:
		x.Class("start:genesis")
		if first != 0 {
			return fmt.Errorf("no locator entry is on the main chain, response must start at genesis but starts at height %d\n%s", first, desc())
		}
	case descending:
		x.Class("start:highest-locator-entry")
		if first != mainEntries[0] {
			return fmt.Errorf("response starts at height %d, highest main-chain locator entry is at height %d\n%s", first, mainEntries[0], desc())
		}
	default:
		x.Class("start:some-locator-entry")
		ok := false
		for _, m := range mainEntries {
			if m == first {
				ok = true
			}
		}
		if !ok {
			return fmt.Errorf("response starts at height %d which is not a main-chain locator entry %v\n%s", first, mainEntries, desc())
		}
	}
	// 5. stop
	last := items[len(items)-1].Height
	if stopKind == "main" {
		if last > stopHeight {
			return fmt.Errorf("response passes the stop block: last height %d, stop height %d\n%s", last, stopHeight, desc())
		}
		if last == stopHeight {
			x.Class("result:reached-stop")
		}
	} else {
		x.Class("result:items-with-non-main-stop")
	}
	if len(items) > 1 {
		x.Class("result:>1-item")
	}
	return nil
}

func TestC33(t *testing.T) {
	pbt.Run(t, "C33",
		"main chain of 5..60 (15%, blocks 50%: 61..130) headers with 0..3 side branches (also above the best height); locator = realistic peer locator (tip, thinning, genesis; fork peers send side hashes first; peers ahead send unknown hashes) | descending main entries with side/unknown interspersed | shuffled; stop = main/side/unknown/zero hash; headers: skip in {0..5, 0..len+2, 2^32-2.., 2^63-2.., 2^64-1-k (k<=len+2), any}, max in {1,2,3,5,64,1000,1..70}; blocks: protocol max 64, timeout after n calls; oracle: <=max, all on main chain, strictly increasing heights, first = highest main-chain locator entry or genesis (weak form for non-descending locators, DESIGN 4.5), last <= main-chain stop; non-trivial = skip >= 2^32 or locator contains a side-chain hash; distinct by case",
		pbt.Options{
			Checks: pbt.Per(120000, 12000000),
			MinClass: map[string]int{
				"locator:has-side": 100, "locator:descending": 100, "locator:not-descending": 50, "locator:no-main-entry": 20,
				"stop:main": 100, "stop:side": 20, "result:items": 100, "result:hit-max": 20, "result:reached-stop": 50,
				"fn:blocks": 100, "blocks:hit-max": 10, "skip>=2^32:>1-item": 50, "skip:wraps(2^64-k)": 50, "skip:>=2^63": 20,
			},
		},
		c33Gen, c33Exec)
}
