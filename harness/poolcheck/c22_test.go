package poolcheck

import (
	"fmt"
	"sort"
	"testing"
	"time"

	"github.com/bytom/bytom/consensus"
	"github.com/bytom/bytom/database/storage"
	"github.com/bytom/bytom/event"
	"github.com/bytom/bytom/protocol"
	"github.com/bytom/bytom/protocol/bc"
	"github.com/bytom/bytom/protocol/bc/types"
	"github.com/bytom/bytom/protocol/state"
	"pgregory.net/rapid"

	"verifharness/pbt"
)

// C22: mempool bookkeeping stays consistent.
//
// The pool is driven at the TxPool level (TxPool.ProcessTransaction does not validate scripts;
// that is Chain.ValidateTx's job) over a fake state.Store that only knows which outputs are
// confirmed.  After every operation the four maps (pool, utxo, orphans, orphansByPrev) are
// compared with a model of sets.
//
// What is asserted (and what deliberately is not):
//   S0  the pool holds exactly the transactions the model expects (accepted submissions and
//       promoted orphans, minus removals); a promoted orphan has all its inputs available.
//   S1  utxo index == { original-type outputs of pooled transactions } (retirements are not
//       spendable and must not be listed; vote outputs are not generated: whether they count
//       as "spendable" for the pool is ambiguous).
//   S2  orphans == model orphans; pool and orphans are disjoint.
//   S3  no dangling / empty index entries: every orphansByPrev[o][k] refers to a live orphan k
//       which really spends o; no empty inner map.
//   S4  every orphan is indexed under each output it still waits for.  "Still waits for" is
//       taken in its unambiguous sense: the outputs that were missing when the orphan was
//       (last) registered and have been missing ever since.  Outputs that became available
//       and went missing again (RemoveTransaction of a pooled parent) are not judged, neither
//       are surplus entries under outputs that meanwhile got confirmed.
//   S5  promotion: immediately after a submission, no orphan may remain whose inputs are all
//       available (confirmed or produced by a pooled transaction).  Exempt: orphans one of
//       whose awaited inputs was supplied by a block confirmation instead of a pooled
//       transaction -- the pool is never told about confirmations (the statement speaks of
//       submissions, removals, orphan arrivals and expirations only), so nothing can re-check
//       such an orphan; it is judged again once it is re-submitted.

type c22In struct {
	Ext bool `json:"ext"` // true: external output N (confirmed or forever missing); false: output Out of tx N
	N   int  `json:"n"`
	Out int  `json:"out"`
}

type c22Tx struct {
	Ins  []c22In `json:"ins"`
	Outs []int   `json:"outs"` // 0 = original output, 1 = retirement
}

type c22Op struct {
	Kind string `json:"kind"` // submit | remove | expire | confirm
	Tx   int    `json:"tx"`
	Exp  int    `json:"exp,omitempty"` // submit: expiry instant given to the orphan (seconds after base)
	T    int    `json:"t,omitempty"`   // expire: instant passed to ExpireOrphan (seconds after base)
}

type c22Case struct {
	Confirmed []bool  `json:"confirmed"` // external output k exists and is confirmed iff Confirmed[k]
	Txs       []c22Tx `json:"txs"`
	Ops       []c22Op `json:"ops"`
}

// fake store ---------------------------------------------------------------------------------

type c22Store struct {
	confirmed map[bc.Hash]bool
}

func (s *c22Store) GetTransactionsUtxo(view *state.UtxoViewpoint, txs []*bc.Tx) error {
	// same contract as database.getTransactionsUtxo: load the entries that exist
	for _, tx := range txs {
		for _, prevout := range tx.SpentOutputIDs {
			if view.HasUtxo(&prevout) {
				continue
			}
			if s.confirmed[prevout] {
				view.Entries[prevout] = storage.NewUtxoEntry(storage.NormalUTXOType, 1, false)
			}
		}
	}
	return nil
}
func (s *c22Store) GetUtxo(h *bc.Hash) (*storage.UtxoEntry, error) {
	if s.confirmed[*h] {
		return storage.NewUtxoEntry(storage.NormalUTXOType, 1, false), nil
	}
	return nil, fmt.Errorf("can't find utxo in db")
}
func (s *c22Store) BlockExist(*bc.Hash) bool                                   { return false }
func (s *c22Store) GetBlock(*bc.Hash) (*types.Block, error)                    { return nil, nil }
func (s *c22Store) GetBlockHeader(*bc.Hash) (*types.BlockHeader, error)        { return nil, nil }
func (s *c22Store) GetStoreStatus() *state.BlockStoreState                     { return nil }
func (s *c22Store) GetMainChainHash(uint64) (*bc.Hash, error)                  { return nil, nil }
func (s *c22Store) GetContract([32]byte) ([]byte, error)                       { return nil, nil }
func (s *c22Store) GetCheckpoint(*bc.Hash) (*state.Checkpoint, error)          { return nil, nil }
func (s *c22Store) GetCheckpointsByHeight(uint64) ([]*state.Checkpoint, error) { return nil, nil }
func (s *c22Store) SaveCheckpoints([]*state.Checkpoint) error                  { return nil }
func (s *c22Store) SaveBlock(*types.Block) error                               { return nil }
func (s *c22Store) SaveBlockHeader(*types.BlockHeader) error                   { return nil }
func (s *c22Store) CheckpointsFromNode(uint64, *bc.Hash) ([]*state.Checkpoint, error) {
	return nil, nil
}
func (s *c22Store) SaveChainStatus(*types.BlockHeader, []*types.BlockHeader, *state.UtxoViewpoint, *state.ContractViewpoint, uint64, *bc.Hash) error {
	return nil
}

// generator ----------------------------------------------------------------------------------

func c22Gen(t *rapid.T) c22Case {
	var c c22Case
	nExt := rapid.IntRange(1, 4).Draw(t, "nExt")
	for k := 0; k < nExt; k++ {
		c.Confirmed = append(c.Confirmed, rapid.IntRange(0, 3).Draw(t, "confirmed") > 0)
	}
	outs := func() []int {
		var o []int
		nOut := rapid.SampledFrom([]int{1, 2, 2, 3}).Draw(t, "nOut")
		for k := 0; k < nOut; k++ {
			ty := 0
			if rapid.IntRange(0, 6).Draw(t, "outType") == 0 {
				ty = 1
			}
			o = append(o, ty)
		}
		return o
	}
	extIn := func(k int) c22In { return c22In{Ext: true, N: k % nExt} }
	txIn := func(p int) c22In { return c22In{N: p, Out: rapid.IntRange(0, 2).Draw(t, "out")} }
	add := func(ins ...c22In) { c.Txs = append(c.Txs, c22Tx{Ins: ins, Outs: outs()}) }
	// a skeleton (the shapes named by the property), then freely drawn transactions on top
	switch rapid.SampledFrom([]string{"free", "fan-in", "diamond", "chain"}).Draw(t, "shape") {
	case "fan-in": // 2..3 roots over external outputs and a child spending one output of each
		r := rapid.IntRange(2, 3).Draw(t, "roots")
		var ins []c22In
		for k := 0; k < r; k++ {
			add(extIn(k))
			ins = append(ins, txIn(k))
		}
		if rapid.IntRange(0, 3).Draw(t, "plusExt") == 0 {
			ins = append(ins, extIn(rapid.IntRange(0, nExt-1).Draw(t, "ext")))
		}
		add(ins...)
	case "diamond":
		add(extIn(0))
		add(txIn(0))
		add(txIn(0))
		add(txIn(1), txIn(2))
	case "chain":
		add(extIn(0))
		for k, n := 1, rapid.IntRange(2, 4).Draw(t, "len"); k < n; k++ {
			add(txIn(k - 1))
		}
	}
	for extra := rapid.IntRange(0, 7-len(c.Txs)).Draw(t, "extraTx"); extra > 0 || len(c.Txs) == 0; extra-- {
		i := len(c.Txs)
		var ins []c22In
		nIn := rapid.SampledFrom([]int{1, 1, 1, 2, 2, 2, 3}).Draw(t, "nIn")
		for k := 0; k < nIn; k++ {
			if i == 0 || rapid.IntRange(0, 9).Draw(t, "inKind") < 4 {
				ins = append(ins, extIn(rapid.IntRange(0, nExt-1).Draw(t, "ext")))
			} else {
				ins = append(ins, txIn(rapid.IntRange(0, i-1).Draw(t, "parent")))
			}
		}
		add(ins...)
	}
	nTx := len(c.Txs)
	// neighbours in the DAG (parents and children), so that an op can be drawn "near" the previous one:
	// histories that complete, remove or re-submit parents of a waiting orphan are the interesting ones
	near := make([][]int, nTx)
	for i, tx := range c.Txs {
		for _, in := range tx.Ins {
			if !in.Ext && i > 0 {
				p := in.N % i
				near[i] = append(near[i], p)
				near[p] = append(near[p], i)
			}
		}
		near[i] = append(near[i], i)
	}
	// half of the histories stay inside one family: a transaction with its parents and children
	var family []int
	if rapid.Bool().Draw(t, "focused") {
		f := rapid.IntRange(0, nTx-1).Draw(t, "focus")
		seen := map[int]bool{}
		for _, n := range near[f] {
			if !seen[n] {
				seen[n] = true
				family = append(family, n)
			}
		}
	}
	nOps := rapid.IntRange(1, 24).Draw(t, "nOps")
	prev := 0
	for k := 0; k < nOps; k++ {
		var op c22Op
		if family != nil && rapid.IntRange(0, 9).Draw(t, "inFamily") < 9 {
			op.Tx = family[rapid.IntRange(0, len(family)-1).Draw(t, "member")]
		} else if rapid.IntRange(0, 9).Draw(t, "nearPrev") < 6 {
			op.Tx = near[prev][rapid.IntRange(0, len(near[prev])-1).Draw(t, "near")]
		} else {
			op.Tx = rapid.IntRange(0, nTx-1).Draw(t, "tx")
		}
		switch r := rapid.IntRange(0, 19).Draw(t, "opKind"); {
		case r < 12:
			op.Kind = "submit"
			op.Exp = rapid.IntRange(0, 5).Draw(t, "exp")
		case r < 15:
			op.Kind = "remove"
		case r < 17:
			op.Kind = "expire"
			op.Tx = 0
			op.T = rapid.IntRange(0, 6).Draw(t, "t")
		default:
			op.Kind = "confirm"
		}
		if op.Kind != "expire" {
			prev = op.Tx
		}
		c.Ops = append(c.Ops, op)
	}
	return c
}

// executor -----------------------------------------------------------------------------------

type c22BuiltTx struct {
	tx     *types.Tx
	inputs []bc.Hash // distinct spent output ids, in input order
	origs  []bc.Hash // ids of original-type outputs
}

var c22Base = time.Unix(4000000000, 0) // fixed instant far from any wall clock

func c22ExtSource(k int) bc.Hash { return bc.NewHash([32]byte{0xee, byte(k)}) }

// c22Build turns the description into real transactions.  Nothing is validated by the pool,
// so programs are dummies; every tx gets a BTM input (otherwise the pool ignores it as dust)
// and unique programs so that no two described transactions collide on one id.
func c22Build(c c22Case) ([]*c22BuiltTx, []bc.Hash, error) {
	nExt := len(c.Confirmed)
	if nExt == 0 || len(c.Txs) == 0 {
		return nil, nil, nil
	}
	ext := make([]bc.Hash, nExt)
	extIn := func(k int) *types.TxInput {
		return types.NewSpendInput(nil, c22ExtSource(k), *consensus.BTMAssetID, uint64(1000+k), 0, []byte{0x51}, nil)
	}
	for k := range ext {
		probe := types.NewTx(types.TxData{Version: 1, Inputs: []*types.TxInput{extIn(k)},
			Outputs: []*types.TxOutput{types.NewOriginalTxOutput(*consensus.BTMAssetID, 1, []byte{0x51}, nil)}})
		ext[k] = probe.SpentOutputIDs[0]
	}
	var built []*c22BuiltTx
	for i, d := range c.Txs {
		if len(d.Ins) == 0 || len(d.Outs) == 0 || len(d.Ins) > 8 || len(d.Outs) > 8 {
			return nil, nil, nil
		}
		var ins []*types.TxInput
		var want []bc.Hash
		dup := map[bc.Hash]bool{}
		for _, in := range d.Ins {
			if in.N < 0 || in.Out < 0 {
				return nil, nil, nil
			}
			useExt := in.Ext || i == 0
			var p *c22BuiltTx
			if !useExt {
				p = built[in.N%i]
				if len(p.origs) == 0 {
					useExt = true // parent has nothing spendable: fall back to an external output
				}
			}
			if useExt {
				k := (in.N + in.Out) % nExt
				if dup[ext[k]] {
					continue // a transaction names an output at most once
				}
				dup[ext[k]] = true
				ins = append(ins, extIn(k))
				want = append(want, ext[k])
				continue
			}
			oid := p.origs[in.Out%len(p.origs)]
			if dup[oid] {
				continue
			}
			dup[oid] = true
			o, err := p.tx.OriginalOutput(oid)
			if err != nil {
				return nil, nil, fmt.Errorf("HARNESS: %v", err)
			}
			ins = append(ins, types.NewSpendInput(nil, *o.Source.Ref, *o.Source.Value.AssetId, o.Source.Value.Amount, o.Source.Position, o.ControlProgram.Code, o.StateData))
			want = append(want, oid)
		}
		var outs []*types.TxOutput
		for k, ty := range d.Outs {
			prog := []byte{0x51, 0x01, byte(i), 0x01, byte(k)}
			if ty == 1 {
				prog = []byte{0x6a, 0x01, byte(i), 0x01, byte(k)} // OP_FAIL: a retirement
			}
			// the amount makes the id unique too: a retirement does not commit to its program
			outs = append(outs, types.NewOriginalTxOutput(*consensus.BTMAssetID, uint64(10+16*i+k), prog, nil))
		}
		tx := types.NewTx(types.TxData{Version: 1, SerializedSize: 100, Inputs: ins, Outputs: outs})
		b := &c22BuiltTx{tx: tx}
		// the spent ids computed by the real mapping must be the ones we meant
		b.inputs = want
		if len(tx.SpentOutputIDs) != len(b.inputs) {
			return nil, nil, fmt.Errorf("HARNESS: tx %d spends %d outputs, expected %d", i, len(tx.SpentOutputIDs), len(b.inputs))
		}
		for k, id := range tx.SpentOutputIDs {
			if id != b.inputs[k] {
				return nil, nil, fmt.Errorf("HARNESS: tx %d spent id %d differs from the parent's output id", i, k)
			}
		}
		for _, id := range tx.ResultIds {
			if _, err := tx.OriginalOutput(*id); err == nil {
				b.origs = append(b.origs, *id)
			}
		}
		for _, o := range built {
			if o.tx.ID == tx.ID {
				return nil, nil, fmt.Errorf("HARNESS: tx %d has the id of an earlier tx", i)
			}
		}
		built = append(built, b)
	}
	return built, ext, nil
}

type c22Orphan struct {
	exp     int
	waiting map[bc.Hash]bool // missing at the last registration and ever since
	// an input it was waiting for got confirmed by a block without its producer having been in
	// the pool: the pool is never told, so nothing re-checks the orphan (promotion not judged)
	byBlock bool
}

func c22Exec(c c22Case, x *pbt.Ctx) error {
	built, ext, err := c22Build(c)
	if err != nil {
		return err
	}
	if built == nil {
		return nil // not a case
	}
	nTx := len(built)
	idx := map[bc.Hash]int{}
	for i, b := range built {
		idx[b.tx.ID] = i
	}
	name := func(h bc.Hash) string {
		for k, e := range ext {
			if e == h {
				return fmt.Sprintf("ext%d", k)
			}
		}
		for i, b := range built {
			for k, id := range b.tx.ResultIds {
				if *id == h {
					return fmt.Sprintf("tx%d.out%d", i, k)
				}
			}
			if b.tx.ID == h {
				return fmt.Sprintf("tx%d", i)
			}
		}
		return h.String()
	}

	store := &c22Store{confirmed: map[bc.Hash]bool{}}
	for k, ok := range c.Confirmed {
		if ok {
			store.confirmed[ext[k]] = true
		}
	}
	tp := protocol.VerifNewTxPool(store, event.NewDispatcher())

	mPool := map[int]bool{}
	mOrph := map[int]*c22Orphan{}
	avail := func(o bc.Hash) bool { // by the model: confirmed, or original output of a pooled tx
		if store.confirmed[o] {
			return true
		}
		for i := range mPool {
			for _, id := range built[i].origs {
				if id == o {
					return true
				}
			}
		}
		return false
	}
	missingOf := func(i int) []bc.Hash {
		var m []bc.Hash
		for _, o := range built[i].inputs {
			if !avail(o) {
				m = append(m, o)
			}
		}
		return m
	}
	sortedKeys := func(m map[int]bool) []int {
		var ks []int
		for k := range m {
			ks = append(ks, k)
		}
		sort.Ints(ks)
		return ks
	}

	sawMultiParentOrphan := false
	for step, op := range c.Ops {
		if op.Tx < 0 {
			return nil
		}
		i := op.Tx % nTx
		b := built[i]
		at := fmt.Sprintf("step %d (%s tx%d)", step, op.Kind, i)
		switch op.Kind {
		case "submit":
			// caller's precondition (Chain.ValidateTx): a transaction already in the pool is not processed again
			if tp.HaveTransaction(&b.tx.ID) {
				x.Class("submit-skipped-already-pooled")
				continue
			}
			miss := missingOf(i)
			preFull := map[int]bool{} // orphans that were completely available already before this submission
			for ci, o := range mOrph {
				if len(missingOf(ci)) == 0 || o.byBlock {
					preFull[ci] = true
				}
			}
			_, wasOrphan := mOrph[i]
			if wasOrphan {
				x.Class("resubmit-orphan")
			}
			isOrphan, err := tp.ProcessTransaction(b.tx, 10, 1)
			if err != nil {
				return fmt.Errorf("%s: ProcessTransaction failed: %v", at, err)
			}
			if isOrphan != (len(miss) > 0) {
				return fmt.Errorf("%s: ProcessTransaction reported orphan=%v but %d of the inputs are neither confirmed nor pooled", at, isOrphan, len(miss))
			}
			if len(miss) > 0 {
				x.Class("orphan-registered")
				if len(b.inputs) >= 2 {
					x.Class("multi-parent-orphan")
					sawMultiParentOrphan = true
				}
				if len(miss) >= 2 {
					x.Class("orphan-missing>=2")
				}
				if !tp.VerifSetOrphanExpiration(b.tx.ID, c22Base.Add(time.Duration(op.Exp)*time.Second)) {
					return fmt.Errorf("%s: transaction with missing inputs %v was reported as orphan but is not in the orphan map", at, names(miss, name))
				}
				w := map[bc.Hash]bool{}
				for _, o := range miss {
					w[o] = true
				}
				mOrph[i] = &c22Orphan{exp: op.Exp, waiting: w}
			} else {
				x.Class("accepted")
				mPool[i] = true
				delete(mOrph, i) // if it was an orphan it must not stay one (S2)
				// promotions, as performed by the implementation, judged on the post state
				snap := tp.VerifSnapshot()
				var promoted []int
				for ci := range mOrph {
					if _, ok := snap.Pool[built[ci].tx.ID]; ok {
						promoted = append(promoted, ci)
					}
				}
				sort.Ints(promoted)
				for _, ci := range promoted {
					mPool[ci] = true
					delete(mOrph, ci)
				}
				for _, ci := range promoted {
					if m := missingOf(ci); len(m) > 0 {
						return fmt.Errorf("%s: orphan tx%d was promoted into the pool although its inputs %v are neither confirmed nor pooled", at, ci, names(m, name))
					}
				}
				if len(promoted) > 0 {
					x.Class("promotion")
				}
				if len(promoted) > 1 {
					x.Class("promotion>=2")
				}
				// S5
				for _, ci := range sortedKeysOrph(mOrph) {
					if len(missingOf(ci)) != 0 {
						continue
					}
					if preFull[ci] {
						x.Class("orphan-complete-by-confirmation(not judged)")
						continue
					}
					{
						return fmt.Errorf("%s: S5 promotion: orphan tx%d (inputs %v) has all its parents confirmed or pooled after this submission, but it is still an orphan and not in the pool", at, ci, names(built[ci].inputs, name))
					}
				}
			}
		case "remove":
			if mPool[i] {
				x.Class("remove-pooled")
			} else {
				x.Class("remove-absent")
			}
			tp.RemoveTransaction(&b.tx.ID)
			delete(mPool, i)
		case "expire":
			n := 0
			for ci, o := range mOrph {
				if o.exp < op.T { // expiration.Before(now)
					delete(mOrph, ci)
					n++
				}
			}
			switch {
			case n > 0 && len(mOrph) > 0:
				x.Class("expire-some")
			case n > 0:
				x.Class("expire-all")
			default:
				x.Class("expire-none")
			}
			tp.ExpireOrphan(c22Base.Add(time.Duration(op.T) * time.Second))
		case "confirm":
			// a block containing tx i connects: only possible when all its inputs are confirmed
			// unspent outputs; the store changes and Chain.connectBlock removes the tx from the pool
			ok := true
			for _, o := range b.inputs {
				if !store.confirmed[o] {
					ok = false
				}
			}
			if !ok {
				x.Class("confirm-skipped-inputs-unconfirmed")
				continue
			}
			x.Class("confirm")
			for _, o := range b.origs {
				for ci, orph := range mOrph {
					for _, in := range built[ci].inputs {
						if in == o && !avail(o) {
							orph.byBlock = true
						}
					}
				}
			}
			for _, o := range b.inputs {
				delete(store.confirmed, o)
			}
			for _, o := range b.origs {
				store.confirmed[o] = true
			}
			tp.RemoveTransaction(&b.tx.ID)
			delete(mPool, i)
		default:
			return nil
		}

		// outputs that are available now are no longer "continuously missing"
		for ci, o := range mOrph {
			for out := range o.waiting {
				if avail(out) {
					delete(o.waiting, out)
				}
			}
			_ = ci
		}

		// ---- compare the implementation with the model ----
		snap := tp.VerifSnapshot()
		for k, id := range snap.Pool {
			if k != id {
				return fmt.Errorf("%s: pool key %s holds transaction %s", at, name(k), name(id))
			}
			if _, isOrphan := snap.Orphans[k]; isOrphan {
				return fmt.Errorf("%s: S2: %s is both in the pool and in the orphan map", at, name(k))
			}
		}
		for _, pi := range sortedKeys(mPool) {
			if _, ok := snap.Pool[built[pi].tx.ID]; !ok {
				return fmt.Errorf("%s: S0: tx%d should be in the pool and is not", at, pi)
			}
		}
		for k := range snap.Pool {
			if pi, ok := idx[k]; !ok || !mPool[pi] {
				return fmt.Errorf("%s: S0: %s is in the pool and should not be", at, name(k))
			}
		}
		// S1
		wantUtxo := map[bc.Hash]bc.Hash{}
		for pi := range mPool {
			for _, o := range built[pi].origs {
				wantUtxo[o] = built[pi].tx.ID
			}
		}
		for _, pi := range sortedKeys(mPool) {
			for _, o := range built[pi].origs {
				if got, ok := snap.Utxo[o]; !ok {
					return fmt.Errorf("%s: S1: output %s of pooled tx%d is missing from the pool's output index", at, name(o), pi)
				} else if got != built[pi].tx.ID {
					return fmt.Errorf("%s: S1: output %s is indexed as belonging to %s", at, name(o), name(got))
				}
			}
		}
		for o, id := range snap.Utxo {
			if _, ok := wantUtxo[o]; !ok {
				return fmt.Errorf("%s: S1: the pool's output index lists %s (of %s), which is not a spendable output of any pooled transaction", at, name(o), name(id))
			}
		}
		// S2
		for _, ci := range sortedKeysOrph(mOrph) {
			id := built[ci].tx.ID
			if _, ok := snap.Orphans[id]; !ok {
				return fmt.Errorf("%s: S2: tx%d should be an orphan and is not in the orphan map", at, ci)
			}
			if snap.OrphanTxIDs[id] != id {
				return fmt.Errorf("%s: orphan key tx%d holds another transaction", at, ci)
			}
			if want := c22Base.Add(time.Duration(mOrph[ci].exp) * time.Second); !snap.Orphans[id].Equal(want) {
				return fmt.Errorf("HARNESS: %s: orphan tx%d expiration %v, want %v", at, ci, snap.Orphans[id], want)
			}
		}
		for k := range snap.Orphans {
			if ci, ok := idx[k]; !ok || mOrph[ci] == nil {
				return fmt.Errorf("%s: S2: %s is in the orphan map and should not be (pooled=%v)", at, name(k), mPool[idx[k]])
			}
		}
		// S3
		shared := false
		for out, m := range snap.OrphansByPrev {
			if len(m) == 0 {
				return fmt.Errorf("%s: S3: orphansByPrev has an empty entry for %s", at, name(out))
			}
			if len(m) > 1 {
				shared = true
			}
			for k, id := range m {
				if k != id {
					return fmt.Errorf("%s: S3: orphansByPrev[%s][%s] holds %s", at, name(out), name(k), name(id))
				}
				if _, ok := snap.Orphans[k]; !ok {
					return fmt.Errorf("%s: S3: dangling index entry: orphansByPrev[%s] lists %s, which is not an orphan", at, name(out), name(k))
				}
				spends := false
				for _, o := range built[idx[k]].inputs {
					if o == out {
						spends = true
					}
				}
				if !spends {
					return fmt.Errorf("%s: S3: orphansByPrev[%s] lists %s, which does not spend that output", at, name(out), name(k))
				}
			}
		}
		if shared {
			x.Class("two-orphans-wait-for-one-output")
		}
		// S4
		for _, ci := range sortedKeysOrph(mOrph) {
			var ws []bc.Hash
			for _, o := range built[ci].inputs { // input order: deterministic message
				if mOrph[ci].waiting[o] {
					ws = append(ws, o)
				}
			}
			for _, o := range ws {
				if _, ok := snap.OrphansByPrev[o][built[ci].tx.ID]; !ok {
					var under []string
					for out, m := range snap.OrphansByPrev {
						if _, ok := m[built[ci].tx.ID]; ok {
							under = append(under, name(out))
						}
					}
					sort.Strings(under)
					return fmt.Errorf("%s: S4: orphan tx%d still waits for %s (missing since it was registered) but is not indexed under it; it is indexed under %v; its inputs are %v", at, ci, name(o), under, names(built[ci].inputs, name))
				}
			}
		}
	}
	x.NonTrivial = sawMultiParentOrphan
	return nil
}

func sortedKeysOrph(m map[int]*c22Orphan) []int {
	var ks []int
	for k := range m {
		ks = append(ks, k)
	}
	sort.Ints(ks)
	return ks
}

func names(hs []bc.Hash, name func(bc.Hash) string) []string {
	var out []string
	for _, h := range hs {
		out = append(out, name(h))
	}
	return out
}

func TestC22(t *testing.T) {
	pbt.Run(t, "C22",
		"1..7 transactions over 1..4 external outputs (each confirmed or forever missing); each tx has 1..3 inputs drawn from external outputs and original outputs of earlier txs (chains, diamonds, multi-parent children, shared inputs) and 1..3 outputs (original or retirement); 1..18 ops: submit (any order, with a generated orphan expiry), remove, ExpireOrphan(t), confirm-in-block (store update + RemoveTransaction); after every op pool/utxo/orphans/orphansByPrev are compared with a model of sets (S0-S5 in the source); non-trivial = a transaction with >= 2 distinct inputs was registered as an orphan; distinct by case",
		pbt.Options{Checks: pbt.Per(30000, 3600000)}, c22Gen, c22Exec)
}
